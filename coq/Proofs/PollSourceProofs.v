(* PollSourceProofs.v — the hand-written model Model/PollDirs.v equals the programs generated from the source (gen/Src_poll.v). *)
From Coq Require Import ZArith QArith Qround Lia Lqa List Bool String Arith Qfield.
From PV Require Import Model.Val Model.PollDirs Model.PollSrc Proofs.PollDirsProofs gen.Src_poll.
Import ListNotations.
Open Scope Z_scope.

(* ---------------------------------------------------------------- lists *)

Lemma map2_length : forall A B C (f : A -> B -> C) a b, List.length (map2 f a b) = Nat.min (List.length a) (List.length b).
Proof. induction a as [ | x a IH]; intros [ | y b]; cbn; try reflexivity. rewrite IH. reflexivity. Qed.

Lemma nth_map2 : forall A B C (f : A -> B -> C) a b j da db d,
  (j < List.length a)%nat -> (j < List.length b)%nat -> nth j (map2 f a b) d = f (nth j a da) (nth j b db).
Proof.
  induction a as [ | x a IH]; intros [ | y b] j da db d Ha Hb; cbn in *; try lia.
  destruct j; [reflexivity | ]. apply IH; lia.
Qed.

Definition qentry (M : list (list Q)) (i j : nat) : Q := nth j (nth i M []) 0%Q.

Lemma qmat_ext : forall R C (M M' : list (list Q)),
  List.length M = R -> List.length M' = R ->
  (forall i, (i < R)%nat -> List.length (nth i M []) = C /\ List.length (nth i M' []) = C) ->
  (forall i j, (i < R)%nat -> (j < C)%nat -> qentry M i j = qentry M' i j) -> M = M'.
Proof.
  intros R C M M' HM HM' Hrow Hent.
  apply (nth_ext M M' [] []); [lia | ].
  intros i Hi. rewrite HM in Hi. destruct (Hrow i Hi) as [H1 H2].
  apply (nth_ext _ _ 0%Q 0%Q); [lia | ].
  intros j Hj. rewrite H1 in Hj. apply (Hent i j Hi Hj).
Qed.

Lemma mat_length : forall R C a, List.length (mat R C a) = R.
Proof. intros. unfold mat. rewrite map_length, seq_length. reflexivity. Qed.

Lemma mat_row : forall R C a i, (i < R)%nat -> nth i (mat R C a) [] = map (fun j => Qred (a i j)) (seq 0 C).
Proof. intros. unfold mat. apply nth_map_seq. assumption. Qed.

Lemma mat_entry : forall R C a i j, (i < R)%nat -> (j < C)%nat -> qentry (mat R C a) i j = Qred (a i j).
Proof. intros. unfold qentry. rewrite mat_row by assumption. apply nth_map_seq. assumption. Qed.

Lemma mat_row_length : forall R C a i, (i < R)%nat -> List.length (nth i (mat R C a) []) = C.
Proof. intros. rewrite mat_row by assumption. rewrite map_length, seq_length. reflexivity. Qed.

(* ---------------------------------------------------------------- the 2D integer directions as a function *)

Lemma dirs_length : forall D n dr sd pm, List.length (poll_dirs (poll_basis D n dr sd pm)) = (2 * D)%nat.
Proof. intros. rewrite poll_dirs_length, poll_basis_length. reflexivity. Qed.

Lemma dirs_row_length : forall D n dr sd pm i, (i < 2 * D)%nat ->
  List.length (nth i (poll_dirs (poll_basis D n dr sd pm)) []) = D.
Proof.
  intros D n dr sd pm i Hi.
  assert (Hin : In (nth i (poll_dirs (poll_basis D n dr sd pm)) []) (poll_dirs (poll_basis D n dr sd pm))).
  { apply nth_In. rewrite dirs_length. exact Hi. }
  unfold poll_dirs in Hin at 2. apply in_app_or in Hin. destruct Hin as [Hin | Hin].
  - apply (poll_basis_row_length D n dr sd pm). exact Hin.
  - unfold neg_rows in Hin. apply in_map_iff in Hin. destruct Hin as [r [Hr Hin]].
    rewrite <- Hr. rewrite map_length. apply (poll_basis_row_length D n dr sd pm). exact Hin.
Qed.

(* entry (i, j) of the 2D x D integer direction array *)
Definition zdir (D : nat) (n : Z) (dr : list (list Z)) (sd : list Z) (pm : list nat) (i j : nat) : Z :=
  if (i <? D)%nat then pre_entry n dr sd (nth j pm 0%nat) i else - pre_entry n dr sd (nth j pm 0%nat) (i - D)%nat.

Lemma dirs_entry : forall D n dr sd pm i j,
  List.length sd = D -> perm_ok D pm -> (i < 2 * D)%nat -> (j < D)%nat ->
  entry (poll_dirs (poll_basis D n dr sd pm)) i j = zdir D n dr sd pm i j.
Proof.
  intros D n dr sd pm i j Hsd Hpm Hi Hj. unfold zdir.
  destruct (i <? D)%nat eqn:E.
  - apply Nat.ltb_lt in E. rewrite poll_dirs_upper by (rewrite poll_basis_length; exact E).
    apply poll_basis_entry; assumption.
  - apply Nat.ltb_ge in E.
    replace i with (List.length (poll_basis D n dr sd pm) + (i - D))%nat at 1 by (rewrite poll_basis_length; lia).
    rewrite poll_dirs_lower. rewrite poll_basis_entry by (try assumption; lia). reflexivity.
Qed.

(* ---------------------------------------------------------------- scalars *)

Lemma qmax_one_inject : forall z : Z, (qmax (1 # 1) (inject_Z z) == inject_Z (Z.max 1 z))%Q.
Proof.
  intros z. unfold qmax. destruct (Qle_bool (1 # 1) (inject_Z z)) eqn:E.
  - apply Qle_bool_iff in E. unfold Qle in E. cbn in E. rewrite Z.max_r by lia. reflexivity.
  - assert (H : ~ (1 # 1 <= inject_Z z)%Q) by (intro H; apply Qle_bool_iff in H; congruence).
    unfold Qle in H. cbn in H. rewrite Z.max_l by lia. reflexivity.
Qed.

Lemma qlt_zero_qmax_one : forall q : Q, qlt_b (0 # 1) (qmax (1 # 1) q) = true.
Proof.
  intros q. unfold qlt_b, qmax. apply negb_true_iff.
  destruct (Qle_bool (1 # 1) q) eqn:E.
  - apply Qle_bool_iff in E. destruct (Qle_bool q (0 # 1)) eqn:F; [ | reflexivity].
    apply Qle_bool_iff in F. exfalso. assert (H : (1 # 1 <= 0 # 1)%Q) by (eapply Qle_trans; eassumption).
    unfold Qle in H. cbn in H. lia.
  - reflexivity.
Qed.

(* ---------------------------------------------------------------- THE GENERATOR, entry by entry *)

Ltac push_inj :=
  repeat rewrite <- Z.add_opp_r;
  repeat (rewrite inject_Z_mult || rewrite inject_Z_opp || rewrite inject_Z_plus).

Lemma src_gen_entry : forall D ps sm m dr sd pm (dim : arr) i j,
  List.length sd = D -> (i < 2 * D)%nat -> (j < D)%nat ->
  (gen_array src_gen D (mk_oracle dr sd pm) dim (vector ps) (scalar sm) (scalar m) i j
   == inject_Z (zdir D (poll_n sm m) dr sd pm i j) / nth j ps 0)%Q.
Proof.
  intros D ps sm m dr sd pm dim i j Hsd Hi Hj.
  unfold gen_array, gen_call, src_gen, g_body, g_ret.
  lazy beta iota zeta delta [run eval upd gen_env fst snd String.eqb Ascii.eqb Bool.eqb no_env o_draws o_sdraws o_perm mk_oracle scalar vector].
  rewrite qlt_zero_qmax_one.
  assert (Hn : (qmax (1 # 1) (inject_Z (round_half_even (sm / m))) == inject_Z (poll_n sm m))%Q) by (apply qmax_one_inject).
  set (nq := qmax (1 # 1) (inject_Z (round_half_even (sm / m)))) in *.
  unfold zdir, pre_entry.
  destruct (i <? D)%nat.
  - destruct (i <? nth j pm 0)%nat eqn:E1; destruct (nth j pm 0 =? i)%nat eqn:E2;
      try (apply Nat.ltb_lt in E1; apply Nat.eqb_eq in E2; lia);
      try (apply Nat.eqb_eq in E2; rewrite E2);
      rewrite Hn; push_inj; unfold Qdiv; cbn [inject_Z]; ring.
  - destruct (i - D <? nth j pm 0)%nat eqn:E1; destruct (nth j pm 0 =? i - D)%nat eqn:E2;
      try (apply Nat.ltb_lt in E1; apply Nat.eqb_eq in E2; lia);
      try (apply Nat.eqb_eq in E2; rewrite E2);
      rewrite Hn; push_inj; unfold Qdiv; cbn [inject_Z]; ring.
Qed.

(* ---------------------------------------------------------------- entries of the hand-written lists *)

Lemma nth_map_default : forall A B (f : A -> B) l i d d', (i < List.length l)%nat -> nth i (map f l) d' = f (nth i l d).
Proof.
  intros A B f l i d d' Hi. rewrite (nth_indep _ d' (f d)) by (rewrite map_length; exact Hi). apply map_nth.
Qed.

Lemma scaled_row : forall dirs ps i, (i < List.length dirs)%nat ->
  nth i (poll_dirs_scaled dirs ps) [] = map2 (fun b p => Qred (inject_Z b / p)) (nth i dirs []) ps.
Proof.
  intros. unfold poll_dirs_scaled.
  apply (nth_map_default _ _ (fun row => map2 (fun b p => Qred (inject_Z b / p)) row ps) dirs i []). assumption.
Qed.

Lemma points_row : forall u mesh dirs i, (i < List.length dirs)%nat ->
  nth i (poll_points u mesh dirs) [] = poll_point u mesh (nth i dirs []).
Proof. intros. unfold poll_points. apply (nth_map_default _ _ (poll_point u mesh) dirs i []). assumption. Qed.

Section Dirs.
  Variables (D : nat) (n : Z) (dr : list (list Z)) (sd : list Z) (pm : list nat).
  Hypothesis Hsd : List.length sd = D.
  Hypothesis Hpm : perm_ok D pm.
  Let dirs := poll_dirs (poll_basis D n dr sd pm).

  Lemma scaled_entry : forall ps i j, List.length ps = D -> (i < 2 * D)%nat -> (j < D)%nat ->
    qentry (poll_dirs_scaled dirs ps) i j = Qred (inject_Z (zdir D n dr sd pm i j) / nth j ps 0%Q).
  Proof.
    intros ps i j Hps Hi Hj. unfold qentry. rewrite scaled_row by (unfold dirs; rewrite dirs_length; exact Hi).
    rewrite (nth_map2 _ _ _ _ _ _ j 0 0%Q) by (try (unfold dirs; rewrite dirs_row_length by exact Hi); lia).
    fold (entry dirs i j). unfold dirs. rewrite dirs_entry by assumption. reflexivity.
  Qed.

  Lemma scaled_row_length : forall ps i, List.length ps = D -> (i < 2 * D)%nat ->
    List.length (nth i (poll_dirs_scaled dirs ps) []) = D.
  Proof.
    intros ps i Hps Hi. rewrite scaled_row by (unfold dirs; rewrite dirs_length; exact Hi).
    rewrite map2_length. unfold dirs. rewrite dirs_row_length by exact Hi. lia.
  Qed.

  Lemma points_entry : forall u mesh i j, List.length u = D -> (i < 2 * D)%nat -> (j < D)%nat ->
    qentry (poll_points u mesh dirs) i j = Qred (nth j u 0%Q + mesh * inject_Z (zdir D n dr sd pm i j)).
  Proof.
    intros u mesh i j Hu Hi Hj. unfold qentry. rewrite points_row by (unfold dirs; rewrite dirs_length; exact Hi).
    unfold poll_point.
    rewrite (nth_map2 _ _ _ _ _ _ j 0%Q 0) by (try (unfold dirs; rewrite dirs_row_length by exact Hi); lia).
    fold (entry dirs i j). unfold dirs. rewrite dirs_entry by assumption. reflexivity.
  Qed.

  Lemma points_row_length : forall u mesh i, List.length u = D -> (i < 2 * D)%nat ->
    List.length (nth i (poll_points u mesh dirs) []) = D.
  Proof.
    intros u mesh i Hu Hi. rewrite points_row by (unfold dirs; rewrite dirs_length; exact Hi).
    unfold poll_point. rewrite map2_length. unfold dirs. rewrite dirs_row_length by exact Hi. lia.
  Qed.
End Dirs.

(* ---------------------------------------------------------------- C14_directions_are_source *)

Theorem directions_are_source : forall D ps sm m dr sd pm,
  List.length ps = D -> List.length sd = D -> perm_ok D pm ->
  gen_result src_gen D ps sm m (mk_oracle dr sd pm) = poll_mads_2n D ps sm m dr sd pm.
Proof.
  intros D ps sm m dr sd pm Hps Hsd Hpm. unfold gen_result, poll_mads_2n.
  apply (qmat_ext (2 * D) D).
  - apply mat_length.
  - unfold poll_dirs_scaled. rewrite map_length. apply dirs_length.
  - intros i Hi. split; [apply mat_row_length; exact Hi | apply scaled_row_length; assumption].
  - intros i j Hi Hj. rewrite mat_entry by assumption. rewrite scaled_entry by assumption.
    apply Qred_complete. apply src_gen_entry; assumption.
Qed.

Theorem requests_are_source : forall D ps sm m dr sd pm,
  Forall2 Qeq (gen_requests src_gen D ps sm m (mk_oracle dr sd pm)) (map inject_Z (rand_contract D (poll_n sm m))).
Proof.
  intros D ps sm m dr sd pm. unfold gen_requests, gen_call, src_gen, g_body, g_ret.
  lazy beta iota zeta delta [run eval requests app upd gen_env fst snd String.eqb Ascii.eqb Bool.eqb no_env o_draws o_sdraws o_perm mk_oracle scalar vector
                             rand_contract map].
  rewrite qlt_zero_qmax_one.
  lazy beta iota zeta delta [app].
  assert (Hn : (qmax (1 # 1) (inject_Z (round_half_even (sm / m))) == inject_Z (poll_n sm m))%Q) by (apply qmax_one_inject).
  repeat (apply Forall2_cons; [try reflexivity | ]); try apply Forall2_nil.
  rewrite Hn. rewrite inject_Z_mult. cbn [inject_Z]. ring.
Qed.

(* ---------------------------------------------------------------- C14_candidates_are_source *)

Lemma src_cand_dirs : forall D s dr sd pm,
  List.length (s_ps s) = D -> List.length sd = D -> perm_ok D pm ->
  cand_dirs src_gen src_cand D s (mk_oracle dr sd pm)
  = poll_mads_2n D (s_ps s) (s_smesh_state s) (s_mesh_state s) dr sd pm.
Proof.
  intros D s dr sd pm Hps Hsd Hpm. rewrite <- directions_are_source by assumption.
  unfold cand_dirs, gen_result, src_cand, c_call.
  lazy beta iota zeta delta [eval upd state_env String.eqb Ascii.eqb Bool.eqb no_env].
  apply (qmat_ext (2 * D) D); try apply mat_length.
  - intros i Hi. split; apply mat_row_length; exact Hi.
  - intros i j Hi Hj. rewrite !mat_entry by assumption. apply Qred_complete.
    reflexivity.
Qed.

Lemma src_cand_entry : forall D s dr sd pm i j,
  List.length sd = D -> s_force s = false -> ~ (nth j (s_ps s) 0 == 0)%Q -> (i < 2 * D)%nat -> (j < D)%nat ->
  (cand_array src_gen src_cand D s (mk_oracle dr sd pm) i j
   == nth j (s_u s) 0 + s_mesh_state s * inject_Z (zdir D (poll_n (s_smesh_state s) (s_mesh_state s)) dr sd pm i j))%Q.
Proof.
  intros D s dr sd pm i j Hsd Hforce Hnz Hi Hj.
  unfold cand_array, src_cand, c_body, c_arg.
  lazy beta iota zeta delta [run eval upd state_env state_flag fst snd String.eqb Ascii.eqb Bool.eqb no_env].
  rewrite Hforce.
  rewrite src_gen_entry by assumption.
  unfold vector, scalar. field. exact Hnz.
Qed.

Theorem candidates_are_source : forall D s dr sd pm,
  List.length (s_ps s) = D -> List.length (s_u s) = D -> List.length sd = D -> perm_ok D pm ->
  Forall (fun p => ~ (p == 0)%Q) (s_ps s) -> s_force s = false ->
  cand_pre src_gen src_cand D s (mk_oracle dr sd pm)
  = poll_points (s_u s) (s_mesh_state s) (poll_dirs (poll_basis D (poll_n (s_smesh_state s) (s_mesh_state s)) dr sd pm)).
Proof.
  intros D s dr sd pm Hps Hu Hsd Hpm Hnz Hforce. unfold cand_pre.
  apply (qmat_ext (2 * D) D).
  - apply mat_length.
  - unfold poll_points. rewrite map_length. apply dirs_length.
  - intros i Hi. split; [apply mat_row_length; exact Hi | apply points_row_length; assumption].
  - intros i j Hi Hj. rewrite mat_entry by assumption. rewrite points_entry by assumption.
    apply Qred_complete. apply src_cand_entry; try assumption.
    rewrite Forall_forall in Hnz. apply Hnz. apply nth_In. lia.
Qed.

(* force_poll_mesh = True: the same rows snapped to the search grid read from optim_state["search_mesh_size"] *)
Lemma rhe_comp : forall a b : Q, (a == b)%Q -> round_half_even a = round_half_even b.
Proof.
  intros a b H. unfold round_half_even. rewrite (Qfloor_comp a b H).
  assert (Hc : ((a - inject_Z (Qfloor b) ?= 1 # 2) = (b - inject_Z (Qfloor b) ?= 1 # 2))%Q) by (rewrite H; reflexivity).
  rewrite Hc. reflexivity.
Qed.

Lemma src_cand_entry_forced : forall D s dr sd pm i j,
  List.length sd = D -> s_force s = true -> ~ (nth j (s_ps s) 0 == 0)%Q -> (i < 2 * D)%nat -> (j < D)%nat ->
  (cand_array src_gen src_cand D s (mk_oracle dr sd pm) i j
   == s_smesh_state s * inject_Z (round_half_even
        (Qred (nth j (s_u s) 0 + s_mesh_state s * inject_Z (zdir D (poll_n (s_smesh_state s) (s_mesh_state s)) dr sd pm i j)) / s_smesh_state s)))%Q.
Proof.
  intros D s dr sd pm i j Hsd Hforce Hnz Hi Hj.
  unfold cand_array, src_cand, c_body, c_arg.
  lazy beta iota zeta delta [run eval upd state_env state_flag fst snd String.eqb Ascii.eqb Bool.eqb no_env].
  rewrite Hforce.
  match goal with |- (_ * inject_Z (round_half_even ?a) == _ * inject_Z (round_half_even ?b))%Q =>
    assert (Hab : (a == b)%Q); [ | rewrite (rhe_comp a b Hab); reflexivity] end.
  rewrite Qred_correct. rewrite src_gen_entry by assumption.
  unfold vector, scalar. apply Qdiv_comp; [ | reflexivity]. field. exact Hnz.
Qed.

Lemma snap_row : forall sg pts i, (i < List.length pts)%nat -> nth i (snap_points sg pts) [] = map (snap sg) (nth i pts []).
Proof. intros. unfold snap_points. apply (nth_map_default _ _ (map (snap sg)) pts i []). assumption. Qed.

Theorem candidates_forced_are_source : forall D s dr sd pm,
  List.length (s_ps s) = D -> List.length (s_u s) = D -> List.length sd = D -> perm_ok D pm ->
  Forall (fun p => ~ (p == 0)%Q) (s_ps s) -> s_force s = true ->
  cand_pre src_gen src_cand D s (mk_oracle dr sd pm)
  = snap_points (s_smesh_state s)
      (poll_points (s_u s) (s_mesh_state s) (poll_dirs (poll_basis D (poll_n (s_smesh_state s) (s_mesh_state s)) dr sd pm))).
Proof.
  intros D s dr sd pm Hps Hu Hsd Hpm Hnz Hforce. unfold cand_pre.
  set (pts := poll_points (s_u s) (s_mesh_state s) (poll_dirs (poll_basis D (poll_n (s_smesh_state s) (s_mesh_state s)) dr sd pm))).
  assert (Hlen : List.length pts = (2 * D)%nat) by (unfold pts, poll_points; rewrite map_length; apply dirs_length).
  apply (qmat_ext (2 * D) D).
  - apply mat_length.
  - unfold snap_points. rewrite map_length. exact Hlen.
  - intros i Hi. split; [apply mat_row_length; exact Hi | ].
    rewrite snap_row by lia. rewrite map_length. unfold pts. apply points_row_length; assumption.
  - intros i j Hi Hj. rewrite mat_entry by assumption.
    unfold qentry. rewrite snap_row by lia.
    rewrite (nth_map_default _ _ (snap (s_smesh_state s)) (nth i pts []) j 0%Q)
      by (unfold pts; rewrite points_row_length by assumption; exact Hj).
    fold (qentry pts i j). unfold pts. rewrite points_entry by assumption.
    unfold snap. apply Qred_complete. apply src_cand_entry_forced; try assumption.
    rewrite Forall_forall in Hnz. apply Hnz. apply nth_In. lia.
Qed.

(* the evaluate / delete bookkeeping *)
Theorem loop_is_source : forall (A : Type) (max_polls : nat) (cands : list A) (choices : list nat),
  gen_loop src_cand max_polls cands choices = poll_loop max_polls cands choices.
Proof.
  intros A max_polls. induction max_polls as [ | b IH]; intros cands choices; [reflexivity | ].
  destruct choices as [ | i rest]; [reflexivity | ].
  cbn [gen_loop poll_loop].
  assert (Hs : gen_step src_cand cands i
               = match nth_error cands i with Some x => Some (x, remove_nth i cands) | None => None end).
  { unfold gen_step, src_cand, c_del_axis0, c_eval_off, c_del_off, c_eval_first, off_index. cbn [negb].
    rewrite Z.add_0_r. destruct (Z.of_nat i <? 0) eqn:E; [apply Z.ltb_lt in E; lia | ].
    rewrite Nat2Z.id. destruct (nth_error cands i) eqn:En; [ | reflexivity].
    assert (Hl : (i < List.length cands)%nat) by (apply nth_error_Some; congruence).
    apply Nat.ltb_lt in Hl. rewrite Hl. reflexivity. }
  rewrite Hs. destruct (nth_error cands i); [rewrite IH; reflexivity | reflexivity].
Qed.

Lemma proj_is_source : c_proj src_cand = false.
Proof. reflexivity. Qed.

Lemma refill_test_is_source : src_refill_test = "B is None or B.size == 0"%string.
Proof. reflexivity. Qed.

(* the statements of Props/C14src.v *)
Lemma C14_directions_stmt :
  forall (D : nat) (ps : list Q) (search_mesh mesh : Q) (draws : list (list Z)) (sd : list Z) (pm : list nat),
    List.length ps = D -> List.length sd = D -> perm_ok D pm ->
    gen_result src_gen D ps search_mesh mesh (mk_oracle draws sd pm) = poll_mads_2n D ps search_mesh mesh draws sd pm
    /\ Forall2 Qeq (gen_requests src_gen D ps search_mesh mesh (mk_oracle draws sd pm))
                   (map inject_Z (rand_contract D (poll_n search_mesh mesh))).
Proof. intros. split; [apply directions_are_source; assumption | apply requests_are_source]. Qed.

Lemma C14_candidates_stmt :
  forall (D : nat) (s : pstate) (draws : list (list Z)) (sd : list Z) (pm : list nat),
    List.length (s_ps s) = D -> List.length (s_u s) = D -> List.length sd = D -> perm_ok D pm ->
    Forall (fun p => ~ (p == 0)%Q) (s_ps s) -> s_force s = false ->
    let n := poll_n (s_smesh_state s) (s_mesh_state s) in
    let dirs := poll_dirs (poll_basis D n draws sd pm) in
    cand_dirs src_gen src_cand D s (mk_oracle draws sd pm) = poll_mads_2n D (s_ps s) (s_smesh_state s) (s_mesh_state s) draws sd pm
    /\ cand_pre src_gen src_cand D s (mk_oracle draws sd pm) = poll_points (s_u s) (s_mesh_state s) dirs
    /\ c_proj src_cand = false
    /\ (forall (A : Type) (max_polls : nat) (cands : list A) (choices : list nat),
          gen_loop src_cand max_polls cands choices = poll_loop max_polls cands choices).
Proof.
  intros. split; [apply src_cand_dirs; assumption | ].
  split; [apply candidates_are_source; assumption | ].
  split; [exact proj_is_source | exact loop_is_source].
Qed.
