(* FitRetrySourceProofs.v — the program generated from gaussian_process_train.py (gen/Src_fitretry.v), run by the
   interpreter of Model/FitRetrySrc.v, IS the hand-written state machine of Model/FitRetry.v.  Closed, stdlib only.
   Two halves: (1) src_* = model_* (closed data, by conversion: the translator normalises what is behaviour-preserving,
   anything else fails here); (2) the interpreter on model_* equals robust_fit / init_training for ALL inputs. *)
From Coq Require Import ZArith List Bool String Arith Lia.
From PV Require Import Model.FitRetry Model.FitRetrySrc Proofs.FitRetryProofs gen.Src_fitretry.
Import ListNotations.
Open Scope list_scope.
Open Scope Z_scope.

(* ---------- (1) the generated programs are the hand-written ones ---------- *)
Lemma src_robust_is_model : src_robust = model_robust.
Proof. reflexivity. Qed.
Lemma src_init_is_model : src_init = model_init.
Proof. reflexivity. Qed.

(* ---------- the success flags ---------- *)
Lemma set_flag_cons : forall i b x fl, set_flag (S i) b (x :: fl) = x :: set_flag i b fl.
Proof. intros. reflexivity. Qed.

Lemma set_flag_repeat : forall i l,
    set_flag i false (repeat false i ++ repeat true (S l)) = repeat false (S i) ++ repeat true l.
Proof.
  induction i as [| i IH]; intro l.
  - reflexivity.
  - change (repeat false (S i) ++ repeat true (S l)) with (false :: (repeat false i ++ repeat true (S l))).
    rewrite set_flag_cons, IH. reflexivity.
Qed.

Lemma flags_length : forall i l, List.length (repeat false i ++ repeat true l) = (i + l)%nat.
Proof. intros. rewrite app_length, !repeat_length. reflexivity. Qed.

Lemma forallb_id_true : forall n, forallb (fun b : bool => b) (repeat true n) = true.
Proof. induction n as [| n IH]; [reflexivity | cbn; exact IH]. Qed.

Lemma all_false_flags : forall i l, forallb negb (repeat false i ++ repeat true (S l)) = false.
Proof.
  intros i l. rewrite forallb_app. cbn [repeat forallb negb]. cbn [andb]. apply andb_false_r.
Qed.

Lemma all_true_flags : forall i l, forallb (fun b : bool => b) (repeat false i ++ repeat true (S l)) = Nat.eqb i 0.
Proof.
  intros i l. rewrite forallb_app, forallb_id_true, andb_true_r.
  destruct i; reflexivity.
Qed.

Lemma success_model : forall i l,
    success_of (rs_success model_robust) (rs_success_else model_robust) (repeat false i ++ repeat true (S l))
    = (if Nat.eqb i 0 then 1 else 0).
Proof.
  intros i l. unfold model_robust. cbn [rs_success rs_success_else success_of scond_eval].
  rewrite all_false_flags, all_true_flags. destruct (Nat.eqb i 0); reflexivity.
Qed.

(* ---------- the drop step ---------- *)
Lemma convert_none_eq : forall nX nY s2, convert_error nX nY s2 = None -> nY = nX.
Proof.
  intros nX nY s2 H. unfold convert_error in H.
  destruct (Nat.eqb nY nX) eqn:E; cbn [negb] in H; [apply Nat.eqb_eq; exact E | discriminate H].
Qed.

Definition shrink_s2 (k : nat) (s2 : s2len) : s2len := match s2 with S2Arr m => S2Arr (m - k) | o => o end.
Definition shrink_tmp (k : nat) (t : option nat) : option nat := match t with Some (S m) => Some (S m - k)%nat | o => o end.

(* the four masked stores of the hand-written reading, on an arbitrary state: exactly Model/FitRetry.v's drop step *)
Lemma stores_model : forall n k s2 tmp1 gx gy,
    run_stores model_drop_stores n k (mkL n n s2 tmp1 gx gy)
    = match (match tmp1 with
             | Some (S m) => if Nat.eqb (S m) n then Some (Some (S m - k)%nat) else None
             | other => Some other
             end),
            (match s2 with
             | S2Arr m => if Nat.eqb m n then Some (S2Arr (m - k)) else None
             | other => Some other
             end) with
      | Some t2, Some s2n => inr (mkL (n - k) (n - k) s2n t2 (n - k) (n - k))
      | _, _ => inl ix_error
      end.
Proof.
  intros n k s2 tmp1 gx gy. unfold model_drop_stores.
  cbn [run_stores geval alen aset l_X l_Y l_s2 l_tmp l_gX l_gY is_none is_scalar negb].
  rewrite !Nat.eqb_refl.
  destruct tmp1 as [[| m] |]; destruct s2 as [| | m2]; cbn [negb Nat.ltb Nat.leb]; try reflexivity.
  all: repeat match goal with |- context [Nat.eqb ?a ?b] => destruct (Nat.eqb a b) end; reflexivity.
Qed.

Lemma drop_cond_model : forall i rpat,
    zcond_eval model_drop_cond i rpat = Some (Z.gtb (Z.of_nat i) (rpat - 1)).
Proof.
  intros i rpat. unfold model_drop_cond. cbn [zcond_eval zeval]. cbn. rewrite Z.gtb_ltb. reflexivity.
Qed.

Lemma mask_count_model : forall d n, mask_count model_mask d n = clip_drop d n.
Proof. intros. reflexivity. Qed.

(* one run of the generated handler (the hand-written reading) *)
Definition handler_spec (i : nat) (rpat : Z) (d n : nat) (s2 : s2len) (tmp1 : option nat) (gx gy : nat) (fl : list bool)
  : string + (lens * list bool) :=
  if Z.gtb (Z.of_nat i) (rpat - 1) then
    match n with
    | O => inl "ValueError: argmin of an empty sequence"%string
    | _ =>
        let k := clip_drop d n in
        match (match tmp1 with
               | Some (S m) => if Nat.eqb (S m) n then Some (Some (S m - k)%nat) else None
               | other => Some other
               end),
              (match s2 with
               | S2Arr m => if Nat.eqb m n then Some (S2Arr (m - k)) else None
               | other => Some other
               end) with
        | Some t2, Some s2n => inr (mkL (n - k) (n - k) s2n t2 (n - k) (n - k), fl)
        | _, _ => inl ix_error
        end
    end
  else inr (mkL n n s2 tmp1 gx gy, fl).

Lemma handler_model : forall i l rpat d n s2 tmp1 gx gy,
    run_handler (rs_handler model_robust) i rpat d (mkL n n s2 tmp1 gx gy) (repeat false i ++ repeat true (S l))
    = handler_spec i rpat d n s2 tmp1 gx gy (repeat false (S i) ++ repeat true l).
Proof.
  intros i l rpat d n s2 tmp1 gx gy. unfold model_robust, handler_spec. cbn [rs_handler run_handler].
  rewrite flags_length.
  assert (Hlt : Nat.ltb i (i + S l) = true) by (apply Nat.ltb_lt; lia).
  rewrite Hlt, set_flag_repeat, drop_cond_model.
  destruct (Z.gtb (Z.of_nat i) (rpat - 1)).
  - cbn [alen mk_len mk_pair model_mask fst l_X l_Y].
    destruct n as [| n']; [reflexivity |].
    rewrite mask_count_model, stores_model.
    destruct (match tmp1 with
              | Some (S m) => if Nat.eqb (S m) (S n') then Some (Some (S m - clip_drop d (S n'))%nat) else None
              | other => Some other
              end) as [t2 |]; [| reflexivity].
    destruct (match s2 with
              | S2Arr m => if Nat.eqb m (S n') then Some (S2Arr (m - clip_drop d (S n'))) else None
              | other => Some other
              end) as [s2n |]; reflexivity.
  - reflexivity.
Qed.

(* ---------- (2a) the retry loop ---------- *)
Lemma run_loop_model : forall rpat fails drops left i_try j nX nY s2 tmp gx gy tr,
    run_loop model_robust rpat fails drops left i_try j (mkL nX nY s2 tmp gx gy) (repeat false i_try ++ repeat true left) false tr
    = robust_loop true rpat fails drops left i_try j nX nY s2 tmp tr.
Proof.
  intros rpat fails drops left.
  induction left as [| left IH]; intros i_try j nX nY s2 tmp gx gy tr.
  - reflexivity.
  - cbn [run_loop robust_loop]. unfold model_robust at 1. cbn [rs_fit_args l_X l_Y l_s2 l_tmp l_gX l_gY].
    destruct (convert_error nX nY s2) as [msg |] eqn:Ec; [reflexivity |].
    apply convert_none_eq in Ec. subst nY.
    generalize (stored_after_fit nX s2 tmp) as tmp1. intro tmp1.
    destruct (fails j); cbn [negb].
    + (* the fit raises LinAlgError *)
      assert (Hc : caught "LinAlgError" (rs_caught model_robust) = true) by reflexivity.
      rewrite Hc, handler_model. unfold handler_spec.
      destruct (Z.gtb (Z.of_nat i_try) (rpat - 1)).
      * destruct nX as [| n']; [reflexivity |].
        destruct (match tmp1 with
                  | Some (S m) => if Nat.eqb (S m) (S n') then Some (Some (S m - clip_drop (drops j) (S n'))%nat) else None
                  | other => Some other
                  end) as [t2 |]; [| reflexivity].
        destruct (match s2 with
                  | S2Arr m => if Nat.eqb m (S n') then Some (S2Arr (m - clip_drop (drops j) (S n'))) else None
                  | other => Some other
                  end) as [s2n |]; [| reflexivity].
        apply IH.
      * apply IH.
    + (* the fit returns: break *)
      assert (Hb : rs_try_breaks model_robust = true) by reflexivity.
      rewrite Hb. unfold finish.
      assert (Hr : existsb (String.eqb "res") (rs_return model_robust) && negb (rs_binds_res model_robust) = false) by reflexivity.
      rewrite Hr, success_model. reflexivity.
Qed.

Lemma run_robust_model : forall rpat fails drops j nX nY s2 tmp,
    run_robust model_robust rpat fails drops j nX nY s2 tmp = robust_fit true rpat fails drops j nX nY s2 tmp.
Proof.
  intros. unfold run_robust, robust_fit.
  change (rs_n_try model_robust) with n_try. change (rs_flag_init model_robust) with true.
  exact (run_loop_model rpat fails drops n_try 0 j nX nY s2 tmp nX nY []).
Qed.

Theorem retry_loop_is_source :
  src_robust = model_robust /\
  rs_n_try src_robust = 10%nat /\ rs_caught src_robust = ["LinAlgError"%string] /\ rs_fit_args src_robust = [VX; VY; VS2] /\
  rs_try_breaks src_robust = true /\ rs_return src_robust = ["gp"; "new_hyp"; "res"; "success"]%string /\
  forall rpat fails drops j nX nY s2 tmp,
    run_robust src_robust rpat fails drops j nX nY s2 tmp = robust_fit true rpat fails drops j nX nY s2 tmp.
Proof.
  rewrite src_robust_is_model. repeat (split; [reflexivity |]). exact run_robust_model.
Qed.

(* ---------- the drop is applied to X, Y and s2 (and the GP's stored s2) with ONE mask ---------- *)
Theorem drop_is_applied_to_all_three_is_source :
  exists c m stores,
    drops_of (rs_handler src_robust) = [(c, m, stores)] /\
    (forall i rpat, zcond_eval c i rpat = Some (Z.gtb (Z.of_nat i) (rpat - 1))) /\
    m = model_mask /\
    map (fun s => (fst (fst s), snd s)) stores
    = [(VX, MDrop); (VY, MDrop); (VGpX, MCopy VX); (VGpY, MCopy VY); (VTmp, MDrop); (VS2, MDrop)] /\
    (forall d n, mask_count m d n = clip_drop d n) /\
    forall n k s2 tmp gx gy, aligned n n s2 tmp ->
      run_stores stores n k (mkL n n s2 tmp gx gy)
      = inr (mkL (n - k) (n - k) (shrink_s2 k s2) (shrink_tmp k tmp) (n - k) (n - k)).
Proof.
  exists model_drop_cond, model_mask, model_drop_stores.
  split; [reflexivity |]. split; [exact drop_cond_model |]. split; [reflexivity |]. split; [reflexivity |].
  split; [exact mask_count_model |].
  intros n k s2 tmp gx gy (_ & Hs2 & Htmp). rewrite stores_model.
  destruct tmp as [[| m] |]; destruct s2 as [| | m2]; cbn [shrink_s2 shrink_tmp]; try reflexivity;
    repeat match goal with
           | H : _ = n |- _ => rewrite H
           end; rewrite ?Nat.eqb_refl; try reflexivity.
Qed.

(* ---------- (2b) the initial-training loop ---------- *)
Lemma run_init_model : forall fuel fails h j tf,
    run_init_loop fuel model_init fails h j tf (Z.of_nat tf) = init_loop fuel fails h j tf.
Proof.
  induction fuel as [| f IH]; intros fails h j tf; [reflexivity |].
  cbn [run_init_loop init_loop]. unfold model_init at 1 2. cbn [is_cond is_arms].
  change (negb ("not fitted" =? "not fitted")%string) with false. cbv iota.
  assert (Hinc : forall t, Z.of_nat t + is_inc model_init = Z.of_nat (S t)) by (intro t; unfold model_init; cbn [is_inc]; lia).
  assert (Hc : caught "LinAlgError" (is_caught model_init) = true) by reflexivity.
  destruct tf as [| [| [| [| t]]]].
  - (* 0: the given start point *)
    cbn [pick_arm ia_test Z.of_nat Z.eqb ia_start ia_sets_fitted Nat.eqb andb branch_of branch_of_start].
    destruct (fails j).
    + rewrite Hc. change 0 with (Z.of_nat 0). rewrite Hinc. apply IH.
    + destruct h; reflexivity.
  - cbn [pick_arm ia_test ia_start ia_sets_fitted Nat.eqb andb branch_of branch_of_start].
    change (Z.of_nat 1 =? 0) with false. change (Z.of_nat 1 =? 3) with false. cbv iota.
    cbn [ia_test ia_start ia_sets_fitted branch_of_start].
    destruct (fails j).
    + rewrite Hc, Hinc. destruct h; apply IH.
    + destruct h; reflexivity.
  - cbn [pick_arm ia_test ia_start ia_sets_fitted Nat.eqb andb branch_of branch_of_start].
    change (Z.of_nat 2 =? 0) with false. change (Z.of_nat 2 =? 3) with false. cbv iota.
    cbn [ia_test ia_start ia_sets_fitted branch_of_start].
    destruct (fails j).
    + rewrite Hc, Hinc. destruct h; apply IH.
    + destruct h; reflexivity.
  - (* 3: zeros shaped like the given start point *)
    cbn [pick_arm ia_test ia_start ia_sets_fitted Nat.eqb andb branch_of branch_of_start].
    change (Z.of_nat 3 =? 0) with false. change (Z.of_nat 3 =? 3) with true. cbv iota.
    cbn [ia_test ia_start ia_sets_fitted branch_of_start].
    destruct h; [reflexivity |].
    destruct (fails j).
    + rewrite Hc, Hinc. apply IH.
    + reflexivity.
  - cbn [pick_arm ia_test Nat.eqb andb branch_of].
    destruct (Z.eqb_spec (Z.of_nat (S (S (S (S t))))) 0) as [E | _]; [lia |].
    destruct (Z.eqb_spec (Z.of_nat (S (S (S (S t))))) 3) as [E | _]; [lia |].
    cbn [ia_test ia_start ia_sets_fitted branch_of_start].
    destruct (fails j).
    + rewrite Hc, Hinc. destruct h; apply IH.
    + destruct h; reflexivity.
Qed.

Theorem init_retry_is_source :
  src_init = model_init /\
  forall fuel fails hyp0_none j,
    run_init fuel src_init fails hyp0_none j = init_training fuel fails hyp0_none j.
Proof.
  rewrite src_init_is_model. split; [reflexivity |].
  intros. unfold run_init, init_training. change (is_fitted0 model_init) with false. cbv iota.
  change (is_tf0 model_init) with (Z.of_nat 0). apply run_init_model.
Qed.

(* ---------- the restart of the hyper-parameters (noise coordinate) ---------- *)
From Coq Require Import QArith.
Open Scope Q_scope.

Lemma src_restart_is_model : src_restart = model_restart.
Proof. reflexivity. Qed.

Theorem restart_is_source :
  src_restart = model_restart /\
  forall (s : option Q) (old nn n0 lb : Q), run_restart src_restart s old nn n0 lb = restart_spec s old nn n0 lb.
Proof.
  rewrite src_restart_is_model. split; [reflexivity |].
  intros s old nn n0 lb. destruct s; reflexivity.
Qed.

(* after f consecutive failures: noise_nudge has grown LINEARLY (f * n0), the lower bound of the noise — raised each time by the
   accumulated nudge on top of the already raised bound — by the TRIANGULAR number f (f + 1) / 2 * n0 *)
Lemma restart_closed_form : forall ss old n0 f nn lb,
    fst (restart_iter model_restart ss old n0 f nn lb) == nn + inject_Z (Z.of_nat f) * n0 /\
    (2 # 1) * (snd (restart_iter model_restart ss old n0 f nn lb) - lb)
    == (2 # 1) * inject_Z (Z.of_nat f) * nn + inject_Z (Z.of_nat f) * (inject_Z (Z.of_nat f) + 1) * n0.
Proof.
  intros ss old n0 f nn lb. induction f as [| f IH].
  - cbn [restart_iter fst snd Z.of_nat]. change (inject_Z 0) with 0. split; ring.
  - cbn [restart_iter].
    destruct (restart_iter model_restart ss old n0 f nn lb) as [nn1 lb1]. cbn [fst snd] in IH. destruct IH as [H1 H2].
    assert (Hs : inject_Z (Z.of_nat (S f)) == inject_Z (Z.of_nat f) + 1).
    { rewrite Nat2Z.inj_succ. unfold Z.succ. rewrite inject_Z_plus. reflexivity. }
    unfold run_restart, model_restart.
    cbn [rr_nn rr_lb rr_noise rr_avg_some rr_avg_none qeval e_nn e_n0 e_lb e_new e_old fst snd].
    split.
    + rewrite Hs, H1. ring.
    + assert (E : (2 # 1) * (lb1 + (nn1 + n0) - lb) == (2 # 1) * (lb1 - lb) + (2 # 1) * (nn1 + n0)) by ring.
      rewrite E, H2, H1, Hs. ring.
Qed.

Theorem restart_accumulates :
  forall (ss : nat -> option Q) (old n0 : Q) (f : nat) (nn lb : Q),
    fst (restart_iter src_restart ss old n0 f nn lb) == nn + inject_Z (Z.of_nat f) * n0 /\
    (2 # 1) * (snd (restart_iter src_restart ss old n0 f nn lb) - lb)
    == (2 # 1) * inject_Z (Z.of_nat f) * nn + inject_Z (Z.of_nat f) * (inject_Z (Z.of_nat f) + 1) * n0.
Proof. rewrite src_restart_is_model. exact restart_closed_form. Qed.

(* ---------- the slice sampler of the restart sees an ALIGNED training set on tmp_gp (repair of slice-sampler-after-drop) ---------- *)
Theorem slice_sampler_sees_aligned_set :
  exists c m stores,
    drops_of (rs_handler src_robust) = [(c, m, stores)] /\
    forall n k s2 tmp gx gy, aligned n n s2 tmp ->
      exists st', run_stores stores n k (mkL n n s2 tmp gx gy) = inr st' /\
                  l_gX st' = (n - k)%nat /\ l_gY st' = (n - k)%nat /\
                  (forall m0, l_tmp st' = Some m0 -> m0 = (n - k)%nat) /\
                  sampler_ok (sampler_sees st') = true.
Proof.
  destruct drop_is_applied_to_all_three_is_source as (c & m & stores & Hd & _ & _ & _ & _ & Hrun).
  exists c, m, stores. split; [exact Hd |].
  intros n k s2 tmp gx gy Hal. eexists. split; [apply Hrun; exact Hal |].
  destruct Hal as (_ & _ & Htmp).
  cbn [l_gX l_gY l_tmp]. split; [reflexivity |]. split; [reflexivity |].
  assert (Ht : forall m0, shrink_tmp k tmp = Some m0 -> m0 = (n - k)%nat).
  { intros m0 E. destruct tmp as [[| t] |]; cbn [shrink_tmp] in E; try discriminate E.
    - injection E as <-. subst n. reflexivity.
    - injection E as <-. subst n. reflexivity. }
  split; [exact Ht |].
  unfold sampler_ok, sampler_sees. cbn [l_gX l_gY l_tmp]. rewrite Nat.eqb_refl. cbn [andb].
  destruct (shrink_tmp k tmp) as [m0 |] eqn:E; [| reflexivity].
  rewrite (Ht m0 eq_refl). apply Nat.eqb_refl.
Qed.

(* REGRESSION (Proofs only): the drop step as it was before the repair — no store into tmp_gp.X / tmp_gp.y — leaves the GP object
   with the n rows stored by the failed fit and n - k noise entries: the sampler's objective raises ValueError.  The generated
   program of the unrepaired source has exactly these stores (seeded/C16-revert-slice-sampler-drop). *)
Lemma old_drop_stores_misaligned :
  forall n k, (1 <= k)%nat -> (1 <= n)%nat ->
    exists st', run_stores old_drop_stores n k (mkL n n (S2Arr n) (Some n) n n) = inr st' /\
                l_X st' = (n - k)%nat /\ l_gX st' = n /\ l_tmp st' = Some (n - k)%nat /\
                sampler_ok (sampler_sees st') = false.
Proof.
  intros n k Hk Hn. unfold old_drop_stores.
  cbn [run_stores geval alen aset l_X l_Y l_s2 l_tmp l_gX l_gY is_none is_scalar negb].
  rewrite !Nat.eqb_refl.
  destruct n as [| n']; [inversion Hn |].
  cbn [negb Nat.ltb Nat.leb]. rewrite ?Nat.eqb_refl.
  eexists. split; [reflexivity |]. repeat (split; [reflexivity |]).
  unfold sampler_ok, sampler_sees. cbn [l_gX l_gY l_tmp]. rewrite Nat.eqb_refl. cbn [andb].
  apply Nat.eqb_neq. lia.
Qed.
Lemma old_form_is_not_the_model : old_drop_stores <> model_drop_stores.
Proof. discriminate. Qed.
