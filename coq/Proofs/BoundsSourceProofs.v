(* BoundsSourceProofs.v — Model/BoundsCheck.v's check_coords IS the program regenerated from the source
   (coq/gen/Src_bounds.v, written by translate/bounds.py from pybads/bads/bads.py on every run).
   All statements are for ALL coordinates / ALL rows of coordinates; nothing is enumerated. *)
From Coq Require Import ZArith QArith List Bool String.
From PV Require Import Model.XQ Model.BoundsCheck Model.BoundsSrc gen.Src_bounds.
Import ListNotations.

(* ---- generic facts about programs ---- *)
Lemma existsb_ext_eq : forall (A : Type) (f g : A -> bool) (l : list A),
  (forall a, f a = g a) -> existsb f l = existsb g l.
Proof.
  intros A f g l Hfg. induction l as [|a l IH]; [reflexivity|].
  cbn [existsb]. rewrite Hfg, IH. reflexivity.
Qed.

Lemma existsb_const_false : forall (A : Type) (l : list A), existsb (fun _ => false) l = false.
Proof. intros A l. induction l as [|a l IH]; [reflexivity|]. cbn [existsb]. exact IH. Qed.

Lemma existsb_orb_distr : forall (A : Type) (f g : A -> bool) (l : list A),
  existsb (fun a => f a || g a) l = existsb f l || existsb g l.
Proof.
  intros A f g l. induction l as [|a l IH]; [reflexivity|].
  cbn [existsb]. rewrite IH.
  destruct (f a), (g a), (existsb f l), (existsb g l); reflexivity.
Qed.

(* np.any(d1) or np.any(d2) or ...  =  np.any(d1 | d2 | ...) *)
Lemma any_of_flat : forall ds cs, any_of ds cs = existsb (flat ds) cs.
Proof.
  intros ds cs. unfold any_of, flat. induction ds as [|p ds IH].
  - cbn [existsb]. symmetry. apply existsb_const_false.
  - cbn [existsb]. rewrite IH. symmetry.
    exact (existsb_orb_distr coord p (fun c => existsb (fun p0 => p0 c) ds) cs).
Qed.

Definition test_eqv (a b : string * cpred) : Prop := fst a = fst b /\ forall c, snd a c = snd b c.
Definition repair_eqv (a b : string * cpred * (coord -> coord)) : Prop :=
  fst (fst a) = fst (fst b) /\ (forall c, snd (fst a) c = snd (fst b) c) /\ forall c, snd a c = snd b c.

Definition step_eqv (a b : step) : Prop :=
  match a, b with
  | STest t ds, STest t' ds' => t = t' /\ forall c, flat ds c = flat ds' c
  | SRepair n g f, SRepair n' g' f' => n = n' /\ (forall c, flat g c = flat g' c) /\ forall c, f c = f' c
  | _, _ => False
  end.

Lemma run_prog_ext : forall p q, Forall2 step_eqv p q -> forall cs, run_prog p cs = run_prog q cs.
Proof.
  intros p q H. induction H as [|a b p q Hab Hpq IH]; intros cs; [reflexivity|].
  destruct a as [t ds|n g f], b as [t' ds'|n' g' f']; cbn [step_eqv] in Hab; try contradiction.
  - destruct Hab as [Ht Hd]. subst t'. cbn [run_prog].
    rewrite (any_of_flat ds), (any_of_flat ds'), (existsb_ext_eq _ _ _ cs Hd).
    destruct (existsb (flat ds') cs); [reflexivity|apply IH].
  - destruct Hab as [_ [Hg Hf]]. cbn [run_prog].
    rewrite (any_of_flat g), (any_of_flat g'), (existsb_ext_eq _ _ _ cs Hg).
    rewrite (map_ext _ _ Hf cs). apply IH.
Qed.

Lemma tests_of_eqv : forall p q, Forall2 step_eqv p q -> Forall2 test_eqv (tests_of p) (tests_of q).
Proof.
  intros p q H. induction H as [|a b p q Hab Hpq IH]; [constructor|].
  destruct a as [t ds|n g f], b as [t' ds'|n' g' f']; cbn [step_eqv] in Hab; try contradiction.
  - unfold tests_of. cbn [flat_map app]. constructor; [|exact IH]. exact Hab.
  - unfold tests_of. cbn [flat_map app]. exact IH.
Qed.

Lemma repairs_of_eqv : forall p q, Forall2 step_eqv p q -> Forall2 repair_eqv (repairs_of p) (repairs_of q).
Proof.
  intros p q H. induction H as [|a b p q Hab Hpq IH]; [constructor|].
  destruct a as [t ds|n g f], b as [t' ds'|n' g' f']; cbn [step_eqv] in Hab; try contradiction.
  - unfold repairs_of. cbn [flat_map app]. exact IH.
  - unfold repairs_of. cbn [flat_map app]. constructor; [|exact IH]. exact Hab.
Qed.

Lemma shape_of_eqv : forall p q, Forall2 step_eqv p q -> shape_of p = shape_of q.
Proof.
  intros p q H. induction H as [|a b p q Hab Hpq IH]; [reflexivity|].
  destruct a, b; cbn [step_eqv] in Hab; try contradiction; unfold shape_of; cbn [map]; f_equal; exact IH.
Qed.

(* ---- the hand-written if-chain is the hand-written program ---- *)
Lemma check_is_model_prog : forall cs, tag_checked (check_coords cs) = run_prog model_prog cs.
Proof.
  intros cs. unfold check_coords, apply_if, model_prog. cbv zeta.
  cbn [run_prog any_of existsb]. rewrite ?orb_false_r.
  destruct (existsb t_nonfinite_pb cs); cbv iota; [reflexivity|].
  destruct (existsb t_fixed cs); cbv iota; [reflexivity|].
  destruct (existsb t_matching cs); cbv iota; [reflexivity|].
  destruct (existsb t_x0_outside cs); cbv iota; [reflexivity|].
  destruct (existsb t_too_close cs); cbv iota; [reflexivity|].
  generalize (if existsb t_x0_near cs then map clamp_x cs else cs). intros cs1.
  destruct (existsb t_order_bad cs1); cbv iota; [reflexivity|].
  generalize (if existsb t_pb_near cs1 then map pull_pb cs1 else cs1). intros cs2.
  generalize (if existsb t_x0_edge cs2 then map expand_pb cs2 else cs2). intros cs3.
  destruct (existsb t_order_bad cs3); cbv iota; [reflexivity|].
  destruct (existsb t_half cs3); reflexivity.
Qed.

(* ---- the effective bounds ---- *)
Theorem effective_bounds_are_source : forall c : coord, LBe c = src_lb_eff c /\ UBe c = src_ub_eff c.
Proof. intros c. split; reflexivity. Qed.

(* ---- step by step: the hand-written program is the generated one ---- *)
Ltac pred_eq :=
  let c := fresh "c" in
  intro c; unfold flat; cbn [existsb]; rewrite ?orb_false_r, ?orb_assoc; reflexivity.

Theorem model_prog_is_source : Forall2 step_eqv model_prog src_prog.
Proof.
  unfold model_prog, src_prog.
  repeat (apply Forall2_cons; [cbn [step_eqv]|]); try apply Forall2_nil.
  (* tests *)
  all: try (split; [reflexivity|pred_eq]).
  (* repairs *)
  all: split; [reflexivity|split; [pred_eq|intro c; reflexivity]].
Qed.

Theorem tests_are_source :
  Forall2 test_eqv
    [ (reason_tag RNonFinitePB, t_nonfinite_pb);
      (TAG_NOTREAL, fun _ => false);
      (reason_tag RFixed, t_fixed);
      (reason_tag RMatchingPB, t_matching);
      (reason_tag RX0Outside, t_x0_outside);
      (reason_tag RTooClose, t_too_close);
      (reason_tag RStrictBounds1, t_order_bad);
      (reason_tag RStrictBounds2, t_order_bad);
      (reason_tag RHalfBounds, t_half) ]
    (tests_of src_prog).
Proof.
  assert (H := tests_of_eqv _ _ model_prog_is_source).
  unfold model_prog, tests_of in H. cbn [flat_map app] in H.
  remember (flat_map _ src_prog) as L eqn:EL in H. unfold tests_of. rewrite <- EL. clear EL.
  repeat match goal with
         | H : Forall2 test_eqv (_ :: _) ?L |- _ =>
             let y := fresh "y" in let l := fresh "l" in let Hy := fresh "Hy" in let Hl := fresh "Hl" in
             inversion H as [|? y ? l Hy Hl]; subst; clear H
         | H : Forall2 test_eqv [] ?L |- _ => inversion H; subst; clear H
         end.
  repeat (apply Forall2_cons; [|]); try apply Forall2_nil.
  all: match goal with
       | Hy : test_eqv (_, flat ?ds) ?y |- test_eqv (_, ?t) ?y =>
           destruct Hy as [Ht Hp]; split; [exact Ht|];
           let c := fresh "c" in intro c; rewrite <- (Hp c); cbn [snd flat existsb]; rewrite ?orb_false_r; reflexivity
       end.
Qed.

Theorem repairs_are_source :
  Forall2 repair_eqv
    [ ("cx"%string, t_x0_near, clamp_x);
      ("cpl+cpu"%string, t_pb_near, pull_pb);
      ("cpl+cpu"%string, t_x0_edge, expand_pb) ]
    (repairs_of src_prog).
Proof.
  assert (H := repairs_of_eqv _ _ model_prog_is_source).
  unfold model_prog, repairs_of in H. cbn [flat_map app] in H.
  remember (flat_map _ src_prog) as L eqn:EL in H. unfold repairs_of. rewrite <- EL. clear EL.
  repeat match goal with
         | H : Forall2 repair_eqv (_ :: _) ?L |- _ =>
             let y := fresh "y" in let l := fresh "l" in let Hy := fresh "Hy" in let Hl := fresh "Hl" in
             inversion H as [|? y ? l Hy Hl]; subst; clear H
         | H : Forall2 repair_eqv [] ?L |- _ => inversion H; subst; clear H
         end.
  repeat (apply Forall2_cons; [|]); try apply Forall2_nil.
  all: match goal with
       | Hy : repair_eqv (_, flat ?g, ?f) ?y |- repair_eqv (_, ?t, ?f) ?y =>
           destruct Hy as [Hn [Hg Hf]]; split; [exact Hn|split; [|exact Hf]];
           let c := fresh "c" in intro c; rewrite <- (Hg c); cbn [fst snd flat existsb]; rewrite ?orb_false_r; reflexivity
       end.
Qed.

(* positions: which steps are tests (true) and which are repairs (false) *)
Theorem positions_are_source :
  shape_of src_prog = [true; true; true; true; true; true; false; true; false; false; true; true].
Proof. rewrite <- (shape_of_eqv _ _ model_prog_is_source). reflexivity. Qed.

(* ---- the whole check ---- *)
Theorem check_is_source : forall cs : list coord, tag_checked (check_coords cs) = src_check cs.
Proof.
  intros cs. unfold src_check. rewrite check_is_model_prog.
  exact (run_prog_ext _ _ model_prog_is_source cs).
Qed.

(* ---- the head: BADS.__init__ up to the call + the head of _bounds_check_ ---- *)
Ltac head_eq prog :=
  intros [[x|] [l|] [u|] [p|] [q|]];
  unfold assemble, head_of_defn, prog, odefault;
  lazy beta iota zeta delta [run_head hcond hget hset hval is_none negb andb orb d_x0 d_lb d_ub d_plb d_pub
                             hx hl hu hp hq hD head_view forallb];
  try reflexivity;
  repeat match goal with
         | |- context [if Nat.eqb ?a ?b then _ else _] => destruct (Nat.eqb a b)
         end; reflexivity.

Lemma assemble_is_model_head : forall d : defn, head_view (assemble d) = run_head model_head (head_of_defn d).
Proof. head_eq model_head. Qed.

Theorem assemble_is_source : forall d : defn, head_view (assemble d) = run_head src_head (head_of_defn d).
Proof. head_eq src_head. Qed.

Corollary construct_is_source : forall d : defn, outcome_val (construct d) = construct_with2 src_head src_prog d.
Proof.
  intros d. unfold construct, construct_with2. rewrite <- assemble_is_source.
  destruct (assemble d) as [r|c|cs]; try reflexivity.
  cbn [head_view]. fold (src_check cs). rewrite <- check_is_source.
  destruct (check_coords cs) as [r|cs']; reflexivity.
Qed.

(* ---- caller and tail of _bounds_check_ ---- *)
Theorem call_is_source :
  model_arg_order = src_arg_order /\ model_arg_order = src_return_order /\ model_post_check = src_post_check.
Proof. repeat split; reflexivity. Qed.

(* ---- a concrete row: D = 3, x0 ON an upper bound, an unbounded coordinate with x0 outside its plausible box,
        plausible bounds equal to the hard ones ---- *)
Definition fq (n : Z) (d : positive) : xq := XFin (n # d).
Definition ex_cs : list coord :=
  [ mkC (fq 2 1) (fq (-2) 1) (fq 2 1) (fq (-1) 1) (fq 1 1);
    mkC (fq 7 1) XNInf XPInf (fq (-5) 1) (fq 5 1);
    mkC (fq 0 1) (fq (-1) 1) (fq 3 1) (fq (-1) 1) (fq 3 1) ].
Definition ex_cs' : list coord :=
  [ mkC (fq 499 250) (fq (-2) 1) (fq 2 1) (fq (-1) 1) (fq 499 250);
    mkC (fq 7 1) XNInf XPInf (fq (-5) 1) (fq 7 1);
    mkC (fq 0 1) (fq (-1) 1) (fq 3 1) (fq (-249) 250) (fq 749 250) ].

Lemma src_example :
  src_check ex_cs = SAccept ex_cs' /\ ex_cs' <> ex_cs
  /\ src_check [mkC (fq 1 1) (fq 1 1) (fq 1 1) (fq 1 1) (fq 1 1)] = SReject "Fixed".
Proof.
  split; [vm_compute; reflexivity|]. split; [intro H; discriminate H|vm_compute; reflexivity].
Qed.
