(* SkeletonBox.v — proofs behind Props/C01.v (hard box bounds are never left) and Props/C02.v (no
   infeasible point is evaluated or returned), over Model/Skeleton.v (run + final phase),
   Model/Filter.v (contraints_check) and Model/SkeletonBox.v (provenance of the evaluation points,
   inward-rounded search box).  Rationals and lists only: every lemma here is closed under the global
   context.  The real-number clamp of C01 is re-exported by Proofs/SkeletonBoxR.v.

   Plan: one generic invariant [CallsP P] ("every point the target was called at satisfies P") carried
   through do_eval / search / poll / iteration / initial design / final re-sampling, for an arbitrary
   predicate P on points; then P := in_box LB UB (C01) and P := fun r => c r = false (C02), both
   compatible with coordinate-wise Qeq. *)
From Coq Require Import ZArith QArith Qround List Bool Lia Lqa.
From PV Require Import Model.Val Model.Skeleton Model.SkeletonValid Model.SkeletonNoisy Model.Filter Model.SkeletonBox.
From PV Require Import Proofs.FilterProofs Proofs.SkeletonInc Proofs.SkeletonFinal.
Import ListNotations.
Open Scope Z_scope.

(* ================================================================== *)
(* 1. a box inside the hard box: rows of the inner box are in the outer *)
(* ================================================================== *)
Lemma lo_within_le : forall (lo' LO : bnd) (x : Q), lo_within lo' LO = true -> lo_le lo' x -> lo_le LO x.
Proof.
  intros lo' LO x HW HL. destruct LO as [L|]; cbn [lo_le]; [|exact I].
  destruct lo' as [l'|]; unfold lo_within in HW; [|discriminate].
  apply Qle_bool_iff in HW. cbn [lo_le] in HL. eapply Qle_trans; [exact HW | exact HL].
Qed.

Lemma hi_within_le : forall (hi' HI : bnd) (x : Q), hi_within hi' HI = true -> hi_ge hi' x -> hi_ge HI x.
Proof.
  intros hi' HI x HW HG. destruct HI as [Hh|]; cbn [hi_ge]; [|exact I].
  destruct hi' as [h'|]; unfold hi_within in HW; [|discriminate].
  apply Qle_bool_iff in HW. cbn [hi_ge] in HG. eapply Qle_trans; [exact HG | exact HW].
Qed.

(* for ALL rows (any length): beyond the end of LB/UB the hard box is unbounded *)
Lemma in_box_within : forall (r : qrow) (lb' ub' LB UB : list bnd),
  box_withinb lb' ub' LB UB = true -> in_box lb' ub' r -> in_box LB UB r.
Proof.
  induction r as [|x r IH]; intros lb' ub' LB UB HW HB; cbn [in_box] in *; [exact I|].
  destruct HB as (H1 & H2 & H3).
  destruct LB as [|L LB]; destruct UB as [|Hh UB]; cbn [box_withinb] in HW; try discriminate;
    cbn [hd tl].
  - cbn [lo_le hi_ge]. split; [exact I|]. split; [exact I|].
    apply (IH (tl lb') (tl ub')); [reflexivity | exact H3].
  - apply andb_true_iff in HW. destruct HW as [HW HW3].
    apply andb_true_iff in HW. destruct HW as [HW1 HW2].
    split; [exact (lo_within_le _ _ _ HW1 H1)|]. split; [exact (hi_within_le _ _ _ HW2 H2)|].
    exact (IH _ _ _ _ HW3 H3).
Qed.

Lemma filter_output_in_hard_box :
  forall (proj : bool) (lb' ub' LB UB : list bnd) (tol : Q) (logX : list qrow) (cons : option (qrow -> bool)) (U : list qrow),
    box_withinb lb' ub' LB UB = true -> (proj = true -> box_ok lb' ub') ->
    Forall (in_box LB UB) (filter_candidates proj lb' ub' tol logX cons U).
Proof.
  intros proj lb' ub' LB UB tol logX cons U HW HOK.
  pose proof (filter_in_box proj lb' ub' tol logX cons U HOK) as HF.
  rewrite Forall_forall in *. intros r Hr. exact (in_box_within r _ _ _ _ HW (HF r Hr)).
Qed.

(* in_box only compares with Qle: invariant under coordinate-wise Qeq *)
Lemma in_box_Qeq : forall (LB UB : list bnd) (a b : qrow),
  Forall2 Qeq a b -> in_box LB UB a -> in_box LB UB b.
Proof.
  intros LB UB a b H. revert LB UB.
  induction H as [|x y a b E H IH]; intros LB UB HB; cbn [in_box] in *; [exact I|].
  destruct HB as (H1 & H2 & H3). split; [|split; [|exact (IH _ _ H3)]].
  - destruct (hd None LB) as [lo|]; cbn [lo_le] in *; [|exact I]. rewrite <- E. exact H1.
  - destruct (hd None UB) as [hi|]; cbn [hi_ge] in *; [|exact I]. rewrite <- E. exact H2.
Qed.

(* ================================================================== *)
(* 2. the inward-rounded search box                                    *)
(* ================================================================== *)
(* force_to_grid moves a value by at most half a mesh *)
Lemma to_grid_near : forall x m : Q, (0 < m)%Q ->
  (to_grid x m - (1 # 2) * m <= x)%Q /\ (x <= to_grid x m + (1 # 2) * m)%Q.
Proof.
  intros x m Hm. unfold to_grid.
  destruct (Qround_even_near (x / m)) as [N1 N2].
  set (r := inject_Z (Qround_even (x / m))) in *.
  assert (Hq : (m * (x / m) == x)%Q).
  { apply Qmult_div_r. intro C. lra. }
  assert (Hm0 : (0 <= m)%Q) by (apply Qlt_le_weak; exact Hm).
  pose proof (Qmult_le_compat_r _ _ m N1 Hm0) as M1.
  pose proof (Qmult_le_compat_r _ _ m N2 Hm0) as M2.
  set (q := (x / m)%Q) in *.
  split; lra.
Qed.

Lemma search_box_inside :
  forall (lb ub m : Q), (0 < m)%Q ->
    (lb <= lb_search1 lb m)%Q /\ (lb_search1 lb m <= lb + m)%Q /\
    (ub_search1 ub m <= ub)%Q /\ (ub - m <= ub_search1 ub m)%Q /\
    (lb + 2 * m <= ub -> lb_search1 lb m <= ub_search1 ub m)%Q.
Proof.
  intros lb ub m Hm.
  destruct (to_grid_near lb m Hm) as [L1 L2]. destruct (to_grid_near ub m Hm) as [U1 U2].
  assert (HL : (lb <= lb_search1 lb m)%Q /\ (lb_search1 lb m <= lb + m)%Q).
  { unfold lb_search1. cbv zeta. set (g := to_grid lb m) in *.
    destruct (Qle_bool lb g) eqn:E.
    - apply Qle_bool_iff in E. split; lra.
    - apply Qle_bool_false in E. split; lra. }
  assert (HU : (ub_search1 ub m <= ub)%Q /\ (ub - m <= ub_search1 ub m)%Q).
  { unfold ub_search1. cbv zeta. set (g := to_grid ub m) in *.
    destruct (Qle_bool g ub) eqn:E.
    - apply Qle_bool_iff in E. split; lra.
    - apply Qle_bool_false in E. split; lra. }
  destruct HL as [A1 A2]. destruct HU as [B1 B2].
  split; [exact A1|]. split; [exact A2|]. split; [exact B1|]. split; [exact B2|].
  intros Hw. lra.
Qed.

(* ================================================================== *)
(* 3. every call point satisfies P, through every phase                *)
(* ================================================================== *)
Definition CallsP (P : qrow -> Prop) (s : st) : Prop := forall u r, In (u, r) (calls s) -> P u.

Lemma CallsP_eq : forall (P : qrow -> Prop) s s', calls s' = calls s -> CallsP P s -> CallsP P s'.
Proof. intros P s s' E HC u r Hin. rewrite E in Hin. exact (HC u r Hin). Qed.

Lemma CallsP_do_eval : forall (P : qrow -> Prop) s e, CallsP P s -> P (e_u e) -> CallsP P (do_eval s e).
Proof.
  intros P s e HC He u r Hin. unfold do_eval in Hin.
  destruct (e_fault e); cbn [calls] in Hin; apply in_app_or in Hin;
    (destruct Hin as [Hin | [Heq | []]]; [exact (HC u r Hin) | inversion Heq; subst; exact He]).
Qed.

Lemma CallsP_search : forall (P : qrow -> Prop) o SI ev s, CallsP P s ->
  (forall e, se_eval ev = Some e -> P (e_u e)) -> CallsP P (search_phase o SI ev s).
Proof.
  intros P o SI ev s HC He. unfold search_phase.
  assert (H1 : CallsP P (set_ctrl s (k s) (ks s) (scount s + 1) (ssucc s) (spree s))).
  { apply (CallsP_eq P s); [reflexivity | exact HC]. }
  set (s1 := set_ctrl s (k s) (ks s) (scount s + 1) (ssucc s) (spree s)) in *.
  destruct (se_eval ev) as [e|]; [|exact H1]. cbv zeta.
  assert (H2 : CallsP P (do_eval s1 e)).
  { apply CallsP_do_eval; [exact H1 | apply He; reflexivity]. }
  destruct (exn (do_eval s1 e)); [exact H2|].
  destruct (qltb 0 (e_impr e) && o_sloppy o || qltb SI (e_impr e)); [|exact H2].
  destruct (qltb SI (e_impr e)); (apply (CallsP_eq P (do_eval s1 e)); [reflexivity | exact H2]).
Qed.

Lemma CallsP_poll_loop : forall (P : qrow -> Prop) o ncand evs a, CallsP P (p_s a) ->
  Forall (fun e => P (e_u e)) evs -> CallsP P (p_s (poll_loop o ncand evs a)).
Proof.
  intros P o ncand evs. induction evs as [|e r IH]; intros a HC HF; cbn [poll_loop]; [exact HC|].
  destruct (poll_guard o ncand a); [|exact HC].
  inversion HF as [|e' r' He HF']; subst e' r'.
  assert (H2 : CallsP P (do_eval (p_s a) e)).
  { apply CallsP_do_eval; [exact HC | exact He]. }
  destruct (exn (do_eval (p_s a) e)); [cbn [p_s]; exact H2|].
  destruct (qltb (p_best a) (e_impr e)); apply IH; cbn [p_s]; assumption.
Qed.

Lemma CallsP_poll : forall (P : qrow -> Prop) o SI ev s, CallsP P s ->
  Forall (fun e => P (e_u e)) (pe_evals ev) -> CallsP P (poll_phase o SI ev s).
Proof.
  intros P o SI ev s HC HF. unfold poll_phase.
  assert (Ha : CallsP P (p_s (poll_loop o (pe_ncand ev) (pe_evals ev) (mkP s 0 (cur s) 0)))).
  { apply CallsP_poll_loop; [cbn [p_s]; exact HC | exact HF]. }
  set (a := poll_loop o (pe_ncand ev) (pe_evals ev) (mkP s 0 (cur s) 0)) in *.
  cbv zeta. destruct (exn (p_s a)); [exact Ha|].
  set (s2 := if qltb 0 (p_best a) && o_sloppy o || qltb SI (p_best a) then set_cur (p_s a) (p_inc a) else p_s a).
  assert (H2 : CallsP P s2).
  { unfold s2. destruct (qltb 0 (p_best a) && o_sloppy o || qltb SI (p_best a)); [|exact Ha].
    apply (CallsP_eq P (p_s a)); [reflexivity | exact Ha]. }
  destruct (qltb SI (p_best a)); (apply (CallsP_eq P s2); [reflexivity | exact H2]).
Qed.

Lemma CallsP_step : forall (P : qrow -> Prop) o s ev, CallsP P s ->
  Forall P (eval_points_iter ev) -> CallsP P (step_iter o s ev).
Proof.
  intros P o s ev HC HF. unfold eval_points_iter in HF. apply Forall_app in HF. destruct HF as [HFs HFp].
  assert (HS : forall e, se_eval (ie_search ev) = Some e -> P (e_u e)).
  { intros e E. rewrite E in HFs. inversion HFs; assumption. }
  assert (HPl : Forall (fun e => P (e_u e)) (pe_evals (ie_poll ev))).
  { rewrite Forall_forall in *. intros e He. apply HFp. apply in_map. exact He. }
  unfold step_iter.
  destruct (fin s || exn s); [exact HC|].
  assert (H0 : CallsP P (lock_ks o s)).
  { apply (CallsP_eq P s); [|exact HC]. destruct (same_lock_ks o s) as (E & _). exact E. }
  set (s0 := lock_ks o s) in *.
  set (s1 := if want_search o s0 then search_phase o (ie_SI ev) (ie_search ev) s0 else s0).
  assert (H1 : CallsP P s1).
  { unfold s1. destruct (want_search o s0); [apply CallsP_search; assumption | exact H0]. }
  destruct (exn s1); [exact H1|].
  pose proof (same_poll_decision o s1) as Hs2.
  destruct (poll_decision o s1) as [s2 dopoll]. cbn [fst] in Hs2.
  assert (H2 : CallsP P s2).
  { apply (CallsP_eq P s1); [|exact H1]. destruct Hs2 as (E & _). exact E. }
  set (s3 := if dopoll then poll_phase o (ie_SI ev) (ie_poll ev) s2 else s2).
  assert (H3 : CallsP P s3).
  { unfold s3. destruct dopoll; [apply CallsP_poll; assumption | exact H2]. }
  destruct (exn s3); [exact H3|].
  destruct (terminate o (if dopoll then k s3 else k s0) (ie_stall ev) s3) as [f m].
  apply (CallsP_eq P s3); [reflexivity | exact H3].
Qed.

Lemma CallsP_run_loop : forall (P : qrow -> Prop) o evs s, CallsP P s ->
  Forall P (flat_map eval_points_iter evs) -> CallsP P (run_loop o s evs).
Proof.
  intros P o evs. unfold run_loop.
  induction evs as [|e r IH]; intros s HC HF; cbn [fold_left flat_map] in *; [exact HC|].
  apply Forall_app in HF. destruct HF as [HF1 HF2].
  apply IH; [apply CallsP_step; assumption | exact HF2].
Qed.

Lemma CallsP_init_calls : forall (P : qrow -> Prop) l s recd, CallsP P s ->
  Forall P (map (fun c => e_u (ic_eval c)) l) -> CallsP P (fst (init_calls s recd l)).
Proof.
  intros P. induction l as [|c r IH]; intros s recd HC HF; cbn [init_calls map] in *; [exact HC|].
  destruct (exn s); [exact HC|].
  inversion HF as [|u' r' Hc HF']; subst u' r'.
  assert (H2 : CallsP P (do_eval s (ic_eval c))).
  { apply CallsP_do_eval; [exact HC | exact Hc]. }
  destruct (exn (do_eval s (ic_eval c))); [exact H2|].
  apply IH; assumption.
Qed.

Lemma CallsP_init_phase : forall (P : qrow -> Prop) k0 ks0 o l fsd0,
  Forall P (map (fun c => e_u (ic_eval c)) l) -> CallsP P (init_phase k0 ks0 o l fsd0).
Proof.
  intros P k0 ks0 o l fsd0 HF. unfold init_phase.
  assert (H0 : CallsP P (init_state k0 ks0 o)).
  { intros u r Hin. cbn [init_state calls In] in Hin. contradiction. }
  pose proof (CallsP_init_calls P l (init_state k0 ks0 o) [] H0 HF) as H1.
  destruct (init_calls (init_state k0 ks0 o) [] l) as [s recd]. cbn [fst] in H1.
  destruct (argmin_rows None recd) as [[u y]|]; [|exact H1].
  apply (CallsP_eq P s); [reflexivity | exact H1].
Qed.

Lemma CallsP_run : forall (P : qrow -> Prop) k0 ks0 o l fsd0 evs,
  Forall P (eval_points l evs) -> CallsP P (run k0 ks0 o l fsd0 evs).
Proof.
  intros P k0 ks0 o l fsd0 evs HF. unfold eval_points in HF.
  apply Forall_app in HF. destruct HF as [HF1 HF2].
  unfold run. apply CallsP_run_loop; [apply CallsP_init_phase; exact HF1 | exact HF2].
Qed.

Lemma CallsP_final_samples : forall (P : qrow -> Prop) n obs s u ys sds, CallsP P s -> P u ->
  CallsP P (fst (fst (final_samples s u n obs ys sds))).
Proof.
  intros P. induction n as [|m IH]; intros obs s u ys sds HC Hu; cbn [final_samples]; [exact HC|].
  destruct obs as [|[[flt y] sd] r]; [exact HC|].
  destruct (exn s); [exact HC|].
  set (e := mkE u flt y y 0 0 false).
  assert (H2 : CallsP P (do_eval s e)).
  { apply CallsP_do_eval; [exact HC | exact Hu]. }
  destruct (exn (do_eval s e)); [exact H2|].
  apply IH; assumption.
Qed.

Lemma CallsP_final_phase : forall (P : qrow -> Prop) o nfs fev s, CallsP P s ->
  (forall h, nth_error (hist s) (fe_idx fev) = Some h -> P (i_u (h_inc h))) ->
  CallsP P (fo_st (final_phase o nfs fev s)).
Proof.
  intros P o nfs fev s HC Hh.
  destruct (final_phase_cases o nfs fev s)
    as [(_ & E) | (_ & _ & _ & [(_ & E) | (h & En & [(_ & E) | (_ & s2 & ys & sds & Efs & [(_ & E) | (_ & E)])])])];
    rewrite E; cbn [fo_st]; try exact HC.   (* also closes the set_cur-only branch, by conversion *)
  - pose proof (CallsP_final_samples P (Z.to_nat nfs) (fe_obs fev) (set_cur s (fin_inc fev h))
                  (i_u (h_inc h)) [] []) as Hs.
    rewrite Efs in Hs. cbn [fst] in Hs.
    apply Hs; [apply (CallsP_eq P s); [reflexivity | exact HC] | exact (Hh h En)].
  - pose proof (CallsP_final_samples P (Z.to_nat nfs) (fe_obs fev) (set_cur s (fin_inc fev h))
                  (i_u (h_inc h)) [] []) as Hs.
    rewrite Efs in Hs. cbn [fst] in Hs.
    apply (CallsP_eq P s2); [reflexivity|].
    apply Hs; [apply (CallsP_eq P s); [reflexivity | exact HC] | exact (Hh h En)].
Qed.

(* (B3) no premise at all: where the call points come from *)
Theorem calls_are_oracle_points :
  forall (k0 ks0 : Z) (o : opts) (l : list init_call) (fsd0 : Q) (evs : list iter_ev) (nfs : Z) (fev : final_ev),
    let f := run_full k0 ks0 o l fsd0 evs nfs fev in
    forall u r, In (u, r) (calls (fo_st f)) ->
      In u (eval_points l evs) \/
      exists h, nth_error (hist (run k0 ks0 o l fsd0 evs)) (fe_idx fev) = Some h /\ u = i_u (h_inc h).
Proof.
  intros k0 ks0 o l fsd0 evs nfs fev f.
  set (P := fun u : qrow => In u (eval_points l evs) \/
              exists h, nth_error (hist (run k0 ks0 o l fsd0 evs)) (fe_idx fev) = Some h /\ u = i_u (h_inc h)).
  change (CallsP P (fo_st f)). unfold f, run_full. apply CallsP_final_phase.
  - apply CallsP_run. apply Forall_forall. intros u Hu. left. exact Hu.
  - intros h En. right. exists h. split; [exact En | reflexivity].
Qed.

(* ================================================================== *)
(* 4. the generic run-level theorem                                    *)
(* ================================================================== *)
(* the recorded provenance: every evaluation point is (Qeq to) the start or a row of a filter output *)
Lemma prov_points : forall (P : qrow -> Prop),
  (forall a b, Forall2 Qeq a b -> P a -> P b) ->
  forall (u0 : qrow) (F : list (list qrow)) (pts : list qrow),
    P u0 -> (forall S0, In S0 F -> Forall P S0) -> prov_okb u0 F pts = true -> Forall P pts.
Proof.
  intros P Pc u0 F pts H0 HFs Hok. unfold prov_okb in Hok. rewrite forallb_forall in Hok.
  apply Forall_forall. intros u Hu. specialize (Hok u Hu).
  apply orb_true_iff in Hok. destruct Hok as [E | E].
  - apply qrow_eqb_Qeq in E. exact (Pc u0 u (F2_sym _ _ E) H0).
  - apply existsb_exists in E. destruct E as (S0 & HS & E).
    apply existsb_exists in E. destruct E as (r & Hr & E).
    apply qrow_eqb_Qeq in E. specialize (HFs S0 HS). rewrite Forall_forall in HFs.
    exact (Pc r u (F2_sym _ _ E) (HFs r Hr)).
Qed.

(* P holds of every oracle evaluation point => P holds of every call point of the whole run (the final
   re-sampling point is a recorded iterate, hence Qeq to an earlier call point) and of the returned point *)
Theorem run_full_points : forall (P : qrow -> Prop),
  (forall a b, Forall2 Qeq a b -> P a -> P b) ->
  forall (k0 ks0 : Z) (o : opts) (l : list init_call) (fsd0 : Q) (evs : list iter_ev) (nfs : Z) (fev : final_ev),
    Forall P (eval_points l evs) ->
    noisy_u_ok o (init_phase k0 ks0 o l fsd0) evs = true ->
    (exists c, In c l /\ ic_record c = true /\ e_fault (ic_eval c) = false) ->
    let f := run_full k0 ks0 o l fsd0 evs nfs fev in
    (forall u r, In (u, r) (calls (fo_st f)) -> P u) /\
    (exn (fo_st f) = false -> P (i_u (cur (fo_st f)))).
Proof.
  intros P Pc k0 ks0 o l fsd0 evs nfs fev HF Hok HR f.
  pose proof (CallsP_run P k0 ks0 o l fsd0 evs HF) as HC.
  destruct (InvP_run k0 ks0 o l fsd0 evs Hok HR) as [Hrows Hcur].
  unfold f, run_full. clear f.
  set (s := run k0 ks0 o l fsd0 evs) in *.
  assert (HEv : forall c, EvP c (calls s) -> P (i_u c)).
  { intros c (u' & y' & Hin & Hq & _). exact (Pc u' (i_u c) Hq (HC u' (Some y') Hin)). }
  assert (Hh : forall h, nth_error (hist s) (fe_idx fev) = Some h -> P (i_u (h_inc h))).
  { intros h En. apply HEv. apply nth_error_In in En. exact (proj1 (Hrows h En)). }
  split.
  - exact (CallsP_final_phase P o nfs fev s HC Hh).
  - destruct (final_phase_cases o nfs fev s)
      as [(_ & E) | (_ & _ & _ & [(_ & E) | (h & En & [(_ & E) | (_ & s2 & ys & sds & Efs & [(Hx2 & E) | (Hx2 & E)])])])];
      rewrite E; cbn [fo_st]; intros Hx.
    + apply HEv. apply Hcur. exact Hx.
    + apply HEv. apply Hcur. exact Hx.
    + cbn [set_cur cur fin_inc i_u]. exact (Hh h En).
    + congruence.
    + cbn [set_cur cur i_u]. exact (Hh h En).
Qed.

(* ================================================================== *)
(* 5. C01 (B) and C02                                                  *)
(* ================================================================== *)
Theorem internal_points_in_box :
  forall (k0 ks0 : Z) (o : opts) (l : list init_call) (fsd0 : Q) (evs : list iter_ev) (nfs : Z) (fev : final_ev)
         (LB UB : list bnd) (u0 : qrow) (F : list (list qrow)),
    in_box LB UB u0 ->
    (forall S, In S F -> Forall (in_box LB UB) S) ->
    prov_okb u0 F (eval_points l evs) = true ->
    noisy_u_ok o (init_phase k0 ks0 o l fsd0) evs = true ->
    (exists c, In c l /\ ic_record c = true /\ e_fault (ic_eval c) = false) ->
    let f := run_full k0 ks0 o l fsd0 evs nfs fev in
    (forall u r, In (u, r) (calls (fo_st f)) -> in_box LB UB u) /\
    (exn (fo_st f) = false -> in_box LB UB (i_u (cur (fo_st f)))).
Proof.
  intros k0 ks0 o l fsd0 evs nfs fev LB UB u0 F H0 HFs Hprov Hok HR.
  apply (run_full_points (in_box LB UB) (in_box_Qeq LB UB)); [|exact Hok | exact HR].
  exact (prov_points _ (in_box_Qeq LB UB) u0 F _ H0 HFs Hprov).
Qed.

Theorem no_infeasible_call :
  forall (k0 ks0 : Z) (o : opts) (l : list init_call) (fsd0 : Q) (evs : list iter_ev) (nfs : Z) (fev : final_ev)
         (c : qrow -> bool) (u0 : qrow) (F : list (list qrow)),
    (forall a b, Forall2 Qeq a b -> c a = c b) ->
    c u0 = false ->
    (forall S, In S F -> Forall (fun r => c r = false) S) ->
    prov_okb u0 F (eval_points l evs) = true ->
    noisy_u_ok o (init_phase k0 ks0 o l fsd0) evs = true ->
    (exists ic, In ic l /\ ic_record ic = true /\ e_fault (ic_eval ic) = false) ->
    let f := run_full k0 ks0 o l fsd0 evs nfs fev in
    (forall u r, In (u, r) (calls (fo_st f)) -> c u = false) /\
    (exn (fo_st f) = false -> c (i_u (cur (fo_st f))) = false).
Proof.
  intros k0 ks0 o l fsd0 evs nfs fev c u0 F Hc H0 HFs Hprov Hok HR.
  assert (Pc : forall a b, Forall2 Qeq a b -> c a = false -> c b = false).
  { intros a b Hq Ha. rewrite <- (Hc a b Hq). exact Ha. }
  apply (run_full_points (fun r => c r = false) Pc); [|exact Hok | exact HR].
  exact (prov_points (fun r => c r = false) Pc u0 F _ H0 HFs Hprov).
Qed.

(* [start_check] of Props/C02.v is negb (c x0) && negb (c u0), written out here *)
Theorem infeasible_start_rejected :
  forall (c : qrow -> bool) (x0 u0 : qrow) (k0 ks0 : Z) (o : opts) (l : list init_call) (fsd0 : Q) (evs : list iter_ev),
    let calls_of_run := if negb (c x0) && negb (c u0) then calls (run k0 ks0 o l fsd0 evs) else [] in
    (c x0 = true \/ c u0 = true) -> calls_of_run = [].
Proof.
  intros c x0 u0 k0 ks0 o l fsd0 evs calls_of_run [H | H]; unfold calls_of_run; rewrite H; cbn [negb andb].
  - reflexivity.
  - rewrite andb_false_r. reflexivity.
Qed.

(* ================================================================== *)
(* 6. examples                                                         *)
(* ================================================================== *)
(* lb > ub: the projection sends the candidate to lb, outside [.., ub] *)
Lemma projection_needs_ordered_box :
  exists lb ub u, ~ box_ok lb ub /\ ~ in_box lb ub (clamp_row lb ub u).
Proof.
  exists [Some (1 # 1)], [Some (0 # 1)], [0 # 1]. split.
  - cbn [box_ok hd tl bnd_le]. intros [H _]. apply Qle_bool_iff in H. vm_compute in H. discriminate.
  - change (clamp_row [Some (1 # 1)] [Some (0 # 1)] [0 # 1]) with [clamp1 (Some (1 # 1)) (Some (0 # 1)) (0 # 1)].
    cbn [in_box hd tl lo_le hi_ge]. intros (_ & H & _). apply Qle_bool_iff in H. vm_compute in H. discriminate.
Qed.

Lemma box_premises_satisfiable : exists LB UB u0 F pts,
  in_box LB UB u0 /\ (forall S, In S F -> Forall (in_box LB UB) S) /\ prov_okb u0 F pts = true /\ (3 <= List.length pts)%nat.
Proof.
  exists [Some (-2 # 1); None], [Some (2 # 1); Some (3 # 1)], [0 # 1; 0 # 1],
         [[[1 # 1; 1 # 1]; [2 # 1; 0 # 1]]; [[-1 # 1; 3 # 1]]],
         [[0 # 1; 0 # 1]; [1 # 1; 1 # 1]; [-2 # 2; 6 # 2]; [2 # 1; 0 # 1]].
  split; [apply in_boxb_in_box; vm_compute; reflexivity|].
  split.
  - intros S0 HS. apply Forall_forall. intros r Hr. apply in_boxb_in_box.
    destruct HS as [E | [E | []]]; subst S0; cbn [In] in Hr;
      repeat (destruct Hr as [Hr | Hr]; [subst r; vm_compute; reflexivity|]); contradiction.
  - split; [vm_compute; reflexivity | cbn [List.length]; lia].
Qed.

Definition ex_cons (r : qrow) : bool := match r with x :: _ => Qle_bool (2 # 1) x | [] => true end.

Lemma ex_cons_compat : forall a b, Forall2 Qeq a b -> ex_cons a = ex_cons b.
Proof.
  intros a b H. destruct H as [|x y a' b' E _]; cbn [ex_cons]; [reflexivity|].
  destruct (Qle_bool (2 # 1) x) eqn:E1; destruct (Qle_bool (2 # 1) y) eqn:E2; try reflexivity; exfalso.
  - apply Qle_bool_iff in E1. apply Qle_bool_false in E2. lra.
  - apply Qle_bool_iff in E2. apply Qle_bool_false in E1. lra.
Qed.

Lemma feas_premises_satisfiable : exists (c : qrow -> bool) u0 F pts,
  (forall a b, Forall2 Qeq a b -> c a = c b) /\ c u0 = false /\ (forall S, In S F -> Forall (fun r => c r = false) S) /\
  prov_okb u0 F pts = true /\ (2 <= List.length pts)%nat /\ (exists v, c v = true).
Proof.
  exists ex_cons, [0 # 1], [[[1 # 1]; [1 # 2]]], [[0 # 1]; [1 # 1]; [2 # 4]].
  split; [exact ex_cons_compat|].
  split; [vm_compute; reflexivity|].
  split.
  - intros S0 [E | []]; subst S0; repeat constructor.
  - split; [vm_compute; reflexivity|]. split; [cbn [List.length]; lia|].
    exists [3 # 1]. vm_compute. reflexivity.
Qed.
