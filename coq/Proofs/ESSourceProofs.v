(* ESSourceProofs.v — the hand-written model of the evolution-strategy search (Model/ESSelect.v) equals the programs regenerated from
   the source (gen/Src_es.v) under the interpreters of Model/ESSrc.v.  Two steps every time: (1) the generated program IS the
   hand-written program (syntactic equality of first-order data: reflexivity), (2) the hand-written program means the model's
   function FOR ALL inputs (induction). *)
From Coq Require Import ZArith QArith List String Bool Lia.
From PV Require Import Model.Val Model.ESSelect Model.ESSrc gen.Src_es.
Import ListNotations.
Open Scope Z_scope.

(* ------------------------------------------------------------------ (a) mask *)

Lemma last_where_is_last_pos : forall w i acc, last_where_from CGt 0 i w acc = last_pos_from i w acc.
Proof. induction w as [|x w IH]; intros i acc; cbn [last_where_from last_pos_from cmpb]; auto. Qed.

Lemma sub_slice_is_dec_slice : forall w i lo hi, sub_slice i lo hi 1 w = dec_slice i lo hi w.
Proof. induction w as [|x w IH]; intros i lo hi; cbn [sub_slice dec_slice]; [reflexivity|]. rewrite IH. reflexivity. Qed.

Lemma dec0_maps : forall w, map (Z.max 0) (map (fun x => x - 1) w) = dec0 w.
Proof. intros w. unfold dec0. rewrite map_map. reflexivity. Qed.

Lemma cw_maps : forall a b, map (fun x => x + 1) (zip_with Z.sub a b) = zip_with (fun c x => c - x + 1) a b.
Proof. induction a as [|x a IH]; intros [|y b]; cbn [zip_with map]; try reflexivity. rewrite IH. reflexivity. Qed.

Definition env3 (w : list Z) (lamb : Z) : menv :=
  [("w"%string, MV w); ("lamb"%string, MZ lamb); ("nonzero"%string, MZ (count_pos w))].

Definition wh_a := SSub (SSum (VVar "w")) (SVar "lamb").
Definition wh_b := SVar "nonzero".
Definition wh_body := [ MSetV "w" (VMaxS (SLit 0) (VSubS (VVar "w") (SLit 1))); MSet "nonzero" (SCount CGt (VVar "w") 0) ].

Lemma wh_test : forall w lamb, cmpb CGt (evs (env3 w lamb) wh_a) (evs (env3 w lamb) wh_b) = (count_pos w <? zsum w - lamb).
Proof. reflexivity. Qed.

Lemma wh_step : forall w lamb, run_ss (env3 w lamb) wh_body = env3 (dec0 w) lamb.
Proof. intros w lamb. unfold env3. rewrite <- dec0_maps. reflexivity. Qed.

Lemma while_is_shrink : forall fuel w lamb,
  run_while fuel CGt wh_a wh_b wh_body (env3 w lamb) = env3 (shrink_loop fuel w lamb) lamb.
Proof.
  induction fuel as [|f IH]; intros w lamb; cbn [run_while shrink_loop]; [reflexivity|].
  rewrite wh_test. destruct (count_pos w <? zsum w - lamb); [|reflexivity].
  rewrite wh_step. apply IH.
Qed.

Lemma bits_row : forall ps l,
  map (fun p : Z * Z => if mem_z (fst p) ps then 1 else snd p) (combine l (repeat 0 (List.length l)))
  = map (fun j => if mem_z j ps then 1 else 0) l.
Proof. induction l as [|x l IH]; cbn [List.length repeat combine map fst snd]; [reflexivity|]. rewrite IH. reflexivity. Qed.

Lemma combine_app_eq : forall (A B : Type) (a a' : list A) (b b' : list B),
  List.length a = List.length b -> combine (a ++ a') (b ++ b') = (combine a b ++ combine a' b')%list.
Proof.
  induction a as [|x a IH]; intros a' [|y b] b' H; cbn in H; try discriminate; cbn [app combine]; [reflexivity|].
  f_equal. apply IH. injection H as H. exact H.
Qed.

Lemma bits_lemma : forall ps mx, 0 <= mx + 1 ->
  removelast (store_at (repeat 0 (Z.to_nat (mx + 1))) ps 1) = idx_bits ps mx.
Proof.
  intros ps mx H. unfold store_at, idx_bits, zrange. rewrite repeat_length, Nat2Z.id.
  destruct (Z.eq_dec (mx + 1) 0) as [E|E].
  - rewrite E. replace mx with (-1) by lia. reflexivity.
  - replace (Z.to_nat (mx + 1)) with (S (Z.to_nat mx)) by lia.
    set (m := Z.to_nat mx).
    rewrite seq_S, map_app. cbn [map Nat.add].
    replace (repeat 0 (S m)) with ((repeat 0 m ++ [0])%list) by (symmetry; apply (repeat_cons m 0)).
    rewrite combine_app_eq by (rewrite map_length, seq_length, repeat_length; reflexivity).
    rewrite map_app. cbn [combine map]. rewrite removelast_last.
    replace m with (List.length (map Z.of_nat (seq 0 m))) at 2 by (rewrite map_length, seq_length; reflexivity).
    apply bits_row.
Qed.

Theorem mask_model_prog : forall w0 lamb, run_mask model_mask w0 lamb = selection_mask w0 lamb.
Proof.
  intros w0 lamb. unfold run_mask, model_mask, selection_mask, shrink.
  set (fuel := S (Z.to_nat (pos_sum w0))).
  cbn [run_m].
  change (run_s [("w"%string, MV w0); ("lamb"%string, MZ lamb)] (MSet "nonzero" (SCount CGt (VVar "w") 0))) with (env3 w0 lamb).
  change (run_while fuel CGt (SSub (SSum (VVar "w")) (SVar "lamb")) (SVar "nonzero")
            [MSetV "w" (VMaxS (SLit 0) (VSubS (VVar "w") (SLit 1))); MSet "nonzero" (SCount CGt (VVar "w") 0)] (env3 w0 lamb))
    with (run_while fuel CGt wh_a wh_b wh_body (env3 w0 lamb)).
  rewrite while_is_shrink.
  set (w1 := shrink_loop fuel w0 lamb).
  unfold env3.
  change (evv (run_s [("w"%string, MV w1); ("lamb"%string, MZ lamb); ("nonzero"%string, MZ (count_pos w1))]
               (MSet "delta" (SSub (SSum (VVar "w")) (SVar "lamb")))) (VVar "w")) with w1.
  rewrite last_where_is_last_pos. unfold last_pos.
  destruct (last_pos_from 0 w1 None) as [lnz|]; [|reflexivity].
  cbn [run_m].
  set (delta := zsum w1 - lamb).
  match goal with |- context [zmax_list ?v] =>
    replace v with (cw_of (dec_slice 0 (Z.max 0 (lnz - delta + 1)) (lnz + 1) w1)) end.
  2:{ unfold cw_of. rewrite <- cw_maps, <- sub_slice_is_dec_slice. reflexivity. }
  set (cw := cw_of (dec_slice 0 (Z.max 0 (lnz - delta + 1)) (lnz + 1) w1)).
  destruct (zmax_list cw) as [mx|]; [|reflexivity].
  destruct (mx + 1 <? 0) eqn:Hneg; [reflexivity|].
  apply Z.ltb_ge in Hneg.
  cbn [run_m].
  match goal with |- context [norm_all ?len ?v] =>
    replace len with (mx + 1); [replace v with cw|] end.
  3:{ cbn. rewrite repeat_length. lia. }
  2:{ unfold cw, cw_of. rewrite <- cw_maps, <- sub_slice_is_dec_slice. reflexivity. }
  destruct (norm_all (mx + 1) cw) as [ps|]; [|reflexivity].
  cbn [run_m]. f_equal.
  transitivity (cumsum (removelast (store_at (repeat 0 (Z.to_nat (mx + 1))) ps 1))); [reflexivity|].
  rewrite bits_lemma by exact Hneg. reflexivity.
Qed.

(* ------------------------------------------------------------------ (b) generation step *)

Lemma gen_step_model : forall (row : Type) draws first lamb (st : es_state row) new,
  gen_step row model_gen draws first lamb st new = es_step row first lamb st new.
Proof.
  intros row draws first lamb st new. unfold gen_step, model_gen, es_step.
  cbn [fold_left].
  assert (E : run_g row first lamb draws
                [("u_new"%string, GRows row (map fst new)); ("z_new"%string, GZs row (map snd new));
                 ("us_candidates"%string, GRows row (usc st)); ("z_candidates"%string, GZs row (zc st));
                 ("us"%string, GRows row (us st)); ("z"%string, GZs row (zs st))] (GRandFill "z_new" "u_new")
              = [("u_new"%string, GRows row (map fst new)); ("z_new"%string, GZs row (map snd new));
                 ("us_candidates"%string, GRows row (usc st)); ("z_candidates"%string, GZs row (zc st));
                 ("us"%string, GRows row (us st)); ("z"%string, GZs row (zs st))]).
  { destruct new as [|p new]; reflexivity. }
  rewrite E. destruct first; reflexivity.
Qed.

Lemma gen_loop_model : forall (row : Type) draws lamb gens first (st : es_state row),
  gen_loop row model_gen draws first lamb st gens = es_loop row first lamb st gens.
Proof.
  intros row draws lamb. induction gens as [|g r IH]; intros first st; cbn [gen_loop es_loop]; [reflexivity|].
  rewrite gen_step_model. apply IH.
Qed.

Lemma gen_result_model : forall (row : Type) (st : es_state row), gen_result row model_ret st = es_result row st.
Proof.
  intros row [a b u z]. unfold gen_result, es_result, model_ret. cbn.
  destruct u as [|u0 u]; [reflexivity|]. destruct z as [|z0 z]; reflexivity.
Qed.

Theorem gen_run_model : forall (row : Type) draws lamb gens,
  gen_run row model_gen model_ret draws lamb gens = es_run row lamb gens.
Proof. intros. unfold gen_run, es_run. rewrite gen_loop_model. apply gen_result_model. Qed.

(* ------------------------------------------------------------------ (d) hedge *)

Lemma hedge_probs_model : forall e gamma, hedge_probs_src model_hedge e gamma = hedge_probs e gamma.
Proof. intros e gamma. unfold hedge_probs_src, hedge_probs, model_hedge. cbn. rewrite !map_map. reflexivity. Qed.

Lemma where_first : forall p rand acc i, hd_error (where_cum CLt rand acc i p) = first_below rand acc i p.
Proof.
  induction p as [|x p IH]; intros rand acc i; cbn [where_cum first_below]; [reflexivity|].
  destruct (Qle_bool (acc + x) rand); cbn [negb app]; [apply IH|reflexivity].
Qed.

Lemma hedge_choice_model : forall rand p, hedge_choice_src model_hedge rand p = hedge_choice rand p.
Proof. intros. unfold hedge_choice_src, hedge_choice, model_hedge. cbn [h_draw fst snd Z.eqb]. apply where_first. Qed.

Lemma class_model : forall name, class_of (h_classes model_hedge) name = model_class_of name.
Proof. intros name. unfold model_hedge, model_class_of. cbn [h_classes class_of]. rewrite (String.eqb_sym "ES-wcm" name), (String.eqb_sym "ES-ell" name). reflexivity. Qed.

(* ================================================================== the generated programs ARE the hand-written ones *)

Lemma src_mask_is_model : src_mask = model_mask. Proof. reflexivity. Qed.
Lemma src_mask_head_is_model : src_mask_head = model_mask_head. Proof. reflexivity. Qed.
Lemma src_gen_is_model : src_gen = model_gen. Proof. reflexivity. Qed.
Lemma src_ret_is_model : src_ret = model_ret. Proof. reflexivity. Qed.
Lemma src_hedge_is_model : src_hedge = model_hedge. Proof. reflexivity. Qed.

Theorem selection_mask_is_source : forall w0 lamb, selection_mask w0 lamb = run_mask src_mask w0 lamb.
Proof. intros. rewrite src_mask_is_model. symmetry. apply mask_model_prog. Qed.

Theorem mask_head_is_source : model_mask_head = src_mask_head.
Proof. reflexivity. Qed.

Theorem generation_step_is_source :
  (forall (row : Type) draws first lamb (st : es_state row) new,
      es_step row first lamb st new = gen_step row src_gen draws first lamb st new)
  /\ (forall (row : Type) draws lamb gens, es_run row lamb gens = gen_run row src_gen src_ret draws lamb gens)
  /\ model_calls = src_calls /\ model_call_binds = src_call_binds /\ model_book = src_book /\ model_order = src_order
  /\ model_loop_head = src_loop_head.
Proof.
  split; [|split].
  - intros. rewrite src_gen_is_model. symmetry. apply gen_step_model.
  - intros. rewrite src_gen_is_model, src_ret_is_model. symmetry. apply gen_run_model.
  - repeat split; reflexivity.
Qed.

Theorem init_is_source : model_init = src_init.
Proof. reflexivity. Qed.

Theorem hedge_choice_is_source :
  (forall e gamma, hedge_probs e gamma = hedge_probs_src src_hedge e gamma)
  /\ (forall rand p, hedge_choice rand p = hedge_choice_src src_hedge rand p)
  /\ (forall name, model_class_of name = class_of (h_classes src_hedge) name)
  /\ h_exp src_hedge = "np.exp(self.beta * (self.g - np.max(self.g)))"%string
  /\ h_pick src_hedge = "self.search_fcns[self.chosen_hedge.item()]"%string
  /\ h_ctor_args src_hedge = ["self.mu"; "self.lamb"; "self.options_dict"]%string
  /\ h_call_args src_hedge = ["u"; "lb"; "ub"; "func_logger"; "gp"; "optim_state"; "self.chosen_search_fun[1]"; "self.non_box_cons"]%string
  /\ model_hedge_rest = src_hedge_rest /\ model_hedge_init = src_hedge_init /\ model_update = src_update.
Proof.
  rewrite src_hedge_is_model. repeat split.
  - intros. symmetry. apply hedge_probs_model.
  - intros. symmetry. apply hedge_choice_model.
  - intros. symmetry. apply class_model.
Qed.

Lemma src_example :
  run_mask src_mask [2; 2; 1; 1; 1; 1; 1; 1; 1; 1; 1] 8 = MOk [0; 1; 1; 2; 2; 3; 4; 5; 6]
  /\ gen_run (list Q) src_gen src_ret [] 2
       [ [([1 # 1], Some (3 # 1)); ([2 # 1], Some (1 # 1))]; []; [([5 # 1], Some (1 # 2)); ([6 # 1], None)] ]%Q
     = ESPoint [5 # 1]%Q (Some (1 # 2)%Q)
  /\ hedge_choice_src src_hedge (1 # 2) [1 # 4; 1 # 2; 1 # 4]%Q = Some 1%nat
  /\ class_of (h_classes src_hedge) "ES-ell" = Some "ESSearchELL"%string.
Proof. repeat split; vm_compute; reflexivity. Qed.
