(* SeedingProofs.v — proofs about Model/Seeding.v (C07).  The generated table gen/Src_rng_sites.v
   is NOT imported here: these lemmas hold for every layout/leak flag; Props/C07.v instantiates them
   with what the scan of the current source produced. *)
From Coq Require Import ZArith List String Bool Lia.
From PV Require Import Model.Seeding.
Import ListNotations.
Open Scope Z_scope.

(* ------------------------------------------------------------------ the seed write is an overwrite *)

Lemma seed_write_stream : forall sd s, stream (seed_write (Some sd) s) = Some (sd, O).
Proof. intros sd s. reflexivity. Qed.

Lemma seed_write_overwrites :
  forall sd s s', stream (seed_write (Some sd) s) = stream (seed_write (Some sd) s').
Proof. intros. reflexivity. Qed.

Lemma rebind_stream : forall D s, stream (rebind_D D s) = stream s.
Proof. reflexivity. Qed.

Lemma touch_stream : forall g s, stream (touch g s) = stream s.
Proof. reflexivity. Qed.

Lemma draw1_stream_eq :
  forall s s', stream s = stream s' ->
    fst (draw1 s) = fst (draw1 s') /\ stream (snd (draw1 s)) = stream (snd (draw1 s')).
Proof.
  intros s s' H. unfold draw1. rewrite <- H.
  destruct (stream s) as [[sd k]|] eqn:E; cbn [fst snd stream]; split; try reflexivity.
  rewrite E. exact H.
Qed.

Lemma draw1_seeded :
  forall s sd k, stream s = Some (sd, k) ->
    fst (draw1 s) = Some (sd, k) /\ stream (snd (draw1 s)) = Some (sd, S k).
Proof. intros s sd k H. unfold draw1. rewrite H. cbn [fst snd stream]. auto. Qed.

Lemma drawn_seeded :
  forall n s sd k, stream s = Some (sd, k) -> stream (drawn n s) = Some (sd, (k + n)%nat).
Proof.
  induction n as [|n IH]; intros s sd k H; cbn [drawn].
  - rewrite H. f_equal. f_equal. lia.
  - destruct (draw1_seeded s sd k H) as [_ H2]. rewrite (IH _ _ _ H2). f_equal. f_equal. lia.
Qed.

(* ------------------------------------------------------------------ the draw loop reads only the stream *)

Lemma draw_loop_stream_only :
  forall beh i fuel seen s s', stream s = stream s' ->
    fst (draw_loop beh i fuel seen s) = fst (draw_loop beh i fuel seen s').
Proof.
  intros beh i fuel. induction fuel as [|f IH]; intros seen s s' H; cbn [draw_loop].
  - reflexivity.
  - destruct (beh i seen) eqn:B; [|reflexivity].
    destruct (draw1_stream_eq s s' H) as [H1 H2].
    destruct (draw1 s) as [d t] eqn:E1. destruct (draw1 s') as [d' t'] eqn:E2.
    cbn [fst snd] in H1, H2. subst d'. apply IH. exact H2.
Qed.

(* every draw of the loop is the next element of the seeded stream *)
Definition seeded_prefix (sd : Z) (l : list draw_id) : Prop :=
  forall k d, nth_error l k = Some d -> d = Some (sd, k).

Lemma seeded_prefix_app :
  forall sd l, seeded_prefix sd l -> seeded_prefix sd (l ++ [Some (sd, List.length l)]).
Proof.
  intros sd l H k d Hn.
  destruct (Nat.lt_ge_cases k (List.length l)) as [Hlt|Hge].
  - rewrite nth_error_app1 in Hn by exact Hlt. apply H. exact Hn.
  - rewrite nth_error_app2 in Hn by exact Hge.
    destruct (k - List.length l)%nat as [|j] eqn:Ej; cbn [nth_error] in Hn.
    + inversion Hn. f_equal. f_equal. lia.
    + destruct j; discriminate Hn.
Qed.

Lemma draw_loop_seeded :
  forall beh i sd fuel seen s,
    stream s = Some (sd, List.length seen) -> seeded_prefix sd seen ->
    seeded_prefix sd (fst (draw_loop beh i fuel seen s)).
Proof.
  intros beh i sd fuel. induction fuel as [|f IH]; intros seen s Hs Hp; cbn [draw_loop].
  - exact Hp.
  - destruct (beh i seen) eqn:B; [|exact Hp].
    destruct (draw1_seeded s sd _ Hs) as [H1 H2].
    destruct (draw1 s) as [d t] eqn:E1. cbn [fst snd] in H1, H2. subst d.
    apply IH.
    + rewrite H2. rewrite app_length. cbn [List.length]. f_equal. f_equal. lia.
    + apply seeded_prefix_app. exact Hp.
Qed.

(* ------------------------------------------------------------------ construction *)

Lemma layout_ok_fields :
  forall L, layout_ok L = true ->
    l_ctor_seed_first L = true /\ l_opt_reseed_first L = true /\ l_seed_from_option L = true /\
    l_rebind_before_eval L = true /\ l_no_lazy_global L = true.
Proof.
  intros L H. unfold layout_ok in H.
  repeat (apply andb_true_iff in H; destruct H as [H ?]). auto.
Qed.

(* With a seed, what construction leaves behind and remembers does not depend on the state it
   started from. *)
Lemma construct_seeded :
  forall L sd D x0g s, layout_ok L = true ->
    fst (construct L false (Some sd) D x0g s) =
      mk_inst (Some sd) D (if x0g then X0Given else X0Drawn (Some (sd, O))) (Some D) None.
Proof.
  intros L sd D x0g s HL.
  destruct (layout_ok_fields L HL) as (H1 & _ & H3 & H4 & _).
  unfold construct. rewrite H1, H3, H4.
  destruct x0g; reflexivity.
Qed.

Lemma construct_x0 :
  forall L leaks sd D s,
    l_ctor_seed_first L = true -> l_seed_from_option L = true ->
    i_x0 (fst (construct L leaks (Some sd) D false s)) = X0Drawn (Some (sd, O)).
Proof.
  intros L leaks sd D s H1 H3. unfold construct. rewrite H1, H3. reflexivity.
Qed.

(* ------------------------------------------------------------------ optimisation *)

Lemma optimize_seeded_indep :
  forall L beh fuel i sd s s', layout_ok L = true -> i_seed i = Some sd ->
    fst (optimize L false beh fuel i s) = fst (optimize L false beh fuel i s').
Proof.
  intros L beh fuel i sd s s' HL Hi.
  destruct (layout_ok_fields L HL) as (_ & H2 & H3 & _ & H5).
  unfold optimize. rewrite H2, H3, H5, Hi.
  pose proof (draw_loop_stream_only beh i fuel [] (seed_write (Some sd) s) (seed_write (Some sd) s')
                (seed_write_overwrites sd s s')) as E.
  destruct (draw_loop beh i fuel [] (seed_write (Some sd) s)) as [ds t].
  destruct (draw_loop beh i fuel [] (seed_write (Some sd) s')) as [ds' t'].
  cbn [fst] in E |- *. subst ds'. reflexivity.
Qed.

Lemma optimize_draws_seeded :
  forall L leaks beh fuel i sd s,
    l_opt_reseed_first L = true -> l_seed_from_option L = true -> i_seed i = Some sd ->
    seeded_prefix sd (o_draws (fst (optimize L leaks beh fuel i s))).
Proof.
  intros L leaks beh fuel i sd s H2 H3 Hi. unfold optimize. rewrite H2, H3, Hi.
  pose proof (draw_loop_seeded beh i sd fuel [] (seed_write (Some sd) s)
                (seed_write_stream sd s)) as E.
  destruct (draw_loop beh i fuel [] (seed_write (Some sd) s)) as [ds t].
  cbn [fst o_draws] in E |- *. apply E. intros k d Hn. destruct k; discriminate Hn.
Qed.

(* ------------------------------------------------------------------ the main theorem *)

Theorem history_independent :
  forall (L : layout), layout_ok L = true ->
  forall (s0 s0' : pstate) (h1 h2 m1 m2 : list fop) (sd D : Z) (x0g : bool)
         (beh : inst -> list draw_id -> bool) (fuel : nat),
    observe L false s0 h1 (Some sd) D x0g m1 beh fuel =
    observe L false s0' h2 (Some sd) D x0g m2 beh fuel.
Proof.
  intros L HL s0 s0' h1 h2 m1 m2 sd D x0g beh fuel. unfold observe.
  pose proof (construct_seeded L sd D x0g (run_foreign s0 h1) HL) as C1.
  pose proof (construct_seeded L sd D x0g (run_foreign s0' h2) HL) as C2.
  destruct (construct L false (Some sd) D x0g (run_foreign s0 h1)) as [i1 t1].
  destruct (construct L false (Some sd) D x0g (run_foreign s0' h2)) as [i2 t2].
  cbn [fst] in C1, C2. subst i1 i2.
  set (i := mk_inst (Some sd) D (if x0g then X0Given else X0Drawn (Some (sd, O))) (Some D) None).
  pose proof (optimize_seeded_indep L beh fuel i sd (run_foreign t1 m1) (run_foreign t2 m2) HL eq_refl) as O.
  destruct (optimize L false beh fuel i (run_foreign t1 m1)) as [o1 u1].
  destruct (optimize L false beh fuel i (run_foreign t2 m2)) as [o2 u2].
  cbn [fst] in O. subst o2. reflexivity.
Qed.

(* instantiated with a scan result: layout and site table as premises that are decided by computation *)
Corollary history_independent_of_scan :
  forall (L : layout) (sites : list site),
    layout_ok L = true -> forallb allowed_site sites = true ->
  forall s0 s0' h1 h2 m1 m2 sd D x0g beh fuel,
    observe L (leaks_of sites) s0 h1 (Some sd) D x0g m1 beh fuel =
    observe L (leaks_of sites) s0' h2 (Some sd) D x0g m2 beh fuel.
Proof.
  intros L sites HL HS. unfold leaks_of. rewrite HS. cbn [negb].
  apply history_independent. exact HL.
Qed.

Theorem x0_draw_independent :
  forall (L : layout) (leaks : bool),
    l_ctor_seed_first L = true -> l_seed_from_option L = true ->
  forall (s0 : pstate) (h : list fop) (sd D : Z),
    i_x0 (fst (construct L leaks (Some sd) D false (run_foreign s0 h))) = X0Drawn (Some (sd, O)).
Proof. intros L leaks H1 H3 s0 h sd D. apply construct_x0; assumption. Qed.

Theorem optimize_draws_are_the_seeded_stream :
  forall (L : layout) (leaks : bool),
    l_opt_reseed_first L = true -> l_seed_from_option L = true ->
  forall s0 h sd D x0g m beh fuel k d,
    nth_error (o_draws (snd (observe L leaks s0 h (Some sd) D x0g m beh fuel))) k = Some d ->
    d = Some (sd, k).
Proof.
  intros L leaks H2 H3 s0 h sd D x0g m beh fuel k d. unfold observe.
  destruct (construct L leaks (Some sd) D x0g (run_foreign s0 h)) as [i t] eqn:EC.
  assert (Hi : i_seed i = Some sd).
  { pose proof (f_equal fst EC) as F. cbn [fst] in F. rewrite <- F. unfold construct.
    destruct x0g; [reflexivity|].
    destruct (l_ctor_seed_first L).
    - destruct (draw1 _); reflexivity.
    - destruct (draw1 _); reflexivity. }
  pose proof (optimize_draws_seeded L leaks beh fuel i sd (run_foreign t m) H2 H3 Hi) as P.
  destruct (optimize L leaks beh fuel i (run_foreign t m)) as [o u].
  cbn [fst snd] in P |- *. apply P.
Qed.

(* the quantification over all start states is not stronger than over all histories:
   every seeded stream position is reached by a foreign history from a fresh interpreter *)
Lemma foreign_reaches_any_stream :
  forall sd k, stream (run_foreign fresh [ForeignSeed sd; ForeignDraw k]) = Some (sd, k).
Proof.
  intros sd k. unfold run_foreign. cbn [fold_left fstep].
  rewrite (drawn_seeded k _ sd O (seed_write_stream sd fresh)). reflexivity.
Qed.

(* ------------------------------------------------------------------ necessity of each premise *)

Definition two_draws : inst -> list draw_id -> bool := fun _ seen => (List.length seen <? 2)%nat.

(* no seed given: the run depends on the history *)
Lemma unseeded_refuted :
  exists (h1 h2 : list fop) (D : Z) (x0g : bool) (beh : inst -> list draw_id -> bool) (fuel : nat),
    observe good_layout false fresh h1 None D x0g [] beh fuel <>
    observe good_layout false fresh h2 None D x0g [] beh fuel.
Proof.
  exists [ForeignSeed 1], [ForeignSeed 1; ForeignDraw 3], 2, false, two_draws, 5%nat.
  intro H. vm_compute in H. discriminate H.
Qed.

(* the re-seed at the start of optimize() removed: foreign draws BETWEEN construction and
   optimisation change the run *)
Lemma no_reseed_refuted :
  exists (m1 m2 : list fop) (sd D : Z) (beh : inst -> list draw_id -> bool) (fuel : nat),
    observe (mk_layout true false true true true) false fresh [] (Some sd) D true m1 beh fuel <>
    observe (mk_layout true false true true true) false fresh [] (Some sd) D true m2 beh fuel.
Proof.
  exists [], [ForeignDraw 1], 7, 2, two_draws, 5%nat.
  intro H. vm_compute in H. discriminate H.
Qed.

(* the constructor seeding AFTER the random x0: the starting point depends on the history *)
Lemma seed_after_x0_refuted :
  exists (h1 h2 : list fop) (sd D : Z),
    i_x0 (fst (observe (mk_layout false true true true true) false fresh h1 (Some sd) D false [] two_draws 5)) <>
    i_x0 (fst (observe (mk_layout false true true true true) false fresh h2 (Some sd) D false [] two_draws 5)).
Proof.
  exists [ForeignSeed 1], [ForeignSeed 2], 7, 2.
  intro H. vm_compute in H. discriminate H.
Qed.

(* defaults evaluated without re-binding D first (e.g. served from a module-level cache):
   the defaults are those of whatever problem was loaded before *)
Lemma stale_D_refuted :
  exists (h1 h2 : list fop) (sd D : Z),
    observe (mk_layout true true true false true) false fresh h1 (Some sd) D true [] two_draws 5 <>
    observe (mk_layout true true true false true) false fresh h2 (Some sd) D true [] two_draws 5.
Proof.
  exists [ForeignConstruct 5 None true 0], [ForeignConstruct 3 None true 0], 7, 2.
  intro H. vm_compute in H. discriminate H.
Qed.

(* a default that reads the module global lazily: constructions interleaved between construct
   and optimize change what it reads *)
Lemma lazy_global_refuted :
  exists (m1 m2 : list fop) (sd D : Z),
    observe (mk_layout true true true true false) false fresh [] (Some sd) D true m1 two_draws 5 <>
    observe (mk_layout true true true true false) false fresh [] (Some sd) D true m2 two_draws 5.
Proof.
  exists [], [ForeignConstruct 5 (Some 1) false 0], 7, 2.
  intro H. vm_compute in H. discriminate H.
Qed.

(* a site outside the allowed classes (unseeded generator, module-level cache, hash-derived seed):
   the run can depend on any other process state *)
Lemma leak_refuted :
  exists (h1 h2 : list fop) (sd D : Z),
    observe good_layout true fresh h1 (Some sd) D true [] two_draws 5 <>
    observe good_layout true fresh h2 (Some sd) D true [] two_draws 5.
Proof.
  exists [ForeignTouch 1], [ForeignTouch 2], 7, 2.
  intro H. vm_compute in H. discriminate H.
Qed.

(* non-vacuity: a concrete non-trivial pair of histories, evaluated *)
Lemma example_histories :
  observe good_layout false fresh
    [ForeignOptimize None 13 4; ForeignConstruct 5 (Some 3) false 1; ForeignDraw 17]
    (Some 42) 2 false
    [ForeignConstruct 1 None false 9; ForeignSeed 8; ForeignOptimize (Some 5) 100 2]
    two_draws 10
  = (mk_inst (Some 42) 2 (X0Drawn (Some (42, O))) (Some 2) None,
     mk_opt_obs [Some (42, O); Some (42, 1%nat)] None None).
Proof. vm_compute. reflexivity. Qed.
