(* LoggerProofs.v — every proof behind Props/C12.v.
   Concrete model: Model/Logger.v; abstract spec and relation: Model/LoggerSpec.v. *)
From Coq Require Import ZArith QArith Qabs List String Bool Lia Lqa Arith.
From PV Require Import Model.Val Model.Logger Model.LoggerSpec.
Import ListNotations.
Open Scope Z_scope.

Local Notation px x := (fun r : row => qlist_eqb (r_x r) x).
Local Notation tau_some := (fun r : row => r_tau r <> None).

(* ================================================================== *)
(* 1. equality of points                                               *)
(* ================================================================== *)
Lemma qlist_eqb_sym : forall a b, qlist_eqb a b = true -> qlist_eqb b a = true.
Proof.
  induction a as [|x a IH]; intros [|y b] H; cbn [qlist_eqb] in *; try discriminate; auto.
  apply andb_true_iff in H. destruct H as [H1 H2]. apply andb_true_iff.
  split; [apply Qeq_bool_sym; exact H1 | apply IH; exact H2].
Qed.

Lemma qlist_eqb_trans : forall a b c,
  qlist_eqb a b = true -> qlist_eqb b c = true -> qlist_eqb a c = true.
Proof.
  induction a as [|x a IH]; intros [|y b] [|z c] H1 H2; cbn [qlist_eqb] in *; try discriminate; auto.
  apply andb_true_iff in H1. apply andb_true_iff in H2.
  destruct H1 as [A1 A2]. destruct H2 as [B1 B2].
  apply andb_true_iff; split; [eapply Qeq_bool_trans; eauto | eapply IH; eauto].
Qed.

(* ================================================================== *)
(* 2. generic list facts: update_nth, find_first, find_last            *)
(* ================================================================== *)
Lemma nth_error_update_nth {A} (f : A -> A) : forall l i j,
  nth_error (update_nth i f l) j =
  if Nat.eqb i j then option_map f (nth_error l j) else nth_error l j.
Proof.
  induction l as [|a l IH]; intros [|i] [|j]; cbn [update_nth nth_error Nat.eqb option_map]; auto.
  destruct (Nat.eqb i j); reflexivity.
Qed.

Lemma nth_error_update_other {A} (f : A -> A) l i j :
  i <> j -> nth_error (update_nth i f l) j = nth_error l j.
Proof.
  intros H. rewrite nth_error_update_nth. apply Nat.eqb_neq in H. rewrite H. reflexivity.
Qed.

Lemma nth_error_update_inv {A} (f : A -> A) l i j r' :
  nth_error (update_nth i f l) j = Some r' ->
  exists r, nth_error l j = Some r /\ (r' = r \/ (r' = f r /\ i = j)).
Proof.
  rewrite nth_error_update_nth. destruct (Nat.eqb i j) eqn:E; intros H.
  - apply Nat.eqb_eq in E. destruct (nth_error l j) as [r|]; cbn [option_map] in H; [|discriminate].
    exists r. split; [reflexivity|]. right. split; [congruence | exact E].
  - exists r'. split; [exact H | left; reflexivity].
Qed.

Lemma nth_error_update_fwd {A} (f : A -> A) l i j r :
  nth_error l j = Some r ->
  nth_error (update_nth i f l) j = Some (if Nat.eqb i j then f r else r).
Proof.
  intros H. rewrite nth_error_update_nth, H. destruct (Nat.eqb i j); reflexivity.
Qed.

Lemma Forall_update_nth {A} (P : A -> Prop) (f : A -> A) :
  (forall a, P a -> P (f a)) -> forall l i, Forall P l -> Forall P (update_nth i f l).
Proof.
  intros Hf; induction l as [|a l IH]; intros [|i] H; cbn [update_nth]; auto;
    inversion H as [|a0 l0 Ha Hl]; subst; constructor; auto.
Qed.

Lemma find_first_shift {A} (p : A -> bool) : forall l k,
  find_first p l (S k) = option_map S (find_first p l k).
Proof.
  induction l as [|a l IH]; intros k; cbn [find_first]; [reflexivity|].
  destruct (p a); [reflexivity | apply IH].
Qed.

Lemma find_first_cons {A} (p : A -> bool) a l :
  find_first p (a :: l) 0 = if p a then Some 0%nat else option_map S (find_first p l 0).
Proof. cbn [find_first]. rewrite find_first_shift. reflexivity. Qed.

Lemma find_first_nth {A} (p : A -> bool) : forall l i,
  find_first p l 0 = Some i -> exists r, nth_error l i = Some r /\ p r = true.
Proof.
  induction l as [|a l IH]; intros i H.
  - discriminate.
  - rewrite find_first_cons in H. destruct (p a) eqn:E.
    + inversion H; subst. exists a; split; auto.
    + destruct (find_first p l 0) as [j|] eqn:F; cbn [option_map] in H; [|discriminate].
      inversion H; subst. destruct (IH j eq_refl) as (r & Hr & Hp). exists r. split; auto.
Qed.

Lemma find_first_none {A} (p : A -> bool) : forall l,
  find_first p l 0 = None -> existsb p l = false.
Proof.
  induction l as [|a l IH]; intros H; [reflexivity|].
  rewrite find_first_cons in H. cbn [existsb]. destruct (p a); [discriminate|].
  destruct (find_first p l 0); [discriminate|]. cbn [orb]. apply IH; reflexivity.
Qed.

Lemma find_last_gen {A} (p : A -> bool) : forall l i acc,
  find_last p l i acc =
  match find_last p l 0 None with Some j => Some (i + j)%nat | None => acc end.
Proof.
  induction l as [|a l IH]; intros i acc; cbn [find_last].
  - reflexivity.
  - rewrite (IH (S i)). rewrite (IH 1%nat (if p a then Some 0%nat else None)).
    destruct (find_last p l 0 None) as [j|].
    + f_equal; lia.
    + destruct (p a); [f_equal; lia | reflexivity].
Qed.

Lemma find_last_cons {A} (p : A -> bool) a l :
  find_last p (a :: l) 0 None =
  match find_last p l 0 None with
  | Some j => Some (S j)
  | None => if p a then Some 0%nat else None
  end.
Proof.
  cbn [find_last]. rewrite find_last_gen. destruct (find_last p l 0 None); reflexivity.
Qed.

Lemma find_last_existsb {A} (p : A -> bool) : forall l,
  existsb p l = match find_last p l 0 None with Some _ => true | None => false end.
Proof.
  induction l as [|a l IH]; [reflexivity|].
  rewrite find_last_cons. cbn [existsb]. rewrite IH.
  destruct (find_last p l 0 None); [apply orb_true_r|]. destruct (p a); reflexivity.
Qed.

Lemma find_last_nth {A} (p : A -> bool) : forall l i,
  find_last p l 0 None = Some i -> exists r, nth_error l i = Some r /\ p r = true.
Proof.
  induction l as [|a l IH]; intros i H.
  - discriminate.
  - rewrite find_last_cons in H. destruct (find_last p l 0 None) as [j|] eqn:F.
    + inversion H; subst. destruct (IH j eq_refl) as (r & Hr & Hp). exists r. split; auto.
    + destruct (p a) eqn:E; [|discriminate]. inversion H; subst. exists a. split; auto.
Qed.

Lemma existsb_rev {A} (p : A -> bool) : forall l, existsb p (rev l) = existsb p l.
Proof.
  induction l as [|a l IH]; [reflexivity|].
  cbn [rev existsb]. rewrite existsb_app, IH. cbn [existsb]. rewrite orb_false_r. apply orb_comm.
Qed.

Lemma filter_none {A} (p : A -> bool) : forall l,
  (forall a, In a l -> p a = false) -> filter p l = [].
Proof.
  induction l as [|a l IH]; intros H; [reflexivity|].
  cbn [filter]. rewrite (H a (or_introl eq_refl)). apply IH. intros b Hb. apply H. right. exact Hb.
Qed.

Lemma Forall2_nth {A B} (R : A -> B -> Prop) : forall l1 l2, Forall2 R l1 l2 ->
  forall i a b, nth_error l1 i = Some a -> nth_error l2 i = Some b -> R a b.
Proof.
  induction 1 as [|x y l1 l2 Hxy Hrest IH]; intros [|i] a b Ha Hb; cbn [nth_error] in *;
    try discriminate.
  - inversion Ha; inversion Hb; subst; exact Hxy.
  - eapply IH; eauto.
Qed.

(* ================================================================== *)
(* 3. the abstract update functions                                    *)
(* ================================================================== *)
Lemma upd_first_app x f : forall l1 l2,
  upd_first x f (l1 ++ l2) =
  if existsb (at_x x) l1 then upd_first x f l1 ++ l2 else l1 ++ upd_first x f l2.
Proof.
  induction l1 as [|a l1 IH]; intros l2; [reflexivity|].
  cbn [app upd_first existsb]. destruct (at_x x a); cbn [orb]; [reflexivity|].
  rewrite IH. destruct (existsb (at_x x) l1); reflexivity.
Qed.

Lemma upd_first_noex x f : forall l, existsb (at_x x) l = false -> upd_first x f l = l.
Proof.
  induction l as [|a l IH]; intros H; [reflexivity|].
  cbn [existsb] in H. apply orb_false_iff in H. destruct H as [H1 H2].
  cbn [upd_first]. rewrite H1, (IH H2). reflexivity.
Qed.

Lemma upd_last_cons x f a l :
  upd_last x f (a :: l) =
  if existsb (at_x x) l then a :: upd_last x f l else (if at_x x a then f a else a) :: l.
Proof.
  unfold upd_last. cbn [rev]. rewrite upd_first_app, existsb_rev.
  destruct (existsb (at_x x) l).
  - rewrite rev_app_distr. reflexivity.
  - rewrite rev_app_distr, rev_involutive. cbn [upd_first]. destruct (at_x x a); reflexivity.
Qed.

Lemma upd_last_noex x f l : existsb (at_x x) l = false -> upd_last x f l = l.
Proof.
  intros H. unfold upd_last. rewrite upd_first_noex; [apply rev_involutive|].
  rewrite existsb_rev. exact H.
Qed.

Lemma upd_first_nth x f : forall l i r, nth_error l i = Some r ->
  exists r', nth_error (upd_first x f l) i = Some r' /\ (r' = r \/ (r' = f r /\ at_x x r = true)).
Proof.
  induction l as [|a l IH]; intros [|i] r H; cbn [nth_error] in H; try discriminate.
  - inversion H; subst a. cbn [upd_first]. destruct (at_x x r) eqn:E; cbn [nth_error].
    + exists (f r). split; auto.
    + exists r. split; auto.
  - cbn [upd_first]. destruct (at_x x a); cbn [nth_error].
    + exists r. split; auto.
    + apply IH. exact H.
Qed.

Lemma upd_last_nth x f : forall l i r, nth_error l i = Some r ->
  exists r', nth_error (upd_last x f l) i = Some r' /\ (r' = r \/ (r' = f r /\ at_x x r = true)).
Proof.
  induction l as [|a l IH]; intros [|i] r H; cbn [nth_error] in H; try discriminate.
  - inversion H; subst a. rewrite upd_last_cons. destruct (existsb (at_x x) l); cbn [nth_error].
    + exists r. split; auto.
    + destruct (at_x x r) eqn:E; [exists (f r) | exists r]; split; auto.
  - rewrite upd_last_cons. destruct (existsb (at_x x) l); cbn [nth_error].
    + apply IH. exact H.
    + exists r. split; auto.
Qed.

(* ================================================================== *)
(* 4. precisions and their sums                                        *)
(* ================================================================== *)
Lemma sd_ok_pos q : sd_ok (Some q) = true -> (0 < q)%Q.
Proof.
  unfold sd_ok. intros H. apply negb_true_iff in H.
  apply Qnot_le_lt. intros Hle. apply Qle_bool_iff in Hle. congruence.
Qed.

Lemma qinv2_pos sd : (0 < sd)%Q -> (0 < qinv2 sd)%Q.
Proof.
  intros H. unfold qinv2. rewrite Qred_correct. apply Qinv_lt_0_compat.
  apply Qmult_lt_0_compat; exact H.
Qed.

Definition obs_pos (obs : list (Q * option Q)) : Prop :=
  forall o, In o obs -> exists sd, snd o = Some sd /\ (0 < sd)%Q.

Lemma sum_tau_cons_some y sd obs : sum_tau ((y, Some sd) :: obs) = (qinv2 sd + sum_tau obs)%Q.
Proof. reflexivity. Qed.
Lemma sum_wy_cons_some y sd obs : sum_wy ((y, Some sd) :: obs) = (qinv2 sd * y + sum_wy obs)%Q.
Proof. reflexivity. Qed.
Lemma sum_tau_cons_none y obs : sum_tau ((y, None) :: obs) = sum_tau obs.
Proof. reflexivity. Qed.
Lemma sum_wy_cons_none y obs : sum_wy ((y, None) :: obs) = sum_wy obs.
Proof. reflexivity. Qed.

Lemma sum_tau_app obs y sd : (sum_tau (obs ++ [(y, Some sd)]) == sum_tau obs + qinv2 sd)%Q.
Proof.
  induction obs as [|[y0 [sd0|]] obs IH]; cbn [app].
  - rewrite sum_tau_cons_some. unfold sum_tau at 1 2. cbn [fold_right]. ring.
  - rewrite !sum_tau_cons_some, IH. ring.
  - rewrite !sum_tau_cons_none. exact IH.
Qed.

Lemma sum_wy_app obs y sd : (sum_wy (obs ++ [(y, Some sd)]) == sum_wy obs + qinv2 sd * y)%Q.
Proof.
  induction obs as [|[y0 [sd0|]] obs IH]; cbn [app].
  - rewrite sum_wy_cons_some. unfold sum_wy at 1 2. cbn [fold_right]. ring.
  - rewrite !sum_wy_cons_some, IH. ring.
  - rewrite !sum_wy_cons_none. exact IH.
Qed.

Lemma sum_tau_nonneg : forall obs, obs_pos obs -> (0 <= sum_tau obs)%Q.
Proof.
  induction obs as [|[y0 sd0] obs IH]; intros H.
  - unfold sum_tau; cbn [fold_right]. apply Qle_refl.
  - assert (Ht : obs_pos obs) by (intros o Ho; apply H; right; exact Ho).
    destruct (H (y0, sd0) (or_introl eq_refl)) as (sd & Hsd & Hpos). cbn [snd] in Hsd. subst sd0.
    rewrite sum_tau_cons_some. pose proof (qinv2_pos sd Hpos). pose proof (IH Ht). lra.
Qed.

Lemma sum_tau_pos : forall obs, obs <> [] -> obs_pos obs -> (0 < sum_tau obs)%Q.
Proof.
  intros [|[y0 sd0] obs] Hne H; [congruence|].
  assert (Ht : obs_pos obs) by (intros o Ho; apply H; right; exact Ho).
  destruct (H (y0, sd0) (or_introl eq_refl)) as (sd & Hsd & Hpos). cbn [snd] in Hsd. subst sd0.
  rewrite sum_tau_cons_some. pose proof (qinv2_pos sd Hpos). pose proof (sum_tau_nonneg obs Ht). lra.
Qed.

(* ================================================================== *)
(* 5. the abstraction relation: introduction / elimination             *)
(* ================================================================== *)
Lemma row_rep_x r a : row_rep r a -> r_x r = a_x a.
Proof. intros (_ & H & _). exact H. Qed.

Lemma px_at r a x : row_rep r a -> qlist_eqb (r_x r) x = at_x x a.
Proof. intros H. unfold at_x. rewrite (row_rep_x _ _ H). reflexivity. Qed.

Lemma row_rep_some_intro r a y0 sd0 rest t :
  r_xo r = a_xo a -> r_x r = a_x a ->
  r_n r = Z.of_nat (List.length (a_obs a)) + a_hits a ->
  a_obs a = (y0, Some sd0) :: rest -> r_yo r = y0 -> obs_pos (a_obs a) ->
  r_tau r = Some t -> (t == sum_tau (a_obs a))%Q ->
  (r_y r * sum_tau (a_obs a) == sum_wy (a_obs a))%Q ->
  row_rep r a.
Proof.
  intros H1 H2 H3 Ho H4 H5 H6 H7 H8. unfold row_rep.
  split; [exact H1|]. split; [exact H2|]. split; [exact H3|].
  unfold obs_pos in H5. rewrite Ho in *. split; [exact H4|]. split; [exact H5|].
  exists t. split; [exact H6|]. split; [exact H7 | exact H8].
Qed.

Lemma row_rep_some_elim r a : row_rep r a -> r_tau r <> None ->
  r_xo r = a_xo a /\ r_x r = a_x a /\
  r_n r = Z.of_nat (List.length (a_obs a)) + a_hits a /\
  exists y0 sd0 rest t,
    a_obs a = (y0, Some sd0) :: rest /\ r_yo r = y0 /\ obs_pos (a_obs a) /\
    r_tau r = Some t /\ (t == sum_tau (a_obs a))%Q /\
    (r_y r * sum_tau (a_obs a) == sum_wy (a_obs a))%Q.
Proof.
  intros (H1 & H2 & H3 & H4) Hne.
  split; [exact H1|]. split; [exact H2|]. split; [exact H3|].
  unfold obs_pos. destruct (a_obs a) as [|[y0 [sd0|]] rest] eqn:Eo; [contradiction| |].
  - destruct H4 as (Hy & Hall & t & Ht & Hts & Hry).
    exists y0, sd0, rest, t. split; [reflexivity|]. repeat (split; [assumption|]). assumption.
  - destruct H4 as (_ & _ & _ & Ht). contradiction.
Qed.

Lemma row_rep_hit r a : row_rep r a ->
  row_rep (mkRow (r_xo r) (r_x r) (r_yo r) (r_y r) (r_tau r) (r_n r + 1)) (add_hit a).
Proof.
  unfold row_rep, add_hit. cbn [r_xo r_x r_yo r_y r_tau r_n a_xo a_x a_obs a_hits].
  intros (H1 & H2 & H3 & H4).
  split; [exact H1|]. split; [exact H2|]. split; [lia | exact H4].
Qed.

Lemma row_rep_new_none x xo y :
  row_rep (mkRow xo x y y None 1) (mkA xo x [(y, None)] 0).
Proof.
  unfold row_rep. cbn [r_xo r_x r_yo r_y r_tau r_n a_xo a_x a_obs a_hits List.length].
  repeat split; reflexivity.
Qed.

Lemma row_rep_new_some x xo y sd : (0 < sd)%Q ->
  row_rep (mkRow xo x y y (Some (qinv2 sd)) 1) (mkA xo x [(y, Some sd)] 0).
Proof.
  intros Hpos.
  apply (row_rep_some_intro _ _ y sd [] (qinv2 sd));
    cbn [r_xo r_x r_yo r_y r_tau r_n a_xo a_x a_obs a_hits List.length]; try reflexivity.
  - intros o [Ho|[]]. subst o. exists sd. split; [reflexivity | exact Hpos].
  - rewrite sum_tau_cons_some. unfold sum_tau. cbn [fold_right]. ring.
  - rewrite sum_tau_cons_some, sum_wy_cons_some. unfold sum_tau, sum_wy. cbn [fold_right]. ring.
Qed.

Lemma row_rep_merge r a fv sd : row_rep r a -> r_tau r <> None -> (0 < sd)%Q ->
  row_rep (merge_row fv sd r) (add_obs fv (Some sd) a).
Proof.
  intros Hrep Hne Hpos.
  destruct (row_rep_some_elim _ _ Hrep Hne) as
    (H1 & H2 & H3 & y0 & sd0 & rest & t & Ho & Hy & Hall & Ht & Hts & Hry).
  assert (Hne' : a_obs a <> []) by (rewrite Ho; discriminate).
  pose proof (sum_tau_pos _ Hne' Hall) as HS.
  pose proof (qinv2_pos sd Hpos) as Ht1.
  unfold merge_row. rewrite Ht.
  apply (row_rep_some_intro _ _ y0 sd0 (rest ++ [(fv, Some sd)]) (Qred (t + qinv2 sd)));
    unfold add_obs; cbn [r_xo r_x r_yo r_y r_tau r_n a_xo a_x a_obs a_hits]; try assumption;
    try reflexivity.
  - rewrite app_length. cbn [List.length]. lia.
  - rewrite Ho. reflexivity.
  - intros o Ho'. apply in_app_or in Ho'. destruct Ho' as [Ho'|[Ho'|[]]]; [apply Hall; exact Ho'|].
    subst o. exists sd. split; [reflexivity | exact Hpos].
  - rewrite Qred_correct, sum_tau_app, Hts. reflexivity.
  - rewrite Qred_correct, sum_tau_app, sum_wy_app. rewrite <- Hry. rewrite <- Hts.
    rewrite <- Hts in HS. field. lra.
Qed.

(* ================================================================== *)
(* 6. lists of rows vs lists of records                                *)
(* ================================================================== *)
Lemma existsb_rep x : forall rs l, Forall2 row_rep rs l ->
  existsb (px x) rs = existsb (at_x x) l.
Proof.
  induction 1 as [|r a rs l Hra Hrest IH]; [reflexivity|].
  cbn [existsb]. rewrite IH, (px_at _ _ x Hra). reflexivity.
Qed.

Lemma count_rep x : forall rs l, Forall2 row_rep rs l ->
  List.length (filter (px x) rs) = List.length (filter (at_x x) l).
Proof.
  induction 1 as [|r a rs l Hra Hrest IH]; [reflexivity|].
  cbn [filter]. rewrite (px_at _ _ x Hra). destruct (at_x x a); cbn [List.length]; rewrite IH; reflexivity.
Qed.

Lemma upd_first_rep x f g : forall rs l, Forall2 row_rep rs l ->
  forall i, find_first (px x) rs 0 = Some i ->
  exists r a, nth_error rs i = Some r /\ row_rep r a /\
    (row_rep (f r) (g a) -> Forall2 row_rep (update_nth i f rs) (upd_first x g l)).
Proof.
  induction 1 as [|r a rs l Hra Hrest IH]; intros i Hi.
  - discriminate.
  - rewrite find_first_cons in Hi. cbn [upd_first]. rewrite <- (px_at _ _ x Hra).
    destruct (qlist_eqb (r_x r) x) eqn:E.
    + inversion Hi; subst i. exists r, a. cbn [nth_error update_nth].
      split; [reflexivity|]. split; [exact Hra|]. intros Hfg. constructor; assumption.
    + destruct (find_first (px x) rs 0) as [j|] eqn:F; cbn [option_map] in Hi; [|discriminate].
      inversion Hi; subst i. destruct (IH j eq_refl) as (r0 & a0 & K1 & K2 & K3).
      exists r0, a0. cbn [nth_error update_nth].
      split; [exact K1|]. split; [exact K2|]. intros Hfg. constructor; [exact Hra | apply K3; exact Hfg].
Qed.

Lemma upd_last_rep x f g : forall rs l, Forall2 row_rep rs l ->
  forall i, find_last (px x) rs 0 None = Some i ->
  exists r a, nth_error rs i = Some r /\ row_rep r a /\
    (row_rep (f r) (g a) -> Forall2 row_rep (update_nth i f rs) (upd_last x g l)).
Proof.
  induction 1 as [|r a rs l Hra Hrest IH]; intros i Hi.
  - discriminate.
  - rewrite find_last_cons in Hi. rewrite upd_last_cons.
    rewrite <- (existsb_rep x _ _ Hrest), (find_last_existsb (px x) rs).
    destruct (find_last (px x) rs 0 None) as [j|] eqn:F.
    + inversion Hi; subst i. destruct (IH j eq_refl) as (r0 & a0 & K1 & K2 & K3).
      exists r0, a0. cbn [nth_error update_nth].
      split; [exact K1|]. split; [exact K2|]. intros Hfg. constructor; [exact Hra | apply K3; exact Hfg].
    + rewrite <- (px_at _ _ x Hra). destruct (qlist_eqb (r_x r) x) eqn:E; [|discriminate].
      inversion Hi; subst i. exists r, a. cbn [nth_error update_nth].
      split; [reflexivity|]. split; [exact Hra|]. intros Hfg. constructor; assumption.
Qed.

(* ================================================================== *)
(* 7. pairwise distinct points                                         *)
(* ================================================================== *)
Definition distinct_x (rs : list row) : Prop :=
  forall i j ri rj, nth_error rs i = Some ri -> nth_error rs j = Some rj ->
    qlist_eqb (r_x ri) (r_x rj) = true -> i = j.

Lemma distinct_nil : distinct_x [].
Proof. intros [|i] j ri rj H; discriminate. Qed.

Lemma distinct_tail r rs : distinct_x (r :: rs) -> distinct_x rs.
Proof.
  intros H i j ri rj Hi Hj E.
  assert (K : S i = S j) by (apply (H (S i) (S j) ri rj); assumption). lia.
Qed.

Lemma distinct_count x : forall rs, distinct_x rs ->
  (1 <? List.length (filter (px x) rs))%nat = false.
Proof.
  induction rs as [|r rs IH]; intros H; [reflexivity|].
  cbn [filter]. destruct (qlist_eqb (r_x r) x) eqn:E.
  - rewrite filter_none; [reflexivity|].
    intros r' Hin. destruct (qlist_eqb (r_x r') x) eqn:E'; [|reflexivity].
    apply In_nth_error in Hin. destruct Hin as [k Hk].
    assert (K : 0%nat = S k).
    { apply (H 0%nat (S k) r r'); [reflexivity | exact Hk |].
      eapply qlist_eqb_trans; [exact E | apply qlist_eqb_sym; exact E']. }
    discriminate.
  - apply IH. eapply distinct_tail; exact H.
Qed.

Lemma distinct_update f i rs : (forall r, r_x (f r) = r_x r) ->
  distinct_x rs -> distinct_x (update_nth i f rs).
Proof.
  intros Hf H a b ra rb Ha Hb E.
  apply nth_error_update_inv in Ha. destruct Ha as (ra0 & Ha0 & Hra).
  apply nth_error_update_inv in Hb. destruct Hb as (rb0 & Hb0 & Hrb).
  apply (H a b ra0 rb0 Ha0 Hb0).
  assert (Xa : r_x ra = r_x ra0) by (destruct Hra as [->|[-> _]]; [reflexivity | apply Hf]).
  assert (Xb : r_x rb = r_x rb0) by (destruct Hrb as [->|[-> _]]; [reflexivity | apply Hf]).
  rewrite <- Xa, <- Xb. exact E.
Qed.

Lemma nth_error_snoc {A} (l : list A) (a : A) i r : nth_error (l ++ [a]) i = Some r ->
  nth_error l i = Some r \/ (i = List.length l /\ r = a).
Proof.
  intros H. destruct (Nat.lt_ge_cases i (List.length l)) as [Hlt|Hge].
  - left. rewrite nth_error_app1 in H; assumption.
  - right. rewrite nth_error_app2 in H by exact Hge.
    destruct (i - List.length l)%nat as [|k] eqn:Ek.
    + cbn [nth_error] in H. inversion H. split; [lia | reflexivity].
    + cbn [nth_error] in H. destruct k; discriminate.
Qed.

Lemma existsb_false_nth {A} (p : A -> bool) l i r :
  existsb p l = false -> nth_error l i = Some r -> p r = false.
Proof.
  intros H Hn. destruct (p r) eqn:E; [|reflexivity].
  assert (K : existsb p l = true) by (apply existsb_exists; exists r; split; [eapply nth_error_In; eauto | exact E]).
  congruence.
Qed.

Lemma distinct_snoc rs r : distinct_x rs -> existsb (px (r_x r)) rs = false ->
  distinct_x (rs ++ [r]).
Proof.
  intros H Hex a b ra rb Ha Hb E.
  apply nth_error_snoc in Ha. apply nth_error_snoc in Hb.
  destruct Ha as [Ha|[Ha ->]]; destruct Hb as [Hb|[Hb ->]].
  - eapply H; eauto.
  - pose proof (existsb_false_nth _ _ _ _ Hex Ha) as K. cbv beta in K. congruence.
  - pose proof (existsb_false_nth _ _ _ _ Hex Hb) as K. cbv beta in K.
    apply qlist_eqb_sym in E. congruence.
  - congruence.
Qed.

(* ================================================================== *)
(* 8. _record: what it computes in each situation                      *)
(* ================================================================== *)
Lemma rec_plain s x xo fv : exists c,
  record_with merge_index s x xo fv None true =
  (mkL (rows s ++ [mkRow xo x fv fv None 1]) c (func_count s) (cache_count s) (noise_flag s) (he_flag s),
   Ret fv None (Some (List.length (rows s)))).
Proof. unfold record_with. cbn [negb]. eexists. reflexivity. Qed.

Lemma rec_new s x xo fv sd : existsb (px x) (rows s) = false -> exists c,
  record_with merge_index s x xo fv (Some sd) true =
  (mkL (rows s ++ [mkRow xo x fv fv (Some (qinv2 sd)) 1]) c (func_count s) (cache_count s)
       (noise_flag s) (he_flag s),
   Ret fv (Some sd) (Some (List.length (rows s)))).
Proof. intros E. unfold record_with. cbn [negb]. rewrite E. eexists. reflexivity. Qed.

Lemma rec_merge s x xo fv sd i :
  (1 <? List.length (filter (px x) (rows s)))%nat = false ->
  find_first (px x) (rows s) 0 = Some i -> exists y',
  record_with merge_index s x xo fv (Some sd) true =
  (mkL (update_nth i (merge_row fv sd) (rows s)) (cap s) (func_count s) (cache_count s)
       (noise_flag s) (he_flag s),
   Ret y' (Some sd) (Some i)).
Proof.
  intros E2 E3. unfold record_with, merge_index, count_if. cbn [negb].
  assert (E1 : existsb (px x) (rows s) = true).
  { destruct (existsb (px x) (rows s)) eqn:E; [reflexivity|].
    apply find_first_nth in E3. destruct E3 as (r & Hr & Hp).
    pose proof (existsb_false_nth _ _ _ _ E Hr) as K. cbv beta in K. congruence. }
  rewrite E1, E2, E3. eexists. reflexivity.
Qed.

Lemma rec_skip_hit s x xo fv fsd i : find_last (px x) (rows s) 0 None = Some i ->
  record_with merge_index s x xo fv fsd false =
  (mkL (update_nth i (fun r => mkRow (r_xo r) (r_x r) (r_yo r) (r_y r) (r_tau r) (r_n r + 1)) (rows s))
       (cap s) (func_count s) (cache_count s) (noise_flag s) (he_flag s),
   Ret fv fsd (Some i)).
Proof. intros E. unfold record_with. cbn [negb]. rewrite E. reflexivity. Qed.

Lemma rec_skip_miss s x xo fv fsd : find_last (px x) (rows s) 0 None = None ->
  record_with merge_index s x xo fv fsd false = (s, Ret fv fsd None).
Proof. intros E. unfold record_with. cbn [negb]. rewrite E. reflexivity. Qed.

Definition rec_post (s s' : lstate) : Prop :=
  func_count s' = func_count s /\ cache_count s' = cache_count s /\
  noise_flag s' = noise_flag s /\ he_flag s' = he_flag s.

Lemma merge_row_x fv sd r : r_x (merge_row fv sd r) = r_x r.
Proof. unfold merge_row. destruct (r_tau r); reflexivity. Qed.

Lemma merge_row_tau fv sd r : r_tau r <> None -> r_tau (merge_row fv sd r) <> None.
Proof.
  intros H. unfold merge_row. destruct (r_tau r) eqn:E; [cbn [r_tau]; discriminate | congruence].
Qed.

(* recorded observation with an SD, specified-noise invariants in force *)
Lemma rec_he_ok s l x xo fv sd :
  Forall2 row_rep (rows s) l -> Forall tau_some (rows s) -> distinct_x (rows s) -> (0 < sd)%Q ->
  exists s' fv' idx l',
    record_with merge_index s x xo fv (Some sd) true = (s', Ret fv' (Some sd) idx) /\
    spec_record l x xo fv (Some sd) = Some l' /\
    Forall2 row_rep (rows s') l' /\ Forall tau_some (rows s') /\ distinct_x (rows s') /\
    rec_post s s'.
Proof.
  intros HF HT HD Hpos. unfold spec_record.
  rewrite <- (existsb_rep x _ _ HF), <- (count_rep x _ _ HF), (distinct_count x _ HD).
  destruct (existsb (px x) (rows s)) eqn:Eex.
  - destruct (find_first (px x) (rows s) 0) as [i|] eqn:Ei.
    2: { apply find_first_none in Ei. congruence. }
    destruct (rec_merge s x xo fv sd i (distinct_count x _ HD) Ei) as [y' Erec].
    destruct (upd_first_rep x (merge_row fv sd) (add_obs fv (Some sd)) _ _ HF i Ei)
      as (r & a & Hr & Hra & HK).
    eexists _, _, _, _. split; [exact Erec|]. split; [reflexivity|].
    cbn [rows func_count cache_count noise_flag he_flag].
    split.
    { apply HK. apply row_rep_merge; [exact Hra | | exact Hpos].
      rewrite Forall_forall in HT. apply (HT r). eapply nth_error_In; exact Hr. }
    split.
    { apply Forall_update_nth; [|exact HT]. intros r0 H0. apply merge_row_tau. exact H0. }
    split.
    { apply distinct_update; [|exact HD]. intros r0. apply merge_row_x. }
    unfold rec_post. cbn [rows func_count cache_count noise_flag he_flag]. repeat split.
  - destruct (rec_new s x xo fv sd Eex) as [c Erec].
    eexists _, _, _, _. split; [exact Erec|]. split; [reflexivity|].
    cbn [rows func_count cache_count noise_flag he_flag].
    split.
    { apply Forall2_app; [exact HF|]. constructor; [apply row_rep_new_some; exact Hpos | constructor]. }
    split.
    { apply Forall_app. split; [exact HT|]. constructor; [cbn [r_tau]; discriminate | constructor]. }
    split.
    { apply distinct_snoc; [exact HD|]. cbn [r_x]. exact Eex. }
    unfold rec_post. cbn [rows func_count cache_count noise_flag he_flag]. repeat split.
Qed.

(* evaluation flagged "do not record" *)
Lemma rec_skip_ok s l x xo fv fsd :
  Forall2 row_rep (rows s) l ->
  exists s' idx,
    record_with merge_index s x xo fv fsd false = (s', Ret fv fsd idx) /\
    Forall2 row_rep (rows s') (upd_last x add_hit l) /\
    (Forall tau_some (rows s) -> Forall tau_some (rows s')) /\
    (distinct_x (rows s) -> distinct_x (rows s')) /\
    rec_post s s'.
Proof.
  intros HF. destruct (find_last (px x) (rows s) 0 None) as [i|] eqn:Ei.
  - rewrite (rec_skip_hit _ _ xo fv fsd _ Ei).
    destruct (upd_last_rep x
                (fun r => mkRow (r_xo r) (r_x r) (r_yo r) (r_y r) (r_tau r) (r_n r + 1))
                add_hit _ _ HF i Ei) as (r & a & Hr & Hra & HK).
    eexists _, _. split; [reflexivity|].
    cbn [rows func_count cache_count noise_flag he_flag].
    split. { apply HK. apply row_rep_hit. exact Hra. }
    split. { intros HT. apply Forall_update_nth; [|exact HT]. intros r0 H0. cbn [r_tau]. exact H0. }
    split. { intros HD. apply distinct_update; [|exact HD]. intros r0. reflexivity. }
    unfold rec_post. cbn [rows func_count cache_count noise_flag he_flag]. repeat split.
  - rewrite (rec_skip_miss _ _ xo fv fsd Ei).
    eexists _, _. split; [reflexivity|].
    rewrite upd_last_noex.
    2: { rewrite <- (existsb_rep x _ _ HF), (find_last_existsb (px x)), Ei. reflexivity. }
    split; [exact HF|]. split; [auto|]. split; [auto|]. unfold rec_post. repeat split.
Qed.

(* ================================================================== *)
(* 9. one step preserves the refinement invariant                      *)
(* ================================================================== *)
Definition linv (noise he : bool) (s : lstate) (a : aspec) : Prop :=
  state_rep s a /\ noise_flag s = noise /\ he_flag s = he /\
  (he = true -> Forall tau_some (rows s) /\ distinct_x (rows s)).

Definition op_valid (he : bool) (o : op) : bool :=
  match o with Call _ _ oc _ => valid_call he oc | _ => false end.

Lemma linv_intro noise he s a :
  Forall2 row_rep (rows s) (recs a) -> func_count s = a_fc a -> cache_count s = a_cc a ->
  noise_flag s = noise -> he_flag s = he ->
  (he = true -> Forall tau_some (rows s) /\ distinct_x (rows s)) ->
  linv noise he s a.
Proof. intros. unfold linv, state_rep. auto 10. Qed.

Lemma spec_call_rec noise he a x xo y sd : valid_call he (OkVal y sd) = true ->
  spec_step noise he a (Call x xo (OkVal y sd) true) =
  match spec_record (recs a) x xo y (if he then sd else None) with
  | Some l => mkS l (a_fc a + 1) (a_cc a)
  | None => a
  end.
Proof. intros H. unfold spec_step. rewrite H. reflexivity. Qed.

Lemma spec_call_skip noise he a x xo y sd : valid_call he (OkVal y sd) = true ->
  spec_step noise he a (Call x xo (OkVal y sd) false) =
  mkS (upd_last x add_hit (recs a)) (a_fc a + 1) (a_cc a).
Proof. intros H. unfold spec_step. rewrite H. reflexivity. Qed.

Lemma spec_call_invalid noise he a x xo oc rp : valid_call he oc = false ->
  spec_step noise he a (Call x xo oc rp) = a.
Proof. intros H. unfold spec_step. destruct oc; [rewrite H|..]; reflexivity. Qed.

Lemma step_call_valid s x xo y sd rp : valid_call (he_flag s) (OkVal y sd) = true ->
  step s (Call x xo (OkVal y sd) rp) =
  let '(s', r) := record_with merge_index s x xo y (if he_flag s then sd else None) rp in
  match r with Exn _ => (s, r) | _ => (bump_fc s', r) end.
Proof.
  unfold step, step_with, valid_call. destruct (he_flag s); [intros ->|intros _]; reflexivity.
Qed.

Lemma step_call_invalid s x xo oc rp : valid_call (he_flag s) oc = false ->
  fst (step s (Call x xo oc rp)) = s.
Proof.
  unfold step, step_with, valid_call. destruct oc as [y sd|e|k]; [|reflexivity..].
  destruct (he_flag s); [intros ->; reflexivity | discriminate].
Qed.

Ltac fin :=
  cbn [rows func_count cache_count noise_flag he_flag recs a_fc a_cc bump_fc bump_cc];
  try congruence; try lia; try discriminate; auto.

Lemma step_inv noise he o s a :
  (he = true -> noise = true) -> (noise = he \/ is_add o = false) ->
  linv noise he s a ->
  linv noise he (fst (step s o)) (spec_step noise he a o) /\
  func_count (fst (step s o)) = func_count s + (if op_valid he o then 1 else 0).
Proof.
  intros Hcfg Hadd Hinv. pose proof Hinv as ((HF & Hfc & Hcc) & Hnf & Hhf & Hh).
  destruct o as [x xo oc rp | x xo y sd | ].
  - (* Call *)
    cbn [op_valid]. destruct (valid_call he oc) eqn:V.
    + destruct oc as [y sd|e|k]; try discriminate.
      assert (V' : valid_call (he_flag s) (OkVal y sd) = true) by (rewrite Hhf; exact V).
      rewrite (step_call_valid s x xo y sd rp V'). rewrite Hhf.
      destruct rp.
      * rewrite (spec_call_rec noise he a x xo y sd V).
        destruct he.
        -- (* specified noise *)
           destruct (Hh eq_refl) as [HT HD]. cbn [valid_call] in V.
           destruct sd as [q|]; [|discriminate]. pose proof (sd_ok_pos q V) as Hpos.
           destruct (rec_he_ok s (recs a) x xo y q HF HT HD Hpos)
             as (s' & fv' & idx & l' & Erec & Espec & HF' & HT' & HD' & P1 & P2 & P3 & P4).
           rewrite Erec, Espec. cbn [fst bump_fc func_count].
           split; [|lia]. apply linv_intro; fin.
        -- (* no SD recorded *)
           destruct (rec_plain s x xo y) as [c Erec]. rewrite Erec.
           unfold spec_record. cbn [fst bump_fc func_count].
           split; [|lia]. apply linv_intro; fin.
           apply Forall2_app; [exact HF|]. constructor; [apply row_rep_new_none | constructor].
      * rewrite (spec_call_skip noise he a x xo y sd V).
        destruct (rec_skip_ok s (recs a) x xo y (if he then sd else None) HF)
          as (s' & idx & Erec & HF' & HT' & HD' & P1 & P2 & P3 & P4).
        rewrite Erec. cbn [fst bump_fc func_count].
        split; [|lia]. apply linv_intro; fin.
        intros Hhe. destruct (Hh Hhe) as [HT HD]. split; auto.
    + rewrite (spec_call_invalid noise he a x xo oc rp V).
      rewrite step_call_invalid by (rewrite Hhf; exact V).
      split; [exact Hinv | lia].
  - (* Add *)
    cbn [op_valid]. unfold step, step_with, spec_step. rewrite Hnf.
    destruct noise.
    + (* noise = true, hence he = true *)
      destruct he; [|destruct Hadd as [Hx|Hx]; discriminate]. destruct (Hh eq_refl) as [HT HD].
      set (fsd := match sd with Some q => Some q | None => Some 1%Q end).
      assert (Hq : exists q, fsd = Some q) by (destruct sd as [q|]; eexists; reflexivity).
      destruct Hq as [q Hq]. rewrite Hq. cbv zeta. cbn [andb].
      destruct (sd_ok (Some q)) eqn:Esd; cbn [negb].
      * pose proof (sd_ok_pos q Esd) as Hpos.
        destruct (rec_he_ok (bump_cc s) (recs a) x xo y q HF HT HD Hpos)
          as (s' & fv' & idx & l' & Erec & Espec & HF' & HT' & HD' & P1 & P2 & P3 & P4).
        rewrite Erec, Espec. cbn [fst].
        cbn [bump_cc func_count cache_count noise_flag he_flag] in P1, P2, P3, P4.
        split; [|lia]. apply linv_intro; fin.
      * cbn [fst]. split; [exact Hinv | lia].
    + (* noise = false, hence he = false *)
      destruct he; [specialize (Hcfg eq_refl); discriminate|]. cbv zeta. cbn [andb].
      destruct (rec_plain (bump_cc s) x xo y) as [c Erec]. rewrite Erec.
      unfold spec_record. cbn [fst func_count bump_cc rows cache_count noise_flag he_flag].
      split; [|lia]. apply linv_intro; fin.
      apply Forall2_app; [exact HF|]. constructor; [apply row_rep_new_none | constructor].
  - (* Finalize *)
    cbn [op_valid]. unfold step, step_with, spec_step. cbn [fst func_count].
    split; [|lia]. apply linv_intro; fin.
Qed.

(* ================================================================== *)
(* 10. whole runs                                                      *)
(* ================================================================== *)
Lemma run_fst midx s o r :
  fst (run_with midx s (o :: r)) = fst (run_with midx (fst (step_with midx s o)) r).
Proof.
  cbn [run_with]. destruct (step_with midx s o) as [s' res]. cbn [fst].
  destruct (run_with midx s' r) as [sf tr]. reflexivity.
Qed.

Lemma run_inv noise he : (he = true -> noise = true) -> forall ops s a,
  (noise = he \/ forallb (fun o => negb (is_add o)) ops = true) -> linv noise he s a ->
  linv noise he (fst (run_with merge_index s ops)) (fold_left (spec_step noise he) ops a) /\
  func_count (fst (run_with merge_index s ops)) =
  func_count s + Z.of_nat (List.length (filter (op_valid he) ops)).
Proof.
  intros Hcfg. induction ops as [|o ops IH]; intros s a Hadd Hinv.
  - cbn [run_with fst fold_left filter List.length]. split; [exact Hinv | lia].
  - rewrite run_fst. change (step_with merge_index s o) with (step s o). cbn [fold_left filter].
    assert (Ho : noise = he \/ is_add o = false).
    { destruct Hadd as [Hx|Hx]; [left; exact Hx|]. right. cbn [forallb] in Hx.
      apply andb_true_iff in Hx. destruct Hx as [Hx _]. apply negb_true_iff in Hx. exact Hx. }
    assert (Hr : noise = he \/ forallb (fun o => negb (is_add o)) ops = true).
    { destruct Hadd as [Hx|Hx]; [left; exact Hx|]. right. cbn [forallb] in Hx.
      apply andb_true_iff in Hx. destruct Hx as [_ Hx]. exact Hx. }
    destruct (step_inv noise he o s a Hcfg Ho Hinv) as [Hinv' Hfc'].
    destruct (IH _ _ Hr Hinv') as [Hinv'' Hfc''].
    split; [exact Hinv''|]. rewrite Hfc'', Hfc'.
    destruct (op_valid he o); cbn [List.length]; lia.
Qed.

Lemma linv_init cache noise he : linv noise he (init_logger cache noise he) spec_init.
Proof.
  apply linv_intro; cbn [init_logger spec_init rows func_count cache_count noise_flag he_flag recs a_fc a_cc];
    try reflexivity.
  - constructor.
  - intros _. split; [constructor | apply distinct_nil].
Qed.

(* ================================================================== *)
(* 11. the lemmas that close Props/C12.v                               *)
(* ================================================================== *)
Lemma logger_refines :
  forall (cache : Z) (noise he : bool) (ops : list op),
    wf_cfg noise he ops ->
    state_rep (fst (run_with merge_index (init_logger cache noise he) ops)) (spec_run noise he ops).
Proof.
  intros cache noise he ops [H1 H2]. unfold spec_run.
  destruct (run_inv noise he H1 ops (init_logger cache noise he) spec_init H2
                    (linv_init cache noise he)) as [(Hs & _) _].
  exact Hs.
Qed.

Lemma func_count_exact :
  forall (cache : Z) (noise he : bool) (ops : list op),
    wf_cfg noise he ops ->
    func_count (fst (run_with merge_index (init_logger cache noise he) ops)) =
    Z.of_nat (List.length (filter (fun o => match o with Call _ _ oc _ => valid_call he oc | _ => false end) ops)).
Proof.
  intros cache noise he ops [H1 H2].
  destruct (run_inv noise he H1 ops (init_logger cache noise he) spec_init H2
                    (linv_init cache noise he)) as [_ Hfc].
  change (func_count (init_logger cache noise he)) with 0 in Hfc.
  rewrite Z.add_0_l in Hfc. exact Hfc.
Qed.

Lemma he_run_inv cache ops :
  linv true true (fst (run_with merge_index (init_logger cache true true) ops)) (spec_run true true ops).
Proof.
  unfold spec_run.
  destruct (run_inv true true (fun _ => eq_refl) ops (init_logger cache true true) spec_init
                    (or_introl eq_refl) (linv_init cache true true)) as [H _].
  exact H.
Qed.

Lemma merged_is_weighted_mean :
  forall (cache : Z) (ops : list op) (i : nat) (r : row) (a : arec),
    nth_error (rows (fst (run_with merge_index (init_logger cache true true) ops))) i = Some r ->
    nth_error (recs (spec_run true true ops)) i = Some a ->
    exists t, r_tau r = Some t /\ (t == sum_tau (a_obs a))%Q /\ (0 < t)%Q /\
              (r_y r == sum_wy (a_obs a) / sum_tau (a_obs a))%Q.
Proof.
  intros cache ops i r a Hr Ha.
  destruct (he_run_inv cache ops) as ((HF & _ & _) & _ & _ & Hh).
  destruct (Hh eq_refl) as [HT _].
  pose proof (Forall2_nth _ _ _ HF i r a Hr Ha) as Hrep.
  assert (Hne : r_tau r <> None).
  { rewrite Forall_forall in HT. apply (HT r). eapply nth_error_In; exact Hr. }
  destruct (row_rep_some_elim _ _ Hrep Hne) as
    (_ & _ & _ & y0 & sd0 & rest & t & Ho & _ & Hall & Ht & Hts & Hry).
  assert (Hne' : a_obs a <> []) by (rewrite Ho; discriminate).
  pose proof (sum_tau_pos _ Hne' Hall) as HS.
  exists t. split; [exact Ht|]. split; [exact Hts|]. split; [rewrite Hts; exact HS|].
  rewrite <- Hry. field. lra.
Qed.

Lemma he_rows_distinct :
  forall (cache : Z) (ops : list op) (i j : nat) (ri rj : row),
    let s := fst (run_with merge_index (init_logger cache true true) ops) in
    nth_error (rows s) i = Some ri -> nth_error (rows s) j = Some rj ->
    qlist_eqb (r_x ri) (r_x rj) = true -> i = j.
Proof.
  intros cache ops i j ri rj s Hi Hj E.
  destruct (he_run_inv cache ops) as (_ & _ & _ & Hh).
  destruct (Hh eq_refl) as [_ HD].
  exact (HD i j ri rj Hi Hj E).
Qed.

(* ---- call order on the abstract side ---- *)
Lemma spec_record_nth l x xo y sd l' i r :
  spec_record l x xo y sd = Some l' -> nth_error l i = Some r ->
  exists r', nth_error l' i = Some r' /\ (r' = r \/ (r' = add_obs y sd r /\ at_x x r = true)).
Proof.
  intros H Hi.
  assert (Happ : forall z, exists r', nth_error (l ++ [z]) i = Some r' /\
                                      (r' = r \/ (r' = add_obs y sd r /\ at_x x r = true))).
  { intros z. exists r. split; [|left; reflexivity].
    rewrite nth_error_app1; [exact Hi|]. apply nth_error_Some. congruence. }
  unfold spec_record in H. destruct sd as [sd|].
  - destruct (existsb (at_x x) l).
    + destruct (1 <? List.length (filter (at_x x) l))%nat; [discriminate|].
      inversion H; subst l'. apply upd_first_nth. exact Hi.
    + inversion H; subst l'. apply Happ.
  - inversion H; subst l'. apply Happ.
Qed.

Lemma order_fin x f r r' :
  (forall r0, a_x (f r0) = a_x r0 /\ a_xo (f r0) = a_xo r0) ->
  (r' = r \/ (r' = f r /\ at_x x r = true)) ->
  a_x r' = a_x r /\ a_xo r' = a_xo r /\ (at_x x r = false -> r' = r).
Proof.
  intros Hf [->|[-> Hat]]; [auto|].
  destruct (Hf r) as [H1 H2]. split; [exact H1|]. split; [exact H2|]. intros K. congruence.
Qed.

Lemma spec_order_preserved :
  forall (noise he : bool) (a : aspec) (o : op) (i : nat) (r : arec),
    nth_error (recs a) i = Some r ->
    exists r', nth_error (recs (spec_step noise he a o)) i = Some r' /\
               a_x r' = a_x r /\ a_xo r' = a_xo r /\
               (at_x (op_point o) r = false -> r' = r).
Proof.
  intros noise he a o i r Hi.
  assert (Hsame : exists r', nth_error (recs a) i = Some r' /\
            a_x r' = a_x r /\ a_xo r' = a_xo r /\ (at_x (op_point o) r = false -> r' = r)).
  { exists r. auto. }
  destruct o as [x xo oc rp | x xo y sd | ]; cbn [op_point] in *.
  - destruct (valid_call he oc) eqn:V.
    + destruct oc as [y sd|e|k]; try discriminate. destruct rp.
      * rewrite (spec_call_rec noise he a x xo y sd V).
        destruct (spec_record (recs a) x xo y (if he then sd else None)) as [l'|] eqn:Es;
          [|exact Hsame].
        cbn [recs]. destruct (spec_record_nth _ _ _ _ _ _ i r Es Hi) as (r' & Hr' & Hc).
        exists r'. split; [exact Hr'|]. eapply order_fin; [|exact Hc]. intros r0; split; reflexivity.
      * rewrite (spec_call_skip noise he a x xo y sd V). cbn [recs].
        destruct (upd_last_nth x add_hit _ i r Hi) as (r' & Hr' & Hc).
        exists r'. split; [exact Hr'|]. eapply order_fin; [|exact Hc]. intros r0; split; reflexivity.
    + rewrite (spec_call_invalid noise he a x xo oc rp V). exact Hsame.
  - unfold spec_step. cbv zeta.
    set (fsd := if noise then _ else None).
    destruct (noise && negb (sd_ok fsd)); [exact Hsame|].
    destruct (spec_record (recs a) x xo y fsd) as [l'|] eqn:Es; cbn [recs]; [|exact Hsame].
    destruct (spec_record_nth _ _ _ _ _ _ i r Es Hi) as (r' & Hr' & Hc).
    exists r'. split; [exact Hr'|]. eapply order_fin; [|exact Hc]. intros r0; split; reflexivity.
  - exact Hsame.
Qed.

(* ---- frame: any state, no premise ---- *)
Lemma rec_frame s x xo fv fsd rp i r :
  nth_error (rows s) i = Some r -> qlist_eqb (r_x r) x = false ->
  nth_error (rows (fst (record_with merge_index s x xo fv fsd rp))) i = Some r.
Proof.
  intros Hi Hne.
  assert (Happ : forall r0, nth_error (rows s ++ [r0]) i = Some r).
  { intros r0. rewrite nth_error_app1; [exact Hi|]. apply nth_error_Some. congruence. }
  assert (Hupd : forall j f r0, nth_error (rows s) j = Some r0 -> qlist_eqb (r_x r0) x = true ->
                                nth_error (update_nth j f (rows s)) i = Some r).
  { intros j f r0 Hj Hp. rewrite nth_error_update_other; [exact Hi|]. intros ->. congruence. }
  destruct rp.
  - destruct fsd as [sd|].
    + unfold record_with, merge_index, count_if. cbn [negb].
      destruct (existsb (px x) (rows s)); [|cbn [fst rows]; apply Happ].
      destruct (1 <? List.length (filter (px x) (rows s)))%nat; [cbn [fst]; exact Hi|].
      destruct (find_first (px x) (rows s) 0) as [j|] eqn:Ej; [|cbn [fst rows]; apply Happ].
      cbn [fst rows]. destruct (find_first_nth _ _ _ Ej) as (r0 & Hj & Hp).
      eapply Hupd; eauto.
    + destruct (rec_plain s x xo fv) as [c E]. rewrite E. cbn [fst rows]. apply Happ.
  - destruct (find_last (px x) (rows s) 0 None) as [j|] eqn:Ej.
    + rewrite (rec_skip_hit _ _ xo fv fsd _ Ej). cbn [fst rows].
      destruct (find_last_nth _ _ _ Ej) as (r0 & Hj & Hp). eapply Hupd; eauto.
    + rewrite (rec_skip_miss _ _ xo fv fsd Ej). cbn [fst]. exact Hi.
Qed.

Lemma step_frame :
  forall (s : lstate) (o : op) (i : nat) (r : row),
    nth_error (rows s) i = Some r ->
    qlist_eqb (r_x r) (op_point o) = false ->
    nth_error (rows (fst (step s o))) i = Some r.
Proof.
  intros s o i r Hi Hne. unfold step, step_with.
  destruct o as [x xo oc rp | x xo y sd | ]; cbn [op_point] in Hne.
  - destruct oc as [y sd|e|k]; [|cbn [fst]; exact Hi..].
    destruct (he_flag s).
    + destruct (sd_ok sd); [|cbn [fst]; exact Hi].
      pose proof (rec_frame s x xo y sd rp i r Hi Hne) as F.
      destruct (record_with merge_index s x xo y sd rp) as [s' res]. cbn [fst] in F.
      destruct res; cbn [fst bump_fc rows]; assumption.
    + pose proof (rec_frame s x xo y None rp i r Hi Hne) as F.
      destruct (record_with merge_index s x xo y None rp) as [s' res]. cbn [fst] in F.
      destruct res; cbn [fst bump_fc rows]; assumption.
  - cbv zeta. set (fsd := if noise_flag s then _ else None).
    destruct (noise_flag s && negb (sd_ok fsd)); [cbn [fst]; exact Hi|].
    pose proof (rec_frame (bump_cc s) x xo y fsd true i r Hi Hne) as F.
    destruct (record_with merge_index (bump_cc s) x xo y fsd true) as [s' res]. cbn [fst] in F.
    destruct res; cbn [fst bump_cc rows]; assumption.
  - cbn [fst rows]. exact Hi.
Qed.

(* ---- the capacity is invisible ---- *)
Definition eqc (s1 s2 : lstate) : Prop :=
  rows s1 = rows s2 /\ func_count s1 = func_count s2 /\ cache_count s1 = cache_count s2 /\
  noise_flag s1 = noise_flag s2 /\ he_flag s1 = he_flag s2.

Lemma rec_eqc midx s1 s2 x xo fv fsd rp : eqc s1 s2 ->
  eqc (fst (record_with midx s1 x xo fv fsd rp)) (fst (record_with midx s2 x xo fv fsd rp)) /\
  snd (record_with midx s1 x xo fv fsd rp) = snd (record_with midx s2 x xo fv fsd rp).
Proof.
  intros H. pose proof H as (E1 & E2 & E3 & E4 & E5). unfold record_with.
  rewrite E1, E2, E3, E4, E5. destruct rp; cbn [negb].
  - cbv zeta. destruct fsd as [sd|].
    + destruct (existsb (px x) (rows s2)).
      * destruct (1 <? count_if (px x) (rows s2))%nat; [cbn [fst snd]; split; [exact H | reflexivity]|].
        destruct (midx x (rows s2)) as [j|]; cbn [fst snd]; unfold eqc;
          cbn [rows func_count cache_count noise_flag he_flag]; auto 10.
      * cbn [fst snd]; unfold eqc; cbn [rows func_count cache_count noise_flag he_flag]; auto 10.
    + cbn [fst snd]; unfold eqc; cbn [rows func_count cache_count noise_flag he_flag]; auto 10.
  - destruct (find_last (px x) (rows s2) 0 None) as [j|]; cbn [fst snd];
      [unfold eqc; cbn [rows func_count cache_count noise_flag he_flag]; auto 10
      | split; [exact H | reflexivity]].
Qed.

Lemma bump_fc_eqc s1 s2 : eqc s1 s2 -> eqc (bump_fc s1) (bump_fc s2).
Proof.
  intros (E1 & E2 & E3 & E4 & E5). unfold eqc, bump_fc.
  cbn [rows func_count cache_count noise_flag he_flag]. rewrite E2. auto 10.
Qed.

Lemma bump_cc_eqc s1 s2 : eqc s1 s2 -> eqc (bump_cc s1) (bump_cc s2).
Proof.
  intros (E1 & E2 & E3 & E4 & E5). unfold eqc, bump_cc.
  cbn [rows func_count cache_count noise_flag he_flag]. rewrite E3. auto 10.
Qed.

Lemma step_eqc s1 s2 o : eqc s1 s2 ->
  eqc (fst (step s1 o)) (fst (step s2 o)) /\ snd (step s1 o) = snd (step s2 o).
Proof.
  intros H. pose proof H as (E1 & E2 & E3 & E4 & E5). unfold step, step_with.
  destruct o as [x xo oc rp | x xo y sd | ].
  - destruct oc as [y sd|e|k]; [|cbn [fst snd]; split; [exact H | reflexivity]..].
    rewrite E5. destruct (he_flag s2).
    + destruct (sd_ok sd); [|cbn [fst snd]; split; [exact H | reflexivity]].
      pose proof (rec_eqc merge_index s1 s2 x xo y sd rp H) as [Ha Hb].
      destruct (record_with merge_index s1 x xo y sd rp) as [s1' r1].
      destruct (record_with merge_index s2 x xo y sd rp) as [s2' r2].
      cbn [fst snd] in Ha, Hb. subst r2.
      destruct r1; cbn [fst snd]; (split; [|reflexivity]); auto using bump_fc_eqc.
    + pose proof (rec_eqc merge_index s1 s2 x xo y None rp H) as [Ha Hb].
      destruct (record_with merge_index s1 x xo y None rp) as [s1' r1].
      destruct (record_with merge_index s2 x xo y None rp) as [s2' r2].
      cbn [fst snd] in Ha, Hb. subst r2.
      destruct r1; cbn [fst snd]; (split; [|reflexivity]); auto using bump_fc_eqc.
  - rewrite E4. cbv zeta. set (fsd := if noise_flag s2 then _ else None).
    destruct (noise_flag s2 && negb (sd_ok fsd)); [cbn [fst snd]; split; [exact H | reflexivity]|].
    pose proof (rec_eqc merge_index (bump_cc s1) (bump_cc s2) x xo y fsd true (bump_cc_eqc _ _ H))
      as [Ha Hb].
    destruct (record_with merge_index (bump_cc s1) x xo y fsd true) as [s1' r1].
    destruct (record_with merge_index (bump_cc s2) x xo y fsd true) as [s2' r2].
    cbn [fst snd] in Ha, Hb. subst r2.
    destruct r1; cbn [fst snd]; (split; [|reflexivity]); auto using bump_cc_eqc.
  - cbn [fst snd]. rewrite E1, E2, E3, E4, E5. split; [|reflexivity].
    unfold eqc. cbn [rows func_count cache_count noise_flag he_flag]. auto 10.
Qed.

Lemma step_cap_irrelevant :
  forall (s : lstate) (c' : Z) (o : op),
    rows (fst (step (set_cap s c') o)) = rows (fst (step s o)) /\
    func_count (fst (step (set_cap s c') o)) = func_count (fst (step s o)) /\
    snd (step (set_cap s c') o) = snd (step s o).
Proof.
  intros s c' o.
  assert (H : eqc (set_cap s c') s).
  { unfold eqc, set_cap. cbn [rows func_count cache_count noise_flag he_flag]. auto 10. }
  destruct (step_eqc _ _ o H) as [(A & B & _) C].
  split; [exact A|]. split; [exact B | exact C].
Qed.

(* ---- concrete witnesses ---- *)
Lemma frame_refuted_elementwise :
  exists (ops : list op) (i : nat) (r r' : row),
    let s0 := fst (run_with merge_index_elementwise (init_logger 4 true true) (removelast ops)) in
    let s1 := fst (run_with merge_index_elementwise (init_logger 4 true true) ops) in
    nth_error (rows s0) i = Some r /\ nth_error (rows s1) i = Some r' /\
    qlist_eqb (r_x r) (op_point (last ops Finalize)) = false /\ r_n r' <> r_n r.
Proof.
  exists [Call [1#1; 5#1] [1#1; 5#1] (OkVal (6#1) (Some (1#1))) true;
          Call [1#1; 2#1] [1#1; 2#1] (OkVal (3#1) (Some (1#1))) true;
          Call [3#1; 2#1] [3#1; 2#1] (OkVal (5#1) (Some (1#1))) true;
          Call [1#1; 2#1] [1#1; 2#1] (OkVal (4#1) (Some (1#1))) true].
  exists 0%nat. eexists. eexists. cbv zeta.
  split; [vm_compute; reflexivity|]. split; [vm_compute; reflexivity|].
  split; [vm_compute; reflexivity|]. vm_compute. discriminate.
Qed.

Lemma premises_satisfiable :
  wf_cfg true true
    [Call [1#1; 5#1] [1#1; 5#1] (OkVal (6#1) (Some (1#1))) true;
     Call [1#1; 2#1] [1#1; 2#1] (OkVal (3#1) (Some (1#1))) true;
     Call [3#1; 2#1] [3#1; 2#1] (OkVal (5#1) (Some (1#1))) true;
     Call [1#1; 2#1] [1#1; 2#1] (OkVal (4#1) (Some (1#2))) true] /\
  List.length (rows (fst (run_with merge_index (init_logger 1 true true)
    [Call [1#1; 5#1] [1#1; 5#1] (OkVal (6#1) (Some (1#1))) true;
     Call [1#1; 2#1] [1#1; 2#1] (OkVal (3#1) (Some (1#1))) true;
     Call [3#1; 2#1] [3#1; 2#1] (OkVal (5#1) (Some (1#1))) true;
     Call [1#1; 2#1] [1#1; 2#1] (OkVal (4#1) (Some (1#2))) true]))) = 3%nat.
Proof.
  split.
  - split; [reflexivity | left; reflexivity].
  - vm_compute. reflexivity.
Qed.
