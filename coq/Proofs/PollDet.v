(* PollDet.v — the linear algebra of C14 (MathComp).

   1. [det_ltmads]      for ANY commutative ring, dimension, strictly-lower L, diagonal d, permutation s:
                        \det (row_perm s (L + diag_mx d))^T = (-1)^s * \prod_i d_i.
   2. [positive_span]   for an invertible B over a real field every row vector is a non-negative
                        combination of the rows of  col_mx B (- B).
   3. THE BRIDGE        [poll_basis_mx]: the matrix whose entries are read off the executable list
                        model  Model/PollDirs.poll_basis  IS  (row_perm s (L + diag_mx d))^T  for the
                        L, d, s read off the explicit random choices (matrices over Coq's Z, which
                        mczify's ssrZ equips with MathComp's ring structures).  It rests on the stdlib
                        lemma [PollDirsProofs.poll_basis_entry]; nothing is left to the tie here.
   4. Consequences for the model: determinant +- n^D, non-zero, invertible over rat, positive span of
                        the 2D generated directions. *)
From Coq Require Import ZArith List.
From PV Require Import Model.PollDirs Proofs.PollDirsProofs.
From mathcomp Require Import all_ssreflect all_fingroup all_algebra ssrZ zify.

Set Implicit Arguments.
Unset Strict Implicit.
Unset Printing Implicit Defensive.

Import GRing.Theory Num.Theory Order.Theory.
Local Open Scope ring_scope.
(* MathComp rebinds the key %Z to its own int; Coq's binary integers are reached with %coqZ *)
Delimit Scope Z_scope with coqZ.

(* ---------------------------------------------------------------- 1. determinant *)

Section LTMADS.
Variables (R : comRingType) (D : nat).
Variables (L : 'M[R]_D) (d : 'rV[R]_D) (s : 'S_D).
Hypothesis Lstrict : forall i j : 'I_D, (i <= j)%N -> L i j = 0.

Lemma ltmads_trig : is_trig_mx (L + diag_mx d).
Proof.
apply/is_trig_mxP => i j lt_ij; rewrite !mxE Lstrict ?(ltnW lt_ij) // add0r.
by case: eqP lt_ij => [-> | _ _]; rewrite ?ltnn // mulr0n.
Qed.

Lemma det_ltmads : \det (row_perm s (L + diag_mx d))^T = (-1) ^+ s * \prod_i d 0 i.
Proof.
rewrite det_tr row_permE det_mulmx det_perm det_trig ?ltmads_trig //.
by congr (_ * _); apply: eq_bigr => i _; rewrite !mxE Lstrict // add0r eqxx mulr1n.
Qed.
End LTMADS.

(* a product of signs is a sign *)
Lemma prod_signs (R : ringType) (I : finType) (f : I -> R) :
  (forall i, f i = 1 \/ f i = -1) -> exists e : bool, \prod_i f i = (-1) ^+ e.
Proof.
move=> Hf; apply: (big_ind (fun x : R => exists e : bool, x = (-1) ^+ e)).
- by exists false; rewrite expr0.
- move=> x y [e1 ->] [e2 ->]; exists (e1 (+) e2); by rewrite signr_addb.
- move=> i _; case: (Hf i) => ->; [by exists false; rewrite expr0 | by exists true; rewrite expr1].
Qed.

(* ---------------------------------------------------------------- 2. positive span *)

Section PosSpan.
Variables (F : realFieldType) (D : nat) (B : 'M[F]_D).
Hypothesis Bunit : B \in unitmx.

Lemma positive_span (v : 'rV[F]_D) :
  exists c : 'rV[F]_(D + D), (forall k, 0 <= c 0 k) /\ v = c *m col_mx B (- B).
Proof.
have [a Ha] : exists a : 'rV[F]_D, a *m B = v by exists (v *m invmx B); rewrite mulmxKV.
pose cp : 'rV[F]_D := \row_i Num.max (a 0 i) 0.
pose cm : 'rV[F]_D := \row_i Num.max (- a 0 i) 0.
exists (row_mx cp cm); split.
- move=> k; rewrite mxE; case: splitP => j _; rewrite mxE le_maxr lexx orbT //.
- rewrite mul_row_col mulmxN -mulmxBl.
  have -> : cp - cm = a.
    apply/rowP => i; rewrite !mxE.
    case: (lerP 0 (a 0 i)) => Hi.
    + by rewrite max_r ?subr0 // oppr_le0.
    + by rewrite max_l ?sub0r ?opprK // oppr_ge0 ltW.
  by rewrite Ha.
Qed.
End PosSpan.

(* ---------------------------------------------------------------- 3. the bridge *)

(* the m x n matrix over Z whose entries are read off a list of rows *)
Definition mx_of (m n : nat) (M : list (list Z)) : 'M[Z]_(m, n) :=
  \matrix_(i, j) entry M i j.

(* strictly lower part  tril(draws - n, -1)  and diagonal  n (2 s - 3)  of the explicit choices *)
Definition Lmx (D : nat) (n : Z) (draws : list (list Z)) : 'M[Z]_D :=
  \matrix_(i, j) (if (j < i)%N then (entry draws i j - n)%coqZ else 0%coqZ).
Definition dvec (D : nat) (n : Z) (sdraws : list Z) : 'rV[Z]_D :=
  \row_i (n * (2 * List.nth i sdraws 0%coqZ - 3))%coqZ.

Lemma Lmx_strict D n draws (i j : 'I_D) : (i <= j)%N -> Lmx D n draws i j = 0.
Proof. by move=> le_ij; rewrite mxE ltnNge le_ij. Qed.

(* a well-formed permutation list is (the graph of) a permutation of 'I_D *)
Lemma perm_of_list D (pl : list nat) : perm_ok D pl ->
  exists s : 'S_D, forall j : 'I_D, List.nth j pl 0%N = s j :> nat.
Proof.
case: D => [ | D'] Hp; first by exists 1%g; case.
have Hlt (j : 'I_D'.+1) : (List.nth j pl 0%N < D'.+1)%N.
  by apply/ssrnat.ltP; exact: (perm_ok_lt _ _ _ Hp (ssrnat.ltP (ltn_ord j))).
pose f (j : 'I_D'.+1) : 'I_D'.+1 := inord (List.nth j pl 0%N).
have f_inj : injective f.
  move=> i j /(congr1 (@nat_of_ord _)); rewrite /f !inordK // => Hij.
  by apply: val_inj; exact: (perm_ok_inj _ _ _ _ Hp (ssrnat.ltP (ltn_ord i)) (ssrnat.ltP (ltn_ord j)) Hij).
by exists (perm f_inj) => j; rewrite permE /f inordK.
Qed.

Lemma poll_basis_mx D n draws sdraws perm (s : 'S_D) :
  List.length sdraws = D -> perm_ok D perm ->
  (forall j : 'I_D, List.nth j perm 0%N = s j :> nat) ->
  mx_of D D (poll_basis D n draws sdraws perm) =
  (row_perm s (Lmx D n draws + diag_mx (dvec D n sdraws)))^T.
Proof.
move=> Hl Hp Hs; apply/matrixP => i j; rewrite !mxE.
rewrite (poll_basis_entry D n draws sdraws perm i j Hl Hp (ssrnat.ltP (ltn_ord i)) (ssrnat.ltP (ltn_ord j))).
rewrite Hs /pre_entry.
case: Nat.ltb_spec => [/ssrnat.ltP Hlt | /ssrnat.leP Hle].
- rewrite Hlt. case: eqP => [E | _]; last by rewrite mulr0n addr0.
  by move: Hlt; rewrite E ltnn.
- rewrite ltnNge Hle /=. case: Nat.eqb_spec => [E | NE].
  + have -> : s j = i by apply: val_inj.
    by rewrite eqxx mulr1n add0r.
  + case: eqP => [E | _]; last by rewrite mulr0n addr0.
    by case: NE; rewrite E.
Qed.

(* ---------------------------------------------------------------- 4. consequences for the model *)

Lemma sign_of_draw D sdraws (i : 'I_D) : signs_ok D sdraws ->
  (2 * List.nth i sdraws 0 - 3 = 1 \/ 2 * List.nth i sdraws 0 - 3 = -1)%coqZ.
Proof. by case=> Hl Hall; apply: sign_pm => //; rewrite Hl; apply/ssrnat.ltP. Qed.

Theorem basis_det D n draws sdraws perm :
  choices_ok D n draws sdraws perm ->
  exists e : bool, \det (mx_of D D (poll_basis D n draws sdraws perm)) = (-1) ^+ e * n ^+ D.
Proof.
case=> Hn [Hlow [Hs Hp]]; have [Hl _] := Hs.
have [s Hsig] := perm_of_list Hp.
rewrite (poll_basis_mx n draws Hl Hp Hsig) det_ltmads; last exact: Lmx_strict.
have -> : \prod_i dvec D n sdraws 0 i = n ^+ D * \prod_(i < D) (2 * List.nth i sdraws 0 - 3)%coqZ.
  rewrite -[in n ^+ D](card_ord D) -prodr_const -big_split /=.
  by apply: eq_bigr => i _; rewrite mxE.
have [e ->] : exists e : bool, \prod_(i < D) (2 * List.nth i sdraws 0 - 3)%coqZ = (-1) ^+ e :> Z.
  by apply: prod_signs => i; exact: sign_of_draw Hs.
exists (odd_perm s (+) e); rewrite signr_addb -!mulrA; congr (_ * _).
exact: mulrC.
Qed.

Lemma n_neq0 (n : Z) : (1 <= n)%coqZ -> n != 0.
Proof. by move=> Hn; apply/eqP => E; move: Hn; rewrite E. Qed.

Theorem basis_det_neq0 D n draws sdraws perm :
  choices_ok D n draws sdraws perm ->
  \det (mx_of D D (poll_basis D n draws sdraws perm)) != 0.
Proof.
move=> Hok; have [e ->] := basis_det Hok; case: Hok => Hn _.
by rewrite mulf_neq0 ?signr_eq0 // expf_neq0 // n_neq0.
Qed.

(* Z -> rat, a ring morphism *)
Definition ZtoQ (z : Z) : rat := (int_of_Z z)%:~R.

Lemma ZtoQ_is_rmorphism : rmorphism ZtoQ.
Proof.
rewrite /ZtoQ; do ! split.
- by move=> x y; rewrite rmorphB /= rmorphB.
- by move=> x y; rewrite rmorphM /= rmorphM.
Qed.
Canonical ZtoQ_additive := Additive ZtoQ_is_rmorphism.
Canonical ZtoQ_rmorphism := RMorphism ZtoQ_is_rmorphism.

Lemma ZtoQ_neq0 (z : Z) : z != 0 -> ZtoQ z != 0.
Proof.
move=> Hz; rewrite /ZtoQ intr_eq0; apply: contra_neq Hz => E.
by rewrite -[z]int_of_ZK E.
Qed.

Theorem basis_unit D n draws sdraws perm :
  choices_ok D n draws sdraws perm ->
  map_mx ZtoQ (mx_of D D (poll_basis D n draws sdraws perm)) \in unitmx.
Proof.
move=> Hok; rewrite unitmxE det_map_mx unitfE.
have [e ->] := basis_det Hok; case: Hok => Hn _.
rewrite rmorphM rmorph_sign rmorphX mulf_neq0 ?signr_eq0 // expf_neq0 //.
by apply: ZtoQ_neq0; apply: n_neq0.
Qed.

(* the 2D x D array of generated directions is  [B ; -B] *)
Lemma poll_dirs_mx D (B : list (list Z)) : List.length B = D ->
  mx_of (D + D) D (poll_dirs B) = col_mx (mx_of D D B) (- mx_of D D B).
Proof.
move=> Hl; apply/matrixP => k j; rewrite !mxE.
case: splitP => i Hk; rewrite !mxE Hk.
- by rewrite poll_dirs_upper // Hl; apply/ssrnat.ltP.
- by rewrite -{1}Hl poll_dirs_lower.
Qed.

Theorem dirs_positive_span D n draws sdraws perm :
  choices_ok D n draws sdraws perm ->
  forall v : 'rV[rat]_D,
  exists c : 'rV[rat]_(D + D),
    (forall k, 0 <= c 0 k) /\
    v = c *m map_mx ZtoQ (mx_of (D + D) D (poll_dirs (poll_basis D n draws sdraws perm))).
Proof.
move=> Hok v; rewrite poll_dirs_mx ?poll_basis_length // map_col_mx map_mxN.
exact: positive_span (basis_unit Hok) v.
Qed.

(* entries: integers by construction (the matrix is over Z), bounded by n *)
Theorem mx_entries_bounded D n draws sdraws perm (i j : 'I_D) :
  choices_ok D n draws sdraws perm ->
  `|mx_of D D (poll_basis D n draws sdraws perm) i j| <= n.
Proof.
move=> Hok; rewrite mxE.
have := @entries_bounded D n draws sdraws perm i j Hok.
move=> /(_ (ssrnat.ltP (ltn_ord i)) (ssrnat.ltP (ltn_ord j))); lia.
Qed.

(* ---------------------------------------------------------------- 5. descent direction (used by C06) *)

(* If the rows of M positively span, every non-zero "gradient" g has a row d of M with g . d < 0. *)
Section Descent.
Variables (F : realFieldType) (m D : nat) (M : 'M[F]_(m, D)).
Hypothesis span : forall v : 'rV[F]_D,
  exists c : 'rV[F]_m, (forall k, 0 <= c 0 k) /\ v = c *m M.

Lemma dot_self_gt0 (g : 'rV[F]_D) : g != 0 -> 0 < (g *m g^T) 0 0.
Proof.
move=> /rV0Pn [j gj]; rewrite mxE (bigD1 j) //=; apply: ltr_spaddl.
- by rewrite mxE -expr2 lt0r sqrf_eq0 gj sqr_ge0.
- by apply: sumr_ge0 => i _; rewrite mxE -expr2 sqr_ge0.
Qed.

Lemma descent_dir (g : 'rV[F]_D) : g != 0 ->
  exists k : 'I_m, (g *m (row k M)^T) 0 0 < 0.
Proof.
move=> g0; have [c [c0 Hc]] := span (- g).
have Hneg : (g *m (- g)^T) 0 0 < 0.
  by rewrite linearN /= mulmxN mxE oppr_lt0 dot_self_gt0.
have E : (g *m (- g)^T) 0 0 = \sum_k c 0 k * (g *m (row k M)^T) 0 0.
  rewrite Hc trmx_mul mulmxA mxE; apply: eq_bigr => k _.
  rewrite mulrC; congr (_ * _); first by rewrite mxE.
  by rewrite !mxE; apply: eq_bigr => j _; rewrite !mxE.
apply/existsP; rewrite -[[exists k, _]]negbK negb_exists; apply/negP => /forallP H.
move: Hneg; rewrite E ltNge sumr_ge0 // => k _; apply: mulr_ge0 => //.
by rewrite leNgt H.
Qed.
End Descent.

Theorem dirs_descent D n draws sdraws perm :
  choices_ok D n draws sdraws perm ->
  forall g : 'rV[rat]_D, g != 0 ->
  exists k : 'I_(D + D),
    (g *m (row k (map_mx ZtoQ (mx_of (D + D) D (poll_dirs (poll_basis D n draws sdraws perm)))))^T) 0 0 < 0.
Proof. by move=> Hok g g0; apply: descent_dir g0; exact: dirs_positive_span Hok. Qed.

(* default mesh (n = 1): every generated direction is a signed coordinate vector *)
Lemma ZtoQ_abs1 (z : Z) : Z.abs z = 1%coqZ -> `|ZtoQ z| = 1.
Proof.
case: z => [ | p | p] //= [->].
- by rewrite (rmorph1 [rmorphism of ZtoQ]) normr1.
- by rewrite (rmorphN1 [rmorphism of ZtoQ]) normrN1.
Qed.

Lemma default_dirs_coordinate D draws sdraws perm (k : 'I_(D + D)) :
  choices_ok D 1%coqZ draws sdraws perm ->
  let M := map_mx ZtoQ (mx_of (D + D) D (poll_dirs (poll_basis D 1%coqZ draws sdraws perm))) in
  exists i : 'I_D, `|M k i| = 1 /\ forall j : 'I_D, j != i -> M k j = 0.
Proof.
move=> Hok /=; set B := poll_basis D 1%coqZ draws sdraws perm.
have HL : List.length B = D by rewrite /B poll_basis_length.
have [_ Hrow] := default_is_coordinate D draws sdraws perm Hok.
have Hent (a : nat) (s : bool) : (a < D)%N ->
    (forall j : 'I_D, entry (poll_dirs B) k j = (if s then - entry B a j else entry B a j)%coqZ) ->
    exists i : 'I_D,
      `|(map_mx ZtoQ (mx_of (D + D) D (poll_dirs B))) k i| = 1 /\
      forall j : 'I_D, j != i ->
        (map_mx ZtoQ (mx_of (D + D) D (poll_dirs B))) k j = 0.
  move=> /ssrnat.ltP Ha Hk; have [i0 [/ssrnat.ltP Hi0 [Habs Hz]]] := Hrow a Ha.
  exists (Ordinal Hi0); split.
  - by rewrite !mxE Hk /=; apply: ZtoQ_abs1; case: s {Hk}; rewrite ?Z.abs_opp.
  - move=> j' Hj'; rewrite !mxE Hk.
    have -> : entry B a j' = 0%coqZ.
      apply: Hz; first exact: (ssrnat.ltP (ltn_ord j')).
      by move=> E; move: Hj'; rewrite -val_eqE /= E eqxx.
    by case: s {Hk}; rewrite /= (rmorph0 [rmorphism of ZtoQ]).
case: (ltnP k D) => Hk.
- apply: (Hent k false) => // j.
  by rewrite poll_dirs_upper // HL; apply/ssrnat.ltP.
- have Hk' : (k - D < D)%N by rewrite ltn_subLR // -/(addn D D) ltn_ord.
  apply: (Hent (k - D)%N true) => // j.
  by rewrite -[in LHS](subnKC Hk) -{1}HL poll_dirs_lower.
Qed.

Theorem dirs_descent_default D draws sdraws perm :
  choices_ok D 1%coqZ draws sdraws perm ->
  let M := map_mx ZtoQ (mx_of (D + D) D (poll_dirs (poll_basis D 1%coqZ draws sdraws perm))) in
  forall g : 'rV[rat]_D, g != 0 ->
  exists (k : 'I_(D + D)) (i : 'I_D),
    (g *m (row k M)^T) 0 0 < 0 /\ `|M k i| = 1 /\ forall j : 'I_D, j != i -> M k j = 0.
Proof.
move=> Hok M g g0; have [k Hk] := dirs_descent Hok g0.
by have [i Hi] := default_dirs_coordinate k Hok; exists k, i.
Qed.
