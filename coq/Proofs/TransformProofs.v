(* C11 — proofs about the variable transform, per coordinate, over the real numbers.
   Every definition named src_* comes from gen/Src_transform.v, which translate/transform.py regenerates from
   /repo/pybads/variable_transformer/variables_transformer.py on every run: the lemmas below are re-checked
   against the expressions the source contains NOW.

   Hand-written here (trusted modelling, monitored on the real object by harness/comp_transform.py):
     * which arm of the constructor's if/elif/else a coordinate lives in ([arm], [arm_ok]),
     * IEEE behaviour of minimum/maximum and of g/ginv at +-infinity ([xmin], [xmax], [gbar], [ginvbar]).  *)
From Coq Require Import Reals Bool Lra.
From Coquelicot Require Import Rbar.
Require Import PV.gen.Src_transform.
Open Scope R_scope.

(* ------------------------------------------------------------------ the per-coordinate model *)

(* apply_log_t_sum == 0 / == D / otherwise *)
Inductive arm : Type := AllLin | AllLog | Mixed.

(* the arm taken is consistent with this coordinate's flag l *)
Definition arm_ok (a : arm) (l : bool) : Prop :=
  match a with AllLin => l = false | AllLog => l = true | Mixed => True end.

Definition g (a : arm) (l : bool) (plb pub x : R) : R :=
  match a with AllLin => src_g_arm0 | AllLog => src_g_arm1 | Mixed => src_g_arm2 end
    l x (src_mu_of l plb pub) (src_gamma_of l plb pub).

Definition ginv (a : arm) (l : bool) (plb pub y : R) : R :=
  match a with AllLin => src_ginv_arm0 | AllLog => src_ginv_arm1 | Mixed => src_ginv_arm2 end
    l y (src_mu_of l plb pub) (src_gamma_of l plb pub).

(* lb <= plb < pub <= ub, hard bounds possibly infinite; a log coordinate has lb > 0 (consequence of the rule) *)
Definition valid_box (l : bool) (lb : Rbar) (plb pub : R) (ub : Rbar) : Prop :=
  Rbar_le lb (Finite plb) /\ plb < pub /\ Rbar_le (Finite pub) ub /\ (l = true -> Rbar_lt (Finite 0) lb).

(* np.maximum / np.minimum on extended reals (no NaN) *)
Definition xmax (u v : Rbar) : Rbar :=
  match u, v with
  | p_infty, _ => p_infty
  | _, p_infty => p_infty
  | m_infty, w => w
  | w, m_infty => w
  | Finite p, Finite q => Finite (Rmax p q)
  end.
Definition xmin : Rbar -> Rbar -> Rbar := Rbar_min.

(* g and ginv at the infinities, as IEEE evaluates the source expressions (gamma > 0):
   linear: +-inf -> +-inf;  log: log|+-inf| = +inf;  exp(-inf) = 0;  min(fmax, exp(+inf)) = fmax *)
Definition gbar (a : arm) (l : bool) (plb pub : R) (x : Rbar) : Rbar :=
  match x with
  | Finite r => Finite (g a l plb pub r)
  | p_infty => p_infty
  | m_infty => if l then p_infty else m_infty
  end.
Definition ginvbar (a : arm) (l : bool) (plb pub : R) (y : Rbar) : Rbar :=
  match y with
  | Finite r => Finite (ginv a l plb pub r)
  | p_infty => if l then Finite src_fmax else p_infty
  | m_infty => if l then Finite 0 else m_infty
  end.

(* VariableTransformer.__call__ and .inverse_transf, one coordinate *)
Definition call (a : arm) (l : bool) (lb : Rbar) (plb pub : R) (ub : Rbar) (x : Rbar) : Rbar :=
  src_call_gen xmin xmax (gbar a l plb pub) x lb ub.
Definition inverse_transf (a : arm) (l : bool) (lb : Rbar) (plb pub : R) (ub : Rbar) (y : Rbar) : Rbar :=
  src_inverse_transf_gen xmin xmax (ginvbar a l plb pub) y lb ub.

(* unmasked per-coordinate maps *)
Definition gcore (l : bool) (x mu gamma : R) : R := if l then src_zlog x mu gamma else src_z x mu gamma.
Definition ginvcore (l : bool) (y mu gamma : R) : R := if l then src_ginv_log y mu gamma else src_ginv_lin y mu gamma.

(* ------------------------------------------------------------------ masks: every arm is coordinate-wise *)

Lemma g_coordinatewise : forall a l plb pub x, arm_ok a l ->
  g a l plb pub x = gcore l x (src_mu_of l plb pub) (src_gamma_of l plb pub).
Proof.
  intros a l plb pub x Hok. unfold g, gcore.
  destruct a, l; simpl in Hok; try discriminate Hok;
    unfold src_g_arm0, src_g_arm1, src_g_arm2, src_z_masked, src_zlog_masked, src_maskindex; simpl; lra.
Qed.

Lemma ginv_coordinatewise : forall a l plb pub y, arm_ok a l ->
  ginv a l plb pub y = ginvcore l y (src_mu_of l plb pub) (src_gamma_of l plb pub).
Proof.
  intros a l plb pub y Hok. unfold ginv, ginvcore.
  destruct a, l; simpl in Hok; try discriminate Hok;
    unfold src_ginv_arm0, src_ginv_arm1, src_ginv_arm2, src_ginv_mixed_lin, src_ginv_mixed_log,
           src_ginv_lin, src_ginv_log, src_maskindex; simpl; lra.
Qed.

(* ------------------------------------------------------------------ basic facts *)

Lemma fmax_pos : 0 < src_fmax.
Proof. unfold src_fmax. lra. Qed.

Lemma gamma_pos : forall l plb pub, plb < pub -> (l = true -> 0 < plb) -> 0 < src_gamma_of l plb pub.
Proof.
  intros l plb pub Hlt Hpos. unfold src_gamma_of, src_gamma, src_bound_pre. destruct l.
  - assert (Hp : 0 < plb) by (apply Hpos; reflexivity).
    assert (Hln : ln plb < ln pub) by (apply ln_increasing; assumption). lra.
  - lra.
Qed.

Lemma valid_gamma_pos : forall l lb plb pub ub, valid_box l lb plb pub ub -> 0 < src_gamma_of l plb pub.
Proof.
  intros l lb plb pub ub (Hlb & Hlt & Hub & Hlog). apply gamma_pos; [exact Hlt|].
  intro Hl. specialize (Hlog Hl). destruct lb as [r| |]; simpl in *; try contradiction; lra.
Qed.

Lemma valid_plb_pos : forall lb plb pub ub, valid_box true lb plb pub ub -> 0 < plb.
Proof.
  intros lb plb pub ub (Hlb & Hlt & Hub & Hlog). specialize (Hlog eq_refl).
  destruct lb as [r| |]; simpl in *; try contradiction; lra.
Qed.

Lemma zlog_arg_pos_id : forall x, 0 < x -> src_zlog_arg x = x.
Proof.
  intros x Hx. unfold src_zlog_arg, src_ind0.
  destruct (Req_EM_T x 0) as [E|E]; [lra|]. rewrite Rabs_pos_eq; lra.
Qed.

Lemma zlog_arg_positive : forall x, 0 < src_zlog_arg x.
Proof.
  intro x. unfold src_zlog_arg, src_ind0. destruct (Req_EM_T x 0) as [E|E].
  - subst x. rewrite Rabs_R0. lra.
  - assert (H := Rabs_pos_lt x E). lra.
Qed.

(* a point of a log coordinate's hard box is positive *)
Lemma box_point_pos : forall lb plb pub ub x, valid_box true lb plb pub ub -> Rbar_le lb (Finite x) -> 0 < x.
Proof.
  intros lb plb pub ub x (Hlb & Hlt & Hub & Hlog) Hx. specialize (Hlog eq_refl).
  destruct lb as [r| |]; simpl in *; try contradiction; lra.
Qed.

(* ------------------------------------------------------------------ core algebra, given gamma > 0 *)

Lemma core_inverse_left : forall l x mu gamma, 0 < gamma -> (l = true -> 0 < x <= src_fmax) ->
  ginvcore l (gcore l x mu gamma) mu gamma = x.
Proof.
  intros l x mu gamma Hg Hx. unfold ginvcore, gcore. destruct l.
  - destruct (Hx eq_refl) as [Hpos Hle]. unfold src_ginv_log, src_zlog. rewrite (zlog_arg_pos_id x Hpos).
    replace (gamma * ((ln x - mu) / gamma) + mu) with (ln x) by (field; lra).
    rewrite (exp_ln x Hpos). apply Rmin_right. exact Hle.
  - unfold src_ginv_lin, src_z. field. lra.
Qed.

Lemma exp_le_compat : forall p q, p <= q -> exp p <= exp q.
Proof. intros p q [H|H]; [left; apply exp_increasing; exact H | right; rewrite H; reflexivity]. Qed.

Lemma core_cap_inactive : forall y mu gamma, 0 < gamma -> y <= src_zlog src_fmax mu gamma ->
  src_ginv_log y mu gamma = exp (gamma * y + mu).
Proof.
  intros y mu gamma Hg Hy. unfold src_ginv_log. apply Rmin_right.
  unfold src_zlog in Hy. rewrite (zlog_arg_pos_id _ fmax_pos) in Hy.
  assert (H1 : gamma * y <= gamma * ((ln src_fmax - mu) / gamma)) by (apply Rmult_le_compat_l; lra).
  replace (gamma * ((ln src_fmax - mu) / gamma)) with (ln src_fmax - mu) in H1 by (field; lra).
  assert (H2 : gamma * y + mu <= ln src_fmax) by lra.
  apply Rle_trans with (exp (ln src_fmax)); [apply exp_le_compat; exact H2|].
  rewrite (exp_ln src_fmax fmax_pos). apply Rle_refl.
Qed.

Lemma core_inverse_right : forall l y mu gamma, 0 < gamma -> (l = true -> y <= src_zlog src_fmax mu gamma) ->
  gcore l (ginvcore l y mu gamma) mu gamma = y.
Proof.
  intros l y mu gamma Hg Hy. unfold ginvcore, gcore. destruct l.
  - rewrite (core_cap_inactive y mu gamma Hg (Hy eq_refl)). unfold src_zlog.
    rewrite (zlog_arg_pos_id _ (exp_pos _)). rewrite ln_exp. field. lra.
  - unfold src_ginv_lin, src_z. field. lra.
Qed.

Lemma div_lt_compat : forall p q gamma, 0 < gamma -> p < q -> p / gamma < q / gamma.
Proof. intros p q gamma Hg H. unfold Rdiv. apply Rmult_lt_compat_r; [apply Rinv_0_lt_compat; exact Hg | exact H]. Qed.

Lemma core_g_increasing : forall l x x' mu gamma, 0 < gamma -> (l = true -> 0 < x) -> x < x' ->
  gcore l x mu gamma < gcore l x' mu gamma.
Proof.
  intros l x x' mu gamma Hg Hpos Hlt. unfold gcore. destruct l.
  - specialize (Hpos eq_refl). unfold src_zlog. rewrite (zlog_arg_pos_id x Hpos).
    rewrite (zlog_arg_pos_id x') by lra. apply div_lt_compat; [exact Hg|].
    assert (H := ln_increasing x x' Hpos Hlt). lra.
  - unfold src_z. apply div_lt_compat; [exact Hg | lra].
Qed.

Lemma core_g_nondecreasing : forall l x x' mu gamma, 0 < gamma -> (l = true -> 0 < x) -> x <= x' ->
  gcore l x mu gamma <= gcore l x' mu gamma.
Proof.
  intros l x x' mu gamma Hg Hpos [Hlt|Heq].
  - left. apply core_g_increasing; assumption.
  - subst x'. right. reflexivity.
Qed.

Lemma core_ginv_nondecreasing : forall l y y' mu gamma, 0 < gamma -> y <= y' ->
  ginvcore l y mu gamma <= ginvcore l y' mu gamma.
Proof.
  intros l y y' mu gamma Hg Hle. unfold ginvcore. destruct l.
  - unfold src_ginv_log.
    assert (H1 : gamma * y <= gamma * y') by (apply Rmult_le_compat_l; lra).
    assert (H2 : exp (gamma * y + mu) <= exp (gamma * y' + mu)) by (apply exp_le_compat; lra).
    unfold Rmin. repeat destruct Rle_dec; lra.
  - unfold src_ginv_lin. assert (H1 : gamma * y <= gamma * y') by (apply Rmult_le_compat_l; lra). lra.
Qed.

Lemma core_ginv_increasing : forall l y y' mu gamma, 0 < gamma -> (l = true -> y' <= src_zlog src_fmax mu gamma) ->
  y < y' -> ginvcore l y mu gamma < ginvcore l y' mu gamma.
Proof.
  intros l y y' mu gamma Hg Hcap Hlt. unfold ginvcore.
  assert (H1 : gamma * y < gamma * y') by (apply Rmult_lt_compat_l; lra).
  destruct l.
  - specialize (Hcap eq_refl).
    rewrite (core_cap_inactive y' mu gamma Hg Hcap).
    rewrite (core_cap_inactive y mu gamma Hg) by lra.
    apply exp_increasing. lra.
  - unfold src_ginv_lin. lra.
Qed.

Lemma core_plausible : forall l plb pub, plb < pub -> (l = true -> 0 < plb) ->
  gcore l plb (src_mu_of l plb pub) (src_gamma_of l plb pub) = -1 /\
  gcore l pub (src_mu_of l plb pub) (src_gamma_of l plb pub) = 1.
Proof.
  intros l plb pub Hlt Hpos. assert (Hg := gamma_pos l plb pub Hlt Hpos).
  unfold gcore, src_mu_of, src_gamma_of, src_mu, src_gamma, src_bound_pre in *. destruct l.
  - specialize (Hpos eq_refl). unfold src_zlog. rewrite (zlog_arg_pos_id plb Hpos).
    rewrite (zlog_arg_pos_id pub) by lra. split; field; lra.
  - unfold src_z. split; field; lra.
Qed.

(* ------------------------------------------------------------------ inverse *)

Lemma inverse_left : forall a l lb plb pub ub x,
  arm_ok a l -> valid_box l lb plb pub ub ->
  Rbar_le lb (Finite x) -> Rbar_le (Finite x) ub -> (l = true -> x <= src_fmax) ->
  ginv a l plb pub (g a l plb pub x) = x.
Proof.
  intros a l lb plb pub ub x Hok Hv Hlo Hhi Hfm.
  rewrite (ginv_coordinatewise a l plb pub _ Hok), (g_coordinatewise a l plb pub x Hok).
  apply core_inverse_left; [exact (valid_gamma_pos _ _ _ _ _ Hv)|].
  intro Hl. subst l. split; [exact (box_point_pos _ _ _ _ _ Hv Hlo) | apply Hfm; reflexivity].
Qed.

Lemma g_fmax_core : forall a l plb pub, arm_ok a l -> l = true ->
  g a l plb pub src_fmax = src_zlog src_fmax (src_mu_of l plb pub) (src_gamma_of l plb pub).
Proof. intros a l plb pub Hok Hl. rewrite (g_coordinatewise _ _ _ _ _ Hok). subst l. reflexivity. Qed.

Lemma inverse_right : forall a l lb plb pub ub y,
  arm_ok a l -> valid_box l lb plb pub ub ->
  (l = true -> y <= g a l plb pub src_fmax) ->
  g a l plb pub (ginv a l plb pub y) = y.
Proof.
  intros a l lb plb pub ub y Hok Hv Hcap.
  rewrite (g_coordinatewise a l plb pub _ Hok), (ginv_coordinatewise a l plb pub y Hok).
  apply core_inverse_right; [exact (valid_gamma_pos _ _ _ _ _ Hv)|].
  intro Hl. rewrite <- (g_fmax_core a l plb pub Hok Hl). apply Hcap. exact Hl.
Qed.

(* ------------------------------------------------------------------ monotonicity *)

Lemma g_increasing : forall a l lb plb pub ub x x',
  arm_ok a l -> valid_box l lb plb pub ub -> (l = true -> 0 < x) -> x < x' ->
  g a l plb pub x < g a l plb pub x'.
Proof.
  intros a l lb plb pub ub x x' Hok Hv Hpos Hlt.
  rewrite !(g_coordinatewise a l plb pub _ Hok).
  apply core_g_increasing; [exact (valid_gamma_pos _ _ _ _ _ Hv) | exact Hpos | exact Hlt].
Qed.

Lemma g_nondecreasing : forall a l lb plb pub ub x x',
  arm_ok a l -> valid_box l lb plb pub ub -> (l = true -> 0 < x) -> x <= x' ->
  g a l plb pub x <= g a l plb pub x'.
Proof.
  intros a l lb plb pub ub x x' Hok Hv Hpos Hle.
  rewrite !(g_coordinatewise a l plb pub _ Hok).
  apply core_g_nondecreasing; [exact (valid_gamma_pos _ _ _ _ _ Hv) | exact Hpos | exact Hle].
Qed.

Lemma ginv_increasing : forall a l lb plb pub ub y y',
  arm_ok a l -> valid_box l lb plb pub ub -> (l = true -> y' <= g a l plb pub src_fmax) -> y < y' ->
  ginv a l plb pub y < ginv a l plb pub y'.
Proof.
  intros a l lb plb pub ub y y' Hok Hv Hcap Hlt.
  rewrite !(ginv_coordinatewise a l plb pub _ Hok).
  apply core_ginv_increasing; [exact (valid_gamma_pos _ _ _ _ _ Hv) | | exact Hlt].
  intro Hl. rewrite <- (g_fmax_core a l plb pub Hok Hl). apply Hcap. exact Hl.
Qed.

Lemma ginv_nondecreasing : forall a l lb plb pub ub y y',
  arm_ok a l -> valid_box l lb plb pub ub -> y <= y' ->
  ginv a l plb pub y <= ginv a l plb pub y'.
Proof.
  intros a l lb plb pub ub y y' Hok Hv Hle.
  rewrite !(ginv_coordinatewise a l plb pub _ Hok).
  apply core_ginv_nondecreasing; [exact (valid_gamma_pos _ _ _ _ _ Hv) | exact Hle].
Qed.

(* ------------------------------------------------------------------ clamps on extended reals *)

Definition clamp_fwd (y lb ub : Rbar) : Rbar := src_clamp_fwd_gen xmin xmax y lb ub.
Definition clamp_inv (x lb ub : Rbar) : Rbar := src_clamp_inv_gen xmin xmax x lb ub.

Ltac rbar_cases :=
  unfold src_clamp_fwd_gen, src_clamp_inv_gen, xmin, xmax, Rbar_min, Rbar_le in *; simpl in *;
  try tauto; try (unfold Rmin, Rmax in *; repeat destruct Rle_dec; simpl in *; try tauto; try lra).

Lemma clamp_fwd_in_box : forall y lb ub : Rbar, Rbar_le lb ub ->
  Rbar_le lb (clamp_fwd y lb ub) /\ Rbar_le (clamp_fwd y lb ub) ub.
Proof. intros y lb ub H. unfold clamp_fwd. destruct y, lb, ub; rbar_cases. Qed.

Lemma clamp_inv_in_box : forall x lb ub : Rbar, Rbar_le lb ub ->
  Rbar_le lb (clamp_inv x lb ub) /\ Rbar_le (clamp_inv x lb ub) ub.
Proof. intros x lb ub H. unfold clamp_inv. destruct x, lb, ub; rbar_cases. Qed.

Lemma clamp_fwd_monotone : forall y y' lb ub : Rbar, Rbar_le y y' ->
  Rbar_le (clamp_fwd y lb ub) (clamp_fwd y' lb ub).
Proof. intros y y' lb ub H. unfold clamp_fwd. destruct y, y', lb, ub; rbar_cases. Qed.

Lemma clamp_inv_monotone : forall x x' lb ub : Rbar, Rbar_le x x' ->
  Rbar_le (clamp_inv x lb ub) (clamp_inv x' lb ub).
Proof. intros x x' lb ub H. unfold clamp_inv. destruct x, x', lb, ub; rbar_cases. Qed.

Lemma clamp_fwd_id_in_box : forall y lb ub : Rbar, Rbar_le lb y -> Rbar_le y ub -> clamp_fwd y lb ub = y.
Proof.
  intros y lb ub H1 H2. unfold clamp_fwd. destruct y, lb, ub; rbar_cases;
  unfold Rmin, Rmax; repeat destruct Rle_dec; try reflexivity; try (f_equal; lra).
Qed.

Lemma clamp_inv_id_in_box : forall x lb ub : Rbar, Rbar_le lb x -> Rbar_le x ub -> clamp_inv x lb ub = x.
Proof.
  intros x lb ub H1 H2. unfold clamp_inv. destruct x, lb, ub; rbar_cases;
  unfold Rmin, Rmax; repeat destruct Rle_dec; try reflexivity; try (f_equal; lra).
Qed.

(* the real-valued clamps emitted for R are the same shape *)
Lemma clamp_fwd_real : forall y lb ub : R,
  clamp_fwd (Finite y) (Finite lb) (Finite ub) = Finite (src_clamp_fwd y lb ub).
Proof. intros. reflexivity. Qed.
Lemma clamp_inv_real : forall x lb ub : R,
  clamp_inv (Finite x) (Finite lb) (Finite ub) = Finite (src_clamp_inv x lb ub).
Proof. intros. reflexivity. Qed.

(* ------------------------------------------------------------------ g on extended reals *)

Lemma gbar_monotone_box : forall a l lb plb pub ub (x x' : Rbar),
  arm_ok a l -> valid_box l lb plb pub ub -> Rbar_le lb x -> Rbar_le x x' ->
  Rbar_le (gbar a l plb pub x) (gbar a l plb pub x').
Proof.
  intros a l lb plb pub ub x x' Hok Hv Hlo Hle.
  destruct x as [r| |], x' as [r'| |]; simpl in *; try tauto.
  - apply (g_nondecreasing a l lb plb pub ub r r' Hok Hv); [|exact Hle].
    intro Hl. subst l. exact (box_point_pos _ _ _ _ _ Hv Hlo).
  (* remaining cases have x = -inf: impossible below the hard box of a log coordinate; linear: -inf is least *)
  all: destruct l; simpl; try tauto;
       destruct Hv as (_ & _ & _ & Hlog); specialize (Hlog eq_refl); destruct lb; simpl in *; tauto.
Qed.

Lemma stored_bounds_ordered : forall a l lb plb pub ub,
  arm_ok a l -> valid_box l lb plb pub ub ->
  Rbar_le (gbar a l plb pub lb) (gbar a l plb pub ub).
Proof.
  intros a l lb plb pub ub Hok Hv. apply (gbar_monotone_box a l lb plb pub ub lb ub Hok Hv).
  - apply Rbar_le_refl.
  - destruct Hv as (H1 & H2 & H3 & _).
    apply Rbar_le_trans with (Finite plb); [exact H1|].
    apply Rbar_le_trans with (Finite pub); [simpl; lra | exact H3].
Qed.

Lemma box_ordered : forall l lb plb pub ub, valid_box l lb plb pub ub -> Rbar_le lb ub.
Proof.
  intros l lb plb pub ub (H1 & H2 & H3 & _).
  apply Rbar_le_trans with (Finite plb); [exact H1|].
  apply Rbar_le_trans with (Finite pub); [simpl; lra | exact H3].
Qed.

Lemma ginvbar_monotone : forall a l lb plb pub ub (y y' : Rbar),
  arm_ok a l -> valid_box l lb plb pub ub -> Rbar_le y y' ->
  Rbar_le (ginvbar a l plb pub y) (ginvbar a l plb pub y').
Proof.
  intros a l lb plb pub ub y y' Hok Hv Hle.
  assert (Hg := valid_gamma_pos _ _ _ _ _ Hv).
  destruct y as [r| |], y' as [r'| |]; simpl in *; try tauto.
  - apply (ginv_nondecreasing a l lb plb pub ub r r' Hok Hv Hle).
  - (* finite <= +inf *) destruct l; simpl; [|tauto].
    rewrite (ginv_coordinatewise a true plb pub r Hok). unfold ginvcore, src_ginv_log. apply Rmin_l.
  - (* +inf <= +inf *) destruct l; simpl; [apply Rle_refl|tauto].
  - (* -inf <= finite *) destruct l; simpl; [|tauto].
    rewrite (ginv_coordinatewise a true plb pub r' Hok). unfold ginvcore, src_ginv_log.
    assert (H1 := exp_pos (src_gamma_of true plb pub * r' + src_mu_of true plb pub)).
    assert (H2 := fmax_pos). unfold Rmin. destruct Rle_dec; lra.
  - (* -inf <= +inf *) destruct l; simpl; [|tauto]. left. exact fmax_pos.
  - (* -inf <= -inf *) destruct l; simpl; [apply Rle_refl|tauto].
Qed.

(* ------------------------------------------------------------------ public methods *)

Lemma call_unfold : forall a l lb plb pub ub x,
  call a l lb plb pub ub x = clamp_fwd (gbar a l plb pub x) (gbar a l plb pub lb) (gbar a l plb pub ub).
Proof. reflexivity. Qed.

Lemma inverse_transf_unfold : forall a l lb plb pub ub y,
  inverse_transf a l lb plb pub ub y = clamp_inv (ginvbar a l plb pub y) lb ub.
Proof. reflexivity. Qed.

Lemma call_in_box : forall a l lb plb pub ub (x : Rbar),
  arm_ok a l -> valid_box l lb plb pub ub ->
  Rbar_le (gbar a l plb pub lb) (call a l lb plb pub ub x) /\
  Rbar_le (call a l lb plb pub ub x) (gbar a l plb pub ub).
Proof.
  intros a l lb plb pub ub x Hok Hv. rewrite call_unfold.
  apply clamp_fwd_in_box. exact (stored_bounds_ordered a l lb plb pub ub Hok Hv).
Qed.

Lemma inverse_transf_in_box : forall a l lb plb pub ub (y : Rbar),
  valid_box l lb plb pub ub ->
  Rbar_le lb (inverse_transf a l lb plb pub ub y) /\ Rbar_le (inverse_transf a l lb plb pub ub y) ub.
Proof.
  intros a l lb plb pub ub y Hv. rewrite inverse_transf_unfold.
  apply clamp_inv_in_box. exact (box_ordered _ _ _ _ _ Hv).
Qed.

Lemma call_monotone : forall a l lb plb pub ub (x x' : R),
  arm_ok a l -> valid_box l lb plb pub ub -> (l = true -> 0 < x) -> x <= x' ->
  Rbar_le (call a l lb plb pub ub (Finite x)) (call a l lb plb pub ub (Finite x')).
Proof.
  intros a l lb plb pub ub x x' Hok Hv Hpos Hle. rewrite !call_unfold.
  apply clamp_fwd_monotone. simpl.
  apply (g_nondecreasing a l lb plb pub ub x x' Hok Hv Hpos Hle).
Qed.

Lemma inverse_transf_monotone : forall a l lb plb pub ub (y y' : Rbar),
  arm_ok a l -> valid_box l lb plb pub ub -> Rbar_le y y' ->
  Rbar_le (inverse_transf a l lb plb pub ub y) (inverse_transf a l lb plb pub ub y').
Proof.
  intros a l lb plb pub ub y y' Hok Hv Hle. rewrite !inverse_transf_unfold.
  apply clamp_inv_monotone. exact (ginvbar_monotone a l lb plb pub ub y y' Hok Hv Hle).
Qed.

(* inside the hard box neither clamp is active and the public round trip is the identity *)
Lemma call_is_g_in_box : forall a l lb plb pub ub (x : R),
  arm_ok a l -> valid_box l lb plb pub ub -> Rbar_le lb (Finite x) -> Rbar_le (Finite x) ub ->
  call a l lb plb pub ub (Finite x) = Finite (g a l plb pub x).
Proof.
  intros a l lb plb pub ub x Hok Hv Hlo Hhi. rewrite call_unfold.
  change (Finite (g a l plb pub x)) with (gbar a l plb pub (Finite x)).
  apply clamp_fwd_id_in_box.
  - apply (gbar_monotone_box a l lb plb pub ub lb (Finite x) Hok Hv); [apply Rbar_le_refl | exact Hlo].
  - apply (gbar_monotone_box a l lb plb pub ub (Finite x) ub Hok Hv); [exact Hlo | exact Hhi].
Qed.

Lemma public_roundtrip : forall a l lb plb pub ub (x : R),
  arm_ok a l -> valid_box l lb plb pub ub -> Rbar_le lb (Finite x) -> Rbar_le (Finite x) ub ->
  (l = true -> x <= src_fmax) ->
  inverse_transf a l lb plb pub ub (call a l lb plb pub ub (Finite x)) = Finite x.
Proof.
  intros a l lb plb pub ub x Hok Hv Hlo Hhi Hfm.
  rewrite (call_is_g_in_box a l lb plb pub ub x Hok Hv Hlo Hhi).
  rewrite inverse_transf_unfold. simpl ginvbar.
  rewrite (inverse_left a l lb plb pub ub x Hok Hv Hlo Hhi Hfm).
  apply clamp_inv_id_in_box; assumption.
Qed.

(* ------------------------------------------------------------------ plausible bounds *)

Lemma plausible_to_unit : forall a l lb plb pub ub,
  arm_ok a l -> valid_box l lb plb pub ub ->
  g a l plb pub plb = -1 /\ g a l plb pub pub = 1.
Proof.
  intros a l lb plb pub ub Hok Hv.
  rewrite !(g_coordinatewise a l plb pub _ Hok).
  apply core_plausible; [destruct Hv as (_ & H & _); exact H|].
  intro Hl. subst l. exact (valid_plb_pos _ _ _ _ Hv).
Qed.

(* ------------------------------------------------------------------ the log rule *)

Lemma log_rule_spec : forall lb ub plb pub,
  src_log_rule lb ub plb pub <->
  (Rbar_lt (Finite 0) lb /\ Rbar_lt (Finite 0) ub /\ 0 < plb /\ 0 < pub /\ pub / plb >= 10).
Proof. intros lb ub plb pub. unfold src_log_rule, Rgt. simpl. tauto. Qed.

(* what the constructor's order check enforces is valid_box's ordering part *)
Lemma order_check_spec : forall l lb plb pub ub,
  src_order_check lb plb pub ub -> (l = true -> Rbar_lt (Finite 0) lb) -> valid_box l lb plb pub ub.
Proof. intros l lb plb pub ub H Hl. unfold src_order_check in H. unfold valid_box. tauto. Qed.

Lemma log_flag_spec : forall (nonlinear_scaling : bool) lb ub plb pub l,
  src_log_flag (src_bads_logflag nonlinear_scaling) lb ub plb pub l ->
  (l = true <->
   nonlinear_scaling = true /\
   Rbar_lt (Finite 0) lb /\ Rbar_lt (Finite 0) ub /\ 0 < plb /\ 0 < pub /\ pub / plb >= 10).
Proof.
  intros ns lb ub plb pub l H. unfold src_bads_logflag, src_log_flag in H. destruct ns.
  - rewrite H, log_rule_spec. tauto.
  - subst l. split; [discriminate | intros [E _]; discriminate E].
Qed.

(* a flagged coordinate of an ordered box satisfies valid_box's positivity premise *)
Lemma log_rule_gives_valid : forall lb ub plb pub,
  Rbar_le lb (Finite plb) -> plb < pub -> Rbar_le (Finite pub) ub ->
  src_log_rule lb ub plb pub -> valid_box true lb plb pub ub.
Proof.
  intros lb ub plb pub H1 H2 H3 Hr. apply log_rule_spec in Hr.
  unfold valid_box. repeat split; try assumption. intros _. tauto.
Qed.

(* ------------------------------------------------------------------ statements as used by Props/C11.v *)

Lemma public_roundtrip_both :
  forall (a : arm) (l : bool) (lb : Rbar) (plb pub : R) (ub : Rbar) (x : R),
    arm_ok a l -> valid_box l lb plb pub ub ->
    Rbar_le lb (Finite x) -> Rbar_le (Finite x) ub -> (l = true -> x <= src_fmax) ->
    call a l lb plb pub ub (Finite x) = Finite (g a l plb pub x) /\
    inverse_transf a l lb plb pub ub (call a l lb plb pub ub (Finite x)) = Finite x.
Proof.
  intros a l lb plb pub ub x Hok Hv Hlo Hhi Hfm. split.
  - exact (call_is_g_in_box a l lb plb pub ub x Hok Hv Hlo Hhi).
  - exact (public_roundtrip a l lb plb pub ub x Hok Hv Hlo Hhi Hfm).
Qed.

Lemma monotone_all :
  forall (a : arm) (l : bool) (lb : Rbar) (plb pub : R) (ub : Rbar),
    arm_ok a l -> valid_box l lb plb pub ub ->
    (forall x x' : R, (l = true -> 0 < x) -> x < x' -> g a l plb pub x < g a l plb pub x') /\
    (forall y y' : R, (l = true -> y' <= g a l plb pub src_fmax) -> y < y' ->
                      ginv a l plb pub y < ginv a l plb pub y') /\
    (forall y y' : R, y <= y' -> ginv a l plb pub y <= ginv a l plb pub y') /\
    (forall x x' : R, (l = true -> 0 < x) -> x <= x' ->
                      Rbar_le (call a l lb plb pub ub (Finite x)) (call a l lb plb pub ub (Finite x'))) /\
    (forall y y' : Rbar, Rbar_le y y' ->
                      Rbar_le (inverse_transf a l lb plb pub ub y) (inverse_transf a l lb plb pub ub y')).
Proof.
  intros a l lb plb pub ub Hok Hv. repeat split.
  - intros x x'. exact (g_increasing a l lb plb pub ub x x' Hok Hv).
  - intros y y'. exact (ginv_increasing a l lb plb pub ub y y' Hok Hv).
  - intros y y'. exact (ginv_nondecreasing a l lb plb pub ub y y' Hok Hv).
  - intros x x'. exact (call_monotone a l lb plb pub ub x x' Hok Hv).
  - intros y y'. exact (inverse_transf_monotone a l lb plb pub ub y y' Hok Hv).
Qed.

Lemma outputs_in_box_all :
  forall (a : arm) (l : bool) (lb : Rbar) (plb pub : R) (ub : Rbar),
    arm_ok a l -> valid_box l lb plb pub ub ->
    Rbar_le (gbar a l plb pub lb) (gbar a l plb pub ub) /\
    (forall x : Rbar, Rbar_le (gbar a l plb pub lb) (call a l lb plb pub ub x) /\
                      Rbar_le (call a l lb plb pub ub x) (gbar a l plb pub ub)) /\
    (forall y : Rbar, Rbar_le lb (inverse_transf a l lb plb pub ub y) /\
                      Rbar_le (inverse_transf a l lb plb pub ub y) ub).
Proof.
  intros a l lb plb pub ub Hok Hv. repeat split.
  - exact (stored_bounds_ordered a l lb plb pub ub Hok Hv).
  - exact (proj1 (call_in_box a l lb plb pub ub x Hok Hv)).
  - exact (proj2 (call_in_box a l lb plb pub ub x Hok Hv)).
  - exact (proj1 (inverse_transf_in_box a l lb plb pub ub y Hv)).
  - exact (proj2 (inverse_transf_in_box a l lb plb pub ub y Hv)).
Qed.

Lemma clamps_as_written :
  forall v lb ub : Rbar, Rbar_le lb ub ->
    (Rbar_le lb (src_clamp_fwd_gen xmin xmax v lb ub) /\ Rbar_le (src_clamp_fwd_gen xmin xmax v lb ub) ub) /\
    (Rbar_le lb (src_clamp_inv_gen xmin xmax v lb ub) /\ Rbar_le (src_clamp_inv_gen xmin xmax v lb ub) ub).
Proof. intros v lb ub H. split; [exact (clamp_fwd_in_box v lb ub H) | exact (clamp_inv_in_box v lb ub H)]. Qed.

Lemma affine_or_log :
  forall (a : arm) (l : bool) (plb pub : R), arm_ok a l ->
    (l = false -> forall x, g a l plb pub x = (x - src_mu plb pub) / src_gamma plb pub) /\
    (l = false -> forall y, ginv a l plb pub y = src_gamma plb pub * y + src_mu plb pub) /\
    (l = true -> forall x, 0 < x ->
        g a l plb pub x = (ln x - src_mu (ln plb) (ln pub)) / src_gamma (ln plb) (ln pub)) /\
    (l = true -> forall y,
        ginv a l plb pub y = Rmin src_fmax (exp (src_gamma (ln plb) (ln pub) * y + src_mu (ln plb) (ln pub)))).
Proof.
  intros a l plb pub Hok. repeat split; intro Hl; subst l; intros.
  - rewrite (g_coordinatewise _ _ _ _ _ Hok). reflexivity.
  - rewrite (ginv_coordinatewise _ _ _ _ _ Hok). reflexivity.
  - rewrite (g_coordinatewise _ _ _ _ _ Hok). unfold gcore, src_zlog. rewrite zlog_arg_pos_id by assumption. reflexivity.
  - rewrite (ginv_coordinatewise _ _ _ _ _ Hok). reflexivity.
Qed.

Lemma log_argument_positive :
  (forall x : R, 0 < src_zlog_arg x) /\ (forall x : R, 0 < x -> src_zlog_arg x = x).
Proof. split; [exact zlog_arg_positive | exact zlog_arg_pos_id]. Qed.
