(* FilterSourceProofs.v — the hand-written model of contraints_check (Model/Filter.v) equals the
   program REGENERATED from the source (gen/Src_filter.v) for ALL inputs.
     (1) src_* = model_* of Model/FilterSrc.v: closed terms, by conversion (a renamed local is
         alpha-conversion; anything else in the source changes the generated term and fails here);
     (2) model_stage1..4 = project_rows / dedup_rows [] / drop_evaluated / keep_feasible: semantic
         proofs about the NumPy primitives (np.unique = first occurrences in lexicographic order;
         np.sort of a permutation of an increasing index list; the stack of rounded keys);
     (3) the events of the starting point's feasibility checks and what they do. *)
From Coq Require Import ZArith QArith Qround Lia List Bool Sorted Permutation String.
From PV Require Import Model.Filter Model.FilterSrc Proofs.FilterProofs gen.Src_filter.
Import ListNotations.
Open Scope Z_scope.

(* ------------------------------------------------------------------------------------------ *)
(* stage 1: projection / box filter                                                            *)

Lemma row_clamp : forall r lb ub, row_maximum_lo (row_minimum_hi r ub) lb = clamp_row lb ub r.
Proof.
  induction r as [|x r IH]; intros lb ub; [reflexivity|].
  cbn [row_minimum_hi row_maximum_lo clamp_row]. rewrite IH. f_equal.
Qed.

Lemma row_box : forall r lb ub,
  negb (existsb (fun b : bool => b) (row_cmp_hi CGt r ub) || existsb (fun b : bool => b) (row_cmp_lo CLt r lb)) = in_boxb lb ub r.
Proof.
  induction r as [|x r IH]; intros lb ub; [reflexivity|].
  cbn [row_cmp_hi row_cmp_lo existsb in_boxb]. rewrite <- IH.
  assert (H1 : cmp_hi CGt x (hd None ub) = negb (le_hi (hd None ub) x)) by (destruct (hd None ub); reflexivity).
  assert (H2 : cmp_lo CLt x (hd None lb) = negb (ge_lo (hd None lb) x)) by (destruct (hd None lb); reflexivity).
  rewrite H1, H2.
  destruct (le_hi (hd None ub) x), (ge_lo (hd None lb) x),
    (existsb (fun b : bool => b) (row_cmp_hi CGt r (tl ub))), (existsb (fun b : bool => b) (row_cmp_lo CLt r (tl lb))); reflexivity.
Qed.

Lemma stage1_model : forall U lb ub proj, model_stage1 U lb ub proj = project_rows proj lb ub U.
Proof.
  intros U lb ub proj. unfold model_stage1, project_rows. destruct proj.
  - unfold np_maximum_lo, np_minimum_hi. rewrite map_map. apply map_ext. intros r. apply row_clamp.
  - unfold mask_not, mask_or, np_any_axis1, np_cmp_hi, np_cmp_lo.
    induction U as [|r U IH]; [reflexivity|].
    cbn [map mask_zip take_mask filter]. rewrite <- row_box.
    destruct (existsb (fun b : bool => b) (row_cmp_hi CGt r ub) || existsb (fun b : bool => b) (row_cmp_lo CLt r lb));
      cbn [negb]; rewrite IH; reflexivity.
Qed.

(* ------------------------------------------------------------------------------------------ *)
(* generic facts about np.unique's index                                                       *)

Definition pmap {K P P' : Type} (f : P -> P') (l : list (K * P)) : list (K * P') := map (fun e => (fst e, f (snd e))) l.

Lemma dedup_g_pmap : forall {K P P'} (cmp : K -> K -> comparison) (f : P -> P') l seen,
  dedup_g cmp seen (pmap f l) = pmap f (dedup_g cmp seen l).
Proof.
  intros K P P' cmp f. induction l as [|e l IH]; intros seen; [reflexivity|].
  cbn [pmap map dedup_g fst]. destruct (existsb (g_eqb cmp (fst e)) seen).
  - apply IH.
  - cbn [map]. f_equal. apply IH.
Qed.

Lemma insert_g_pmap : forall {K P P'} (cmp : K -> K -> comparison) (f : P -> P') e l,
  insert_g cmp (fst e, f (snd e)) (pmap f l) = pmap f (insert_g cmp e l).
Proof.
  intros K P P' cmp f e. induction l as [|h l IH]; [reflexivity|].
  cbn [pmap map insert_g fst]. destruct (g_leb cmp (fst e) (fst h)).
  - reflexivity.
  - cbn [map]. f_equal. apply IH.
Qed.

Lemma sort_g_pmap : forall {K P P'} (cmp : K -> K -> comparison) (f : P -> P') l,
  sort_g cmp (pmap f l) = pmap f (sort_g cmp l).
Proof.
  intros K P P' cmp f. induction l as [|e l IH]; [reflexivity|].
  unfold sort_g in *. cbn [pmap map fold_right]. fold (pmap f l). rewrite IH. apply insert_g_pmap.
Qed.

Lemma unique_g_pmap : forall {K P P'} (cmp : K -> K -> comparison) (f : P -> P') l,
  unique_g cmp (pmap f l) = pmap f (unique_g cmp l).
Proof. intros. unfold unique_g. rewrite dedup_g_pmap. apply sort_g_pmap. Qed.

Lemma dedup_g_In : forall {K P} (cmp : K -> K -> comparison) (l : list (K * P)) seen e,
  In e (dedup_g cmp seen l) -> In e l.
Proof.
  intros K P cmp. induction l as [|h l IH]; intros seen e H; [exact H|].
  cbn [dedup_g] in H. destruct (existsb (g_eqb cmp (fst h)) seen).
  - right. eapply IH; exact H.
  - destruct H as [H|H]; [left; exact H | right; eapply IH; exact H].
Qed.

Lemma insert_g_perm : forall {K P} (cmp : K -> K -> comparison) (e : K * P) l, Permutation (e :: l) (insert_g cmp e l).
Proof.
  intros K P cmp e. induction l as [|h l IH]; [apply Permutation_refl|].
  cbn [insert_g]. destruct (g_leb cmp (fst e) (fst h)); [apply Permutation_refl|].
  eapply perm_trans; [apply perm_swap|]. apply perm_skip. exact IH.
Qed.

Lemma sort_g_perm : forall {K P} (cmp : K -> K -> comparison) (l : list (K * P)), Permutation l (sort_g cmp l).
Proof.
  intros K P cmp. induction l as [|e l IH]; [apply perm_nil|].
  unfold sort_g in *. cbn [fold_right]. eapply perm_trans; [apply perm_skip; exact IH|]. apply insert_g_perm.
Qed.

(* np.sort *)
Lemma nat_insert_perm : forall i l, Permutation (i :: l) (nat_insert i l).
Proof.
  intros i. induction l as [|h l IH]; [apply Permutation_refl|].
  cbn [nat_insert]. destruct (Nat.leb i h); [apply Permutation_refl|].
  eapply perm_trans; [apply perm_swap|]. apply perm_skip. exact IH.
Qed.

Lemma np_sort_perm : forall l, Permutation l (np_sort_idx l).
Proof.
  induction l as [|e l IH]; [apply perm_nil|].
  unfold np_sort_idx in *. cbn [fold_right]. eapply perm_trans; [apply perm_skip; exact IH|]. apply nat_insert_perm.
Qed.

Lemma nat_insert_sorted : forall i l, StronglySorted le l -> StronglySorted le (nat_insert i l).
Proof.
  intros i. induction l as [|h l IH]; intros H.
  - constructor; constructor.
  - cbn [nat_insert]. destruct (Nat.leb i h) eqn:E.
    + apply Nat.leb_le in E. constructor; [exact H|].
      constructor; [exact E|]. inversion H as [|? ? _ HF]; subst.
      eapply Forall_impl; [|exact HF]. intros a Ha. cbv beta in Ha. lia.
    + apply Nat.leb_gt in E. inversion H as [|? ? HS HF]; subst. constructor; [apply IH; exact HS|].
      eapply Permutation_Forall; [apply nat_insert_perm|]. constructor; [lia|exact HF].
Qed.

Lemma np_sort_sorted : forall l, StronglySorted le (np_sort_idx l).
Proof.
  induction l as [|e l IH]; [constructor|]. unfold np_sort_idx in *. cbn [fold_right]. apply nat_insert_sorted. exact IH.
Qed.

Lemma sorted_perm_eq : forall a b : list nat,
  StronglySorted le a -> StronglySorted le b -> Permutation a b -> a = b.
Proof.
  induction a as [|x a IH]; intros b Ha Hb HP.
  - apply Permutation_nil in HP. subst. reflexivity.
  - destruct b as [|y b]; [apply Permutation_sym, Permutation_nil in HP; discriminate|].
    inversion Ha as [|? ? Ha' HFa]; subst. inversion Hb as [|? ? Hb' HFb]; subst.
    assert (Hxy : x = y).
    { assert (Hx : In x (y :: b)) by (eapply Permutation_in; [exact HP | left; reflexivity]).
      assert (Hy : In y (x :: a)) by (eapply Permutation_in; [apply Permutation_sym; exact HP | left; reflexivity]).
      destruct Hx as [Hx|Hx]; [symmetry; exact Hx|]. destruct Hy as [Hy|Hy]; [exact Hy|].
      rewrite Forall_forall in HFa, HFb. specialize (HFa _ Hy). specialize (HFb _ Hx). lia. }
    subst y. f_equal. apply IH; [exact Ha' | exact Hb' | eapply Permutation_cons_inv; exact HP].
Qed.

Lemma np_sort_of_perm : forall s l, StronglySorted le s -> Permutation s l -> np_sort_idx l = s.
Proof.
  intros s l Hs HP. symmetry. apply sorted_perm_eq; [exact Hs | apply np_sort_sorted|].
  eapply perm_trans; [exact HP | apply np_sort_perm].
Qed.

(* indices of an indexed list *)
Lemma indexed_snd_bounds : forall {A} (l : list A) i e, In e (indexed i l) -> (i <= snd e)%nat.
Proof.
  intros A. induction l as [|x l IH]; intros i e H; [destruct H|].
  cbn [indexed] in H. destruct H as [H|H]; [subst; cbn; lia|]. apply IH in H. lia.
Qed.

Lemma dedup_indexed_sorted : forall {K} (cmp : K -> K -> comparison) (l : list K) i seen,
  StronglySorted le (map snd (dedup_g cmp seen (indexed i l))).
Proof.
  intros K cmp. induction l as [|x l IH]; intros i seen; [constructor|].
  cbn [indexed dedup_g fst]. destruct (existsb (g_eqb cmp x) seen); [apply IH|].
  cbn [map snd]. constructor; [apply IH|].
  rewrite Forall_forall. intros j Hj. apply in_map_iff in Hj. destruct Hj as [e [Ee He]]. subst j.
  apply dedup_g_In in He. apply indexed_snd_bounds in He. lia.
Qed.

Lemma indexed_nth : forall {A} (pre l : list A) e,
  In e (indexed (List.length pre) l) -> nth_error (pre ++ l) (snd e) = Some (fst e).
Proof.
  intros A pre l. revert pre. induction l as [|x l IH]; intros pre e H; [destruct H|].
  cbn [indexed] in H. destruct H as [H|H].
  - subst e. cbn [fst snd]. rewrite nth_error_app2 by lia. rewrite Nat.sub_diag. reflexivity.
  - specialize (IH (pre ++ [x]) e). rewrite app_length in IH. cbn [List.length] in IH.
    replace (List.length pre + 1)%nat with (S (List.length pre)) in IH by lia.
    rewrite <- app_assoc in IH. cbn [app] in IH. apply IH. exact H.
Qed.

Lemma take_idx_pairs : forall {A} (l : list A) (E : list (A * nat)),
  (forall e, In e E -> nth_error l (snd e) = Some (fst e)) -> take_idx l (map snd E) = map fst E.
Proof.
  intros A l. induction E as [|e E IH]; intros H; [reflexivity|].
  unfold take_idx in *. cbn [map flat_map]. rewrite (H e (or_introl eq_refl)). cbn [app]. f_equal.
  apply IH. intros e' He'. apply H. right. exact He'.
Qed.

(* ------------------------------------------------------------------------------------------ *)
(* stage 2: exact duplicates, first occurrences, original order                                *)

Lemma qlex_eqb : forall a b, g_eqb qlex_compare a b = qrow_eqb a b.
Proof.
  unfold g_eqb. induction a as [|x a IH]; intros [|y b]; try reflexivity.
  cbn [qlex_compare qrow_eqb]. destruct (Qcompare x y) eqn:E.
  - apply Qeq_alt in E. apply Qeq_bool_iff in E. rewrite E. cbn [andb]. apply IH.
  - destruct (Qeq_bool x y) eqn:E2; [|reflexivity]. apply Qeq_bool_iff in E2. apply Qeq_alt in E2. congruence.
  - destruct (Qeq_bool x y) eqn:E2; [|reflexivity]. apply Qeq_bool_iff in E2. apply Qeq_alt in E2. congruence.
Qed.

Lemma existsb_ext' : forall {A} (f g : A -> bool) l, (forall x, f x = g x) -> existsb f l = existsb g l.
Proof. intros A f g l H. induction l as [|x l IH]; [reflexivity|]. cbn [existsb]. rewrite H, IH. reflexivity. Qed.

Lemma dedup_g_rows : forall l i seen, map fst (dedup_g qlex_compare seen (indexed i l)) = dedup_rows seen l.
Proof.
  induction l as [|r l IH]; intros i seen; [reflexivity|].
  cbn [indexed dedup_g dedup_rows fst].
  rewrite (existsb_ext' (g_eqb qlex_compare r) (qrow_eqb r)) by (intros; apply qlex_eqb).
  destruct (existsb (qrow_eqb r) seen); [apply IH|]. cbn [map fst]. f_equal. apply IH.
Qed.

Lemma stage2_model : forall U, model_stage2 U = dedup_rows [] U.
Proof.
  intros U. unfold model_stage2, np_unique_index_q, np_unique_index, unique_g.
  set (D := dedup_g qlex_compare [] (indexed 0 U)).
  assert (HS : np_sort_idx (map snd (sort_g qlex_compare D)) = map snd D).
  { apply np_sort_of_perm; [apply dedup_indexed_sorted|]. apply Permutation_map. apply sort_g_perm. }
  rewrite HS. rewrite take_idx_pairs; [apply dedup_g_rows|].
  intros e He. apply dedup_g_In in He. apply (indexed_nth [] U e). exact He.
Qed.

(* ------------------------------------------------------------------------------------------ *)
(* stage 3: the stack of rounded keys                                                          *)

Lemma dedup_keys_g : forall (l : list fentry) seen, dedup_keys seen l = dedup_g lex_compare seen l.
Proof. induction l as [|e l IH]; intros seen; [reflexivity|]. cbn [dedup_keys dedup_g]. rewrite !IH. reflexivity. Qed.

Lemma insert_entry_g : forall (e : fentry) l, insert_entry e l = insert_g lex_compare e l.
Proof. intros e. induction l as [|h l IH]; [reflexivity|]. cbn [insert_entry insert_g]. rewrite IH. reflexivity. Qed.

Lemma sort_entries_g : forall (l : list fentry), sort_entries l = sort_g lex_compare l.
Proof.
  induction l as [|e l IH]; [reflexivity|]. unfold sort_entries, sort_g in *. cbn [fold_right]. rewrite IH. apply insert_entry_g.
Qed.

Lemma unique_first_g : forall (l : list fentry), unique_first l = unique_g lex_compare l.
Proof. intros l. unfold unique_first, unique_g. rewrite dedup_keys_g. apply sort_entries_g. Qed.

Lemma log_part_indexed : forall (k : qrow -> zkey) (U1 L : list qrow) i, (List.length U1 <= i)%nat ->
  pmap (nth_error U1) (indexed i (map k L)) = map (fun x => (k x, @None qrow)) L.
Proof.
  intros k U1. induction L as [|x L IH]; intros i Hi; [reflexivity|].
  cbn [map indexed pmap fst snd]. f_equal.
  - f_equal. apply nth_error_None. exact Hi.
  - apply IH. lia.
Qed.

Lemma stack_indexed : forall (k : qrow -> zkey) (L U1' pre : list qrow),
  pmap (nth_error (pre ++ U1')) (indexed (List.length pre) (map k U1' ++ map k L))
  = map (fun r => (k r, Some r)) U1' ++ map (fun x => (k x, @None qrow)) L.
Proof.
  intros k L. induction U1' as [|r U1' IH]; intros pre.
  - cbn [map app]. rewrite app_nil_r. apply log_part_indexed. lia.
  - cbn [map app indexed pmap fst snd]. f_equal.
    + f_equal. rewrite nth_error_app2 by lia. rewrite Nat.sub_diag. reflexivity.
    + specialize (IH (pre ++ [r])). rewrite app_length in IH. cbn [List.length] in IH.
      replace (List.length pre + 1)%nat with (S (List.length pre)) in IH by lia.
      rewrite <- app_assoc in IH. cbn [app] in IH. exact IH.
Qed.

Lemma somes_pmap : forall (U1 : list qrow) (E : list (zkey * nat)),
  somes (pmap (nth_error U1) E) = take_idx U1 (take_mask (map snd E) (idx_lt (map snd E) (List.length U1))).
Proof.
  intros U1. induction E as [|e E IH]; [reflexivity|].
  cbn [pmap map somes fst snd idx_lt take_mask]. fold (pmap (nth_error U1) E). fold (idx_lt (map snd E) (List.length U1)).
  destruct (nth_error U1 (snd e)) eqn:En.
  - assert (Hlt : Nat.ltb (snd e) (List.length U1) = true).
    { apply Nat.ltb_lt. apply nth_error_Some. congruence. }
    rewrite Hlt. unfold take_idx in *. cbn [flat_map]. rewrite En. cbn [app]. f_equal. exact IH.
  - assert (Hge : Nat.ltb (snd e) (List.length U1) = false).
    { apply Nat.ltb_ge. apply nth_error_None. exact En. }
    rewrite Hge. exact IH.
Qed.

Lemma np_round_div_rkey : forall U t, np_round (np_div U t) = map (rkey t) U.
Proof.
  intros U t. unfold np_round, np_div. rewrite map_map. apply map_ext. intros r. unfold rkey. rewrite map_map. reflexivity.
Qed.

Lemma stage3_model : forall tol_mesh X xmi U,
  model_stage3 tol_mesh X xmi U = drop_evaluated tol_mesh (py_prefix (xmi + 1) X) U.
Proof.
  intros tol_mesh X xmi U. unfold model_stage3. destruct U as [|r0 U0].
  - cbn [np_nonempty]. rewrite drop_evaluated_log_irrelevant. reflexivity.
  - cbn [np_nonempty]. set (U := r0 :: U0). set (L := py_prefix (xmi + 1) X).
    unfold drop_evaluated, np_unique_index_z, np_unique_index, np_vstack, np_len.
    change (q_div tol_mesh (2 # 1)) with (half_tol tol_mesh).
    rewrite !np_round_div_rkey.
    unfold stack_entries. rewrite <- (stack_indexed (rkey (half_tol tol_mesh)) L U []).
    cbn [app List.length]. rewrite unique_first_g, unique_g_pmap, somes_pmap.
    rewrite map_length. reflexivity.
Qed.

(* ------------------------------------------------------------------------------------------ *)
(* stage 4: the user's constraint                                                              *)

Lemma take_mask_filter : forall {A} (p : A -> bool) l, take_mask l (map p l) = filter p l.
Proof. intros A p. induction l as [|x l IH]; [reflexivity|]. cbn [map take_mask filter]. rewrite IH. reflexivity. Qed.

Lemma stage4_model : forall (XT : Type) (inv : qrow -> XT) (cons : option (XT -> Q)) U,
  model_stage4 inv cons U = keep_feasible (violated_of inv cons) U.
Proof.
  intros XT inv cons U. unfold model_stage4, violated_of, keep_feasible. destruct cons as [c|]; [|reflexivity].
  cbn [option_map]. unfold vals_cmp. rewrite !map_map. rewrite take_mask_filter.
  apply filter_ext. intros r. cbn [qcmp]. rewrite negb_involutive. reflexivity.
Qed.

(* ------------------------------------------------------------------------------------------ *)
(* the generated program                                                                       *)

Lemma src_stages_are_model :
  @src_stage1 = @model_stage1 /\ @src_stage2 = @model_stage2 /\ @src_stage3 = @model_stage3 /\ @src_stage4 = @model_stage4.
Proof. repeat split; reflexivity. Qed.

Lemma src_filter_is_model_src : @src_filter = @model_src_filter.
Proof. reflexivity. Qed.

Lemma model_src_filter_is_filter : forall (XT : Type) (inv : qrow -> XT) U lb ub tol_mesh X xmi proj cons,
  model_src_filter inv U lb ub tol_mesh X xmi proj cons
  = filter_candidates proj lb ub tol_mesh (py_prefix (xmi + 1) X) (violated_of inv cons) U.
Proof.
  intros. unfold model_src_filter, filter_candidates.
  rewrite stage4_model, stage3_model, stage2_model, stage1_model. reflexivity.
Qed.

Lemma filter_is_source : forall (XT : Type) (inv : qrow -> XT) U lb ub tol_mesh X xmi proj cons,
  src_filter inv U lb ub tol_mesh X xmi proj cons
  = filter_candidates proj lb ub tol_mesh (py_prefix (xmi + 1) X) (violated_of inv cons) U.
Proof. intros. rewrite src_filter_is_model_src. apply model_src_filter_is_filter. Qed.

Lemma order_of_steps_is_source : forall (XT : Type) (inv : qrow -> XT) U lb ub tol_mesh X xmi proj cons,
  src_stage1 U lb ub proj = project_rows proj lb ub U /\
  (forall V, src_stage2 V = dedup_rows [] V) /\
  (forall V, src_stage3 tol_mesh X xmi V = drop_evaluated tol_mesh (py_prefix (xmi + 1) X) V) /\
  (forall V, src_stage4 inv cons V = keep_feasible (violated_of inv cons) V) /\
  src_filter inv U lb ub tol_mesh X xmi proj cons
  = src_stage4 inv cons (src_stage3 tol_mesh X xmi (src_stage2 (src_stage1 U lb ub proj))) /\
  src_stage_writes = ["if proj"; "assign"; "if R.size > 0"; "if non_box_cons is not None"]%string.
Proof.
  intros. destruct src_stages_are_model as [E1 [E2 [E3 E4]]]. rewrite E1, E2, E3, E4.
  split; [apply stage1_model|]. split; [apply stage2_model|]. split; [apply stage3_model|]. split; [apply stage4_model|].
  split; reflexivity.
Qed.

(* ------------------------------------------------------------------------------------------ *)
(* the starting point's feasibility checks                                                      *)

Lemma start_events_are_model : src_init_events = model_init_events /\ src_state_events = model_state_events.
Proof. split; reflexivity. Qed.

(* what the events do, for every start, grid arithmetic, transform, constraint and box test *)
Lemma start_checks_run : forall (XT : Type) (x0 : XT) (snap : XT -> qrow) (pull_lo pull_hi : qrow -> qrow) (inv : qrow -> XT)
    (cons : option (XT -> Q)) (inbox : qrow -> bool),
  let u0 := pull_hi (pull_lo (snap x0)) in
  let viol x := match cons with Some f => negb (Qle_bool (f x) (0 # 1)) | None => false end in
  run_start x0 snap pull_lo pull_hi inv cons inbox src_init_events src_state_events
  = if viol x0 then Rejected "ValueError" false
    else if viol (inv u0) then Rejected "ValueError" false
    else if inbox u0 then Accepted (Some u0) else Rejected "ValueError" false.
Proof.
  intros. destruct start_events_are_model as [E1 E2]. rewrite E1, E2.
  unfold run_start, model_init_events, model_state_events, viol, u0.
  destruct cons as [f|]; cbn [run_evs ss_u0 ss_logger ss_stored option_map cons_fires qcmp].
  - destruct (Qle_bool (f x0) (0 # 1)); cbn [negb]; [|reflexivity].
    destruct (Qle_bool (f (inv (pull_hi (pull_lo (snap x0))))) (0 # 1)); cbn [negb]; [|reflexivity].
    destruct (inbox (pull_hi (pull_lo (snap x0)))); reflexivity.
  - destruct (inbox (pull_hi (pull_lo (snap x0)))); reflexivity.
Qed.

(* ------------------------------------------------------------------------------------------ *)
(* the call sites of contraints_check (closed data)                                            *)

Lemma filter_calls_are_model : src_filter_calls = model_filter_calls.
Proof. reflexivity. Qed.

(* ------------------------------------------------------------------------------------------ *)
(* the clauses of Props/C17.v restated for the program regenerated from the source             *)

Lemma source_properties : forall (XT : Type) (inv : qrow -> XT) U lb ub tol_mesh X xmi proj cons,
  let out := src_filter inv U lb ub tol_mesh X xmi proj cons in
  ((proj = true -> box_ok lb ub) -> Forall (in_box lb ub) out) /\
  (forall c, cons = Some c -> Forall (fun r => Qle_bool (c (inv r)) (0 # 1) = true) out) /\
  NoDup out /\ NoDup (map (rkey (half_tol tol_mesh)) out) /\
  Forall (fun r => exists u, In u U /\ r = (if proj then clamp_row lb ub u else u)) out.
Proof.
  intros XT inv U lb ub tol_mesh X xmi proj cons out. unfold out. rewrite filter_is_source.
  split; [intros Hb; apply filter_in_box; exact Hb|].
  split.
  - intros c Hc. subst cons. cbn [violated_of option_map].
    eapply Forall_impl; [|apply filter_feasible]. intros r Hr. cbv beta in Hr.
    destruct (Qle_bool (c (inv r)) (0 # 1)); [reflexivity | discriminate Hr].
  - pose proof (filter_nodup_all proj lb ub tol_mesh (py_prefix (xmi + 1) X) (violated_of inv cons) U) as [H1 [_ H3]].
    pose proof (filter_subset_all proj lb ub tol_mesh (py_prefix (xmi + 1) X) (violated_of inv cons) U) as [H4 _].
    split; [exact H1|]. split; [exact H3 | exact H4].
Qed.

(* ------------------------------------------------------------------------------------------ *)
(* C01: the rows whose images the source hands to the user's constraint function               *)

Lemma constraint_points_in_box : forall (XT : Type) (inv : qrow -> XT) U lb ub tol_mesh X xmi proj cons,
  (proj = true -> box_ok lb ub) ->
  let V := src_stage3 tol_mesh X xmi (src_stage2 (src_stage1 U lb ub proj)) in
  Forall (in_box lb ub) V /\
  src_filter inv U lb ub tol_mesh X xmi proj cons = src_stage4 inv cons V /\
  (forall c, cons = Some c -> src_stage4 inv cons V = take_mask V (vals_cmp CLe (map c (map inv V)) (0 # 1))) /\
  (forall r, In r (src_filter inv U lb ub tol_mesh X xmi proj cons) -> In r V).
Proof.
  intros XT inv U lb ub tol_mesh X xmi proj cons Hb V.
  destruct (order_of_steps_is_source XT inv U lb ub tol_mesh X xmi proj cons) as [E1 [E2 [E3 [E4 [E5 _]]]]].
  assert (HV : V = filter_candidates proj lb ub tol_mesh (py_prefix (xmi + 1) X) None U).
  { unfold V. rewrite E1, E2, E3. reflexivity. }
  split; [rewrite HV; apply filter_in_box; exact Hb|].
  split; [exact E5|].
  split.
  - intros c Hc. subst cons. destruct src_stages_are_model as [_ [_ [_ S4]]]. rewrite S4. reflexivity.
  - intros r Hr. rewrite E5 in Hr. fold V in Hr. rewrite E4 in Hr. eapply keep_feasible_In. exact Hr.
Qed.
