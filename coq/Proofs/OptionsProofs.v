(* OptionsProofs.v — all proofs about Model/Options.v (stdlib only, closed under the global context).
   Everything is for ARBITRARY file contents (entry lists), user dicts, dimensions and op sequences;
   nothing here mentions the real option files (they are instantiated in Props/C20.v). *)
From Coq Require Import ZArith List String Bool Lia.
From PV Require Import Model.Options.
Import ListNotations.
Open Scope Z_scope.

(* ------------------------------------------------------------------ strings, membership *)
Lemma seqb_refl (k : string) : String.eqb k k = true.
Proof. apply String.eqb_refl. Qed.

Lemma seqb_true (a b : string) : String.eqb a b = true <-> a = b.
Proof. apply String.eqb_eq. Qed.

Lemma seqb_false (a b : string) : String.eqb a b = false <-> a <> b.
Proof. apply String.eqb_neq. Qed.

Lemma mem_In (k : string) (l : list string) : mem k l = true <-> In k l.
Proof.
  unfold mem. rewrite existsb_exists. split.
  - intros [x [Hin He]]. apply seqb_true in He. subst. exact Hin.
  - intros Hin. exists k. split; [exact Hin | apply seqb_refl].
Qed.

Lemma mem_false (k : string) (l : list string) : mem k l = false <-> ~ In k l.
Proof.
  rewrite <- mem_In. destruct (mem k l); split; intro H.
  - discriminate.
  - exfalso. apply H. reflexivity.
  - intro H0. discriminate.
  - reflexivity.
Qed.

Lemma forallb_false_exists {A} (f : A -> bool) (l : list A) :
  forallb f l = false <-> exists x, In x l /\ f x = false.
Proof.
  induction l as [|a l IH]; cbn [forallb].
  - split; [discriminate | intros [x [[] _]]].
  - destruct (f a) eqn:Ea; cbn [andb].
    + rewrite IH. split.
      * intros [x [Hin Hf]]. exists x. split; [right; exact Hin | exact Hf].
      * intros [x [[Heq | Hin] Hf]].
        -- subst. rewrite Ea in Hf. discriminate.
        -- exists x. split; assumption.
    + split; [|reflexivity]. intros _. exists a. split; [left; reflexivity | exact Ea].
Qed.

(* ------------------------------------------------------------------ get / upd *)
Lemma get_upd_same (k : string) (v : value) (st : store) : get k (upd k v st) = Some v.
Proof.
  induction st as [|[k' v'] r IH]; cbn [upd get].
  - rewrite seqb_refl. reflexivity.
  - destruct (String.eqb k k') eqn:E; cbn [get].
    + rewrite seqb_refl. reflexivity.
    + rewrite E. exact IH.
Qed.

Lemma get_upd_other (k k0 : string) (v : value) (st : store) :
  k <> k0 -> get k (upd k0 v st) = get k st.
Proof.
  intros Hne. induction st as [|[k' v'] r IH]; cbn [upd get].
  - apply seqb_false in Hne. rewrite Hne. reflexivity.
  - destruct (String.eqb k0 k') eqn:E; cbn [get].
    + apply seqb_true in E. subst k'. apply seqb_false in Hne. rewrite Hne. reflexivity.
    + destruct (String.eqb k k'); [reflexivity | exact IH].
Qed.

Lemma keys_upd (x k : string) (v : value) (st : store) :
  In x (keys (upd k v st)) <-> x = k \/ In x (keys st).
Proof.
  unfold keys. induction st as [|[k' v'] r IH]; cbn [upd map fst In].
  - split; intros [H|H]; auto; contradiction.
  - destruct (String.eqb k k') eqn:E; cbn [map fst In].
    + apply seqb_true in E. subst k'. split; intros [H|H]; auto.
    + rewrite IH. split; intros [H|[H|H]]; auto.
Qed.

Lemma get_some_in_keys (k : string) (st : store) (v : value) : get k st = Some v -> In k (keys st).
Proof.
  unfold keys. induction st as [|[k' v'] r IH]; cbn [get map fst In]; [discriminate|].
  destruct (String.eqb k k') eqn:E.
  - apply seqb_true in E. subst. intros _. left. reflexivity.
  - intros H. right. exact (IH H).
Qed.

Lemma get_none_notin (k : string) (st : store) : get k st = None <-> ~ In k (keys st).
Proof.
  unfold keys. induction st as [|[k' v'] r IH]; cbn [get map fst In].
  - split; [intros _ [] | reflexivity].
  - destruct (String.eqb k k') eqn:E.
    + apply seqb_true in E. subst. split; [discriminate | intros H; exfalso; apply H; left; reflexivity].
    + apply seqb_false in E. rewrite IH. split.
      * intros H [H1|H1]; [apply E; symmetry; exact H1 | exact (H H1)].
      * intros H H1. apply H. right. exact H1.
Qed.

Lemma get_in_nodup (k : string) (v : value) (st : store) :
  NoDup (keys st) -> In (k, v) st -> get k st = Some v.
Proof.
  unfold keys. induction st as [|[k' v'] r IH]; cbn [get map fst In]; [intros _ []|].
  intros Hnd [Heq | Hin].
  - inversion Heq. subst. rewrite seqb_refl. reflexivity.
  - inversion Hnd as [|? ? Hni Hnd']. subst.
    destruct (String.eqb k k') eqn:E.
    + apply seqb_true in E. subst k'. exfalso. apply Hni.
      change k with (fst (k, v)). apply in_map. exact Hin.
    + exact (IH Hnd' Hin).
Qed.

Lemma get_map_args (k : string) (f : string -> value) (deps : list string) :
  In k deps -> get k (map (fun n => (n, f n)) deps) = Some (f k).
Proof.
  induction deps as [|d r IH]; cbn [map get In]; [intros []|].
  intros [Heq | Hin].
  - subst. rewrite seqb_refl. reflexivity.
  - destruct (String.eqb k d) eqn:E.
    + apply seqb_true in E. subst. reflexivity.
    + exact (IH Hin).
Qed.

(* ------------------------------------------------------------------ skipped *)
Lemma skipped_true (uo : list string) (k : string) : skipped uo k = true <-> In k uo \/ k = reserved.
Proof.
  unfold skipped. rewrite orb_true_iff, mem_In, seqb_true. reflexivity.
Qed.

Lemma skipped_false (uo : list string) (k : string) : skipped uo k = false <-> ~ In k uo /\ k <> reserved.
Proof.
  unfold skipped. rewrite orb_false_iff, mem_false, seqb_false. reflexivity.
Qed.

(* ------------------------------------------------------------------ load_entries *)
Lemma eval_default_bound (d : Z) (st : store) (k : string) (deps : list string) :
  eval_default (Some d) st k deps = Some (VDefault k (map (fun n => (n, arg_value d st n)) deps)).
Proof. reflexivity. Qed.

(* with D bound no eval raises *)
Lemma load_no_err (d : Z) (es : file) : forall uo st, snd (load_entries (Some d) uo es st) = false.
Proof.
  induction es as [|[k deps] r IH]; intros uo st; cbn [load_entries]; [reflexivity|].
  destruct (skipped uo k); [apply IH|]. rewrite eval_default_bound. apply IH.
Qed.

(* a protected (user) key and the reserved key are never written by a load — any D state, even on a raise *)
Lemma load_keeps_skipped (gd : option Z) (es : file) :
  forall uo st k, skipped uo k = true -> get k (fst (load_entries gd uo es st)) = get k st.
Proof.
  induction es as [|[k0 deps] r IH]; intros uo st k Hs; cbn [load_entries]; [reflexivity|].
  destruct (skipped uo k0) eqn:E0; [apply IH; exact Hs|].
  destruct (eval_default gd st k0 deps) as [v|]; [|reflexivity].
  rewrite (IH uo _ k Hs). apply get_upd_other. intro Heq. subst. rewrite Hs in E0. discriminate.
Qed.

(* frame: a key that the file does not define is not written *)
Lemma load_frame (gd : option Z) (es : file) :
  forall uo st k, ~ In k (names es) -> get k (fst (load_entries gd uo es st)) = get k st.
Proof.
  unfold names. induction es as [|[k0 deps] r IH]; intros uo st k Hni; cbn [load_entries]; [reflexivity|].
  cbn [map fst In] in Hni.
  assert (Hne : k <> k0) by (intro; subst; apply Hni; left; reflexivity).
  assert (Hnr : ~ In k (map fst r)) by (intro; apply Hni; right; assumption).
  destruct (skipped uo k0); [apply IH; exact Hnr|].
  destruct (eval_default gd st k0 deps) as [v|]; [|reflexivity].
  rewrite (IH uo _ k Hnr). apply get_upd_other. exact Hne.
Qed.

Lemma load_keys_iff (d : Z) (es : file) :
  forall uo st x, In x (keys (fst (load_entries (Some d) uo es st))) <->
                  In x (keys st) \/ (In x (names es) /\ skipped uo x = false).
Proof.
  unfold names. induction es as [|[k0 deps] r IH]; intros uo st x; cbn [load_entries map fst In].
  - split; [intros H; left; exact H | intros [H|[[] _]]; exact H].
  - destruct (skipped uo k0) eqn:E0.
    + rewrite IH. split.
      * intros [H|[H1 H2]]; [left; exact H | right; split; [right; exact H1 | exact H2]].
      * intros [H|[[H1|H1] H2]]; [left; exact H | subst; rewrite E0 in H2; discriminate | right; split; assumption].
    + rewrite eval_default_bound, IH, keys_upd. split.
      * intros [[H|H]|[H1 H2]].
        -- subst. right. split; [left; reflexivity | exact E0].
        -- left. exact H.
        -- right. split; [right; exact H1 | exact H2].
      * intros [H|[[H1|H1] H2]].
        -- left. right. exact H.
        -- subst. left. left. reflexivity.
        -- right. split; assumption.
Qed.

(* the value a non-protected key gets from a load: its default applied to own D and to the values
   the keys it reads have AFTER the load, provided the file is ordered (reads only what is already
   there), defines no key twice and none of the keys already seen *)
Lemma order_ok_cons (seen : list string) (k : string) (deps : list string) (r : file) :
  order_ok seen ((k, deps) :: r) = true ->
  (forall n, In n deps -> n = dname \/ In n seen) /\ order_ok (k :: seen) r = true.
Proof.
  cbn [order_ok]. rewrite andb_true_iff. intros [H1 H2]. split; [|exact H2].
  intros n Hn. rewrite forallb_forall in H1. specialize (H1 n Hn).
  apply orb_true_iff in H1. destruct H1 as [H1|H1].
  - left. apply seqb_true in H1. exact H1.
  - right. apply mem_In. exact H1.
Qed.

Lemma arg_value_ext (d : Z) (st st' : store) (n : string) :
  (n <> dname -> get n st = get n st') -> arg_value d st n = arg_value d st' n.
Proof.
  unfold arg_value. destruct (String.eqb n dname) eqn:E; [reflexivity|].
  apply seqb_false in E. intros H. rewrite (H E). reflexivity.
Qed.

Lemma load_spec (d : Z) (es : file) :
  forall seen uo st,
    order_ok seen es = true -> NoDup (names es) -> (forall k, In k (names es) -> ~ In k seen) ->
    forall k deps, In (k, deps) es -> skipped uo k = false ->
      get k (fst (load_entries (Some d) uo es st)) =
      Some (VDefault k (map (fun n => (n, arg_value d (fst (load_entries (Some d) uo es st)) n)) deps)).
Proof.
  unfold names. induction es as [|[k0 deps0] r IH]; intros seen uo st Hord Hnd Hdisj k deps Hin Hsk; [destruct Hin|].
  apply order_ok_cons in Hord. destruct Hord as [Hdeps Hord].
  cbn [map fst] in Hnd, Hdisj. inversion Hnd as [|? ? Hk0 Hnd']. subst.
  assert (Hdisj' : forall k1, In k1 (map fst r) -> ~ In k1 (k0 :: seen)).
  { intros k1 H1 [H2|H2]; [subst; exact (Hk0 H1) | exact (Hdisj k1 (or_intror H1) H2)]. }
  cbn [load_entries].
  destruct (skipped uo k0) eqn:E0.
  - destruct Hin as [Heq|Hin]; [inversion Heq; subst; rewrite E0 in Hsk; discriminate|].
    exact (IH (k0 :: seen) uo st Hord Hnd' Hdisj' k deps Hin Hsk).
  - rewrite eval_default_bound.
    set (v0 := VDefault k0 (map (fun n => (n, arg_value d st n)) deps0)).
    destruct Hin as [Heq|Hin]; [|exact (IH (k0 :: seen) uo _ Hord Hnd' Hdisj' k deps Hin Hsk)].
    inversion Heq. subst k deps. clear Heq.
    rewrite (load_frame (Some d) r uo (upd k0 v0 st) k0 Hk0), get_upd_same.
    unfold v0. f_equal. f_equal. apply map_ext_in. intros n Hn. f_equal.
    apply arg_value_ext. intros Hnd0.
    destruct (Hdeps n Hn) as [Hd|Hseen]; [contradiction|].
    assert (Hnr : ~ In n (map fst r)).
    { intro H. exact (Hdisj n (or_intror H) Hseen). }
    rewrite (load_frame (Some d) r uo _ n Hnr).
    symmetry. apply get_upd_other. intro; subst. exact (Hdisj k0 (or_introl eq_refl) Hseen).
Qed.

(* a file whose defaults read nothing but D satisfies order_ok for every [seen] *)
Lemma donly_order_ok (es : file) :
  forallb (fun e => forallb (fun d => String.eqb d dname) (snd e)) es = true ->
  forall seen, order_ok seen es = true.
Proof.
  induction es as [|[k deps] r IH]; intros H seen; cbn [order_ok]; [reflexivity|].
  cbn [forallb snd] in H. apply andb_true_iff in H. destruct H as [H1 H2].
  rewrite (IH H2). rewrite andb_true_r. rewrite forallb_forall in *. intros n Hn.
  rewrite (H1 n Hn). reflexivity.
Qed.

Lemma donly_args (d : Z) (st st' : store) (deps : list string) :
  forallb (fun n => String.eqb n dname) deps = true ->
  map (fun n => (n, arg_value d st n)) deps = map (fun n => (n, arg_value d st' n)) deps.
Proof.
  intros H. apply map_ext_in. intros n Hn. f_equal. apply arg_value_ext. intros Hne.
  rewrite forallb_forall in H. specialize (H n Hn). apply seqb_true in H. contradiction.
Qed.

(* a key that a load evaluates sees, for every key it reads that is protected, the protected value *)
Lemma load_sees_protected (d : Z) (es : file) :
  forall uo st k v, In k uo -> get k st = Some v -> NoDup (names es) ->
    forall k' deps', In (k', deps') es -> skipped uo k' = false -> In k deps' -> k <> dname ->
      exists args, get k' (fst (load_entries (Some d) uo es st)) = Some (VDefault k' args) /\ get k args = Some v.
Proof.
  unfold names. induction es as [|[k0 deps0] r IH]; intros uo st k v Hku Hget Hnd k' deps' Hin Hsk Hdep Hne; [destruct Hin|].
  cbn [map fst] in Hnd. inversion Hnd as [|? ? Hk0 Hnd']. subst.
  cbn [load_entries]. destruct (skipped uo k0) eqn:E0.
  - destruct Hin as [Heq|Hin]; [inversion Heq; subst; rewrite E0 in Hsk; discriminate|].
    exact (IH uo st k v Hku Hget Hnd' k' deps' Hin Hsk Hdep Hne).
  - rewrite eval_default_bound.
    destruct Hin as [Heq|Hin].
    + inversion Heq. subst k0 deps0. clear Heq.
      rewrite (load_frame (Some d) r uo _ k' Hk0), get_upd_same.
      eexists. split; [reflexivity|].
      rewrite (get_map_args k (arg_value d st) deps' Hdep).
      unfold arg_value. apply seqb_false in Hne. rewrite Hne, Hget. reflexivity.
    + refine (IH uo _ k v Hku _ Hnd' k' deps' Hin Hsk Hdep Hne).
      rewrite get_upd_other; [exact Hget|]. intro; subst k0.
      assert (Hs : skipped uo k = true) by (apply skipped_true; left; exact Hku).
      rewrite Hs in E0. discriminate.
Qed.

(* ------------------------------------------------------------------ update_store (self.update(user)) *)
Lemma update_store_notin (user : store) :
  forall st k, ~ In k (keys user) -> get k (update_store st user) = get k st.
Proof.
  unfold update_store, keys. induction user as [|[k0 v0] r IH]; intros st k Hni; cbn [fold_left]; [reflexivity|].
  cbn [map fst In] in Hni. cbn [fst snd].
  assert (Hne : k <> k0) by (intro; subst; apply Hni; left; reflexivity).
  assert (Hnr : ~ In k (map fst r)) by (intro; apply Hni; right; assumption).
  rewrite (IH _ k Hnr). apply get_upd_other. exact Hne.
Qed.

Lemma update_store_in (user : store) :
  forall st k v, NoDup (keys user) -> In (k, v) user -> get k (update_store st user) = Some v.
Proof.
  unfold update_store, keys. induction user as [|[k0 v0] r IH]; intros st k v Hnd Hin; [destruct Hin|].
  cbn [map fst] in Hnd. inversion Hnd as [|? ? Hk0 Hnd']. subst. cbn [fold_left fst snd].
  destruct Hin as [Heq|Hin].
  - inversion Heq. subst k0 v0.
    pose proof (update_store_notin r (upd k v st) k Hk0) as H. unfold update_store in H. rewrite H.
    apply get_upd_same.
  - exact (IH _ k v Hnd' Hin).
Qed.

Lemma update_store_keys_iff (user : store) :
  forall st x, In x (keys (update_store st user)) <-> In x (keys st) \/ In x (keys user).
Proof.
  unfold update_store. induction user as [|[k0 v0] r IH]; intros st x; cbn [fold_left fst snd].
  - split; [intros H; left; exact H | intros [H|[]]; exact H].
  - rewrite IH. unfold keys at 3. cbn [map fst In]. fold (keys r). rewrite keys_upd. split.
    + intros [[H|H]|H]; [subst; right; left; reflexivity | left; exact H | right; right; exact H].
    + intros [H|[H|H]]; [left; right; exact H | subst; left; left; reflexivity | right; exact H].
Qed.

(* ------------------------------------------------------------------ one construction, explicitly *)
Definition store1 (b : file) (D : Z) : store := fst (load_entries (Some D) [] b []).
Definition final_store (b a : file) (D : Z) (user : store) : store :=
  fst (load_entries (Some D) (keys user) a (update_store (store1 b D) user)).
Definition validate_outcome (st : store) (nms : list string) : outcome :=
  if forallb (fun kv => mem (fst kv) nms) st then Done else Raised "ValueError".

Lemma set_at_same {A} (f : nat -> A) (i : nat) (x : A) : set_at f i x i = x.
Proof. unfold set_at. rewrite Nat.eqb_refl. reflexivity. Qed.

Lemma set_at_other {A} (f : nat -> A) (i j : nat) (x : A) : j <> i -> set_at f i x j = f j.
Proof. unfold set_at. intros H. apply Nat.eqb_neq in H. rewrite H. reflexivity. Qed.

Lemma pair_eta {A B} (p : A * B) : p = (fst p, snd p).
Proof. destruct p; reflexivity. Qed.

Lemma step_Init_ok (w : world) (i : nat) (b : file) (D : Z) (u : nat) :
  ~ In reserved (keys (callers w u)) ->
  step w (Init i b (Some D) (Some u)) =
  (mkWorld (Some D) (set_at (insts w) i (mkInst (update_store (store1 b D) (callers w u)) (keys (callers w u)))) (callers w), Done).
Proof.
  intros Hr. apply mem_false in Hr. cbn [step bind_D]. unfold store1.
  rewrite (pair_eta (load_entries (Some D) [] b [])), load_no_err. rewrite Hr. reflexivity.
Qed.

(* the reserved name in the user's dict: ValueError, no object, nothing written anywhere *)
Lemma step_Init_reserved (w : world) (i : nat) (b : file) (D : Z) (u : nat) :
  In reserved (keys (callers w u)) ->
  step w (Init i b (Some D) (Some u)) = (mkWorld (Some D) (insts w) (callers w), Raised "ValueError").
Proof.
  intros Hr. apply mem_In in Hr. cbn [step bind_D].
  rewrite (pair_eta (load_entries (Some D) [] b [])), load_no_err. rewrite Hr. reflexivity.
Qed.

Lemma step_Load_ok (w : world) (i : nat) (a : file) (D : Z) :
  step w (Load i a (Some D)) =
  (mkWorld (Some D) (set_at (insts w) i
      (mkInst (fst (load_entries (Some D) (useropts (insts w i)) a (store_of (insts w i)))) (useropts (insts w i)))) (callers w), Done).
Proof.
  cbn [step bind_D].
  rewrite (pair_eta (load_entries (Some D) (useropts (insts w i)) a (store_of (insts w i)))), load_no_err. reflexivity.
Qed.

Lemma construct_explicit (w : world) (i : nat) (b a : file) (D : Z) (u : nat) :
  ~ In reserved (keys (callers w u)) ->
  construct w i b a D (Some u) =
  (mkWorld (Some D) (set_at (set_at (insts w) i (mkInst (update_store (store1 b D) (callers w u)) (keys (callers w u)))) i
                            (mkInst (final_store b a D (callers w u)) (keys (callers w u)))) (callers w),
   validate_outcome (final_store b a D (callers w u)) (names b ++ names a)).
Proof.
  intros Hr. unfold construct. rewrite (step_Init_ok w i b D u Hr). cbn [is_done].
  rewrite step_Load_ok. cbn [is_done insts callers]. rewrite set_at_same. cbn [store_of useropts].
  cbn [step insts]. rewrite set_at_same. reflexivity.
Qed.

Lemma construct_reserved (w : world) (i : nat) (b a : file) (D : Z) (u : nat) :
  In reserved (keys (callers w u)) ->
  construct w i b a D (Some u) = (mkWorld (Some D) (insts w) (callers w), Raised "ValueError").
Proof. intros Hr. unfold construct. rewrite (step_Init_reserved w i b D u Hr). reflexivity. Qed.

Lemma construct_store (w : world) (i : nat) (b a : file) (D : Z) (u : nat) :
  ~ In reserved (keys (callers w u)) ->
  insts (fst (construct w i b a D (Some u))) i = mkInst (final_store b a D (callers w u)) (keys (callers w u)).
Proof.
  intros Hr. rewrite (construct_explicit w i b a D u Hr). cbn [fst insts]. apply set_at_same.
Qed.

Lemma construct_outcome (w : world) (i : nat) (b a : file) (D : Z) (u : nat) :
  ~ In reserved (keys (callers w u)) ->
  snd (construct w i b a D (Some u)) = validate_outcome (final_store b a D (callers w u)) (names b ++ names a).
Proof. intros Hr. rewrite (construct_explicit w i b a D u Hr). reflexivity. Qed.

(* a construction that completes did not name the reserved key *)
Lemma construct_done_no_reserved (w : world) (i : nat) (b a : file) (D : Z) (u : nat) :
  snd (construct w i b a D (Some u)) = Done -> ~ In reserved (keys (callers w u)).
Proof.
  intros Hd Hr. rewrite (construct_reserved w i b a D u Hr) in Hd. discriminate.
Qed.

(* no user dict at all behaves like the empty dict *)
Lemma step_Init_None_ok (w : world) (i : nat) (b : file) (D : Z) :
  step w (Init i b (Some D) None) =
  (mkWorld (Some D) (set_at (insts w) i (mkInst (store1 b D) [])) (callers w), Done).
Proof.
  cbn [step bind_D]. unfold store1.
  rewrite (pair_eta (load_entries (Some D) [] b [])), load_no_err. reflexivity.
Qed.

Lemma construct_None (w : world) (i : nat) (b a : file) (D : Z) :
  insts (fst (construct w i b a D None)) i = mkInst (final_store b a D []) [] /\
  snd (construct w i b a D None) = validate_outcome (final_store b a D []) (names b ++ names a).
Proof.
  unfold construct. rewrite step_Init_None_ok. cbn [is_done].
  rewrite step_Load_ok. cbn [is_done insts callers]. rewrite set_at_same. cbn [store_of useropts].
  cbn [step insts fst snd]. rewrite !set_at_same. split; reflexivity.
Qed.

(* ------------------------------------------------------------------ user settings win *)
Lemma final_store_user (b a : file) (D : Z) (user : store) (k : string) (v : value) :
  NoDup (keys user) -> In (k, v) user -> get k (final_store b a D user) = Some v.
Proof.
  intros Hnd Hin. unfold final_store.
  assert (Hk : In k (keys user)) by (unfold keys; change k with (fst (k, v)); apply in_map; exact Hin).
  rewrite load_keeps_skipped by (apply skipped_true; left; exact Hk).
  apply update_store_in; assumption.
Qed.

Theorem user_wins (w : world) (i : nat) (b a : file) (D : Z) (u : nat) :
  NoDup (keys (callers w u)) -> snd (construct w i b a D (Some u)) = Done ->
  forall k v, In (k, v) (callers w u) ->
    get k (store_of (insts (fst (construct w i b a D (Some u))) i)) = Some v.
Proof.
  intros Hnd Hd k v Hin.
  rewrite (construct_store w i b a D u (construct_done_no_reserved w i b a D u Hd)). cbn [store_of].
  apply final_store_user; assumption.
Qed.

(* ... and stay: no later load of ANY file with ANY D state on that object overwrites a user key *)
Theorem user_value_survives_loads (w : world) (i : nat) (k : string) (v : value) (f : file) (oD : option Z) :
  In k (useropts (insts w i)) -> get k (store_of (insts w i)) = Some v ->
  In k (useropts (insts (fst (step w (Load i f oD))) i)) /\
  get k (store_of (insts (fst (step w (Load i f oD))) i)) = Some v.
Proof.
  intros Hk Hget. cbn [step].
  rewrite (pair_eta (load_entries (bind_D oD (gD w)) (useropts (insts w i)) f (store_of (insts w i)))).
  cbn [fst insts]. rewrite set_at_same. cbn [useropts store_of]. split; [exact Hk|].
  rewrite load_keeps_skipped; [exact Hget|]. apply skipped_true. left. exact Hk.
Qed.

(* ------------------------------------------------------------------ dependent defaults see the user's value *)
Theorem dependent_defaults_see_user_value (w : world) (i : nat) (b a : file) (D : Z) (u : nat)
        (k' : string) (deps' : list string) (k : string) (v : value) :
  NoDup (keys (callers w u)) -> snd (construct w i b a D (Some u)) = Done -> NoDup (names a) ->
  In (k', deps') a -> ~ In k' (keys (callers w u)) -> k' <> reserved ->
  In k deps' -> k <> dname -> In (k, v) (callers w u) ->
  exists args, get k' (store_of (insts (fst (construct w i b a D (Some u))) i)) = Some (VDefault k' args) /\
               get k args = Some v.
Proof.
  intros Hnd Hd Hnda Hin Hnu Hnr Hdep Hne Hku.
  rewrite (construct_store w i b a D u (construct_done_no_reserved w i b a D u Hd)). cbn [store_of]. unfold final_store.
  assert (Hk : In k (keys (callers w u))) by (unfold keys; change k with (fst (k, v)); apply in_map; exact Hku).
  refine (load_sees_protected D a (keys (callers w u)) _ k v Hk _ Hnda k' deps' Hin _ Hdep Hne).
  - apply update_store_in; assumption.
  - apply skipped_false. split; assumption.
Qed.

(* ------------------------------------------------------------------ complete characterisation under deps_ok *)
Lemma nodupb_NoDup (l : list string) : nodupb l = true -> NoDup l.
Proof.
  induction l as [|x r IH]; cbn [nodupb]; intros H; [constructor|].
  apply andb_true_iff in H. destruct H as [H1 H2]. constructor; [|exact (IH H2)].
  apply negb_true_iff in H1. apply mem_false in H1. exact H1.
Qed.

Record files_ok (b a : file) : Prop := {
  fo_nodup : NoDup (names b ++ names a);
  fo_reserved : ~ In reserved (names b ++ names a);
  fo_basic : forallb (fun e => forallb (fun d => String.eqb d dname) (snd e)) b = true;
  fo_order : order_ok (names b) a = true
}.

Lemma deps_ok_files_ok (b a : file) : deps_ok b a = true -> files_ok b a.
Proof.
  unfold deps_ok. intros H.
  apply andb_true_iff in H. destruct H as [H H5].
  apply andb_true_iff in H. destruct H as [H H4].
  apply andb_true_iff in H. destruct H as [H H3].
  apply andb_true_iff in H. destruct H as [H1 H2].
  constructor.
  - apply nodupb_NoDup. exact H1.
  - apply mem_false. apply negb_true_iff. exact H2.
  - exact H4.
  - exact H5.
Qed.

Lemma NoDup_app_l {A} (l1 l2 : list A) : NoDup (l1 ++ l2) -> NoDup l1.
Proof.
  induction l1 as [|x r IH]; cbn [app]; intros H; [constructor|].
  inversion H as [|? ? Hni Hnd]. subst. constructor; [|exact (IH Hnd)].
  intro Hin. apply Hni. apply in_or_app. left. exact Hin.
Qed.

Lemma NoDup_app_r {A} (l1 l2 : list A) : NoDup (l1 ++ l2) -> NoDup l2.
Proof.
  induction l1 as [|x r IH]; cbn [app]; intros H; [exact H|].
  inversion H. subst. apply IH. assumption.
Qed.

Lemma NoDup_app_disj {A} (l1 l2 : list A) : NoDup (l1 ++ l2) -> forall x, In x l1 -> ~ In x l2.
Proof.
  induction l1 as [|y r IH]; cbn [app]; intros H x Hin; [destruct Hin|].
  inversion H as [|? ? Hni Hnd]. subst. destruct Hin as [Heq|Hin].
  - subst. intro H2. apply Hni. apply in_or_app. right. exact H2.
  - exact (IH Hnd x Hin).
Qed.

Theorem final_store_spec (b a : file) (D : Z) (user : store) :
  files_ok b a -> NoDup (keys user) ->
  let st := final_store b a D user in
  (forall k v, In (k, v) user -> get k st = Some v) /\
  (forall e, In e (b ++ a) -> ~ In (fst e) (keys user) -> get (fst e) st = Some (spec_value D st e)).
Proof.
  intros [Hnd Hres Hbasic Hord] Hndu st. split.
  - intros k v Hin. apply final_store_user; assumption.
  - intros [k deps] Hin Hnu. cbn [fst] in *. unfold spec_value. cbn [fst snd].
    apply in_app_or in Hin. destruct Hin as [Hb|Ha].
    + (* basic file: evaluated first, reads only D, not redefined by the advanced file *)
      assert (Hkb : In k (names b)) by (unfold names; change k with (fst (k, deps)); apply in_map; exact Hb).
      assert (Hka : ~ In k (names a)) by (exact (NoDup_app_disj _ _ Hnd k Hkb)).
      assert (Hkr : k <> reserved) by (intro; subst; apply Hres; apply in_or_app; left; exact Hkb).
      unfold st, final_store. rewrite (load_frame (Some D) a _ _ k Hka).
      rewrite (update_store_notin user _ k Hnu). unfold store1.
      rewrite (load_spec D b [] [] [] (donly_order_ok b Hbasic []) (NoDup_app_l _ _ Hnd) (fun _ _ H => H) k deps Hb).
      * f_equal. f_equal. apply donly_args.
        rewrite forallb_forall in Hbasic. exact (Hbasic (k, deps) Hb).
      * apply skipped_false. split; [intros [] | exact Hkr].
    + (* advanced file: evaluated after update(user), reads only keys already final *)
      assert (Hka : In k (names a)) by (unfold names; change k with (fst (k, deps)); apply in_map; exact Ha).
      assert (Hkr : k <> reserved) by (intro; subst; apply Hres; apply in_or_app; right; exact Hka).
      unfold st, final_store.
      apply (load_spec D a (names b) (keys user) _ Hord (NoDup_app_r _ _ Hnd)); try assumption.
      * intros k1 H1 H2. exact (NoDup_app_disj _ _ Hnd k1 H2 H1).
      * apply skipped_false. split; assumption.
Qed.

(* every key of the files is present after a construction *)
Corollary final_store_total (b a : file) (D : Z) (user : store) (e : entry) :
  files_ok b a -> NoDup (keys user) ->
  In e (b ++ a) -> get (fst e) (final_store b a D user) <> None.
Proof.
  intros Hf Hnd Hin. destruct (final_store_spec b a D user Hf Hnd) as [H1 H2].
  destruct (in_dec string_dec (fst e) (keys user)) as [Hu|Hu].
  - unfold keys in Hu. apply in_map_iff in Hu. destruct Hu as [[k v] [Hk Hkv]]. cbn [fst] in Hk. subst k.
    rewrite (H1 _ _ Hkv). discriminate.
  - rewrite (H2 e Hin Hu). discriminate.
Qed.

(* ------------------------------------------------------------------ unknown names are rejected *)
Lemma final_store_keys (b a : file) (D : Z) (user : store) (x : string) :
  In x (keys (final_store b a D user)) <->
  (In x (names b ++ names a) /\ x <> reserved) \/ In x (keys user).
Proof.
  unfold final_store, store1.
  rewrite load_keys_iff, update_store_keys_iff, load_keys_iff. cbn [keys map In].
  rewrite !skipped_false, in_app_iff. split.
  - intros [[[[]|[H1 [_ H2]]]|H1]|[H1 [H2 H3]]].
    + left. split; [left; exact H1 | exact H2].
    + right. exact H1.
    + left. split; [right; exact H1 | exact H3].
  - intros [[[H1|H1] H2]|H1].
    + left. left. right. split; [exact H1|]. split; [intros [] | exact H2].
    + destruct (in_dec string_dec x (keys user)) as [Hu|Hu].
      * left. right. exact Hu.
      * right. split; [exact H1|]. split; assumption.
    + left. right. exact H1.
Qed.

Lemma validate_raises_iff (st : store) (nms : list string) :
  validate_outcome st nms = Raised "ValueError" <-> exists k, In k (keys st) /\ ~ In k nms.
Proof.
  unfold validate_outcome. destruct (forallb (fun kv => mem (fst kv) nms) st) eqn:E.
  - split; [discriminate|]. intros [k [Hk Hn]]. exfalso. rewrite forallb_forall in E.
    unfold keys in Hk. apply in_map_iff in Hk. destruct Hk as [kv [Hk Hin]]. subst.
    specialize (E kv Hin). apply mem_In in E. exact (Hn E).
  - split; [|reflexivity]. intros _. apply forallb_false_exists in E. destruct E as [kv [Hin Hf]].
    exists (fst kv). split; [unfold keys; apply in_map; exact Hin | apply mem_false; exact Hf].
Qed.

Lemma validate_outcome_cases (st : store) (nms : list string) :
  validate_outcome st nms = Done \/ validate_outcome st nms = Raised "ValueError".
Proof. unfold validate_outcome. destruct (forallb _ st); [left|right]; reflexivity. Qed.

(* for ANY user dict: construction raises ValueError exactly when some user key is not defined by the
   files or is the reserved name, and otherwise completes *)
Theorem unknown_rejected (w : world) (i : nat) (b a : file) (D : Z) (u : nat) :
  (snd (construct w i b a D (Some u)) = Raised "ValueError" <->
   exists k, In k (keys (callers w u)) /\ (~ In k (names b ++ names a) \/ k = reserved)) /\
  (snd (construct w i b a D (Some u)) = Done <->
   forall k, In k (keys (callers w u)) -> In k (names b ++ names a) /\ k <> reserved).
Proof.
  destruct (in_dec string_dec reserved (keys (callers w u))) as [Hr|Hr].
  - rewrite (construct_reserved w i b a D u Hr). cbn [snd]. split.
    + split; [|reflexivity]. intros _. exists reserved. split; [exact Hr | right; reflexivity].
    + split; [discriminate|]. intros Hall. exfalso. destruct (Hall reserved Hr) as [_ Hne]. apply Hne. reflexivity.
  - rewrite (construct_outcome w i b a D u Hr).
    assert (Hiff : validate_outcome (final_store b a D (callers w u)) (names b ++ names a) = Raised "ValueError" <->
                   exists k, In k (keys (callers w u)) /\ (~ In k (names b ++ names a) \/ k = reserved)).
    { rewrite validate_raises_iff. split.
      - intros [k [Hk Hn]]. apply (final_store_keys b a D _ k) in Hk.
        destruct Hk as [[Hk _]|Hk]; [contradiction|]. exists k. split; [exact Hk | left; exact Hn].
      - intros [k [Hk [Hn|Hn]]]; [|subst; contradiction]. exists k. split; [|exact Hn].
        apply (final_store_keys b a D _ k). right. exact Hk. }
    split; [exact Hiff|].
    destruct (validate_outcome_cases (final_store b a D (callers w u)) (names b ++ names a)) as [Hd|Hv].
    + split; [|intros _; exact Hd]. intros _ k Hk. split; [|intro; subst; contradiction].
      destruct (in_dec string_dec k (names b ++ names a)) as [Hi|Hi]; [exact Hi|].
      exfalso. assert (Hx : validate_outcome (final_store b a D (callers w u)) (names b ++ names a) = Raised "ValueError").
      { apply Hiff. exists k. split; [exact Hk | left; exact Hi]. }
      rewrite Hd in Hx. discriminate.
    + split; [rewrite Hv; discriminate|]. intros Hall. exfalso.
      apply Hiff in Hv. destruct Hv as [k [Hk [Hn|Hn]]].
      * destruct (Hall k Hk) as [Hi _]. exact (Hn Hi).
      * destruct (Hall k Hk) as [_ Hne]. exact (Hne Hn).
Qed.

(* for files that do not define the reserved name (the real ones): exactly the unknown names *)
Corollary unknown_rejected_files (w : world) (i : nat) (b a : file) (D : Z) (u : nat) :
  ~ In reserved (names b ++ names a) ->
  (snd (construct w i b a D (Some u)) = Raised "ValueError" <->
   exists k, In k (keys (callers w u)) /\ ~ In k (names b ++ names a)) /\
  (snd (construct w i b a D (Some u)) = Done <->
   forall k, In k (keys (callers w u)) -> In k (names b ++ names a)).
Proof.
  intros Hres. destruct (unknown_rejected w i b a D u) as [H1 H2]. split.
  - rewrite H1. split.
    + intros [k [Hk [Hn|Hn]]]; exists k; split; try assumption. subst. exact Hres.
    + intros [k [Hk Hn]]. exists k. split; [exact Hk | left; exact Hn].
  - rewrite H2. split.
    + intros Hall k Hk. exact (proj1 (Hall k Hk)).
    + intros Hall k Hk. split; [exact (Hall k Hk)|]. intro; subst. exact (Hres (Hall reserved Hk)).
Qed.

(* the reserved name: rejected with ValueError, no object is bound, nothing is written *)
Theorem reserved_name_rejected (w : world) (i : nat) (b a : file) (D : Z) (u : nat) :
  In reserved (keys (callers w u)) ->
  snd (construct w i b a D (Some u)) = Raised "ValueError" /\
  (forall j, insts (fst (construct w i b a D (Some u))) j = insts w j) /\
  (forall v, callers (fst (construct w i b a D (Some u))) v = callers w v).
Proof.
  intros Hr. rewrite (construct_reserved w i b a D u Hr). cbn [fst snd insts callers]. repeat split.
Qed.

(* Validate alone, on any object: raises iff some stored key is not a file name *)
Theorem validate_exact (w : world) (i : nat) (nms : list string) :
  fst (step w (Validate i nms)) = w /\
  (snd (step w (Validate i nms)) = Raised "ValueError" <->
   exists k, In k (keys (store_of (insts w i))) /\ ~ In k nms).
Proof.
  split; [reflexivity|]. cbn [step snd]. apply validate_raises_iff.
Qed.

(* ------------------------------------------------------------------ caller-owned dicts *)
Lemma step_callers (w : world) (o : op) : forall u, callers (fst (step w o)) u = callers w u.
Proof.
  intros u. destruct o as [i f oD ou|i f oD|i nms|i ks]; cbn [step].
  - rewrite (pair_eta (load_entries (bind_D oD (gD w)) [] f [])).
    destruct (snd (load_entries (bind_D oD (gD w)) [] f [])); [reflexivity|].
    destruct ou as [u0|]; [|reflexivity]. destruct (mem reserved (keys (callers w u0))); reflexivity.
  - rewrite (pair_eta (load_entries (bind_D oD (gD w)) (useropts (insts w i)) f (store_of (insts w i)))). reflexivity.
  - reflexivity.
  - reflexivity.
Qed.

Lemma run_cons (w : world) (o : op) (r : list op) :
  run w (o :: r) = (fst (run (fst (step w o)) r), snd (step w o) :: snd (run (fst (step w o)) r)).
Proof.
  cbn [run]. rewrite (pair_eta (step w o)). rewrite (pair_eta (run (fst (step w o)) r)). reflexivity.
Qed.

Theorem caller_dict_untouched (ops : list op) :
  forall w u, callers (fst (run w ops)) u = callers w u.
Proof.
  induction ops as [|o r IH]; intros w u; [reflexivity|].
  rewrite run_cons. cbn [fst]. rewrite (IH _ u). apply step_callers.
Qed.

(* ------------------------------------------------------------------ noninterference between instances *)
Definition binds_D (o : op) : Prop :=
  match o with
  | Init _ _ oD _ => oD <> None
  | Load _ _ oD => oD <> None
  | _ => True
  end.

Definition proj (i : nat) (ops : list op) : list op := filter (fun o => Nat.eqb (op_inst o) i) ops.

(* outcomes of instance i's own ops, in order *)
Fixpoint outs_of (i : nat) (ops : list op) (outs : list outcome) : list outcome :=
  match ops, outs with
  | o :: r, x :: s => if Nat.eqb (op_inst o) i then x :: outs_of i r s else outs_of i r s
  | _, _ => []
  end.

Lemma step_other (w : world) (o : op) (i : nat) :
  op_inst o <> i -> insts (fst (step w o)) i = insts w i.
Proof.
  intros Hne. destruct o as [j f oD ou|j f oD|j nms|j ks]; cbn [op_inst] in Hne; cbn [step].
  - rewrite (pair_eta (load_entries (bind_D oD (gD w)) [] f [])).
    destruct (snd (load_entries (bind_D oD (gD w)) [] f [])); [reflexivity|].
    destruct ou as [u0|]; [|cbn [fst insts]; apply set_at_other; auto].
    destruct (mem reserved (keys (callers w u0))); cbn [fst insts]; [reflexivity | apply set_at_other; auto].
  - rewrite (pair_eta (load_entries (bind_D oD (gD w)) (useropts (insts w j)) f (store_of (insts w j)))).
    cbn [fst insts]. apply set_at_other. auto.
  - reflexivity.
  - cbn [fst insts]. apply set_at_other. auto.
Qed.

(* an op of instance i that binds D reads only instance i and the caller dict: not gD, not the others *)
Lemma step_own (w w' : world) (o : op) (i : nat) :
  op_inst o = i -> binds_D o -> insts w i = insts w' i -> (forall u, callers w u = callers w' u) ->
  insts (fst (step w o)) i = insts (fst (step w' o)) i /\ snd (step w o) = snd (step w' o).
Proof.
  intros Hi Hb Hs Hc. destruct o as [j f oD ou|j f oD|j nms|j ks]; cbn [op_inst] in Hi; subst j; cbn [binds_D] in Hb.
  - destruct oD as [d|]; [|contradiction]. cbn [step bind_D].
    rewrite (pair_eta (load_entries (Some d) [] f [])), load_no_err.
    destruct ou as [u0|]; [|cbn [fst snd insts]; rewrite !set_at_same; split; reflexivity].
    rewrite <- (Hc u0). destruct (mem reserved (keys (callers w u0))); cbn [fst snd insts];
      rewrite ?set_at_same; split; try reflexivity; exact Hs.
  - destruct oD as [d|]; [|contradiction]. rewrite !step_Load_ok. cbn [fst snd insts].
    rewrite !set_at_same, Hs. split; reflexivity.
  - cbn [step fst snd]. rewrite Hs. split; reflexivity.
  - cbn [step fst snd insts]. rewrite !set_at_same, Hs. split; reflexivity.
Qed.

Theorem no_leak (ops : list op) :
  forall (w w' : world) (i : nat),
    Forall binds_D ops ->
    (forall u, callers w' u = callers w u) -> insts w' i = insts w i ->
    insts (fst (run w ops)) i = insts (fst (run w' (proj i ops))) i /\
    outs_of i ops (snd (run w ops)) = snd (run w' (proj i ops)).
Proof.
  induction ops as [|o r IH]; intros w w' i Hb Hcal Hs.
  - cbn [proj filter run fst snd outs_of]. split; [symmetry; exact Hs | reflexivity].
  - inversion Hb as [|? ? Hbo Hbr]. subst. rewrite run_cons. cbn [fst snd outs_of proj filter].
    destruct (Nat.eqb (op_inst o) i) eqn:E.
    + apply Nat.eqb_eq in E. fold (proj i r). rewrite run_cons. cbn [fst snd].
      destruct (step_own w w' o i E Hbo (eq_sym Hs) (fun u => eq_sym (Hcal u))) as [H1 H2].
      destruct (IH (fst (step w o)) (fst (step w' o)) i Hbr) as [H3 H4].
      * intros u. rewrite (step_callers w' o u), (step_callers w o u). apply Hcal.
      * symmetry. exact H1.
      * split; [exact H3 | rewrite H2, H4; reflexivity].
    + apply Nat.eqb_neq in E. fold (proj i r).
      apply (IH (fst (step w o)) w' i Hbr).
      * intros u. rewrite (step_callers w o u). apply Hcal.
      * rewrite (step_other w o i E). exact Hs.
Qed.

(* the op sequence of a construction, run alone from any process state *)
Lemma run_construct_ops (w : world) (i : nat) (b a : file) (D : Z) (u : nat) :
  ~ In reserved (keys (callers w u)) ->
  insts (fst (run w (construct_ops i b a D (Some u)))) i = mkInst (final_store b a D (callers w u)) (keys (callers w u)) /\
  snd (run w (construct_ops i b a D (Some u))) =
    [Done; Done; validate_outcome (final_store b a D (callers w u)) (names b ++ names a)].
Proof.
  intros Hr. unfold construct_ops. rewrite !run_cons. cbn [run fst snd].
  rewrite (step_Init_ok w i b D u Hr). cbn [fst snd]. rewrite step_Load_ok. cbn [fst snd insts callers step].
  rewrite !set_at_same. cbn [store_of useropts]. split; reflexivity.
Qed.

Lemma run_construct_ops_first_done (w : world) (i : nat) (b a : file) (D : Z) (u : nat) (o2 o3 : outcome) :
  snd (run w (construct_ops i b a D (Some u))) = [Done; o2; o3] -> ~ In reserved (keys (callers w u)).
Proof.
  intros H Hr. unfold construct_ops in H. rewrite run_cons in H. cbn [snd] in H.
  rewrite (step_Init_reserved w i b D u Hr) in H. cbn [snd] in H. discriminate.
Qed.

(* headline: in ANY interleaving with other instances' ops, an instance whose construction with (D, user)
   went through its Init holds exactly the user's values and, for every other key of the files, its
   default for its OWN D *)
Theorem defaults_for_own_D (ops : list op) (w : world) (i : nat) (b a : file) (D : Z) (u : nat) (o2 o3 : outcome) :
  Forall binds_D ops -> files_ok b a -> NoDup (keys (callers w u)) ->
  proj i ops = construct_ops i b a D (Some u) ->
  outs_of i ops (snd (run w ops)) = [Done; o2; o3] ->
  let st := store_of (insts (fst (run w ops)) i) in
  (forall k v, In (k, v) (callers w u) -> get k st = Some v) /\
  (forall e, In e (b ++ a) -> ~ In (fst e) (keys (callers w u)) -> get (fst e) st = Some (spec_value D st e)).
Proof.
  intros Hb Hf Hnd Hp Ho st.
  destruct (no_leak ops w w i Hb (fun _ => eq_refl) eq_refl) as [H1 H1o].
  rewrite Hp in H1, H1o. rewrite H1o in Ho.
  pose proof (run_construct_ops_first_done w i b a D u o2 o3 Ho) as Hr.
  unfold st. rewrite H1.
  destruct (run_construct_ops w i b a D u Hr) as [H2 _]. rewrite H2. cbn [store_of].
  apply final_store_spec; assumption.
Qed.

(* ------------------------------------------------------------------ concrete witnesses *)
Definition fA : file := [("n"%string, [dname]); ("disp"%string, [])].
Definition fB : file := [("tol"%string, []); ("noise"%string, ["tol"%string]); ("m"%string, [dname; "n"%string])].

Example files_ok_fAB : deps_ok fA fB = true.
Proof. vm_compute. reflexivity. Qed.

(* two instances with different D and overrides, constructions interleaved op by op *)
Definition wAB : world := with_callers world0 [(0%nat, [("tol"%string, VUser 7)]); (1%nat, [("n"%string, VUser 9)])].
Definition interleaved : list op :=
  [Init 0 fA (Some 2) (Some 0%nat); Init 1 fA (Some 5) (Some 1%nat); Load 1 fB (Some 5);
   Load 0 fB (Some 2); Validate 1 (names fA ++ names fB); Validate 0 (names fA ++ names fB)].

Example interleaved_stores :
  store_of (insts (fst (run wAB interleaved)) 0) =
    [("n"%string, VDefault "n" [(dname, VInt 2)]); ("disp"%string, VDefault "disp" []); ("tol"%string, VUser 7);
     ("noise"%string, VDefault "noise" [("tol"%string, VUser 7)]);
     ("m"%string, VDefault "m" [(dname, VInt 2); ("n"%string, VDefault "n" [(dname, VInt 2)])])] /\
  store_of (insts (fst (run wAB interleaved)) 1) =
    [("n"%string, VUser 9); ("disp"%string, VDefault "disp" []); ("tol"%string, VDefault "tol" []);
     ("noise"%string, VDefault "noise" [("tol"%string, VDefault "tol" [])]);
     ("m"%string, VDefault "m" [(dname, VInt 5); ("n"%string, VUser 9)])] /\
  Forall binds_D interleaved /\
  proj 0 interleaved = construct_ops 0 fA fB 2 (Some 0%nat) /\
  outs_of 0 interleaved (snd (run wAB interleaved)) = [Done; Done; Done].
Proof.
  split; [vm_compute; reflexivity|]. split; [vm_compute; reflexivity|].
  split; [repeat constructor; discriminate|]. split; [reflexivity | vm_compute; reflexivity].
Qed.

(* why the premise "every load binds D" matters: a load with empty evaluation_parameters reads the D
   left behind by ANOTHER instance *)
Example leak_without_binding :
  get "n"%string (store_of (insts (fst (run world0 [Init 0 fA (Some 5) None; Init 1 fA None None])) 1)) =
  Some (VDefault "n" [(dname, VInt 5)]).
Proof. vm_compute. reflexivity. Qed.

(* why deps_ok demands that the basic file reads no option: it is evaluated BEFORE update(user) *)
Definition fBad : file := [("tol"%string, []); ("noise"%string, ["tol"%string])].
Example basic_dependency_misses_user_value :
  let w := with_callers world0 [(0%nat, [("tol"%string, VUser 7)])] in
  get "noise"%string (store_of (insts (fst (construct w 0 fBad [] 2 (Some 0%nat))) 0)) =
    Some (VDefault "noise" [("tol"%string, VDefault "tol" [])]) /\
  get "tol"%string (store_of (insts (fst (construct w 0 fBad [] 2 (Some 0%nat))) 0)) = Some (VUser 7) /\
  deps_ok fBad [] = false.
Proof. vm_compute. repeat split; reflexivity. Qed.

(* the reserved name in the caller's dict: rejected, the caller's set object is left alone, no object *)
Example reserved_name_corner :
  let w := with_callers world0 [(0%nat, [(reserved, VSet ["m"%string])])] in
  let r := construct w 0 fA fB 2 (Some 0%nat) in
  snd r = Raised "ValueError" /\
  callers (fst r) 0 = [(reserved, VSet ["m"%string])] /\
  store_of (insts (fst r) 0) = [].
Proof. vm_compute. repeat split; reflexivity. Qed.

(* optimize()'s adjustments: the user's value is replaced by a function of it, and a second run compounds *)
Example adjust_compounds :
  let w := with_callers world0 [(0%nat, [("tol"%string, VUser 7)])] in
  let w1 := fst (construct w 0 fA fB 2 (Some 0%nat)) in
  get "tol"%string (store_of (insts w1 0)) = Some (VUser 7) /\
  get "tol"%string (store_of (insts (fst (run w1 [Adjust 0 ["tol"%string]])) 0)) = Some (VAdjusted "tol" (VUser 7)) /\
  get "tol"%string (store_of (insts (fst (run w1 [Adjust 0 ["tol"%string]; Adjust 0 ["tol"%string]])) 0)) =
    Some (VAdjusted "tol" (VAdjusted "tol" (VUser 7))).
Proof. vm_compute. repeat split; reflexivity. Qed.
