(* HistoryProofs.v — proofs of the container laws of Model/History.v (property C19).
   Statements are restated in Props/C19.v. *)
From Coq Require Import ZArith List String Bool Lia Arith.
From PV Require Import Model.Val Model.History Model.HistorySpec.
Import ListNotations.
Open Scope Z_scope.

(* ------------------------------------------------------------------ association lists *)

Section AssocLemmas.
  Context {A : Type}.
  Implicit Types (l : list (string * A)) (k : string) (a : A).

  Lemma lookup_upd_same : forall l k a, lookup k l <> None -> lookup k (upd k a l) = Some a.
  Proof.
    induction l as [|[k' a'] r IH]; intros k a H; cbn in *.
    - congruence.
    - destruct (String.eqb k k') eqn:E; cbn; rewrite E; auto.
  Qed.

  Lemma lookup_upd_other : forall l k k' a, k' <> k -> lookup k' (upd k a l) = lookup k' l.
  Proof.
    induction l as [|[k0 a0] r IH]; intros k k' a H; cbn; auto.
    destruct (String.eqb k k0) eqn:E; cbn.
    - apply String.eqb_eq in E; subst k0.
      destruct (String.eqb k' k) eqn:E2; [apply String.eqb_eq in E2; congruence | auto].
    - destruct (String.eqb k' k0); auto.
  Qed.

  Lemma lookup_remove_same : forall l k, lookup k (remove_key k l) = None.
  Proof.
    induction l as [|[k0 a0] r IH]; intros k; cbn; auto.
    destruct (String.eqb k k0) eqn:E; cbn; auto. rewrite E. auto.
  Qed.

  Lemma lookup_remove_other : forall l k k', k' <> k -> lookup k' (remove_key k l) = lookup k' l.
  Proof.
    induction l as [|[k0 a0] r IH]; intros k k' H; cbn; auto.
    destruct (String.eqb k k0) eqn:E; cbn.
    - apply String.eqb_eq in E; subst k0.
      destruct (String.eqb k' k) eqn:E2; [apply String.eqb_eq in E2; congruence | auto].
    - destruct (String.eqb k' k0); auto.
  Qed.

  Lemma lookup_app_none : forall l k k' a,
    lookup k l = None -> lookup k' (l ++ [(k, a)]) = if String.eqb k' k then Some a else lookup k' l.
  Proof.
    induction l as [|[k0 a0] r IH]; intros k k' a H; cbn in *; auto.
    destruct (String.eqb k k0) eqn:E; [discriminate|].
    destruct (String.eqb k' k0) eqn:E2.
    - apply String.eqb_eq in E2; subst k0.
      destruct (String.eqb k' k) eqn:E3; auto.
      apply String.eqb_eq in E3; subst. rewrite String.eqb_refl in E. discriminate.
    - apply IH; auto.
  Qed.

  Lemma lookup_put_same : forall l k a, lookup k (put k a l) = Some a.
  Proof.
    intros l k a. unfold put. destruct (lookup k l) eqn:E.
    - apply lookup_upd_same. congruence.
    - rewrite lookup_app_none by auto. rewrite String.eqb_refl. auto.
  Qed.

  Lemma lookup_put_other : forall l k k' a, k' <> k -> lookup k' (put k a l) = lookup k' l.
  Proof.
    intros l k k' a H. unfold put. destruct (lookup k l) eqn:E.
    - apply lookup_upd_other; auto.
    - rewrite lookup_app_none by auto.
      destruct (String.eqb k' k) eqn:E2; auto. apply String.eqb_eq in E2. congruence.
  Qed.

  Lemma Forall_upd : forall (P : string * A -> Prop) l k a,
    Forall P l -> (forall k', P (k', a)) -> Forall P (upd k a l).
  Proof.
    induction l as [|[k0 a0] r IH]; intros k a HF Hp; cbn; auto.
    inversion HF; subst. destruct (String.eqb k k0); constructor; auto.
  Qed.

  Lemma Forall_remove : forall (P : string * A -> Prop) l k, Forall P l -> Forall P (remove_key k l).
  Proof.
    induction l as [|[k0 a0] r IH]; intros k HF; cbn; auto.
    inversion HF; subst. destruct (String.eqb k k0); auto.
  Qed.

  Lemma lookup_In : forall l k a, lookup k l = Some a -> In (k, a) l.
  Proof.
    induction l as [|[k0 a0] r IH]; intros k a H; cbn in *; [discriminate|].
    destruct (String.eqb k k0) eqn:E.
    - apply String.eqb_eq in E. inversion H; subst. auto.
    - right; auto.
  Qed.
End AssocLemmas.

(* ------------------------------------------------------------------ set_nth *)

Lemma set_nth_length : forall {A} (l : list A) n a, List.length (set_nth n a l) = List.length l.
Proof. induction l; intros [|n] x; cbn; auto. Qed.

Lemma nth_error_set_nth_same : forall {A} (l : list A) n a,
  (n < List.length l)%nat -> nth_error (set_nth n a l) n = Some a.
Proof.
  induction l; intros [|n] x H; cbn in *; try lia; auto. apply IHl. lia.
Qed.

Lemma nth_error_set_nth_other : forall {A} (l : list A) n m a,
  n <> m -> nth_error (set_nth n a l) m = nth_error l m.
Proof.
  induction l; intros [|n] [|m] x H; cbn in *; auto; try congruence.
Qed.

(* ------------------------------------------------------------------ identities *)

Lemma ident_eqb_eq : forall a b, ident_eqb a b = true <-> a = b.
Proof.
  intros [|n|n] [|m|m]; cbn; split; intro H; try discriminate; auto;
    try (apply Nat.eqb_eq in H; congruence); try (inversion H; apply Nat.eqb_refl).
Qed.

Lemma ident_eqb_refl : forall a, ident_eqb a a = true.
Proof. intro a; apply ident_eqb_eq; auto. Qed.


Lemma id_below_mono : forall lo lo' n n' id,
  (lo' <= lo)%nat -> (n <= n')%nat -> id_below lo n id -> id_below lo' n' id.
Proof.
  intros lo lo' n n' id H1 H2 [H|[m [H Hm]]]; [left; auto|right; exists m; split; auto; lia].
Qed.

Lemma cell_below_mono : forall lo lo' n n' c,
  (lo' <= lo)%nat -> (n <= n')%nat -> cell_below lo n c -> cell_below lo' n' c.
Proof. intros lo lo' n n' [v|] H1 H2 H; cbn in *; auto. eapply id_below_mono; eauto. Qed.

(* ------------------------------------------------------------------ copy.deepcopy *)

Definition memo_ok (lo n : nat) (memo : list (ident * nat)) : Prop :=
  forall id m, memo_find id memo = Some m -> (lo <= m < n)%nat.

Lemma memo_ok_nil : forall lo n, memo_ok lo n [].
Proof. intros lo n id m H. discriminate. Qed.

Lemma copy_val_spec : forall memo lo n v v' memo' n',
  memo_ok lo n memo -> (lo <= n)%nat ->
  copy_val memo n v = (v', (memo', n')) ->
  payload v' = payload v /\ (n <= n')%nat /\ memo_ok lo n' memo' /\
  (vid v = Imm -> v' = v /\ n' = n) /\
  (vid v <> Imm -> exists m, vid v' = Own m /\ (lo <= m < n')%nat).
Proof.
  intros memo lo n v v' memo' n' Hm Hlo H. unfold copy_val in H.
  assert (Hins : forall id0 (m0 : nat), memo_find id0 memo = None ->
                 memo_ok lo (S n) ((id0, n) :: memo)).
  { intros id0 m0 _ id m Hf. cbn in Hf. destruct (ident_eqb id id0).
    - inversion Hf; subst. lia.
    - apply Hm in Hf. lia. }
  destruct (vid v) eqn:Ev.
  - inversion H; subst. split; [auto|]. split; [lia|]. split; [auto|]. split.
    + intros _. auto.
    + intros C. congruence.
  - destruct (memo_find (Ext n0) memo) eqn:Ef; inversion H; subst; cbn.
    + split; [auto|]. split; [lia|]. split; [auto|]. split.
      * intros C. discriminate.
      * intros _. exists n1. split; auto. eapply Hm; eauto.
    + split; [auto|]. split; [lia|]. split; [apply (Hins _ O Ef)|]. split.
      * intros C. discriminate.
      * intros _. exists n. split; [auto|lia].
  - destruct (memo_find (Own n0) memo) eqn:Ef; inversion H; subst; cbn.
    + split; [auto|]. split; [lia|]. split; [auto|]. split.
      * intros C. discriminate.
      * intros _. exists n1. split; auto. eapply Hm; eauto.
    + split; [auto|]. split; [lia|]. split; [apply (Hins _ O Ef)|]. split.
      * intros C. discriminate.
      * intros _. exists n. split; [auto|lia].
Qed.

Lemma copy_cells_spec : forall cs memo lo n cs' n',
  memo_ok lo n memo -> (lo <= n)%nat ->
  copy_cells memo n cs = (cs', n') ->
  payloads cs' = payloads cs /\ (n <= n')%nat /\ Forall (cell_below lo n') cs'.
Proof.
  induction cs as [|[v|] r IH]; intros memo lo n cs' n' Hm Hlo H; cbn in H.
  - inversion H; subst. cbn. auto.
  - destruct (copy_val memo n v) as [v1 [memo1 n1]] eqn:Ev.
    destruct (copy_cells memo1 n1 r) as [r' n2] eqn:Er. inversion H; subst.
    destruct (copy_val_spec _ _ _ _ _ _ _ Hm Hlo Ev) as (Hp & Hn & Hm1 & Himm & Hown).
    assert (Hlo1 : (lo <= n1)%nat) by lia.
    destruct (IH _ _ _ _ _ Hm1 Hlo1 Er) as (Hp2 & Hn2 & Hf).
    split; [|split].
    + unfold payloads in *. cbn [map]. rewrite Hp2. unfold cell_payload at 1 3. cbn [option_map].
      rewrite Hp. reflexivity.
    + lia.
    + constructor; auto. cbn [cell_below]. destruct (vid v) eqn:Evid.
      * destruct (Himm eq_refl) as [-> _]. left; auto.
      * destruct Hown as [m [Hv Hr]]; [congruence|]. right. exists m. split; auto. lia.
      * destruct Hown as [m [Hv Hr]]; [congruence|]. right. exists m. split; auto. lia.
  - destruct (copy_cells memo n r) as [r' n2] eqn:Er. inversion H; subst.
    destruct (IH _ _ _ _ _ Hm Hlo Er) as (Hp2 & Hn2 & Hf).
    split; [|split]; auto.
    + unfold payloads in *. cbn [map]. rewrite Hp2. reflexivity.
    + constructor; cbn; auto.
Qed.

Lemma copy1_spec : forall n v v' n',
  copy1 n v = (v', n') ->
  payload v' = payload v /\ (n <= n')%nat /\
  (vid v = Imm -> v' = v /\ n' = n) /\
  (vid v <> Imm -> exists m, vid v' = Own m /\ (n <= m < n')%nat).
Proof.
  intros n v v' n' H. unfold copy1 in H.
  destruct (copy_val [] n v) as [v1 [memo1 n1]] eqn:Ev. inversion H; subst.
  destruct (copy_val_spec [] n n v _ _ _ (memo_ok_nil n n) (le_n n) Ev) as (Hp & Hn & _ & Hi & Ho).
  auto.
Qed.

Lemma payloads_length : forall cs, List.length (payloads cs) = List.length cs.
Proof. intros; unfold payloads; apply map_length. Qed.

Lemma payloads_nth : forall cs j, nth_error (payloads cs) j = option_map cell_payload (nth_error cs j).
Proof. intros; unfold payloads; apply nth_error_map. Qed.

Lemma payloads_eq_length : forall cs cs', payloads cs' = payloads cs -> List.length cs' = List.length cs.
Proof. intros cs cs' H. rewrite <- (payloads_length cs), <- (payloads_length cs'). congruence. Qed.

Lemma cell_payload_none : forall c, cell_payload c = None -> c = None.
Proof. intros [v|]; cbn; auto; discriminate. Qed.

Lemma payloads_app_repeat : forall cs m,
  payloads (cs ++ repeat None m) = payloads cs ++ repeat None m.
Proof.
  intros cs m. unfold payloads. rewrite map_app. f_equal.
  induction m; cbn; auto. f_equal; auto.
Qed.

(* if cs2 is cs1 followed by padding, up to identities *)
Lemma padded_old : forall cs1 cs2 m j,
  payloads cs2 = payloads cs1 ++ repeat None m -> (j < List.length cs1)%nat ->
  option_map cell_payload (nth_error cs2 j) = option_map cell_payload (nth_error cs1 j).
Proof.
  intros cs1 cs2 m j H Hj. rewrite <- !payloads_nth. rewrite H.
  apply nth_error_app1. rewrite payloads_length. auto.
Qed.

Lemma padded_new : forall cs1 cs2 m j,
  payloads cs2 = payloads cs1 ++ repeat None m ->
  (List.length cs1 <= j < List.length cs2)%nat -> nth_error cs2 j = Some None.
Proof.
  intros cs1 cs2 m j H Hj.
  assert (Hl : List.length cs2 = (List.length cs1 + m)%nat).
  { rewrite <- (payloads_length cs2), H, app_length, payloads_length, repeat_length. auto. }
  assert (Hp : nth_error (payloads cs2) j = Some None).
  { rewrite H. rewrite nth_error_app2 by (rewrite payloads_length; lia).
    rewrite payloads_length. apply nth_error_repeat. lia. }
  rewrite payloads_nth in Hp. destruct (nth_error cs2 j) as [c|] eqn:E; cbn in Hp; [|discriminate].
  inversion Hp as [Hc]. apply cell_payload_none in Hc. subst; auto.
Qed.

Lemma padded_length : forall cs1 cs2 m,
  payloads cs2 = payloads cs1 ++ repeat None m -> List.length cs2 = (List.length cs1 + m)%nat.
Proof.
  intros cs1 cs2 m H.
  rewrite <- (payloads_length cs2), H, app_length, payloads_length, repeat_length. auto.
Qed.

Lemma grow_spec : forall a cs n i a2 cs2 n2,
  grow a cs n i = (a2, cs2, n2) ->
  (n <= n2)%nat /\
  payloads cs2 = payloads cs ++ repeat None (S i - List.length cs) /\
  ((i < List.length cs)%nat -> a2 = a /\ cs2 = cs /\ n2 = n) /\
  ((List.length cs <= i)%nat -> a2 = n /\ (n < n2)%nat /\ Forall (cell_below (S n) n2) cs2).
Proof.
  intros a cs n i a2 cs2 n2 H. unfold grow in H.
  destruct (Nat.leb (List.length cs) i) eqn:E.
  - apply Nat.leb_le in E.
    destruct (copy_cells [] (S n) (cs ++ repeat None (S i - List.length cs))) as [cs' n'] eqn:Ec.
    destruct (copy_cells_spec _ [] (S n) (S n) _ _ (memo_ok_nil _ _) (le_n _) Ec) as (Hp & Hn & Hf).
    inversion H; subst a2 cs' n'.
    split; [lia|]. split; [rewrite Hp; apply payloads_app_repeat|]. split; [intros; lia|].
    intros _. split; [reflexivity|split; [lia|exact Hf]].
  - apply Nat.leb_gt in E. inversion H; subst.
    split; [lia|]. split.
    + replace (S i - List.length cs2)%nat with O by lia. cbn. rewrite app_nil_r. auto.
    + split; [auto|intros; lia].
Qed.

(* ------------------------------------------------------------------ well-formed states *)


Lemma stored_ok_mono : forall n n' st, (n <= n')%nat -> stored_ok n st -> stored_ok n' st.
Proof.
  intros n n' [|a cs|p] H Hs; cbn in *; auto. destruct Hs as [Ha Hf]. split; [lia|].
  eapply Forall_impl; [|exact Hf]. intros c Hc. eapply cell_below_mono; eauto.
Qed.

Lemma wf_lookup : forall s k st, wf s -> lookup k (items s) = Some st -> stored_ok (next s) st.
Proof.
  intros s k st Hw Hl. apply lookup_In in Hl. unfold wf in Hw. rewrite Forall_forall in Hw.
  apply (Hw (k, st)); auto.
Qed.

Lemma wf_upd : forall its n n' k st,
  Forall (fun kv : string * stored => stored_ok n (snd kv)) its -> (n <= n')%nat -> stored_ok n' st ->
  Forall (fun kv : string * stored => stored_ok n' (snd kv)) (upd k st its).
Proof.
  intros its n n' k st Hf Hn Hs. apply Forall_upd; auto.
  eapply Forall_impl; [|exact Hf]. intros kv Hkv. eapply stored_ok_mono; eauto.
Qed.

Lemma Forall_set_nth : forall {A} (P : A -> Prop) l n a, Forall P l -> P a -> Forall P (set_nth n a l).
Proof.
  induction l; intros [|n] x Hf Hx; cbn; auto; inversion Hf; subst; constructor; auto.
Qed.

Lemma init_items_wf : forall keys l n,
  Forall (fun kv : string * stored => stored_ok n (snd kv)) l ->
  Forall (fun kv : string * stored => stored_ok n (snd kv)) (fold_left (fun l k => put k SNone l) keys l).
Proof.
  induction keys as [|k r IH]; intros l n H; cbn; auto.
  apply IH. unfold put. destruct (lookup k l).
  - apply Forall_upd; auto. intros; cbn; auto.
  - apply Forall_app. split; auto. constructor; cbn; auto.
Qed.

Lemma wf_init : forall keys, wf (init_history keys).
Proof. intros keys. unfold wf, init_history. cbn. apply init_items_wf. constructor. Qed.

Lemma init_lookup : forall keys l k,
  lookup k (fold_left (fun l k => put k SNone l) keys l) =
  if mem_str k keys then Some SNone else lookup k l.
Proof.
  unfold mem_str.
  induction keys as [|k0 r IH]; intros l k; cbn [fold_left existsb]; auto.
  rewrite IH. destruct (existsb (String.eqb k) r) eqn:E; [rewrite orb_true_r; auto|].
  rewrite orb_false_r. destruct (String.eqb k k0) eqn:E2.
  - apply String.eqb_eq in E2; subst. apply lookup_put_same.
  - apply lookup_put_other. apply String.eqb_neq; auto.
Qed.

(* ------------------------------------------------------------------ record *)

Lemma ensure_array_spec : forall n st a1 cs1 n1,
  ensure_array n st = Some (a1, cs1, n1) ->
  (st = SNone /\ a1 = n /\ cs1 = [None] /\ n1 = S n) \/ (st = SArr a1 cs1 /\ n1 = n).
Proof.
  intros n [|a cs|p] a1 cs1 n1 H; cbn in H; inversion H; subst; auto.
Qed.

Lemma do_record_inv : forall s k v i s' r,
  do_record s k v i = (s', r) ->
  (s' = s /\ r = Err "ValueError" /\ (i < 0 \/ lookup k (items s) = None)) \/
  (s' = s /\ r = Err "TypeError" /\ 0 <= i /\ exists p, lookup k (items s) = Some (SScalar p)) \/
  (r = Ok /\ 0 <= i /\ exists st a1 cs1 n1 a2 cs2 n2 v' n3,
     lookup k (items s) = Some st /\ ensure_array (next s) st = Some (a1, cs1, n1) /\
     grow a1 cs1 n1 (Z.to_nat i) = (a2, cs2, n2) /\ copy1 n2 v = (v', n3) /\
     s' = mkH (upd k (SArr a2 (set_nth (Z.to_nat i) (Some v') cs2)) (items s)) n3).
Proof.
  intros s k v i s' r H. unfold do_record in H.
  destruct (i <? 0) eqn:Ei.
  - apply Z.ltb_lt in Ei. inversion H; subst. left. auto.
  - apply Z.ltb_ge in Ei. destruct (lookup k (items s)) as [st|] eqn:El.
    + destruct (ensure_array (next s) st) as [[[a1 cs1] n1]|] eqn:Ee.
      * destruct (grow a1 cs1 n1 (Z.to_nat i)) as [[a2 cs2] n2] eqn:Eg.
        destruct (copy1 n2 v) as [v' n3] eqn:Ec. inversion H; subst.
        right. right. split; auto. split; auto.
        exists st, a1, cs1, n1, a2, cs2, n2, v', n3. auto.
      * inversion H; subst. right. left. split; auto. split; auto. split; auto.
        destruct st; cbn in Ee; try discriminate. eauto.
    + inversion H; subst. left. auto.
Qed.

(* everything a successful record does, in one statement *)
Lemma record_effect : forall s k v i s',
  do_record s k v i = (s', Ok) ->
  0 <= i /\ lookup k (items s) <> None /\
  exists a' cs' v',
    items s' = upd k (SArr a' cs') (items s) /\
    (next s <= next s')%nat /\
    List.length cs' = Nat.max (len_of s k) (S (Z.to_nat i)) /\
    nth_error cs' (Z.to_nat i) = Some (Some v') /\
    payload v' = payload v /\
    (vid v = Imm -> v' = v) /\
    (vid v <> Imm -> exists m, vid v' = Own m /\ (next s <= m < next s')%nat) /\
    (forall j, j <> Z.to_nat i -> (j < len_of s k)%nat ->
       option_map cell_payload (nth_error cs' j) = option_map cell_payload (cell_at s k j)) /\
    (forall j, j <> Z.to_nat i -> (len_of s k <= j < List.length cs')%nat -> nth_error cs' j = Some None) /\
    ((Z.to_nat i < len_of s k)%nat ->
       exists cs, lookup k (items s) = Some (SArr a' cs) /\ cs' = set_nth (Z.to_nat i) (Some v') cs) /\
    (wf s -> stored_ok (next s') (SArr a' cs')).
Proof.
  intros s k v i s' H.
  destruct (do_record_inv _ _ _ _ _ _ H) as [(_ & C & _)|[(_ & C & _)|(_ & Hi & st & a1 & cs1 & n1 & a2 & cs2 & n2 & v' & n3 & Hl & He & Hg & Hc & Hs)]];
    try discriminate.
  split; auto. split; [congruence|].
  set (ii := Z.to_nat i) in *.
  exists a2, (set_nth ii (Some v') cs2), v'.
  destruct (grow_spec _ _ _ _ _ _ _ Hg) as (Hn12 & Hpad & Hnogrow & Hgrow).
  destruct (copy1_spec _ _ _ _ Hc) as (Hpv & Hn23 & Himm & Hown).
  assert (Hn01 : (next s <= n1)%nat).
  { destruct (ensure_array_spec _ _ _ _ _ He) as [(_ & _ & _ & ->)|(_ & ->)]; lia. }
  assert (Hlen2 : List.length cs2 = Nat.max (List.length cs1) (S ii)).
  { rewrite (padded_length _ _ _ Hpad). lia. }
  assert (Hii : (ii < List.length cs2)%nat) by lia.
  subst s'. cbn [items next].
  split; [reflexivity|]. split; [lia|].
  (* relate cs1 to the state *)
  assert (Hcs1 : (len_of s k <= List.length cs1)%nat /\
                 (forall j, (j < len_of s k)%nat -> nth_error cs1 j = (match cell_at s k j with Some c => Some c | None => None end) /\ cell_at s k j = nth_error cs1 j) /\
                 (forall j, (len_of s k <= j < List.length cs1)%nat -> nth_error cs1 j = Some None)).
  { unfold len_of, cell_at, cells_of. rewrite Hl.
    destruct (ensure_array_spec _ _ _ _ _ He) as [(-> & _ & -> & _)|(-> & _)]; cbn.
    - split; [lia|]. split; [intros; lia|]. intros [|j] Hj; cbn in *; auto; lia.
    - split; [lia|]. split; [|intros; lia]. intros j Hj. destruct (nth_error cs1 j); auto. }
  destruct Hcs1 as (Hle & Hold & Hmid).
  split.
  { rewrite set_nth_length, Hlen2.
    destruct (Nat.le_gt_cases (List.length cs1) ii) as [Hc1|Hc1]; [|].
    - lia.
    - (* no growth: cs1 longer than ii *)
      assert (len_of s k = List.length cs1 \/ (len_of s k = 0 /\ List.length cs1 = 1))%nat as [E|[E1 E2]].
      { unfold len_of, cells_of. rewrite Hl.
        destruct (ensure_array_spec _ _ _ _ _ He) as [(-> & _ & -> & _)|(-> & _)]; cbn; auto. }
      + lia.
      + lia. }
  split; [apply nth_error_set_nth_same; auto|].
  split; [auto|]. split; [intros Hv; apply Himm; auto|].
  split.
  { intros Hv. destruct (Hown Hv) as [m [Hm1 Hm2]]. exists m. split; auto. lia. }
  split.
  { intros j Hj Hjl. rewrite nth_error_set_nth_other by auto.
    rewrite (padded_old _ _ _ _ Hpad) by lia.
    destruct (Hold j Hjl) as [_ ->]. reflexivity. }
  split.
  { intros j Hj Hjl. rewrite set_nth_length in Hjl. rewrite nth_error_set_nth_other by auto.
    destruct (Nat.lt_ge_cases j (List.length cs1)) as [Hj1|Hj1].
    - assert (Hp := padded_old _ _ _ _ Hpad Hj1). rewrite (Hmid j) in Hp by lia. cbn in Hp.
      destruct (nth_error cs2 j) as [c|] eqn:E; cbn in Hp; [|discriminate].
      inversion Hp as [Hc']. apply cell_payload_none in Hc'. subst; auto.
    - apply (padded_new _ _ _ _ Hpad). lia. }
  split.
  { intros Hlt. assert (Hlt1 : (ii < List.length cs1)%nat) by lia.
    destruct (Hnogrow Hlt1) as (-> & -> & ->).
    destruct (ensure_array_spec _ _ _ _ _ He) as [(Hst & _ & _ & _)|(Hst & _)].
    - subst st. unfold len_of, cells_of in Hlt. rewrite Hl in Hlt. cbn in Hlt. lia.
    - subst st. exists cs1. auto. }
  { intros Hw. cbn [stored_ok].
    assert (Hv' : cell_below 0 n3 (Some v')).
    { cbn. destruct (vid v) eqn:Ev.
      - rewrite (proj1 (Himm eq_refl)). left; auto.
      - destruct Hown as [m [Hm1 Hm2]]; [congruence|]. right. exists m. split; auto. lia.
      - destruct Hown as [m [Hm1 Hm2]]; [congruence|]. right. exists m. split; auto. lia. }
    destruct (Nat.le_gt_cases (List.length cs1) ii) as [Hc1|Hc1].
    - destruct (Hgrow Hc1) as (-> & Hlt & Hf). split; [lia|].
      apply Forall_set_nth; auto. eapply Forall_impl; [|exact Hf].
      intros c Hcb. eapply cell_below_mono; [| |exact Hcb]; lia.
    - destruct (Hnogrow Hc1) as (-> & -> & ->).
      destruct (ensure_array_spec _ _ _ _ _ He) as [(Hst & -> & -> & ->)|(Hst & ->)].
      + split; [lia|]. apply Forall_set_nth; auto. constructor; cbn; auto.
      + subst st. assert (Hso := wf_lookup _ _ _ Hw Hl). cbn in Hso. destruct Hso as [Ha Hf].
        split; [lia|]. apply Forall_set_nth; auto. eapply Forall_impl; [|exact Hf].
        intros c Hcb. eapply cell_below_mono; [| |exact Hcb]; lia. }
Qed.

Lemma record_lookup : forall s k v i s',
  do_record s k v i = (s', Ok) ->
  exists a' cs', lookup k (items s') = Some (SArr a' cs') /\
                 (forall k', k' <> k -> lookup k' (items s') = lookup k' (items s)).
Proof.
  intros s k v i s' H. destruct (record_effect _ _ _ _ _ H) as (_ & Hk & a' & cs' & v' & Hit & _).
  exists a', cs'. rewrite Hit. split.
  - apply lookup_upd_same; auto.
  - intros k' Hk'. apply lookup_upd_other; auto.
Qed.

(* --- C19_record_get *)
Theorem record_get : forall s k v i s',
  step s (Record k v i) = (s', Ok) ->
  exists v', cell_at s' k (Z.to_nat i) = Some (Some v') /\
             payload v' = payload v /\
             (vid v = Imm -> v' = v) /\
             (vid v <> Imm -> exists m, vid v' = Own m /\ (next s <= m < next s')%nat).
Proof.
  intros s k v i s' H. cbn [step] in H.
  destruct (record_effect _ _ _ _ _ H) as (_ & Hk & a' & cs' & v' & Hit & _ & _ & Hn & Hp & Hi & Ho & _).
  exists v'. split; [|auto]. unfold cell_at, cells_of. rewrite Hit.
  rewrite lookup_upd_same by auto. auto.
Qed.

(* --- C19_frame *)
Theorem record_frame : forall s k v i s',
  step s (Record k v i) = (s', Ok) ->
  (forall k', k' <> k -> lookup k' (items s') = lookup k' (items s)) /\
  (forall j, j <> Z.to_nat i -> (j < len_of s k)%nat ->
     option_map cell_payload (cell_at s' k j) = option_map cell_payload (cell_at s k j)) /\
  ((Z.to_nat i < len_of s k)%nat ->
     (exists a cs cs', lookup k (items s) = Some (SArr a cs) /\ lookup k (items s') = Some (SArr a cs')) /\
     forall j, j <> Z.to_nat i -> cell_at s' k j = cell_at s k j).
Proof.
  intros s k v i s' H. cbn [step] in H.
  destruct (record_effect _ _ _ _ _ H) as (_ & Hk & a' & cs' & v' & Hit & _ & _ & _ & _ & _ & _ & Hold & _ & Hng & _).
  assert (Hl' : lookup k (items s') = Some (SArr a' cs')) by (rewrite Hit; apply lookup_upd_same; auto).
  split; [intros k' Hk'; rewrite Hit; apply lookup_upd_other; auto|].
  split.
  - intros j Hj Hjl. unfold cell_at at 1. unfold cells_of. rewrite Hl'. apply Hold; auto.
  - intros Hlt. destruct (Hng Hlt) as [cs [Hl ->]]. split; [eauto|].
    intros j Hj. unfold cell_at, cells_of. rewrite Hl', Hl.
    apply nth_error_set_nth_other; auto.
Qed.

(* --- C19_grow_padding *)
Theorem record_grow_padding : forall s k v i s',
  step s (Record k v i) = (s', Ok) ->
  len_of s' k = Nat.max (len_of s k) (S (Z.to_nat i)) /\
  forall j, (len_of s k <= j < len_of s' k)%nat -> j <> Z.to_nat i -> cell_at s' k j = Some None.
Proof.
  intros s k v i s' H. cbn [step] in H.
  destruct (record_effect _ _ _ _ _ H) as (_ & Hk & a' & cs' & v' & Hit & _ & Hlen & _ & _ & _ & _ & _ & Hpad & _).
  assert (Hl' : lookup k (items s') = Some (SArr a' cs')) by (rewrite Hit; apply lookup_upd_same; auto).
  assert (Hlen' : len_of s' k = List.length cs') by (unfold len_of, cells_of; rewrite Hl'; auto).
  rewrite Hlen'. split; [exact Hlen|].
  intros j Hj Hne. unfold cell_at, cells_of. rewrite Hl'. apply Hpad; auto.
Qed.

(* --- C19_errors_preserve_state *)
Theorem record_errors : forall s k v i,
  (i < 0 \/ lookup k (items s) = None -> step s (Record k v i) = (s, Err "ValueError")) /\
  (forall s' e, step s (Record k v i) = (s', Err e) -> s' = s) /\
  (0 <= i -> (exists st, lookup k (items s) = Some st /\ forall p, st <> SScalar p) ->
   snd (step s (Record k v i)) = Ok).
Proof.
  intros s k v i. cbn [step]. split; [|split].
  - intros [Hi|Hk]; unfold do_record.
    + apply Z.ltb_lt in Hi. rewrite Hi. auto.
    + destruct (i <? 0); auto. rewrite Hk. auto.
  - intros s' e H. destruct (do_record_inv _ _ _ _ _ _ H) as [(E & _)|[(E & _)|(C & _)]]; auto; discriminate.
  - intros Hi [st [Hl Hns]]. unfold do_record.
    destruct (i <? 0) eqn:Ei; [apply Z.ltb_lt in Ei; lia|]. rewrite Hl.
    destruct st as [|a cs|p]; cbn [ensure_array].
    + destruct (grow (next s) [None] (S (next s)) (Z.to_nat i)) as [[a2 cs2] n2].
      destruct (copy1 n2 v). auto.
    + destruct (grow a cs (next s) (Z.to_nat i)) as [[a2 cs2] n2].
      destruct (copy1 n2 v). auto.
    + exfalso. apply (Hns p). auto.
Qed.

Theorem setitem_errors : forall s k v,
  lookup k (items s) = None -> step s (SetItem k v) = (s, Err "ValueError").
Proof. intros s k v H. cbn. unfold do_setitem. rewrite H. auto. Qed.

Theorem setitem_get : forall s k v st0,
  lookup k (items s) = Some st0 ->
  exists s', step s (SetItem k v) = (s', Ok) /\
    (forall k', k' <> k -> lookup k' (items s') = lookup k' (items s)) /\
    match v with
    | SrcNone => lookup k (items s') = Some SNone
    | SrcScalar p => lookup k (items s') = Some (SScalar p)
    | SrcArr cs => exists cs', lookup k (items s') = Some (SArr (next s) cs') /\
                               payloads cs' = payloads cs /\ Forall (cell_below (S (next s)) (next s')) cs'
    end.
Proof.
  intros s k v st0 Hl. cbn [step]. unfold do_setitem. rewrite Hl.
  assert (Hne : lookup k (items s) <> None) by congruence.
  destruct v as [|cs|p].
  - eexists. split; [reflexivity|]. cbn. split; [intros; apply lookup_upd_other; auto|apply lookup_upd_same; auto].
  - destruct (copy_cells [] (S (next s)) cs) as [cs' n'] eqn:Ec.
    destruct (copy_cells_spec _ [] (S (next s)) (S (next s)) _ _ (memo_ok_nil _ _) (le_n _) Ec) as (Hp & Hn & Hf).
    eexists. split; [reflexivity|]. cbn. split; [intros; apply lookup_upd_other; auto|].
    exists cs'. split; [apply lookup_upd_same; auto|auto].
  - eexists. split; [reflexivity|]. cbn. split; [intros; apply lookup_upd_other; auto|apply lookup_upd_same; auto].
Qed.

(* ------------------------------------------------------------------ wf is an invariant *)

Lemma wf_record : forall s k v i s' r, wf s -> do_record s k v i = (s', r) -> wf s'.
Proof.
  intros s k v i s' r Hw H. destruct r as [|e|st].
  - destruct (record_effect _ _ _ _ _ H) as (_ & Hk & a' & cs' & v' & Hit & Hn & _ & _ & _ & _ & _ & _ & _ & _ & Hok).
    unfold wf. rewrite Hit. eapply wf_upd; eauto.
  - destruct (do_record_inv _ _ _ _ _ _ H) as [(E & _)|[(E & _)|(C & _)]]; subst; auto; discriminate.
  - destruct (do_record_inv _ _ _ _ _ _ H) as [(_ & C & _)|[(_ & C & _)|(C & _)]]; discriminate.
Qed.

Lemma wf_record_all : forall kvs s i s' r, wf s -> do_record_all s kvs i = (s', r) -> wf s'.
Proof.
  induction kvs as [|[k v] rest IH]; intros s i s' r Hw H; cbn in H.
  - inversion H; subst; auto.
  - destruct (lookup k (items s)); [|inversion H; subst; auto].
    destruct (do_record s k v i) as [s1 r1] eqn:E.
    assert (Hw1 := wf_record _ _ _ _ _ _ Hw E).
    destruct r1; try (inversion H; subst; auto; fail). eapply IH; eauto.
Qed.

Lemma mutate_cell_vid : forall id p c n, cell_below 0 n c -> cell_below 0 n (mutate_cell id p c).
Proof.
  intros id p [v|] n H; cbn in *; auto. destruct (ident_eqb (vid v) id); cbn; auto.
Qed.

Lemma wf_step : forall s o, wf s -> wf (fst (step s o)).
Proof.
  intros s o Hw. destruct o as [k v|k v i|kvs i|k|k|id p]; cbn [step].
  - unfold do_setitem. destruct (lookup k (items s)) eqn:El; cbn; auto.
    destruct v as [|cs|p]; cbn.
    + unfold wf; cbn. eapply wf_upd; eauto. cbn; auto.
    + destruct (copy_cells [] (S (next s)) cs) as [cs' n'] eqn:Ec.
      destruct (copy_cells_spec _ [] (S (next s)) (S (next s)) _ _ (memo_ok_nil _ _) (le_n _) Ec) as (Hp & Hn & Hf).
      unfold wf; cbn. eapply wf_upd; eauto; [lia|]. cbn. split; [lia|].
      eapply Forall_impl; [|exact Hf]. intros c Hc. eapply cell_below_mono; [| |exact Hc]; lia.
    + unfold wf; cbn. eapply wf_upd; eauto. cbn; auto.
  - destruct (do_record s k v i) as [s' r] eqn:E. cbn. eapply wf_record; eauto.
  - destruct (i <? 0); cbn; auto.
    destruct (do_record_all s kvs i) as [s' r] eqn:E. cbn. eapply wf_record_all; eauto.
  - destruct (lookup k (items s)); cbn; auto.
  - destruct (lookup k (items s)); cbn; auto. unfold wf; cbn. apply Forall_remove. auto.
  - cbn. unfold do_mutate. destruct id; auto; unfold wf in *; cbn.
    + rewrite Forall_map. eapply Forall_impl; [|exact Hw]. intros [k st] Hs; cbn in *.
      destruct st as [|a cs|q]; cbn in *; auto. destruct Hs as [Ha Hf]. split; auto.
      rewrite Forall_map. eapply Forall_impl; [|exact Hf]. intros c Hc. apply mutate_cell_vid; auto.
    + rewrite Forall_map. eapply Forall_impl; [|exact Hw]. intros [k st] Hs; cbn in *.
      destruct st as [|a cs|q]; cbn in *; auto. destruct Hs as [Ha Hf]. split; auto.
      rewrite Forall_map. eapply Forall_impl; [|exact Hf]. intros c Hc. apply mutate_cell_vid; auto.
Qed.

Lemma wf_run : forall ops s, wf s -> wf (run s ops).
Proof.
  induction ops as [|o r IH]; intros s Hw; cbn; auto. apply IH. apply wf_step; auto.
Qed.

Theorem wf_reachable : forall keys ops, wf (run (init_history keys) ops).
Proof. intros. apply wf_run. apply wf_init. Qed.

(* ------------------------------------------------------------------ mutation by the environment *)

Lemma map_id_Forall : forall {A} (f : A -> A) l, Forall (fun x => f x = x) l -> map f l = l.
Proof. induction l; intros H; cbn; auto. inversion H; subst. f_equal; auto. Qed.

Lemma mutate_cell_below : forall n p c N, cell_below 0 N c -> mutate_cell (Ext n) p c = c.
Proof.
  intros n p [v|] N H; cbn in *; auto.
  destruct H as [H|[m [H _]]]; rewrite H; cbn; auto.
Qed.

(* --- the container never holds an object of the environment: changing one changes nothing *)
Theorem env_mutation_invisible : forall s n p, wf s -> fst (step s (Mutate (Ext n) p)) = s.
Proof.
  intros s n p Hw. cbn. destruct s as [its nx]. unfold do_mutate. cbn. f_equal.
  unfold wf in Hw. cbn in Hw. apply map_id_Forall.
  eapply Forall_impl; [|exact Hw]. intros [k st] Hs. cbn in *. f_equal.
  destruct st as [|a cs|q]; cbn in *; auto. f_equal. destruct Hs as [_ Hf].
  apply map_id_Forall. eapply Forall_impl; [|exact Hf]. intros c Hc. eapply mutate_cell_below; eauto.
Qed.

Lemma lookup_map_snd : forall {A} (f : A -> A) (l : list (string * A)) k,
  lookup k (map (fun kv => (fst kv, f (snd kv))) l) = option_map f (lookup k l).
Proof.
  induction l as [|[k0 a0] r IH]; intros k; cbn; auto. destruct (String.eqb k k0); auto.
Qed.

Lemma cell_at_mutate : forall s id p k j, id <> Imm ->
  cell_at (do_mutate s id p) k j = option_map (mutate_cell id p) (cell_at s k j).
Proof.
  intros s id p k j Hid. unfold cell_at, cells_of, do_mutate.
  destruct id; [congruence| |]; cbn [items]; rewrite lookup_map_snd;
    destruct (lookup k (items s)) as [[|a cs|q]|]; cbn; auto; apply nth_error_map.
Qed.

(* --- C19_no_alias *)
Theorem record_no_alias : forall s k v i s' p,
  wf s -> id_known s (vid v) ->
  step s (Record k v i) = (s', Ok) ->
  cell_at (fst (step s' (Mutate (vid v) p))) k (Z.to_nat i) = cell_at s' k (Z.to_nat i).
Proof.
  intros s k v i s' p Hw Hk H.
  destruct (record_get _ _ _ _ _ H) as (v' & Hc & _ & Hi & Ho).
  cbn [step fst]. destruct (vid v) eqn:Ev.
  - reflexivity.
  - rewrite cell_at_mutate by discriminate. rewrite Hc. cbn.
    destruct Ho as [m [Hm _]]; [discriminate|]. rewrite Hm. cbn. reflexivity.
  - rewrite cell_at_mutate by discriminate. rewrite Hc. cbn.
    destruct Ho as [m [Hm Hr]]; [discriminate|]. rewrite Hm. cbn in *.
    destruct (Nat.eqb m n) eqn:E; [apply Nat.eqb_eq in E; lia|reflexivity].
Qed.

(* ------------------------------------------------------------------ frame over op sequences *)

Lemma same_lookup : forall s s' k, lookup k (items s') = lookup k (items s) ->
  len_of s' k = len_of s k /\ forall j, cell_at s' k j = cell_at s k j.
Proof. intros s s' k H. unfold len_of, cell_at, cells_of. rewrite H. auto. Qed.

Definition keeps (k : string) (i : nat) (s s' : hstate) : Prop :=
  ((i < len_of s k)%nat ->
     (i < len_of s' k)%nat /\ option_map cell_payload (cell_at s' k i) = option_map cell_payload (cell_at s k i)) /\
  (is_blank s k i -> is_blank s' k i).

Lemma keeps_refl : forall k i s, keeps k i s s.
Proof. intros; split; auto. Qed.

Lemma keeps_trans : forall k i s1 s2 s3, keeps k i s1 s2 -> keeps k i s2 s3 -> keeps k i s1 s3.
Proof.
  intros k i s1 s2 s3 [A1 B1] [A2 B2]. split; auto.
  intros H. destruct (A1 H) as [H1 E1]. destruct (A2 H1) as [H2 E2]. split; auto. congruence.
Qed.

Lemma keeps_same_lookup : forall k i s s', lookup k (items s') = lookup k (items s) -> keeps k i s s'.
Proof.
  intros k i s s' H. destruct (same_lookup _ _ _ H) as [Hl Hc]. unfold keeps, is_blank.
  rewrite Hl, Hc. auto.
Qed.

Lemma cell_at_beyond : forall s k j, (len_of s k <= j)%nat -> cell_at s k j = None.
Proof.
  intros s k j H. unfold cell_at, len_of in *. destruct (cells_of s k); auto. apply nth_error_None; auto.
Qed.

Lemma cell_at_within : forall s k j, (j < len_of s k)%nat -> exists c, cell_at s k j = Some c.
Proof.
  intros s k j H. unfold cell_at, len_of in *. destruct (cells_of s k) as [cs|]; [|lia].
  destruct (nth_error cs j) eqn:E; eauto. apply nth_error_None in E. lia.
Qed.

Lemma keeps_record : forall s k' v i' s' r k i,
  do_record s k' v i' = (s', r) -> ~ (k' = k /\ i' = Z.of_nat i) -> keeps k i s s'.
Proof.
  intros s k' v i' s' r k i H Hnt.
  destruct r as [|e|st].
  2:{ destruct (do_record_inv _ _ _ _ _ _ H) as [(E & _)|[(E & _)|(C & _)]]; subst; try discriminate; apply keeps_refl. }
  2:{ destruct (do_record_inv _ _ _ _ _ _ H) as [(_ & C & _)|[(_ & C & _)|(C & _)]]; discriminate. }
  assert (Hs : step s (Record k' v i') = (s', Ok)) by exact H.
  destruct (record_frame _ _ _ _ _ Hs) as (Hother & Hsame & _).
  destruct (record_grow_padding _ _ _ _ _ Hs) as (Hlen & Hpad).
  destruct (string_dec k' k) as [->|Hk]; [|apply keeps_same_lookup; apply Hother; auto].
  assert (Hi : 0 <= i') by (destruct (record_effect _ _ _ _ _ H) as [Hi _]; exact Hi).
  assert (Hne : i <> Z.to_nat i') by (intros ->; apply Hnt; split; auto; lia).
  split.
  - intros Hlt. split; [lia|]. apply Hsame; auto.
  - intros Hb. destruct (Nat.lt_ge_cases i (len_of s k)) as [Hlt|Hge].
    + assert (Hp := Hsame i Hne Hlt).
      destruct (cell_at_within _ _ _ Hlt) as [c Hc]. destruct Hb as [Hb|Hb]; [congruence|].
      rewrite Hb in Hp. cbn in Hp.
      destruct (cell_at s' k i) as [c'|] eqn:Ec'; cbn in Hp; [|discriminate].
      inversion Hp as [Hc']. apply cell_payload_none in Hc'. subst. right; auto.
    + destruct (Nat.lt_ge_cases i (len_of s' k)) as [Hlt'|Hge'].
      * right. apply Hpad; auto.
      * left. apply cell_at_beyond; auto.
Qed.

Lemma keeps_record_all : forall kvs s i' s' r k i,
  do_record_all s kvs i' = (s', r) -> ~ (i' = Z.of_nat i /\ In k (map fst kvs)) -> keeps k i s s'.
Proof.
  induction kvs as [|[k0 v0] rest IH]; intros s i' s' r k i H Hnt; cbn in H.
  - inversion H; subst. apply keeps_refl.
  - destruct (lookup k0 (items s)); [|inversion H; subst; apply keeps_refl].
    destruct (do_record s k0 v0 i') as [s1 r1] eqn:E.
    assert (K1 : keeps k i s s1).
    { eapply keeps_record; eauto. intros [-> ->]. apply Hnt. split; auto. cbn. auto. }
    destruct r1; try (inversion H; subst; auto; fail).
    eapply keeps_trans; [exact K1|]. eapply IH; eauto.
    intros [A B]. apply Hnt. split; auto. cbn. auto.
Qed.

Lemma keeps_step : forall s o k i, wf s -> ~ touches k i o -> keeps k i s (fst (step s o)).
Proof.
  intros s o k i Hw Hnt. destruct o as [k' v|k' v i'|kvs i'|k'|k'|id p]; cbn [touches] in Hnt; cbn [step].
  - apply keeps_same_lookup. unfold do_setitem. destruct (lookup k' (items s)); cbn; auto.
    destruct v as [|cs|q]; cbn; try (apply lookup_upd_other; congruence).
    destruct (copy_cells [] (S (next s)) cs). cbn. apply lookup_upd_other; congruence.
  - destruct (do_record s k' v i') as [s' r] eqn:E. cbn. eapply keeps_record; eauto.
  - destruct (i' <? 0); [apply keeps_refl|].
    destruct (do_record_all s kvs i') as [s' r] eqn:E. cbn. eapply keeps_record_all; eauto.
  - destruct (lookup k' (items s)); apply keeps_refl.
  - destruct (lookup k' (items s)); [|apply keeps_refl]. cbn.
    apply keeps_same_lookup. cbn. apply lookup_remove_other. congruence.
  - destruct id as [|n|m].
    + cbn. apply keeps_refl.
    + change (do_mutate s (Ext n) p, Ok) with (step s (Mutate (Ext n) p)).
      rewrite env_mutation_invisible by auto. apply keeps_refl.
    + exfalso. apply Hnt. eauto.
Qed.

Lemma keeps_run : forall ops s k i,
  wf s -> Forall (fun o => ~ touches k i o) ops -> keeps k i s (run s ops).
Proof.
  induction ops as [|o r IH]; intros s k i Hw Hf; cbn.
  - apply keeps_refl.
  - inversion Hf; subst. eapply keeps_trans; [apply keeps_step; eauto|].
    apply IH; auto. apply wf_step; auto.
Qed.

Lemma run_app : forall ops1 ops2 s, run s (ops1 ++ ops2) = run (run s ops1) ops2.
Proof. intros. unfold run. apply fold_left_app. Qed.

(* --- the last successful record at (k, i) is what the cell holds, whatever else happens later *)
Theorem last_record_wins : forall keys ops1 k v i ops2,
  snd (step (run (init_history keys) ops1) (Record k v i)) = Ok ->
  Forall (fun o => ~ touches k (Z.to_nat i) o) ops2 ->
  option_map cell_payload (cell_at (run (init_history keys) (ops1 ++ Record k v i :: ops2)) k (Z.to_nat i))
  = Some (Some (payload v)).
Proof.
  intros keys ops1 k v i ops2 Hok Hf.
  rewrite run_app. cbn [run fold_left]. fold (run (fst (step (run (init_history keys) ops1) (Record k v i))) ops2).
  set (s1 := run (init_history keys) ops1) in *.
  destruct (step s1 (Record k v i)) as [s2 r] eqn:E. cbn in Hok. subst r. cbn [fst].
  assert (Hw2 : wf s2).
  { replace s2 with (fst (step s1 (Record k v i))) by (rewrite E; auto). apply wf_step. apply wf_reachable. }
  destruct (record_get _ _ _ _ _ E) as (v' & Hc & Hp & _).
  destruct (keeps_run ops2 s2 k (Z.to_nat i) Hw2 Hf) as [Hk _].
  assert (Hlt : (Z.to_nat i < len_of s2 k)%nat).
  { destruct (Nat.lt_ge_cases (Z.to_nat i) (len_of s2 k)); auto.
    rewrite cell_at_beyond in Hc by auto. discriminate. }
  destruct (Hk Hlt) as [_ ->]. rewrite Hc. cbn. rewrite Hp. reflexivity.
Qed.

(* --- a cell nobody wrote is blank *)
Theorem unrecorded_is_blank : forall keys ops k i,
  Forall (fun o => ~ touches k i o) ops -> is_blank (run (init_history keys) ops) k i.
Proof.
  intros keys ops k i Hf.
  destruct (keeps_run ops (init_history keys) k i (wf_init keys) Hf) as [_ Hb]. apply Hb.
  left. unfold cell_at, cells_of, init_history. cbn [items]. rewrite init_lookup.
  destruct (mem_str k keys); auto.
Qed.

(* ------------------------------------------------------------------ record_iteration *)

Lemma recordable_record : forall s k v i s' k',
  do_record s k v i = (s', Ok) -> recordable s k' -> recordable s' k'.
Proof.
  intros s k v i s' k' H [st [Hl Hns]].
  destruct (record_lookup _ _ _ _ _ H) as (a' & cs' & Hk & Hother).
  destruct (string_dec k' k) as [->|Hne].
  - exists (SArr a' cs'). split; auto. intros p C; discriminate.
  - exists st. split; [rewrite Hother; auto|auto].
Qed.

Lemma record_all_ok : forall kvs s i,
  0 <= i -> (forall k, In k (map fst kvs) -> recordable s k) ->
  do_record_all s kvs i = (run s (map (fun kv => Record (fst kv) (snd kv) i) kvs), Ok).
Proof.
  induction kvs as [|[k v] rest IH]; intros s i Hi Hr; cbn [do_record_all map run fold_left]; auto.
  destruct (Hr k) as [st [Hl Hns]]; [cbn; auto|]. rewrite Hl.
  assert (Hok : snd (step s (Record k v i)) = Ok).
  { apply record_errors; auto. exists st. auto. }
  cbn [step fst snd] in *. destruct (do_record s k v i) as [s1 r1] eqn:E. cbn in Hok. subst r1. cbn [fst].
  apply IH; auto. intros k' Hk'. eapply recordable_record; eauto. apply Hr. cbn. auto.
Qed.

Theorem record_iteration_law : forall s kvs i,
  (i < 0 -> step s (RecordIteration kvs i) = (s, Err "ValueError")) /\
  (0 <= i -> (forall k, In k (map fst kvs) -> recordable s k) ->
   step s (RecordIteration kvs i) = (run s (map (fun kv => Record (fst kv) (snd kv) i) kvs), Ok)) /\
  (0 <= i -> forall pre k v post, kvs = pre ++ (k, v) :: post ->
   (forall k', In k' (map fst pre) -> recordable s k') -> ~ In k (map fst pre) -> lookup k (items s) = None ->
   step s (RecordIteration kvs i) = (run s (map (fun kv => Record (fst kv) (snd kv) i) pre), Err "ValueError")).
Proof.
  intros s kvs i. split; [|split].
  - intros Hi. cbn. apply Z.ltb_lt in Hi. rewrite Hi. auto.
  - intros Hi Hr. cbn [step]. destruct (i <? 0) eqn:E; [apply Z.ltb_lt in E; lia|].
    apply record_all_ok; auto.
  - intros Hi pre k v post -> Hr Hnin Hnone. cbn [step]. destruct (i <? 0) eqn:E; [apply Z.ltb_lt in E; lia|].
    clear E. revert s Hr Hnone. induction pre as [|[k0 v0] rest IH]; intros s Hr Hnone.
    + cbn. rewrite Hnone. auto.
    + cbn [app do_record_all map run fold_left].
      destruct (Hr k0) as [st [Hl Hns]]; [cbn; auto|]. rewrite Hl.
      assert (Hok : snd (step s (Record k0 v0 i)) = Ok).
      { apply record_errors; auto. exists st. auto. }
      cbn [step fst snd] in *. destruct (do_record s k0 v0 i) as [s1 r1] eqn:E. cbn in Hok. subst r1. cbn [fst].
      apply IH.
      * intros C. apply Hnin. cbn. auto.
      * intros k' Hk'. eapply recordable_record; eauto. apply Hr. cbn. auto.
      * destruct (record_lookup _ _ _ _ _ E) as (a' & cs' & _ & Hother).
        rewrite Hother; auto. intros ->. apply Hnin. cbn. auto.
Qed.

(* ------------------------------------------------------------------ OptimizeResult *)

Lemma mem_str_In : forall k l, mem_str k l = true <-> In k l.
Proof.
  intros k l. unfold mem_str. rewrite existsb_exists. split.
  - intros [x [Hx He]]. apply String.eqb_eq in He. subst; auto.
  - intros H. exists k. split; auto. apply String.eqb_refl.
Qed.

Theorem result_keys_fixed : List.length result_keys = 21%nat /\ NoDup result_keys.
Proof.
  split; [reflexivity|].
  unfold result_keys.
  repeat (constructor; [cbn; intuition discriminate|]). constructor.
Qed.

Local Opaque result_keys set_attributes_keys.

Theorem result_set_known : forall s k v,
  In k result_keys ->
  exists v' s', rstep s (RSet k v) = (s', ROk) /\
    lookup k (ritems s') = Some v' /\ payload v' = payload v /\
    (vid v = Imm -> v' = v) /\
    (vid v <> Imm -> exists m, vid v' = Own m /\ (rnext s <= m < rnext s')%nat) /\
    (forall k', k' <> k -> lookup k' (ritems s') = lookup k' (ritems s)) /\
    (rnext s <= rnext s')%nat.
Proof.
  intros s k v Hin. cbn [rstep]. apply mem_str_In in Hin. rewrite Hin.
  destruct (copy1 (rnext s) v) as [v' n'] eqn:Ec.
  destruct (copy1_spec _ _ _ _ Ec) as (Hp & Hn & Hi & Ho).
  exists v'. eexists. split; [reflexivity|]. cbn [ritems rnext].
  split; [apply lookup_put_same|]. split; auto. split; [intros Hv; apply Hi; auto|].
  split; auto. split; auto. intros k' Hk'. apply lookup_put_other; auto.
Qed.

Theorem result_set_unknown : forall s k v,
  ~ In k result_keys -> rstep s (RSet k v) = (s, RErr "ValueError").
Proof.
  intros s k v Hin. cbn [rstep]. destruct (mem_str k result_keys) eqn:E; auto.
  apply mem_str_In in E. contradiction.
Qed.

Theorem result_get : forall s k,
  (forall v, lookup k (ritems s) = Some v ->
     rstep s (RGet k) = (s, RRef v) /\ rstep s (RGetAttr k) = (s, RRef v)) /\
  (lookup k (ritems s) = None ->
     rstep s (RGet k) = (s, RErr "KeyError") /\ rstep s (RGetAttr k) = (s, RErr "AttributeError") /\
     rstep s (RDel k) = (s, RErr "KeyError")).
Proof.
  intros s k. split.
  - intros v H. cbn. rewrite H. auto.
  - intros H. cbn. rewrite H. auto.
Qed.

Lemma lookup_put_In_keys : forall {A} (l : list (string * A)) k a k' a',
  lookup k' (put k a l) = Some a' -> k' = k \/ lookup k' l = Some a'.
Proof.
  intros A l k a k' a' H. destruct (string_dec k' k) as [->|Hne]; auto.
  right. rewrite lookup_put_other in H; auto.
Qed.

Lemma rstep_keys : forall s o,
  (forall k v, lookup k (ritems s) = Some v -> In k result_keys) ->
  (forall k v, lookup k (ritems (fst (rstep s o))) = Some v -> In k result_keys).
Proof.
  intros s o Hs. destruct o as [k0 v0|k0|k0|k0|id p]; cbn [rstep].
  - destruct (mem_str k0 result_keys) eqn:E; cbn; auto.
    destruct (copy1 (rnext s) v0) as [v' n']. cbn. intros k v H.
    apply lookup_put_In_keys in H. destruct H as [->|H]; [apply mem_str_In; auto|eauto].
  - destruct (lookup k0 (ritems s)); cbn; auto.
  - destruct (lookup k0 (ritems s)); cbn; auto.
  - destruct (lookup k0 (ritems s)) as [w|]; cbn; auto. intros k v H.
    destruct (string_dec k k0) as [->|Hne]; [rewrite lookup_remove_same in H; discriminate|].
    rewrite lookup_remove_other in H by auto. eauto.
  - destruct id; cbn; auto; intros k v H; rewrite lookup_map_snd in H;
      destruct (lookup k (ritems s)) as [w|] eqn:E; cbn in H; try discriminate; eauto.
Qed.

(* --- only names of _keys are ever present, after any op sequence *)
Theorem result_only_known_keys : forall ops k v,
  lookup k (ritems (rrun init_result ops)) = Some v -> In k result_keys.
Proof.
  intros ops. unfold rrun.
  assert (G : forall s, (forall k v, lookup k (ritems s) = Some v -> In k result_keys) ->
              forall k v, lookup k (ritems (fold_left (fun s o => fst (rstep s o)) ops s)) = Some v -> In k result_keys).
  { induction ops as [|o r IH]; intros s Hs; cbn; auto. apply IH. apply rstep_keys; auto. }
  apply G. cbn. intros; discriminate.
Qed.

Lemma rwf_step : forall s o, rwf s -> rwf (fst (rstep s o)).
Proof.
  intros s o Hw. destruct o as [k0 v0|k0|k0|k0|id p]; cbn [rstep].
  - destruct (mem_str k0 result_keys); cbn; auto.
    destruct (copy1 (rnext s) v0) as [v' n'] eqn:Ec.
    destruct (copy1_spec _ _ _ _ Ec) as (Hp & Hn & Hi & Ho). cbn.
    assert (Hv' : id_below 0 n' (vid v')).
    { destruct (vid v0) eqn:Ev.
      - rewrite (proj1 (Hi eq_refl)). left; auto.
      - destruct Ho as [m [Hm Hr]]; [discriminate|]. right. exists m. split; auto. lia.
      - destruct Ho as [m [Hm Hr]]; [discriminate|]. right. exists m. split; auto. lia. }
    assert (Hold : Forall (fun kv : string * value => id_below 0 n' (vid (snd kv))) (ritems s)).
    { eapply Forall_impl; [|exact Hw]. intros kv H. eapply id_below_mono; [| |exact H]; lia. }
    unfold rwf. cbn. unfold put. destruct (lookup k0 (ritems s)).
    + apply Forall_upd; auto.
    + apply Forall_app. split; auto.
  - destruct (lookup k0 (ritems s)); cbn; auto.
  - destruct (lookup k0 (ritems s)); cbn; auto.
  - destruct (lookup k0 (ritems s)); cbn; auto. unfold rwf. cbn. apply Forall_remove. auto.
  - destruct id; cbn; auto; unfold rwf in *; cbn; rewrite Forall_map;
      (eapply Forall_impl; [|exact Hw]); intros [k v] H; cbn in *; unfold rmutate_val;
      destruct (ident_eqb (vid v) _); cbn; auto.
Qed.

Theorem rwf_reachable : forall ops, rwf (rrun init_result ops).
Proof.
  intros ops. unfold rrun.
  assert (G : forall s, rwf s -> rwf (fold_left (fun s o => fst (rstep s o)) ops s)).
  { induction ops as [|o r IH]; intros s Hs; cbn; auto. apply IH. apply rwf_step; auto. }
  apply G. constructor.
Qed.

(* --- the result never holds an object of the optimiser: later use of it cannot change the result *)
Theorem result_env_mutation_invisible : forall s n p, rwf s -> fst (rstep s (RMutate (Ext n) p)) = s.
Proof.
  intros [its nx] n p Hw. cbn. f_equal. unfold rwf in Hw. cbn in Hw.
  apply map_id_Forall. eapply Forall_impl; [|exact Hw]. intros [k v] H. cbn in *. f_equal.
  unfold rmutate_val. destruct H as [H|[m [H _]]]; rewrite H; cbn; auto.
Qed.

Theorem result_no_alias : forall s k v s' p,
  rwf s -> (match vid v with Own m => (m < rnext s)%nat | _ => True end) ->
  rstep s (RSet k v) = (s', ROk) ->
  lookup k (ritems (fst (rstep s' (RMutate (vid v) p)))) = lookup k (ritems s').
Proof.
  intros s k v s' p Hw Hk H. cbn [rstep] in H.
  destruct (mem_str k result_keys) eqn:Em; [|discriminate].
  destruct (copy1 (rnext s) v) as [v' n'] eqn:Ec. inversion H; subst s'. clear H.
  destruct (copy1_spec _ _ _ _ Ec) as (Hp & Hn & Hi & Ho).
  cbn [rstep]. destruct (vid v) eqn:Ev; cbn [fst ritems]; auto.
  - rewrite lookup_map_snd, lookup_put_same. cbn. f_equal. unfold rmutate_val.
    destruct Ho as [m [Hm _]]; [discriminate|]. rewrite Hm. cbn. auto.
  - rewrite lookup_map_snd, lookup_put_same. cbn. f_equal. unfold rmutate_val.
    destruct Ho as [m [Hm Hr]]; [discriminate|]. rewrite Hm. cbn.
    destruct (Nat.eqb m n) eqn:E; [apply Nat.eqb_eq in E; lia|auto].
Qed.

(* --- what OptimizeResult(bads) contains *)
Lemma rrun_cons : forall s o ops, rrun s (o :: ops) = rrun (fst (rstep s o)) ops.
Proof. reflexivity. Qed.

Lemma set_many : forall ks (vals : string -> value) s,
  (forall k, In k ks -> In k result_keys) ->
  (forall k, In k ks -> exists v', lookup k (ritems (rrun s (map (fun k => RSet k (vals k)) ks))) = Some v' /\
                                   payload v' = payload (vals k)) /\
  (forall k, ~ In k ks -> lookup k (ritems (rrun s (map (fun k => RSet k (vals k)) ks))) = lookup k (ritems s)).
Proof.
  induction ks as [|k0 r IH]; intros vals s Hks.
  - split; [intros k []|auto].
  - cbn [map]. rewrite rrun_cons.
    destruct (result_set_known s k0 (vals k0)) as (v' & s1 & Hs1 & Hl1 & Hp1 & _ & _ & Hother & _);
      [apply Hks; cbn; auto|].
    assert (Hr : forall k, In k r -> In k result_keys) by (intros; apply Hks; cbn; auto).
    rewrite Hs1. cbn [fst].
    destruct (IH vals s1 Hr) as [IH1 IH2]. split.
    + intros k [->|Hin].
      * destruct (in_dec string_dec k r) as [Hi|Hn]; [apply IH1; auto|].
        rewrite IH2 by auto. eauto.
      * apply IH1; auto.
    + intros k Hn. rewrite IH2 by (intros C; apply Hn; cbn; auto).
      apply Hother. intros ->. apply Hn. cbn. auto.
Qed.

Lemma set_attributes_keys_known : forall k, In k set_attributes_keys -> In k result_keys.
Proof.
  intros k H. apply mem_str_In.
  assert (G : forallb (fun k => mem_str k result_keys) set_attributes_keys = true) by (vm_compute; reflexivity).
  rewrite forallb_forall in G. apply G. auto.
Qed.

Theorem set_attributes_fields : forall vals k,
  In k set_attributes_keys ->
  exists v', lookup k (ritems (set_attributes init_result vals)) = Some v' /\ payload v' = payload (vals k) /\
             rstep (set_attributes init_result vals) (RGet k) = (set_attributes init_result vals, RRef v') /\
             rstep (set_attributes init_result vals) (RGetAttr k) = (set_attributes init_result vals, RRef v').
Proof.
  intros vals k Hin. unfold set_attributes.
  destruct (set_many set_attributes_keys vals init_result set_attributes_keys_known) as [H1 _].
  destruct (H1 k Hin) as [v' [Hl Hp]]. exists v'. split; auto. split; auto.
  apply result_get. auto.
Qed.

(* --- set_attributes assigns every declared field *)
Theorem set_attributes_complete : forall k, In k result_keys -> In k set_attributes_keys.
Proof.
  intros k Hin.
  assert (G : forallb (fun k => mem_str k set_attributes_keys) result_keys = true) by (vm_compute; reflexivity).
  rewrite forallb_forall in G. apply mem_str_In. apply G. auto.
Qed.

(* --- historical refutation (regression witness): with the assignments set_attributes made before
   commit 39edf28 (no status) the declared field status was unreadable on every result *)
Definition set_attributes_keys_before_39edf28 : list string :=
  filter (fun k => negb (String.eqb k "status")) set_attributes_keys.

Theorem status_unset_refuted_before_fix :
  exists k, In k result_keys /\ forall vals,
    let r := rrun init_result (map (fun k => RSet k (vals k)) set_attributes_keys_before_39edf28) in
    snd (rstep r (RGet k)) = RErr "KeyError" /\ snd (rstep r (RGetAttr k)) = RErr "AttributeError".
Proof.
  exists "status"%string. split; [apply mem_str_In; vm_compute; reflexivity|].
  intros vals.
  assert (Hk : forall k, In k set_attributes_keys_before_39edf28 -> In k result_keys).
  { intros k H. apply set_attributes_keys_known. unfold set_attributes_keys_before_39edf28 in H.
    apply filter_In in H. tauto. }
  destruct (set_many set_attributes_keys_before_39edf28 vals init_result Hk) as [_ H2].
  assert (Hn : ~ In "status"%string set_attributes_keys_before_39edf28).
  { intros C. unfold set_attributes_keys_before_39edf28 in C. apply filter_In in C.
    destruct C as [_ C]. rewrite String.eqb_refl in C. discriminate. }
  specialize (H2 _ Hn). cbn [init_result ritems lookup] in H2.
  cbn zeta. cbn [rstep]. rewrite H2. auto.
Qed.

(* ------------------------------------------------------------------ examples *)

Definition ex_v (z : Z) (id : ident) : value := mkV (VZ z) id.
Definition ex_ops : list op :=
  [Record "u" (ex_v 10 (Ext 0)) 0; Record "yval" (ex_v 5 Imm) 0; Get "u";
   Record "u" (ex_v 11 (Ext 0)) 3; Mutate (Ext 0) (VZ 99); Record "zz" (ex_v 1 Imm) 0;
   Record "u" (ex_v 12 (Ext 1)) (-1); RecordIteration [("yval", ex_v 6 Imm); ("u", ex_v 13 (Ext 2))] 1]%string.

Example history_example :
  let s := run (init_history ["u"; "yval"]%string) ex_ops in
  option_map payloads (cells_of s "u") = Some [Some (VZ 10); Some (VZ 13); None; Some (VZ 11)] /\
  option_map payloads (cells_of s "yval") = Some [Some (VZ 5); Some (VZ 6)] /\
  snd (step (run (init_history ["u"; "yval"]%string) (firstn 5 ex_ops)) (Record "zz" (ex_v 1 Imm) 0)) = Err "ValueError" /\
  Forall (fun o => ~ touches "u" 3 o) (skipn 4 ex_ops).
Proof.
  cbn -[touches]. repeat split; auto.
  repeat constructor; cbn; try tauto; try (intros [? ?]; discriminate); try (intros [? ?]; congruence).
Qed.

Theorem result_keys_law :
  (List.length result_keys = 21%nat /\ NoDup result_keys) /\
  (forall s k v, In k result_keys ->
     exists v' s', rstep s (RSet k v) = (s', ROk) /\ lookup k (ritems s') = Some v' /\
                   payload v' = payload v /\
                   (forall k', k' <> k -> lookup k' (ritems s') = lookup k' (ritems s))) /\
  (forall s k v, ~ In k result_keys -> rstep s (RSet k v) = (s, RErr "ValueError")) /\
  (forall s k v, lookup k (ritems s) = Some v ->
     rstep s (RGet k) = (s, RRef v) /\ rstep s (RGetAttr k) = (s, RRef v)) /\
  (forall s k, lookup k (ritems s) = None ->
     rstep s (RGet k) = (s, RErr "KeyError") /\ rstep s (RGetAttr k) = (s, RErr "AttributeError")) /\
  (forall ops k v, lookup k (ritems (rrun init_result ops)) = Some v -> In k result_keys).
Proof.
  split; [apply result_keys_fixed|]. split.
  { intros s k v Hin. destruct (result_set_known s k v Hin) as (v' & s' & H1 & H2 & H3 & _ & _ & H4 & _).
    exists v', s'. auto. }
  split; [apply result_set_unknown|]. split.
  { intros s k v H. apply result_get; auto. }
  split.
  { intros s k H. destruct (result_get s k) as [_ G]. destruct (G H) as (A & B & _). auto. }
  apply result_only_known_keys.
Qed.
