(* BoundsCheckProofs.v — all proofs about Model/BoundsCheck.v against Model/BoundsSpec.v (C08). *)
From Coq Require Import ZArith QArith Qabs List Bool Lia Lqa.
From PV Require Import Model.XQ Model.BoundsCheck Model.BoundsSpec.
Import ListNotations.
Open Scope Q_scope.

(* ------------------------------------------------------------------------------------------ *)
(* 1. extended rationals                                                                       *)
(* ------------------------------------------------------------------------------------------ *)

Lemma Qle_bool_false : forall a b, Qle_bool a b = false -> b < a.
Proof.
  intros a b H. apply Qnot_le_lt. intro C. apply Qle_bool_iff in C. congruence.
Qed.

Lemma Qle_bool_false_intro : forall a b, b < a -> Qle_bool a b = false.
Proof.
  intros a b H. destruct (Qle_bool a b) eqn:E; [|reflexivity].
  apply Qle_bool_iff in E. exfalso. apply (Qlt_not_le _ _ H E).
Qed.

Lemma xle_fin : forall a b, xle (XFin a) (XFin b) = true <-> a <= b.
Proof. intros. cbn [xle]. apply Qle_bool_iff. Qed.

Lemma xlt_fin : forall a b, xlt (XFin a) (XFin b) = true <-> a < b.
Proof.
  intros. cbn [xlt]. split; intro H.
  - apply negb_true_iff in H. apply Qle_bool_false in H. exact H.
  - apply negb_true_iff. apply Qle_bool_false_intro. exact H.
Qed.

Lemma xlt_fin_false : forall a b, xlt (XFin a) (XFin b) = false <-> b <= a.
Proof.
  intros. cbn [xlt]. rewrite negb_false_iff. apply Qle_bool_iff.
Qed.

Lemma xle_fin_false : forall a b, xle (XFin a) (XFin b) = false -> b < a.
Proof. intros a b H. cbn [xle] in H. apply Qle_bool_false. exact H. Qed.

(* turn every boolean comparison between finite numbers in the context / goal into a Prop *)
Ltac qprop :=
  repeat match goal with
  | H : xle (XFin _) (XFin _) = true |- _ => apply xle_fin in H
  | H : xlt (XFin _) (XFin _) = true |- _ => apply xlt_fin in H
  | H : xlt (XFin _) (XFin _) = false |- _ => apply xlt_fin_false in H
  | H : xle (XFin _) (XFin _) = false |- _ => apply xle_fin_false in H
  | |- xle (XFin _) (XFin _) = true => apply xle_fin
  | |- xlt (XFin _) (XFin _) = true => apply xlt_fin
  | |- xlt (XFin _) (XFin _) = false => apply xlt_fin_false
  end.

Definition nn (a : xq) : Prop := xisnan a = false.

Lemma xle_nn : forall a b, xle a b = true -> nn a /\ nn b.
Proof. intros [a| | |] [b| | |] H; cbn in *; try discriminate; split; reflexivity. Qed.

Lemma xlt_nn : forall a b, xlt a b = true -> nn a /\ nn b.
Proof. intros [a| | |] [b| | |] H; cbn in *; try discriminate; split; reflexivity. Qed.

Lemma xlt_xle : forall a b, xlt a b = true -> xle a b = true.
Proof.
  intros [a| | |] [b| | |] H; cbn [xlt xle] in *; try discriminate; try reflexivity.
  apply negb_true_iff in H. apply Qle_bool_false in H. apply Qle_bool_iff. lra.
Qed.

Lemma xle_trans : forall a b c, xle a b = true -> xle b c = true -> xle a c = true.
Proof.
  intros [a| | |] [b| | |] [c| | |] H1 H2; cbn [xle] in *; try discriminate; try reflexivity.
  apply Qle_bool_iff in H1. apply Qle_bool_iff in H2. apply Qle_bool_iff. lra.
Qed.

Lemma xlt_le_trans : forall a b c, xlt a b = true -> xle b c = true -> xlt a c = true.
Proof.
  intros [a| | |] [b| | |] [c| | |] H1 H2; try discriminate; try reflexivity; qprop; lra.
Qed.

Lemma xle_lt_trans : forall a b c, xle a b = true -> xlt b c = true -> xlt a c = true.
Proof.
  intros [a| | |] [b| | |] [c| | |] H1 H2; try discriminate; try reflexivity; qprop; lra.
Qed.

Lemma xle_refl : forall a, nn a -> xle a a = true.
Proof. intros [a| | |] H; try discriminate; try reflexivity. qprop. lra. Qed.

Lemma xlt_false_xle : forall a b, nn a -> nn b -> xlt a b = false -> xle b a = true.
Proof.
  intros [a| | |] [b| | |] Ha Hb H; try discriminate; try reflexivity; qprop; lra.
Qed.

Lemma xle_false_xlt : forall a b, nn a -> nn b -> xle a b = false -> xlt b a = true.
Proof.
  intros [a| | |] [b| | |] Ha Hb H; try discriminate; try reflexivity; qprop; lra.
Qed.

Lemma xlt_xle_contra : forall a b, xlt a b = true -> xle b a = true -> False.
Proof.
  intros [a| | |] [b| | |] H1 H2; try discriminate; qprop; lra.
Qed.

Lemma xmin_spec : forall a b, nn a -> nn b ->
  (xmin a b = a /\ xle a b = true) \/ (xmin a b = b /\ xlt b a = true).
Proof.
  intros a b Ha Hb. unfold xmin. unfold nn in *. rewrite Ha, Hb. cbn [orb].
  destruct (xlt b a) eqn:E; [right; auto|left; split; [reflexivity|]].
  apply xlt_false_xle; assumption.
Qed.

Lemma xmax_spec : forall a b, nn a -> nn b ->
  (xmax a b = a /\ xle b a = true) \/ (xmax a b = b /\ xlt a b = true).
Proof.
  intros a b Ha Hb. unfold xmax. unfold nn in *. rewrite Ha, Hb. cbn [orb].
  destruct (xlt a b) eqn:E; [right; auto|left; split; [reflexivity|]].
  apply xlt_false_xle; assumption.
Qed.

Lemma xmin_nn : forall a b, nn a -> nn b -> nn (xmin a b).
Proof. intros a b Ha Hb. destruct (xmin_spec a b Ha Hb) as [[-> _]|[-> _]]; assumption. Qed.
Lemma xmax_nn : forall a b, nn a -> nn b -> nn (xmax a b).
Proof. intros a b Ha Hb. destruct (xmax_spec a b Ha Hb) as [[-> _]|[-> _]]; assumption. Qed.

Lemma xmin_nan_l : forall b, xmin XNaN b = XNaN. Proof. reflexivity. Qed.
Lemma xmax_nan_l : forall b, xmax XNaN b = XNaN. Proof. reflexivity. Qed.

Lemma xisfinite_nn : forall a, xisfinite a = true -> nn a.
Proof. intros [a| | |] H; try discriminate; reflexivity. Qed.

(* ------------------------------------------------------------------------------------------ *)
(* 2. effective bounds                                                                         *)
(* ------------------------------------------------------------------------------------------ *)

Lemma sf_pos : 0 < scale_factor. Proof. reflexivity. Qed.

(* the range of an ordered pair of hard bounds is a positive finite number *)
Lemma brange_pos : forall l u, xlt l u = true -> exists r, brange l u = XFin r /\ 0 < r.
Proof.
  intros [a| | |] [b| | |] H; try discriminate; unfold brange; cbn [xsub xneg xadd xisinf].
  - exists (Qred (b + Qred (- a))). split; [reflexivity|]. qprop. rewrite !Qred_correct. lra.
  - exists (1000 # 1). split; reflexivity.
  - exists (1000 # 1). split; reflexivity.
  - exists (1000 # 1). split; reflexivity.
Qed.

Lemma lb_eff_shape : forall l u, xlt l u = true ->
  (l = XNInf /\ lb_eff l u = XNInf) \/ (exists a e, l = XFin a /\ lb_eff l u = XFin e).
Proof.
  intros l u H. destruct (brange_pos l u H) as [r [Hr _]].
  destruct l as [a| | |]; try (destruct u; discriminate).
  - right. unfold lb_eff. cbn [xisinf xabs_le]. rewrite Hr. cbn [xscale xadd].
    destruct (Qle_bool (Qabs a) realmin); eexists; eexists; split; reflexivity.
  - left. split; reflexivity.
Qed.

Lemma ub_eff_shape : forall l u, xlt l u = true ->
  (u = XPInf /\ ub_eff l u = XPInf) \/ (exists b f, u = XFin b /\ ub_eff l u = XFin f).
Proof.
  intros l u H. destruct (brange_pos l u H) as [r [Hr _]].
  destruct u as [b| | |]; try (destruct l; discriminate).
  - right. unfold ub_eff. cbn [xisinf xabs_le]. rewrite Hr. cbn [xscale xneg xsub xadd].
    destruct (Qle_bool (Qabs b) realmin); eexists; eexists; split; reflexivity.
  - left. split; reflexivity.
Qed.

(* without the realmin special case biting, the effective bounds are strictly inside finite hard bounds *)
Lemma lb_eff_above : forall l u, xlt l u = true -> denormal_like l = false ->
  (l = XNInf /\ lb_eff l u = XNInf) \/ (exists a e, l = XFin a /\ lb_eff l u = XFin e /\ a < e).
Proof.
  intros l u H Hd. destruct (brange_pos l u H) as [r [Hr Hpos]].
  destruct l as [a| | |]; try (destruct u; discriminate).
  - right. unfold lb_eff. cbn [xisinf xabs_le]. rewrite Hr. cbn [xscale xadd].
    unfold denormal_like in Hd. cbn [xabs_le xeq] in Hd.
    pose proof (Qmult_lt_0_compat _ _ sf_pos Hpos) as Hm.
    destruct (Qle_bool (Qabs a) realmin) eqn:Et.
    + cbn [andb] in Hd. apply negb_false_iff in Hd. apply Qeq_bool_iff in Hd.
      eexists; eexists; split; [reflexivity|split; [reflexivity|]].
      rewrite Qred_correct. lra.
    + eexists; eexists; split; [reflexivity|split; [reflexivity|]].
      rewrite !Qred_correct. lra.
  - left. split; reflexivity.
Qed.

Lemma ub_eff_below : forall l u, xlt l u = true -> denormal_like u = false ->
  (u = XPInf /\ ub_eff l u = XPInf) \/ (exists b f, u = XFin b /\ ub_eff l u = XFin f /\ f < b).
Proof.
  intros l u H Hd. destruct (brange_pos l u H) as [r [Hr Hpos]].
  destruct u as [b| | |]; try (destruct l; discriminate).
  - right. unfold ub_eff. cbn [xisinf xabs_le]. rewrite Hr. cbn [xscale xneg xsub xadd].
    unfold denormal_like in Hd. cbn [xabs_le xeq] in Hd.
    pose proof (Qmult_lt_0_compat _ _ sf_pos Hpos) as Hm.
    destruct (Qle_bool (Qabs b) realmin) eqn:Et.
    + cbn [andb] in Hd. apply negb_false_iff in Hd. apply Qeq_bool_iff in Hd.
      eexists; eexists; split; [reflexivity|split; [reflexivity|]].
      rewrite !Qred_correct. lra.
    + eexists; eexists; split; [reflexivity|split; [reflexivity|]].
      rewrite !Qred_correct. lra.
  - left. split; reflexivity.
Qed.

(* ------------------------------------------------------------------------------------------ *)
(* 3. assembling the coordinates                                                               *)
(* ------------------------------------------------------------------------------------------ *)

Definition c0 : coord := mkC XNaN XNaN XNaN XNaN XNaN.

Lemma nth_repeat_lt : forall (a d : xq) n i, (i < n)%nat -> nth i (repeat a n) d = a.
Proof.
  intros a d n. induction n as [|n IH]; intros i Hi; [lia|].
  destruct i; cbn; [reflexivity|]. apply IH. lia.
Qed.

Lemma zip5_length : forall a b c d e n,
  List.length a = n -> List.length b = n -> List.length c = n -> List.length d = n -> List.length e = n ->
  List.length (zip5 a b c d e) = n.
Proof.
  induction a as [|x a IH]; intros b c d e n Ha Hb Hc Hd He.
  - cbn in *. subst. reflexivity.
  - destruct b, c, d, e; cbn in *; subst; try discriminate.
    f_equal. apply IH; congruence.
Qed.

Lemma zip5_nth : forall a b c d e n i,
  List.length a = n -> List.length b = n -> List.length c = n -> List.length d = n -> List.length e = n ->
  (i < n)%nat ->
  nth i (zip5 a b c d e) c0 = mkC (nth i a XNaN) (nth i b XNaN) (nth i c XNaN) (nth i d XNaN) (nth i e XNaN).
Proof.
  induction a as [|x a IH]; intros b c d e n i Ha Hb Hc Hd He Hi.
  - cbn in *. subst. lia.
  - destruct b, c, d, e; cbn in *; subst; try discriminate.
    destruct i; [reflexivity|]. eapply IH; try reflexivity; try congruence. lia.
Qed.

Lemma zip5_as_map : forall a b c d e n,
  List.length a = n -> List.length b = n -> List.length c = n -> List.length d = n -> List.length e = n ->
  zip5 a b c d e =
  map (fun i => mkC (nth i a XNaN) (nth i b XNaN) (nth i c XNaN) (nth i d XNaN) (nth i e XNaN)) (seq 0 n).
Proof.
  intros a b c d e n Ha Hb Hc Hd He.
  set (f := fun i : nat => mkC (nth i a XNaN) (nth i b XNaN) (nth i c XNaN) (nth i d XNaN) (nth i e XNaN)).
  apply (nth_ext _ _ c0 (f 0%nat)).
  - rewrite map_length, seq_length. apply zip5_length; assumption.
  - intros i Hi. rewrite (zip5_length a b c d e n) in Hi by assumption.
    rewrite (map_nth f). rewrite seq_nth by assumption. cbn [plus]. unfold f.
    apply (zip5_nth a b c d e n); assumption.
Qed.

Ltac lens H :=
  apply negb_false_iff in H;
  repeat (let H1 := fresh "HL" in apply andb_true_iff in H; destruct H as [H H1]; apply Nat.eqb_eq in H1);
  apply Nat.eqb_eq in H.

Lemma assemble_coords : forall d cs, assemble d = ACoords cs ->
  exists D, dim_of d = Some D /\ D <> 0%nat /\
            (forall v, In v (given d) -> List.length v = D) /\
            cs = map (coord_at d) (seq 0 D).
Proof.
  intros [ox ol ou op oq] cs H. unfold assemble in H.
  destruct ox as [x|], ol as [l|], ou as [u|], op as [p|], oq as [q|];
    cbn [d_x0 d_lb d_ub d_plb d_pub odefault] in H; try discriminate;
    match type of H with (if Nat.eqb ?D 0 then _ else _) = _ =>
      destruct (Nat.eqb D 0) eqn:E0; [discriminate|]; apply Nat.eqb_neq in E0 end;
    match type of H with (if ?b then _ else _) = _ => destruct b eqn:EL; [discriminate|] end;
    lens EL; inversion H; subst cs; clear H;
    rewrite ?repeat_length in *;
    eexists; (split; [unfold dim_of; cbn [d_x0 d_lb d_ub d_plb d_pub odefault]; reflexivity|]);
    (split; [exact E0|]);
    (split; [ intros v Hv; unfold given in Hv; cbn in Hv; intuition (subst; congruence) |]);
    (erewrite zip5_as_map; rewrite ?repeat_length; try eassumption; try reflexivity);
    apply map_ext_in; intros i Hi; apply in_seq in Hi;
    unfold coord_at, x0_at, lb_at, ub_at, plb_at, pub_at, at_; cbn [d_x0 d_lb d_ub d_plb d_pub];
    rewrite ?nth_repeat_lt by lia; reflexivity.
Qed.

Lemma assemble_reject : forall d r, assemble d = AReject r ->
  match r with
  | RUnknownDims => dim_of d = None
  | RDimMismatch => exists D, dim_of d = Some D /\ exists v, In v (given d) /\ List.length v <> D
  | _ => False
  end.
Proof.
  intros [ox ol ou op oq] r H. unfold assemble in H.
  destruct ox as [x|], ol as [l|], ou as [u|], op as [p|], oq as [q|];
    cbn [d_x0 d_lb d_ub d_plb d_pub odefault] in H;
    try (inversion H; subst r; cbn; reflexivity);
    match type of H with (if Nat.eqb ?D 0 then _ else _) = _ =>
      destruct (Nat.eqb D 0) eqn:E0; [discriminate|] end;
    match type of H with (if ?b then _ else _) = _ => destruct b eqn:EL; [|discriminate] end;
    inversion H; subst r; clear H;
    rewrite ?repeat_length in *;
    (eexists; split; [unfold dim_of; cbn [d_x0 d_lb d_ub d_plb d_pub odefault]; reflexivity|]);
    apply negb_true_iff in EL;
    repeat (apply andb_false_iff in EL; destruct EL as [EL|EL]);
    try (rewrite Nat.eqb_refl in EL; discriminate);
    apply Nat.eqb_neq in EL;
    refine (ex_intro _ _ (conj _ EL)); unfold given; cbn; tauto.
Qed.

Lemma assemble_crash : forall d c, assemble d = ACrash c -> c = CZeroDim /\ dim_of d = Some 0%nat.
Proof.
  intros [ox ol ou op oq] c H. unfold assemble in H.
  destruct ox as [x|], ol as [l|], ou as [u|], op as [p|], oq as [q|];
    cbn [d_x0 d_lb d_ub d_plb d_pub odefault] in H; try discriminate;
    match type of H with (if Nat.eqb ?D 0 then _ else _) = _ =>
      destruct (Nat.eqb D 0) eqn:E0 end;
    try (match type of H with (if ?b then _ else _) = _ => destruct b; discriminate end);
    inversion H; subst c; clear H; apply Nat.eqb_eq in E0;
    rewrite ?repeat_length in *;
    (split; [reflexivity|]); unfold dim_of; cbn [d_x0 d_lb d_ub d_plb d_pub odefault]; congruence.
Qed.

(* ------------------------------------------------------------------------------------------ *)
(* 4. one coordinate                                                                           *)
(* ------------------------------------------------------------------------------------------ *)

(* what the tests before the repairs establish for a coordinate *)
Definition sane (c : coord) : Prop :=
  xisfinite (cpl c) = true /\ xisfinite (cpu c) = true /\
  xle (cl c) (cpl c) = true /\ xlt (cpl c) (cpu c) = true /\ xle (cpu c) (cu c) = true.

Lemma sane_of_tests : forall c, t_nonfinite_pb c = false -> t_order_bad c = false -> sane c.
Proof.
  intros c H1 H2. unfold t_nonfinite_pb in H1. unfold t_order_bad in H2.
  apply orb_false_iff in H1. destruct H1 as [Ha Hb].
  apply negb_false_iff in Ha. apply negb_false_iff in Hb. apply negb_false_iff in H2.
  apply andb_true_iff in H2. destruct H2 as [H2 H3]. apply andb_true_iff in H2. destruct H2 as [H1 H2].
  repeat split; assumption.
Qed.

Lemma sane_hard_lt : forall c, sane c -> xlt (cl c) (cu c) = true.
Proof.
  intros c (_ & _ & H1 & H2 & H3).
  eapply xle_lt_trans; [exact H1|]. eapply xlt_le_trans; [exact H2|exact H3].
Qed.

Lemma sane_LBe_nn : forall c, sane c -> nn (LBe c).
Proof.
  intros c Hs. unfold LBe. destruct (lb_eff_shape _ _ (sane_hard_lt c Hs)) as [[_ ->]|(a & e & _ & ->)]; reflexivity.
Qed.
Lemma sane_UBe_nn : forall c, sane c -> nn (UBe c).
Proof.
  intros c Hs. unfold UBe. destruct (ub_eff_shape _ _ (sane_hard_lt c Hs)) as [[_ ->]|(a & e & _ & ->)]; reflexivity.
Qed.

Lemma eff_lt : forall c, sane c -> t_too_close c = false -> xlt (LBe c) (UBe c) = true.
Proof.
  intros c Hs Ht. unfold t_too_close in Ht.
  apply xle_false_xlt; [apply sane_UBe_nn|apply sane_LBe_nn|]; assumption.
Qed.

Lemma clamp_id : forall c, sane c -> t_x0_near c = false -> clamp c = cx c.
Proof.
  intros c Hs Ht. unfold t_x0_near in Ht. apply orb_false_iff in Ht. destruct Ht as [H1 H2].
  pose proof (sane_LBe_nn c Hs) as HL. pose proof (sane_UBe_nn c Hs) as HU. unfold nn in *.
  unfold clamp, xmin, xmax. destruct (xisnan (cx c)) eqn:En.
  - cbn [orb]. destruct (cx c); try discriminate. reflexivity.
  - rewrite HU. cbn [orb]. rewrite H2. rewrite En, HL. cbn [orb]. rewrite H1. reflexivity.
Qed.

Lemma pull_id : forall c, sane c -> t_pb_near c = false ->
  xmax (cpl c) (LBe c) = cpl c /\ xmin (cpu c) (UBe c) = cpu c.
Proof.
  intros c Hs Ht. unfold t_pb_near in Ht. apply orb_false_iff in Ht. destruct Ht as [H1 H2].
  pose proof (sane_LBe_nn c Hs) as HL. pose proof (sane_UBe_nn c Hs) as HU.
  destruct Hs as (Hp & Hq & _). apply xisfinite_nn in Hp. apply xisfinite_nn in Hq. unfold nn in *.
  unfold xmin, xmax. rewrite Hp, Hq, HL, HU. cbn [orb]. rewrite H1, H2. split; reflexivity.
Qed.

Lemma clamp_nn : forall c, sane c -> nn (cx c) -> nn (clamp c).
Proof.
  intros c Hs Hx. unfold clamp. apply xmax_nn; [apply xmin_nn; [assumption|apply sane_UBe_nn; assumption]|].
  apply sane_LBe_nn; assumption.
Qed.

Lemma clamp_nan : forall c, xisnan (cx c) = true -> clamp c = XNaN.
Proof. intros c H. unfold clamp. destruct (cx c); try discriminate. reflexivity. Qed.

Lemma clamp_finite_nn : forall c, xisfinite (clamp c) = true -> nn (cx c).
Proof.
  intros c H. unfold nn. destruct (xisnan (cx c)) eqn:E; [|reflexivity].
  rewrite (clamp_nan c E) in H. discriminate.
Qed.

Lemma clamp_within : forall c, sane c -> t_too_close c = false -> nn (cx c) ->
  xle (LBe c) (clamp c) = true /\ xle (clamp c) (UBe c) = true.
Proof.
  intros c Hs Ht Hx.
  pose proof (sane_LBe_nn c Hs) as HL. pose proof (sane_UBe_nn c Hs) as HU.
  pose proof (eff_lt c Hs Ht) as Hlt. pose proof (xlt_xle _ _ Hlt) as Hle.
  unfold clamp.
  destruct (xmin_spec (cx c) (UBe c) Hx HU) as [[Em H1]|[Em H1]]; rewrite Em;
  [destruct (xmax_spec (cx c) (LBe c) Hx HL) as [[EM H2]|[EM H2]]
  |destruct (xmax_spec (UBe c) (LBe c) HU HL) as [[EM H2]|[EM H2]]]; rewrite EM; split;
  try assumption; try (apply xle_refl; assumption).
Qed.

(* the hard bounds contain the effective ones when the realmin special case does not bite *)
Lemma LBe_ge_l : forall c, sane c -> denormal_like (cl c) = false -> xle (cl c) (LBe c) = true.
Proof.
  intros c Hs Hd. unfold LBe.
  destruct (lb_eff_above _ _ (sane_hard_lt c Hs) Hd) as [[-> ->]|(a & e & -> & -> & Hae)]; [reflexivity|].
  qprop. lra.
Qed.
Lemma UBe_le_u : forall c, sane c -> denormal_like (cu c) = false -> xle (UBe c) (cu c) = true.
Proof.
  intros c Hs Hd. unfold UBe.
  destruct (ub_eff_below _ _ (sane_hard_lt c Hs) Hd) as [[-> ->]|(a & e & -> & -> & Hae)]; [reflexivity|].
  qprop. lra.
Qed.
Lemma LBe_gt_l : forall c, sane c -> denormal_like (cl c) = false -> xisfinite (cl c) = true ->
  xlt (cl c) (LBe c) = true.
Proof.
  intros c Hs Hd Hf. unfold LBe.
  destruct (lb_eff_above _ _ (sane_hard_lt c Hs) Hd) as [[E _]|(a & e & -> & -> & Hae)].
  - rewrite E in Hf. discriminate.
  - qprop. exact Hae.
Qed.
Lemma UBe_lt_u : forall c, sane c -> denormal_like (cu c) = false -> xisfinite (cu c) = true ->
  xlt (UBe c) (cu c) = true.
Proof.
  intros c Hs Hd Hf. unfold UBe.
  destruct (ub_eff_below _ _ (sane_hard_lt c Hs) Hd) as [[E _]|(a & e & -> & -> & Hae)].
  - rewrite E in Hf. discriminate.
  - qprop. exact Hae.
Qed.

Lemma order_ok_intro : forall l p q u x,
  xle l p = true -> xlt p q = true -> xle q u = true -> t_order_bad (mkC x l u p q) = false.
Proof. intros l p q u x H1 H2 H3. unfold t_order_bad. cbn [cl cu cpl cpu]. rewrite H1, H2, H3. reflexivity. Qed.

(* the second order test cannot fail on a regular coordinate *)
Lemma repaired_order_ok : forall edge c,
  sane c -> t_too_close c = false -> regular_coord c ->
  (edge = false \/ xisfinite (cx c) = true) ->
  t_order_bad (repaired edge c) = false.
Proof.
  intros edge c Hs Ht (Hdl & Hdu & HpU & HLq) Hx.
  pose proof (sane_LBe_nn c Hs) as HL. pose proof (sane_UBe_nn c Hs) as HU.
  pose proof (eff_lt c Hs Ht) as HLU.
  pose proof (LBe_ge_l c Hs Hdl) as HlL. pose proof (UBe_le_u c Hs Hdu) as HUu.
  destruct Hs as (Hpf & Hqf & Hlp & Hpq & Hqu).
  pose proof (xisfinite_nn _ Hpf) as Hpn. pose proof (xisfinite_nn _ Hqf) as Hqn.
  assert (Sane : sane c) by (repeat split; assumption).
  unfold repaired.
  set (p1 := xmax (cpl c) (LBe c)). set (q1 := xmin (cpu c) (UBe c)).
  assert (Hp1 : xle (cl c) p1 = true /\ nn p1 /\ (p1 = cpl c \/ p1 = LBe c)).
  { unfold p1. destruct (xmax_spec _ _ Hpn HL) as [[-> H]|[-> H]]; repeat split; auto;
    try (eapply xle_trans; [exact Hlp|apply xlt_xle; exact H]). }
  assert (Hq1 : xle q1 (cu c) = true /\ nn q1 /\ (q1 = cpu c \/ q1 = UBe c)).
  { unfold q1. destruct (xmin_spec _ _ Hqn HU) as [[-> H]|[-> H]]; repeat split; auto;
    try (eapply xle_trans; [apply xlt_xle; exact H|exact Hqu]). }
  destruct Hp1 as (Hlp1 & Hp1n & Hp1c). destruct Hq1 as (Hq1u & Hq1n & Hq1c).
  assert (Hpq1 : xlt p1 q1 = true).
  { destruct Hp1c as [-> | ->], Hq1c as [-> | ->]; assumption. }
  destruct edge.
  - destruct Hx as [Hx|Hx]; [discriminate|].
    pose proof (xisfinite_nn _ Hx) as Hxn.
    destruct (clamp_within c Sane Ht Hxn) as [HLx HxU].
    pose proof (clamp_nn c Sane Hxn) as Hcn.
    set (x' := clamp c) in *.
    apply order_ok_intro.
    + destruct (xmin_spec p1 x' Hp1n Hcn) as [[-> _]|[-> _]]; [assumption|].
      eapply xle_trans; [exact HlL|exact HLx].
    + destruct (xmin_spec p1 x' Hp1n Hcn) as [[-> Ha]|[-> Ha]];
      destruct (xmax_spec q1 x' Hq1n Hcn) as [[-> Hb]|[-> Hb]].
      * assumption.
      * eapply xlt_le_trans; [exact Hpq1|apply xlt_xle; exact Hb].
      * eapply xlt_le_trans; [exact Ha|apply xlt_xle; exact Hpq1].
      * exfalso. apply (xlt_xle_contra _ _ Ha). apply xlt_xle.
        eapply xlt_le_trans; [exact Hpq1|apply xlt_xle; exact Hb].
    + destruct (xmax_spec q1 x' Hq1n Hcn) as [[-> _]|[-> _]]; [assumption|].
      eapply xle_trans; [exact HxU|exact HUu].
  - apply order_ok_intro; assumption.
Qed.

(* ------------------------------------------------------------------------------------------ *)
(* 5. the list of coordinates                                                                  *)
(* ------------------------------------------------------------------------------------------ *)

Lemma existsb_false_in : forall (f : coord -> bool) l, existsb f l = false -> forall x, In x l -> f x = false.
Proof.
  intros f l H x Hx. destruct (f x) eqn:E; [|reflexivity].
  assert (existsb f l = true) by (apply existsb_exists; exists x; split; assumption). congruence.
Qed.

Lemma existsb_map : forall (f : coord -> bool) (g : coord -> coord) l,
  existsb f (map g l) = existsb (fun c => f (g c)) l.
Proof. intros f g l. induction l as [|c l IH]; cbn; [reflexivity|]. rewrite IH. reflexivity. Qed.

Lemma existsb_ext : forall (f g : coord -> bool) l, (forall c, f c = g c) -> existsb f l = existsb g l.
Proof. intros f g l H. induction l as [|c l IH]; cbn; [reflexivity|]. rewrite IH, H. reflexivity. Qed.

Lemma eta_coord : forall c, mkC (cx c) (cl c) (cu c) (cpl c) (cpu c) = c.
Proof. intros []. reflexivity. Qed.

Lemma normal_form : forall cs,
  (forall c, In c cs -> sane c) ->
  let cs1 := apply_if (existsb t_x0_near cs) clamp_x cs in
  let cs2 := apply_if (existsb t_pb_near cs1) pull_pb cs1 in
  let cs3 := apply_if (existsb t_x0_edge cs2) expand_pb cs2 in
  cs3 = map (repaired (existsb on_edge cs)) cs.
Proof.
  intros cs Hs cs1 cs2 cs3.
  assert (E1 : cs1 = map clamp_x cs).
  { unfold cs1, apply_if. destruct (existsb t_x0_near cs) eqn:B; [reflexivity|].
    rewrite <- (map_id cs) at 1. apply map_ext_in. intros c Hc.
    unfold clamp_x. change (xmax (xmin (cx c) (UBe c)) (LBe c)) with (clamp c).
    rewrite (clamp_id c (Hs c Hc) (existsb_false_in _ _ B c Hc)). symmetry. apply eta_coord. }
  assert (E2 : cs2 = map pull_pb cs1).
  { unfold cs2, apply_if. destruct (existsb t_pb_near cs1) eqn:B; [reflexivity|].
    rewrite <- (map_id cs1) at 1. apply map_ext_in. intros c1 Hc1.
    assert (S1 : sane c1).
    { rewrite E1 in Hc1. apply in_map_iff in Hc1. destruct Hc1 as (c & <- & Hc). exact (Hs c Hc). }
    destruct (pull_id c1 S1 (existsb_false_in _ _ B c1 Hc1)) as [Ea Eb].
    unfold pull_pb. rewrite Ea, Eb. symmetry. apply eta_coord. }
  assert (E3 : existsb t_x0_edge cs2 = existsb on_edge cs).
  { rewrite E2, E1, map_map, existsb_map. apply existsb_ext. intro c. reflexivity. }
  unfold cs3. rewrite E3. unfold apply_if.
  destruct (existsb on_edge cs); rewrite E2, E1, ?map_map; apply map_ext; intro c; reflexivity.
Qed.

Lemma order_apply_if_clamp : forall b cs,
  existsb t_order_bad (apply_if b clamp_x cs) = existsb t_order_bad cs.
Proof.
  intros b cs. unfold apply_if. destruct b; [|reflexivity].
  rewrite existsb_map. apply existsb_ext. intro c. reflexivity.
Qed.

Lemma half_apply_if : forall b (f : coord -> coord) cs,
  (forall c, cl (f c) = cl c /\ cu (f c) = cu c) ->
  existsb t_half (apply_if b f cs) = existsb t_half cs.
Proof.
  intros b f cs H. unfold apply_if. destruct b; [|reflexivity].
  rewrite existsb_map. apply existsb_ext. intro c. unfold t_half. destruct (H c) as [-> ->]. reflexivity.
Qed.

Lemma check_accept : forall cs cs', check_coords cs = BAccept cs' ->
  existsb t_nonfinite_pb cs = false /\ existsb t_matching cs = false /\
  existsb t_x0_outside cs = false /\ existsb t_too_close cs = false /\
  existsb t_order_bad cs = false /\
  cs' = map (repaired (existsb on_edge cs)) cs /\
  existsb t_order_bad cs' = false /\ existsb t_half cs' = false.
Proof.
  intros cs cs' H. unfold check_coords in H.
  destruct (existsb t_nonfinite_pb cs) eqn:T1; [discriminate|].
  destruct (existsb t_fixed cs) eqn:T2; [discriminate|].
  destruct (existsb t_matching cs) eqn:T3; [discriminate|].
  destruct (existsb t_x0_outside cs) eqn:T4; [discriminate|].
  destruct (existsb t_too_close cs) eqn:T5; [discriminate|].
  rewrite order_apply_if_clamp in H.
  destruct (existsb t_order_bad cs) eqn:T6; [discriminate|].
  assert (Hs : forall c, In c cs -> sane c).
  { intros c Hc. apply sane_of_tests; eapply existsb_false_in; eassumption. }
  rewrite (normal_form cs Hs) in H.
  destruct (existsb t_order_bad (map (repaired (existsb on_edge cs)) cs)) eqn:T7; [discriminate|].
  destruct (existsb t_half (map (repaired (existsb on_edge cs)) cs)) eqn:T8; [discriminate|].
  inversion H; subst cs'. repeat split; assumption.
Qed.

Lemma bad_of_nonfinite : forall c, t_nonfinite_pb c = true -> bad_coord c.
Proof.
  intros c H. unfold t_nonfinite_pb in H. apply orb_true_iff in H.
  destruct H as [H|H]; apply negb_true_iff in H; unfold bad_coord; tauto.
Qed.
Lemma bad_of_matching : forall c, t_matching c = true -> bad_coord c.
Proof. intros c H. unfold bad_coord. unfold t_matching in H. tauto. Qed.
Lemma bad_of_fixed : forall c, t_fixed c = true -> bad_coord c.
Proof.
  intros c H. unfold t_fixed in H. apply andb_true_iff in H. destruct H as [_ H].
  apply bad_of_matching. exact H.
Qed.
Lemma bad_of_outside : forall c, t_x0_outside c = true -> bad_coord c.
Proof.
  intros c H. unfold t_x0_outside in H. apply orb_true_iff in H. destruct H as [H|H]; [apply orb_true_iff in H|];
  unfold bad_coord; tauto.
Qed.
Lemma bad_of_too_close : forall c, t_too_close c = true -> bad_coord c.
Proof. intros c H. unfold t_too_close, LBe, UBe in H. unfold bad_coord. tauto. Qed.
Lemma bad_of_order : forall c, t_order_bad c = true -> bad_coord c.
Proof.
  intros c H. unfold t_order_bad in H. apply negb_true_iff in H. unfold bad_coord.
  right. right. right. left. intros (A & B & C). rewrite A, B, C in H. discriminate.
Qed.
Lemma bad_of_half : forall c, t_half c = true -> bad_coord c.
Proof.
  intros c H. unfold t_half in H. apply negb_true_iff in H. apply eqb_false_iff in H.
  unfold bad_coord. tauto.
Qed.

Lemma not_bad : forall c,
  t_nonfinite_pb c = false -> t_matching c = false -> t_x0_outside c = false ->
  t_too_close c = false -> t_order_bad c = false -> t_half c = false -> ~ bad_coord c.
Proof.
  intros c H1 H2 H3 H4 H5 H6 Hb.
  unfold t_nonfinite_pb in H1. apply orb_false_iff in H1. destruct H1 as [H1a H1b].
  apply negb_false_iff in H1a. apply negb_false_iff in H1b.
  unfold t_matching in H2. unfold t_x0_outside in H3. apply orb_false_iff in H3. destruct H3 as [H3 H3c].
  apply orb_false_iff in H3. destruct H3 as [H3a H3b].
  unfold t_too_close, LBe, UBe in H4.
  unfold t_order_bad in H5. apply negb_false_iff in H5.
  apply andb_true_iff in H5. destruct H5 as [H5 H5c]. apply andb_true_iff in H5. destruct H5 as [H5a H5b].
  unfold t_half in H6. apply negb_false_iff in H6. apply eqb_prop in H6.
  unfold bad_coord in Hb.
  destruct Hb as [Hb|[Hb|[Hb|[Hb|[Hb|[Hb|[Hb|[Hb|Hb]]]]]]]]; try congruence.
  apply Hb. repeat split; assumption.
Qed.

Lemma check_reject : forall cs r, check_coords cs = BReject r ->
  r = RStrictBounds2 \/ exists c, In c cs /\ bad_coord c.
Proof.
  intros cs r H. unfold check_coords in H.
  destruct (existsb t_nonfinite_pb cs) eqn:T1.
  { right. apply existsb_exists in T1. destruct T1 as (c & Hc & Ht). exists c. split; [assumption|apply bad_of_nonfinite; assumption]. }
  destruct (existsb t_fixed cs) eqn:T2.
  { right. apply existsb_exists in T2. destruct T2 as (c & Hc & Ht). exists c. split; [assumption|apply bad_of_fixed; assumption]. }
  destruct (existsb t_matching cs) eqn:T3.
  { right. apply existsb_exists in T3. destruct T3 as (c & Hc & Ht). exists c. split; [assumption|apply bad_of_matching; assumption]. }
  destruct (existsb t_x0_outside cs) eqn:T4.
  { right. apply existsb_exists in T4. destruct T4 as (c & Hc & Ht). exists c. split; [assumption|apply bad_of_outside; assumption]. }
  destruct (existsb t_too_close cs) eqn:T5.
  { right. apply existsb_exists in T5. destruct T5 as (c & Hc & Ht). exists c. split; [assumption|apply bad_of_too_close; assumption]. }
  rewrite order_apply_if_clamp in H.
  destruct (existsb t_order_bad cs) eqn:T6.
  { right. apply existsb_exists in T6. destruct T6 as (c & Hc & Ht). exists c. split; [assumption|apply bad_of_order; assumption]. }
  match type of H with (if ?b then _ else _) = _ => destruct b eqn:T7 end.
  { left. inversion H. reflexivity. }
  rewrite !half_apply_if in H by (intro c; split; reflexivity).
  destruct (existsb t_half cs) eqn:T8; [|discriminate].
  right. apply existsb_exists in T8. destruct T8 as (c & Hc & Ht). exists c. split; [assumption|apply bad_of_half; assumption].
Qed.

(* ------------------------------------------------------------------------------------------ *)
(* 6. the constructor                                                                          *)
(* ------------------------------------------------------------------------------------------ *)

Lemma in_coords : forall d D c, In c (map (coord_at d) (seq 0 D)) <-> exists i, (i < D)%nat /\ c = coord_at d i.
Proof.
  intros d D c. rewrite in_map_iff. split.
  - intros (i & <- & Hi). apply in_seq in Hi. exists i. split; [lia|reflexivity].
  - intros (i & Hi & ->). exists i. split; [reflexivity|apply in_seq; lia].
Qed.

Lemma nth_map_seq : forall (f : nat -> xq) D i, (i < D)%nat -> nth i (map f (seq 0 D)) XNaN = f i.
Proof.
  intros f D i Hi. rewrite (nth_indep _ XNaN (f 0%nat)) by (rewrite map_length, seq_length; exact Hi).
  rewrite map_nth. rewrite seq_nth by exact Hi. reflexivity.
Qed.

Lemma half_repaired : forall e cs, existsb t_half (map (repaired e) cs) = existsb t_half cs.
Proof. intros e cs. rewrite existsb_map. apply existsb_ext. intro c. reflexivity. Qed.

Lemma passed_not_invalid : forall d cs cs',
  assemble d = ACoords cs -> check_coords cs = BAccept cs' -> ~ invalid d.
Proof.
  intros d cs cs' HA HC Hinv.
  destruct (assemble_coords d cs HA) as (D & Hdim & HD0 & Hlen & Hcs).
  destruct (check_accept cs cs' HC) as (T1 & T3 & T4 & T5 & T6 & Ecs' & T7 & T8).
  unfold invalid in Hinv. rewrite Hdim in Hinv.
  destruct Hinv as [(v & Hv & Hl)|(i & Hi & Hb)].
  - apply Hl. apply Hlen. exact Hv.
  - assert (Hc : In (coord_at d i) cs) by (rewrite Hcs; apply in_coords; exists i; split; [assumption|reflexivity]).
    rewrite Ecs', half_repaired in T8. clear T7.
    revert Hb. apply not_bad; eapply existsb_false_in; eassumption.
Qed.

Lemma finish_cases : forall cs,
  (forallb (fun c => xisfinite (cx c)) cs = true /\
   finish cs = Accept (mkNorm (Given (map cx cs)) (map cl cs) (map cu cs) (map cpl cs) (map cpu cs)))
  \/ (forallb (fun c => xisfinite (cx c)) cs = false /\ existsb t_range_nonfinite cs = true /\
      finish cs = Crash COverflow)
  \/ (forallb (fun c => xisfinite (cx c)) cs = false /\ existsb t_range_nonfinite cs = false /\
      finish cs = Accept (mkNorm Drawn (map cl cs) (map cu cs) (map cpl cs) (map cpu cs))).
Proof.
  intro cs. unfold finish.
  destruct (forallb (fun c => xisfinite (cx c)) cs); [left; auto|].
  destruct (existsb t_range_nonfinite cs); [right; left; auto|right; right; auto].
Qed.

Lemma finish_not_reject : forall cs r, finish cs <> Reject r.
Proof.
  intros cs r. destruct (finish_cases cs) as [[_ ->]|[(_ & _ & ->)|(_ & _ & ->)]]; discriminate.
Qed.

(* the stages a definition went through when the constructor did not raise ValueError *)
Lemma construct_passed : forall d o, construct d = o -> (forall r, o <> Reject r) -> o <> Crash CZeroDim ->
  exists cs cs', assemble d = ACoords cs /\ check_coords cs = BAccept cs' /\ finish cs' = o.
Proof.
  intros d o H Hr Hz. unfold construct in H.
  destruct (assemble d) as [r|c|cs] eqn:A.
  - exfalso. apply (Hr r). symmetry. exact H.
  - destruct (assemble_crash d c A) as [-> _]. exfalso. apply Hz. symmetry. exact H.
  - destruct (check_coords cs) as [r|cs'] eqn:C.
    + exfalso. apply (Hr r). symmetry. exact H.
    + exists cs, cs'. auto.
Qed.

Theorem invalid_rejected : forall d, nonempty d -> invalid d -> exists r, construct d = Reject r.
Proof.
  intros d Hne Hinv. destruct (construct d) as [r|c|n] eqn:E.
  - exists r. reflexivity.
  - destruct c.
    + exfalso. apply Hne. unfold construct in E.
      destruct (assemble d) as [r|c|cs] eqn:A; try discriminate.
      * destruct (assemble_crash d c A) as [_ H]. exact H.
      * destruct (check_coords cs) as [r|cs'] eqn:C; [discriminate|].
        destruct (finish_cases cs') as [[_ F]|[(_ & _ & F)|(_ & _ & F)]]; rewrite F in E; discriminate.
    + exfalso. destruct (construct_passed d _ E) as (cs & cs' & A & C & _); try (intros; discriminate).
      exact (passed_not_invalid d cs cs' A C Hinv).
  - exfalso. destruct (construct_passed d _ E) as (cs & cs' & A & C & _); try (intros; discriminate).
    exact (passed_not_invalid d cs cs' A C Hinv).
Qed.

Theorem reject_sound_partial : forall d r, construct d = Reject r -> r <> RStrictBounds2 -> invalid d.
Proof.
  intros d r H Hr. unfold construct in H.
  destruct (assemble d) as [r0|c|cs] eqn:A; try discriminate.
  - inversion H; subst r0. pose proof (assemble_reject d r A) as HR.
    unfold invalid. destruct r; try contradiction.
    + rewrite HR. exact I.
    + destruct HR as (D & -> & v & Hv & Hl). left. exists v. split; assumption.
  - destruct (assemble_coords d cs A) as (D & Hdim & HD0 & Hlen & Hcs).
    destruct (check_coords cs) as [r0|cs'] eqn:C.
    + inversion H; subst r0. destruct (check_reject cs r C) as [->|(c & Hc & Hb)]; [congruence|].
      unfold invalid. rewrite Hdim. right. rewrite Hcs in Hc. apply in_coords in Hc.
      destruct Hc as (i & Hi & ->). exists i. split; assumption.
    + exfalso. exact (finish_not_reject cs' r H).
Qed.

(* ---- regular definitions: the list is decided exactly ---- *)

Lemma existsb_false_intro : forall (f : coord -> bool) l, (forall x, In x l -> f x = false) -> existsb f l = false.
Proof.
  intros f l H. destruct (existsb f l) eqn:E; [|reflexivity].
  apply existsb_exists in E. destruct E as (x & Hx & Hf). rewrite (H x Hx) in Hf. discriminate.
Qed.

Lemma on_edge_nan : forall c, cx c = XNaN -> on_edge c = false.
Proof. intros c H. unfold on_edge. rewrite (clamp_nan c) by (rewrite H; reflexivity). destruct (LBe c), (UBe c); reflexivity. Qed.

Ltac crunch :=
  repeat (cbn [xisnan orb xlt negb xisfinite];
          try match goal with |- context [Qle_bool ?a ?b] => destruct (Qle_bool a b) end).

Lemma clamp_finite : forall c, sane c -> xisfinite (cx c) = true -> xisfinite (clamp c) = true.
Proof.
  intros c Hs Hx. pose proof (sane_hard_lt c Hs) as Hlt.
  unfold clamp, LBe, UBe.
  destruct (lb_eff_shape _ _ Hlt) as [[_ ->]|(a & e & _ & ->)];
  destruct (ub_eff_shape _ _ Hlt) as [[_ ->]|(b & f & _ & ->)];
  destruct (cx c) as [x| | |]; try discriminate;
  unfold xmin, xmax; crunch; reflexivity.
Qed.

Lemma pulled_finite : forall c, sane c ->
  xisfinite (xmax (cpl c) (LBe c)) = true /\ xisfinite (xmin (cpu c) (UBe c)) = true.
Proof.
  intros c Hs. pose proof (sane_hard_lt c Hs) as Hlt. destruct Hs as (Hp & Hq & _).
  unfold LBe, UBe.
  destruct (lb_eff_shape _ _ Hlt) as [[_ ->]|(a & e & _ & ->)];
  destruct (ub_eff_shape _ _ Hlt) as [[_ ->]|(b & f & _ & ->)];
  destruct (cpl c) as [p| | |]; try discriminate; destruct (cpu c) as [q| | |]; try discriminate;
  unfold xmin, xmax; crunch; split; reflexivity.
Qed.

Lemma xmin_finite : forall a b, xisfinite a = true -> xisfinite b = true -> xisfinite (xmin a b) = true.
Proof.
  intros [a| | |] [b| | |] Ha Hb; try discriminate. unfold xmin. crunch; reflexivity.
Qed.
Lemma xmax_finite : forall a b, xisfinite a = true -> xisfinite b = true -> xisfinite (xmax a b) = true.
Proof.
  intros [a| | |] [b| | |] Ha Hb; try discriminate. unfold xmax. crunch; reflexivity.
Qed.
Lemma xsub_finite : forall a b, xisfinite (xsub a b) = true -> xisfinite a = true /\ xisfinite b = true.
Proof. intros [a| | |] [b| | |] H; cbn in H; try discriminate; split; reflexivity. Qed.
Lemma xsub_finite_intro : forall a b, xisfinite a = true -> xisfinite b = true -> xisfinite (xsub a b) = true.
Proof. intros [a| | |] [b| | |] Ha Hb; try discriminate. reflexivity. Qed.

Lemma finite_of_not_nan_inf : forall a, xisnan a = false -> xisinf a = false -> xisfinite a = true.
Proof. intros [a| | |] H1 H2; try discriminate; reflexivity. Qed.

Lemma outside_false_not_inf : forall c, t_x0_outside c = false -> xisinf (cx c) = false.
Proof. intros c H. unfold t_x0_outside in H. apply orb_false_iff in H. destruct H as [_ H]. exact H. Qed.

(* what a regular definition gives for each assembled coordinate *)
Lemma regular_edge : forall d D,
  regular d -> dim_of d = Some D ->
  forall i, (i < D)%nat -> xisinf (cx (coord_at d i)) = false ->
    existsb on_edge (map (coord_at d) (seq 0 D)) = false \/ xisfinite (cx (coord_at d i)) = true.
Proof.
  intros d D [Hx _] Hdim i Hi Hinf. unfold x0_regular in Hx.
  assert (AllNaN : (forall j, (j < D)%nat -> cx (coord_at d j) = XNaN) ->
                   existsb on_edge (map (coord_at d) (seq 0 D)) = false).
  { intro H. apply existsb_false_intro. intros c Hc. apply in_coords in Hc. destruct Hc as (j & Hj & ->).
    apply on_edge_nan. apply H. exact Hj. }
  unfold dim_of in Hdim. destruct (d_x0 d) as [x|] eqn:Ex.
  - inversion Hdim; subst D. destruct Hx as [Hf|Hn].
    + right. apply finite_of_not_nan_inf; [|exact Hinf]. cbn [cx coord_at]. unfold x0_at, at_. rewrite Ex.
      rewrite Forall_forall in Hf. apply Hf. apply nth_In. exact Hi.
    + left. apply AllNaN. intros j Hj. cbn [cx coord_at]. unfold x0_at, at_. rewrite Ex.
      rewrite Forall_forall in Hn. apply Hn. apply nth_In. exact Hj.
  - left. apply AllNaN. intros j Hj. cbn [cx coord_at]. unfold x0_at, at_. rewrite Ex. reflexivity.
Qed.

Lemma regular_no_sb2 : forall d, regular d -> construct d <> Reject RStrictBounds2.
Proof.
  intros d Hreg H. unfold construct in H.
  destruct (assemble d) as [r0|c|cs] eqn:A; try discriminate.
  - inversion H; subst r0. exact (assemble_reject d _ A).
  - destruct (assemble_coords d cs A) as (D & Hdim & HD0 & Hlen & Hcs).
    destruct (check_coords cs) as [r0|cs'] eqn:C; [|exact (finish_not_reject cs' _ H)].
    inversion H; subst r0. clear H. unfold check_coords in C.
    destruct (existsb t_nonfinite_pb cs) eqn:T1; [discriminate|].
    destruct (existsb t_fixed cs) eqn:T2; [discriminate|].
    destruct (existsb t_matching cs) eqn:T3; [discriminate|].
    destruct (existsb t_x0_outside cs) eqn:T4; [discriminate|].
    destruct (existsb t_too_close cs) eqn:T5; [discriminate|].
    rewrite order_apply_if_clamp in C.
    destruct (existsb t_order_bad cs) eqn:T6; [discriminate|].
    assert (Hs : forall c, In c cs -> sane c).
    { intros c Hc. apply sane_of_tests; eapply existsb_false_in; eassumption. }
    rewrite (normal_form cs Hs) in C.
    assert (T7 : existsb t_order_bad (map (repaired (existsb on_edge cs)) cs) = false).
    { rewrite existsb_map. apply existsb_false_intro. intros c Hc.
      pose proof Hc as Hc'. rewrite Hcs in Hc'. apply in_coords in Hc'. destruct Hc' as (i & Hi & Ec).
      apply repaired_order_ok.
      - exact (Hs c Hc).
      - exact (existsb_false_in _ _ T5 c Hc).
      - rewrite Ec. destruct Hreg as [_ Hr]. exact (Hr D i Hdim Hi).
      - rewrite Hcs at 1. rewrite Ec. apply (regular_edge d D Hreg Hdim i Hi).
        rewrite <- Ec. exact (outside_false_not_inf c (existsb_false_in _ _ T4 c Hc)). }
    rewrite T7 in C. destruct (existsb t_half (map (repaired (existsb on_edge cs)) cs)); discriminate.
Qed.

Lemma forallb_false_exists : forall (f : coord -> bool) l, forallb f l = false -> exists x, In x l /\ f x = false.
Proof.
  intros f l. induction l as [|a l IH]; cbn; intro H; [discriminate|].
  apply andb_false_iff in H. destruct H as [H|H].
  - exists a. auto.
  - destruct (IH H) as (x & Hx & Hf). exists x. auto.
Qed.

Lemma xmin_nan_r : forall a, xmin a XNaN = XNaN.
Proof. intro a. unfold xmin. cbn [xisnan]. rewrite orb_true_r. reflexivity. Qed.

(* np.random.uniform(plb, pub) never sees a non-finite range: the OverflowError is unreachable *)
Theorem never_overflows : forall d, construct d <> Crash COverflow.
Proof.
  intros d H.
  destruct (construct_passed d _ H) as (cs & cs' & A & C & F); try (intros; discriminate).
  destruct (check_accept cs cs' C) as (T1 & T3 & T4 & T5 & T6 & Ecs' & T7 & T8).
  assert (Hs : forall c, In c cs -> sane c).
  { intros c Hc. apply sane_of_tests; [exact (existsb_false_in _ _ T1 c Hc)|exact (existsb_false_in _ _ T6 c Hc)]. }
  destruct (finish_cases cs') as [[_ F']|[(Ff & Fr & _)|(_ & _ & F')]]; try (rewrite F' in F; discriminate).
  (* a coordinate of x0 is not finite; it is not infinite, so it is NaN, and an expansion would have
     put NaN into plb, which the second order test rejects: no expansion happened *)
  destruct (forallb_false_exists _ _ Ff) as (c' & Hc' & Hnf).
  rewrite Ecs' in Hc'. apply in_map_iff in Hc'. destruct Hc' as (c & <- & Hc).
  cbn [cx repaired] in Hnf.
  assert (Hnan : xisnan (cx c) = true).
  { destruct (xisnan (cx c)) eqn:En; [reflexivity|exfalso].
    pose proof (finite_of_not_nan_inf _ En (outside_false_not_inf c (existsb_false_in _ _ T4 c Hc))) as Hx.
    rewrite (clamp_finite c (Hs c Hc) Hx) in Hnf. discriminate. }
  assert (Hedge : existsb on_edge cs = false).
  { destruct (existsb on_edge cs) eqn:Ee; [exfalso|reflexivity].
    assert (Hord : t_order_bad (repaired true c) = false).
    { apply (existsb_false_in _ _ T7). rewrite Ecs'. apply in_map. exact Hc. }
    unfold t_order_bad, repaired in Hord. cbn [cl cu cpl cpu] in Hord.
    rewrite (clamp_nan c Hnan), xmin_nan_r in Hord. destruct (cl c); discriminate. }
  apply existsb_exists in Fr. destruct Fr as (c2' & Hc2' & Hr).
  rewrite Ecs', Hedge in Hc2'. apply in_map_iff in Hc2'. destruct Hc2' as (c2 & <- & Hc2).
  unfold t_range_nonfinite in Hr. cbn [repaired cpl cpu] in Hr.
  destruct (pulled_finite c2 (Hs c2 Hc2)) as [Hp Hq].
  rewrite (xsub_finite_intro _ _ Hq Hp) in Hr. discriminate.
Qed.

Theorem reject_complete : forall d, regular d -> nonempty d ->
  ((exists r, construct d = Reject r) <-> invalid d).
Proof.
  intros d Hreg Hne. split.
  - intros [r H]. apply (reject_sound_partial d r H). intro E. subst r. exact (regular_no_sb2 d Hreg H).
  - apply invalid_rejected. exact Hne.
Qed.

Theorem valid_accepted : forall d, regular d -> nonempty d -> ~ invalid d -> exists n, construct d = Accept n.
Proof.
  intros d Hreg Hne Hv. destruct (construct d) as [r|c|n] eqn:E.
  - exfalso. apply Hv. apply (reject_complete d Hreg Hne). exists r. exact E.
  - exfalso. destruct c.
    + apply Hne. unfold construct in E.
      destruct (assemble d) as [r|c|cs] eqn:A; try discriminate.
      * destruct (assemble_crash d c A) as [_ H]. exact H.
      * destruct (check_coords cs) as [r|cs'] eqn:C; [discriminate|].
        destruct (finish_cases cs') as [[_ F]|[(_ & _ & F)|(_ & _ & F)]]; rewrite F in E; discriminate.
    + exact (never_overflows d E).
  - exists n. reflexivity.
Qed.

(* ---- accepted definitions ---- *)

(* everything known about an accepted definition, in terms of the raw definition *)
Lemma accepted_shape : forall d n, construct d = Accept n ->
  exists D, dim_of d = Some D /\ D <> 0%nat /\ (forall v, In v (given d) -> List.length v = D) /\
    let cs := map (coord_at d) (seq 0 D) in
    let e := existsb on_edge cs in
    (forall i, (i < D)%nat ->
        sane (coord_at d i) /\ t_too_close (coord_at d i) = false /\
        t_order_bad (repaired e (coord_at d i)) = false /\ t_half (coord_at d i) = false) /\
    n_lb n = map (fun i => cl (repaired e (coord_at d i))) (seq 0 D) /\
    n_ub n = map (fun i => cu (repaired e (coord_at d i))) (seq 0 D) /\
    n_plb n = map (fun i => cpl (repaired e (coord_at d i))) (seq 0 D) /\
    n_pub n = map (fun i => cpu (repaired e (coord_at d i))) (seq 0 D) /\
    ((n_x0 n = Given (map (fun i => cx (repaired e (coord_at d i))) (seq 0 D)) /\
      forall i, (i < D)%nat -> xisfinite (clamp (coord_at d i)) = true)
     \/ (n_x0 n = Drawn /\
         (exists i, (i < D)%nat /\ xisfinite (clamp (coord_at d i)) = false) /\
         forall i, (i < D)%nat ->
           xisfinite (xsub (cpu (repaired e (coord_at d i))) (cpl (repaired e (coord_at d i)))) = true)).
Proof.
  intros d n H.
  destruct (construct_passed d _ H) as (cs & cs' & A & C & F); try (intros; discriminate).
  destruct (assemble_coords d cs A) as (D & Hdim & HD0 & Hlen & Hcs).
  destruct (check_accept cs cs' C) as (T1 & T3 & T4 & T5 & T6 & Ecs' & T7 & T8).
  exists D. split; [exact Hdim|]. split; [exact HD0|]. split; [exact Hlen|].
  cbn zeta. rewrite <- Hcs.
  assert (Hin : forall i, (i < D)%nat -> In (coord_at d i) cs).
  { intros i Hi. rewrite Hcs. apply in_coords. exists i. split; [assumption|reflexivity]. }
  split.
  { intros i Hi. pose proof (Hin i Hi) as Hc.
    split; [apply sane_of_tests; [exact (existsb_false_in _ _ T1 _ Hc)|exact (existsb_false_in _ _ T6 _ Hc)]|].
    split; [exact (existsb_false_in _ _ T5 _ Hc)|].
    split.
    - apply (existsb_false_in _ _ T7). rewrite Ecs'. apply in_map. exact Hc.
    - rewrite Ecs', half_repaired in T8. exact (existsb_false_in _ _ T8 _ Hc). }
  assert (M : forall (g : coord -> xq), map g cs' = map (fun i => g (repaired (existsb on_edge cs) (coord_at d i))) (seq 0 D)).
  { intro g. rewrite Ecs'. rewrite Hcs at 2. rewrite !map_map. reflexivity. }
  destruct (finish_cases cs') as [[Ff F']|[(_ & _ & F')|(Ff & Fr & F')]]; rewrite F' in F; try discriminate;
    inversion F; subst n; cbn [n_x0 n_lb n_ub n_plb n_pub]; rewrite !M;
    (split; [reflexivity|]); (split; [reflexivity|]); (split; [reflexivity|]); (split; [reflexivity|]).
  - left. split; [reflexivity|]. intros i Hi.
    rewrite forallb_forall in Ff. apply (Ff (repaired (existsb on_edge cs) (coord_at d i))).
    rewrite Ecs'. apply in_map. exact (Hin i Hi).
  - right. split; [reflexivity|]. split.
    + destruct (forallb_false_exists _ _ Ff) as (c' & Hc' & Hnf).
      rewrite Ecs' in Hc'. apply in_map_iff in Hc'. destruct Hc' as (c & <- & Hc).
      rewrite Hcs in Hc. apply in_coords in Hc. destruct Hc as (i & Hi & ->).
      exists i. split; [exact Hi|exact Hnf].
    + intros i Hi.
      assert (Hr : t_range_nonfinite (repaired (existsb on_edge cs) (coord_at d i)) = false).
      { apply (existsb_false_in _ _ Fr). rewrite Ecs'. apply in_map. exact (Hin i Hi). }
      unfold t_range_nonfinite in Hr. apply negb_false_iff in Hr. exact Hr.
Qed.

Lemma order_ok_elim : forall c, t_order_bad c = false ->
  xle (cl c) (cpl c) = true /\ xlt (cpl c) (cpu c) = true /\ xle (cpu c) (cu c) = true.
Proof.
  intros c H. unfold t_order_bad in H. apply negb_false_iff in H.
  apply andb_true_iff in H. destruct H as [H H3]. apply andb_true_iff in H. destruct H as [H1 H2]. auto.
Qed.

(* a non-finite coordinate of x0 cannot survive an expansion of the plausible box *)
Lemma expansion_needs_finite : forall a b x,
  xisfinite a = true -> xisfinite b = true -> xisfinite x = false ->
  xisfinite (xmin a x) = true -> xisfinite (xmax b x) = true -> False.
Proof.
  intros [a| | |] [b| | |] [x| | |] Ha Hb Hx H1 H2; try discriminate.
Qed.

Theorem accept_sound : forall d n, construct d = Accept n ->
  exists D, dim_of d = Some D /\ (1 <= D)%nat
    /\ (forall v, In v (given d) -> List.length v = D)
    /\ List.length (n_lb n) = D /\ List.length (n_ub n) = D
    /\ List.length (n_plb n) = D /\ List.length (n_pub n) = D
    /\ match n_x0 n with
       | Given x => List.length x = D
       | Drawn => exists i, (i < D)%nat /\ xisfinite (x0_at d i) = false
       end
    /\ forall i, (i < D)%nat -> normal_coord d n i.
Proof.
  intros d n H. destruct (accepted_shape d n H) as (D & Hdim & HD0 & Hlen & Hall & El & Eu & Ep & Eq & Hx).
  cbn zeta in *. set (e := existsb on_edge (map (coord_at d) (seq 0 D))) in *.
  exists D. split; [exact Hdim|]. split; [lia|]. split; [exact Hlen|].
  rewrite El, Eu, Ep, Eq. rewrite !map_length, !seq_length.
  repeat (split; [reflexivity|]).
  split.
  { destruct Hx as [[-> _]|(-> & (i & Hi & Hnf) & _)].
    - rewrite map_length, seq_length. reflexivity.
    - exists i. split; [exact Hi|]. destruct (Hall i Hi) as (Hs & _).
      destruct (xisfinite (x0_at d i)) eqn:E; [|reflexivity].
      rewrite (clamp_finite (coord_at d i) Hs E) in Hnf. discriminate. }
  intros i Hi. destruct (Hall i Hi) as (Hs & Htc & Hord & Hhalf).
  unfold normal_coord, nthx. rewrite El, Eu, Ep, Eq.
  rewrite !(nth_map_seq _ D i Hi).
  set (c := coord_at d i) in *.
  destruct (order_ok_elim _ Hord) as (O1 & O2 & O3).
  change (cl (repaired e c)) with (cl c) in *. change (cu (repaired e c)) with (cu c) in *.
  split; [reflexivity|]. split; [reflexivity|]. split; [exact O1|]. split; [exact O2|]. split; [exact O3|].
  destruct (pulled_finite c Hs) as [Hp1 Hq1].
  assert (Hhalf' : xisfinite (cl c) = xisfinite (cu c)).
  { unfold t_half in Hhalf. apply negb_false_iff in Hhalf. apply eqb_prop in Hhalf. exact Hhalf. }
  destruct Hx as [[-> Hfin]|(-> & Hnf & Hrange)].
  - pose proof (Hfin i Hi) as Hcf. fold c in Hcf.
    split; [|split].
    { unfold repaired. cbn [cpl]. destruct e; [apply xmin_finite|]; assumption. }
    { unfold repaired. cbn [cpu]. destruct e; [apply xmax_finite|]; assumption. }
    split; [exact Hhalf'|].
    rewrite (nth_map_seq _ D i Hi). fold c. change (cx (repaired e c)) with (clamp c).
    pose proof (clamp_finite_nn c Hcf) as Hxn.
    destruct (clamp_within c Hs Htc Hxn) as [HL HU].
    split; [exact Hcf|]. split; [exact HL|]. split; [exact HU|]. split.
    + intros Hd Hf. eapply xlt_le_trans; [exact (LBe_gt_l c Hs Hd Hf)|exact HL].
    + intros Hd Hf. eapply xle_lt_trans; [exact HU|exact (UBe_lt_u c Hs Hd Hf)].
  - pose proof (Hrange i Hi) as Hr. fold c in Hr. apply xsub_finite in Hr. destruct Hr as [Hq Hp].
    split; [exact Hp|]. split; [exact Hq|]. split; [exact Hhalf'|].
    (* no expansion happened: a coordinate of x0 is not finite, and the box stayed finite everywhere *)
    assert (He : e = false).
    { destruct e eqn:Ee; [exfalso|reflexivity].
      destruct Hnf as (j & Hj & Hjnf). destruct (Hall j Hj) as (Hsj & _).
      pose proof (Hrange j Hj) as Hrj. apply xsub_finite in Hrj. destruct Hrj as [Hqj Hpj].
      destruct (pulled_finite (coord_at d j) Hsj) as [Hp1j Hq1j].
      unfold repaired in Hpj, Hqj. cbn [cpl cpu] in Hpj, Hqj.
      exact (expansion_needs_finite _ _ _ Hp1j Hq1j Hjnf Hpj Hqj). }
    clear Hp Hq. rewrite He. unfold repaired. cbn [cpl cpu].
    pose proof (sane_LBe_nn c Hs) as HL. pose proof (sane_UBe_nn c Hs) as HU.
    destruct Hs as (Hpf & Hqf & _). apply xisfinite_nn in Hpf. apply xisfinite_nn in Hqf.
    change (lb_eff (cl c) (cu c)) with (LBe c). change (ub_eff (cl c) (cu c)) with (UBe c).
    split.
    + destruct (xmax_spec _ _ Hpf HL) as [[-> H1]|[-> H1]]; [exact H1|apply xle_refl; exact HL].
    + destruct (xmin_spec _ _ Hqf HU) as [[-> H1]|[-> H1]]; [exact H1|apply xle_refl; exact HU].
Qed.

Theorem normalisation_minimal : forall d n, construct d = Accept n ->
  exists D, dim_of d = Some D /\
    let edge := existsb on_edge (map (coord_at d) (seq 0 D)) in
    forall i, (i < D)%nat ->
      let r := repaired edge (coord_at d i) in
         nthx (n_lb n) i = lb_at d i /\ nthx (n_ub n) i = ub_at d i
      /\ nthx (n_plb n) i = cpl r /\ nthx (n_pub n) i = cpu r
      /\ match n_x0 n with Given x => nthx x i = cx r | Drawn => True end.
Proof.
  intros d n H. destruct (accepted_shape d n H) as (D & Hdim & HD0 & Hlen & Hall & El & Eu & Ep & Eq & Hx).
  cbn zeta in *. exists D. split; [exact Hdim|]. intros i Hi.
  unfold nthx. rewrite El, Eu, Ep, Eq. rewrite !(nth_map_seq _ D i Hi).
  repeat (split; [reflexivity|]).
  destruct Hx as [[-> _]|(-> & _)]; [|exact I].
  rewrite (nth_map_seq _ D i Hi). reflexivity.
Qed.

(* the repairs are the identity on values that are already inside *)
Theorem repairs_identity_inside : forall c,
     (xle (LBe c) (cx c) = true -> xle (cx c) (UBe c) = true -> clamp c = cx c)
  /\ (xle (LBe c) (cpl c) = true -> cpl (repaired false c) = cpl c)
  /\ (xle (cpu c) (UBe c) = true -> cpu (repaired false c) = cpu c)
  /\ (forall e, cl (repaired e c) = cl c /\ cu (repaired e c) = cu c).
Proof.
  intro c. repeat split.
  - intros H1 H2. destruct (xle_nn _ _ H1) as [HL Hx]. destruct (xle_nn _ _ H2) as [_ HU]. unfold nn in *.
    unfold clamp, xmin, xmax. rewrite Hx, HU. cbn [orb].
    destruct (xlt (UBe c) (cx c)) eqn:E1; [exfalso; exact (xlt_xle_contra _ _ E1 H2)|].
    rewrite Hx, HL. cbn [orb].
    destruct (xlt (cx c) (LBe c)) eqn:E2; [exfalso; exact (xlt_xle_contra _ _ E2 H1)|]. reflexivity.
  - intro H. destruct (xle_nn _ _ H) as [HL Hp]. unfold nn in *.
    unfold repaired. cbn [cpl]. unfold xmax. rewrite Hp, HL. cbn [orb].
    destruct (xlt (cpl c) (LBe c)) eqn:E; [exfalso; exact (xlt_xle_contra _ _ E H)|]. reflexivity.
  - intro H. destruct (xle_nn _ _ H) as [Hq HU]. unfold nn in *.
    unfold repaired. cbn [cpu]. unfold xmin. rewrite Hq, HU. cbn [orb].
    destruct (xlt (UBe c) (cpu c)) eqn:E; [exfalso; exact (xlt_xle_contra _ _ E H)|]. reflexivity.
Qed.

(* ------------------------------------------------------------------------------------------ *)
(* 7. where the code departs from the list: witnesses                                          *)
(* ------------------------------------------------------------------------------------------ *)

Definition fin (n : Z) (d : positive) : xq := XFin (n # d).

(* a valid definition whose plausible box lies inside the 0.1% margin of a hard bound:
   lb = 0, ub = 1, plb = 0.9995, pub = 1, x0 = 0.5 *)
Definition w_margin : defn :=
  mkDefn (Some [fin 1 2]) (Some [fin 0 1]) (Some [fin 1 1]) (Some [fin 9995 10000]) (Some [fin 1 1]).

(* x0 = (NaN, 1) in the box [0,1]^2: the second coordinate sits on its bound *)
Definition w_nan : defn :=
  mkDefn (Some [XNaN; fin 1 1]) (Some [fin 0 1; fin 0 1]) (Some [fin 1 1; fin 1 1]) None None.

(* lb = x0 = realmin, ub = 2 realmin *)
Definition w_denormal : defn :=
  mkDefn (Some [XFin realmin]) (Some [XFin realmin]) (Some [XFin (2 * realmin)]) None None.

Lemma not_invalid_by_tests : forall d cs,
  assemble d = ACoords cs ->
  existsb t_nonfinite_pb cs = false -> existsb t_matching cs = false -> existsb t_x0_outside cs = false ->
  existsb t_too_close cs = false -> existsb t_order_bad cs = false -> existsb t_half cs = false ->
  ~ invalid d.
Proof.
  intros d cs A T1 T3 T4 T5 T6 T8 Hinv.
  destruct (assemble_coords d cs A) as (D & Hdim & HD0 & Hlen & Hcs).
  unfold invalid in Hinv. rewrite Hdim in Hinv.
  destruct Hinv as [(v & Hv & Hl)|(i & Hi & Hb)].
  - apply Hl. apply Hlen. exact Hv.
  - assert (Hc : In (coord_at d i) cs) by (rewrite Hcs; apply in_coords; exists i; split; [assumption|reflexivity]).
    revert Hb. apply not_bad; eapply existsb_false_in; eassumption.
Qed.

Ltac valid_by_tests := eapply not_invalid_by_tests; [vm_compute; reflexivity|..]; vm_compute; reflexivity.

Theorem margin_box_refuted :
  exists d, nonempty d /\ ~ invalid d /\ construct d = Reject RStrictBounds2.
Proof.
  exists w_margin. split; [|split].
  - unfold nonempty. vm_compute. discriminate.
  - valid_by_tests.
  - vm_compute. reflexivity.
Qed.

Theorem nan_coordinate_refuted :
  exists d, nonempty d /\ ~ invalid d /\ construct d = Reject RStrictBounds2.
Proof.
  exists w_nan. split; [|split].
  - unfold nonempty. vm_compute. discriminate.
  - valid_by_tests.
  - vm_compute. reflexivity.
Qed.

(* an infinite starting coordinate is on the list and is rejected *)
Theorem inf_x0_rejected : forall d D i,
  nonempty d -> dim_of d = Some D -> (i < D)%nat -> xisinf (x0_at d i) = true ->
  invalid d /\ exists r, construct d = Reject r.
Proof.
  intros d D i Hne Hdim Hi Hinf.
  assert (Hinv : invalid d).
  { unfold invalid. rewrite Hdim. right. exists i. split; [exact Hi|].
    unfold bad_coord. cbn [cx coord_at]. tauto. }
  split; [exact Hinv|exact (invalid_rejected d Hne Hinv)].
Qed.

Theorem x0_on_bound_denormal_refuted :
  exists d n x l, construct d = Accept n /\ n_x0 n = Given [x] /\ n_lb n = [l] /\
                  xisfinite l = true /\ xlt l x = false.
Proof.
  exists w_denormal. eexists. eexists. eexists.
  split; [vm_compute; reflexivity|]. cbn [n_x0 n_lb].
  split; [reflexivity|]. split; [reflexivity|]. split; vm_compute; reflexivity.
Qed.

(* ------------------------------------------------------------------------------------------ *)
(* 8. a concrete accepted problem                                                              *)
(* ------------------------------------------------------------------------------------------ *)

(* D = 3: a bounded coordinate with x0 ON its upper bound (moved inside, plausible upper bound
   follows), a fully unbounded coordinate, a bounded coordinate with plausible bounds omitted. *)
Definition ex_defn : defn :=
  mkDefn (Some [fin 2 1; fin 7 1; fin 0 1])
         (Some [fin (-2) 1; XNInf; fin (-1) 1])
         (Some [fin 2 1; XPInf; fin 3 1])
         (Some [fin (-1) 1; fin (-5) 1; fin (-1) 1])
         (Some [fin 1 1; fin 5 1; fin 3 1]).

Definition ex_norm : norm :=
  mkNorm (Given [fin 499 250; fin 7 1; fin 0 1])
         [fin (-2) 1; XNInf; fin (-1) 1]
         [fin 2 1; XPInf; fin 3 1]
         [fin (-1) 1; fin (-5) 1; fin (-249) 250]
         [fin 499 250; fin 7 1; fin 749 250].

Lemma example_accepted : construct ex_defn = Accept ex_norm /\ regular ex_defn /\ ~ invalid ex_defn.
Proof.
  split; [vm_compute; reflexivity|]. split.
  - split.
    + unfold x0_regular, ex_defn. cbn [d_x0]. left. repeat constructor.
    + intros D i Hdim Hi. vm_compute in Hdim. inversion Hdim; subst D.
      destruct i as [|[|[|i]]]; [| | |lia]; unfold regular_coord; repeat split; vm_compute; reflexivity.
  - valid_by_tests.
Qed.
