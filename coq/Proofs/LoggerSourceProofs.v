(* LoggerSourceProofs.v — Model/Logger.v's [record] / [step] and Model/LoggerExtent.v's [new_record] ARE the programs regenerated
   from pybads/function_logger/function_logger.py (coq/gen/Src_logger.v), for all states and inputs.
   Two halves: (1) the hand-written programs of Model/LoggerSrc.v mean what the hand-written model computes (induction-free case
   analysis + rational identities; independent of the generated file); (2) the generated programs ARE the hand-written ones
   (closed data: decided by conversion).  Statements: Props/C12src.v. *)
From Coq Require Import ZArith QArith Qabs List String Bool Lia Lqa Arith.
From PV Require Import Model.XQ Model.Val Model.Logger Model.LoggerSpec Model.LoggerSrc Proofs.LoggerProofs.
From PV Require Model.LoggerExtent.
From PV Require Import gen.Src_logger.
Import ListNotations.
Open Scope Z_scope.

Local Notation px x := (fun r : row => qlist_eqb (r_x r) x).

(* ================================================================== *)
(* 1. rational identities behind the merge                             *)
(* ================================================================== *)
Definition TN (tn : Q) : Q := Qred (1 / Qred (/ tn)).
Definition T1 (sd : Q) : Q := Qred (1 / Qred (sd * sd)).

Lemma TN_eq tn : (TN tn == tn)%Q.
Proof.
  unfold TN. rewrite !Qred_correct. unfold Qdiv. rewrite Qmult_1_l. apply Qinv_involutive.
Qed.

Lemma T1_eq sd : (T1 sd == qinv2 sd)%Q.
Proof.
  unfold T1, qinv2. rewrite !Qred_correct. unfold Qdiv. rewrite Qmult_1_l. reflexivity.
Qed.

Lemma merge_y_eq tn y sd fv :
  Qred (Qred (Qred (TN tn * y) + Qred (T1 sd * fv)) / Qred (TN tn + T1 sd)) =
  Qred ((tn * y + qinv2 sd * fv) / (tn + qinv2 sd)).
Proof.
  apply Qred_complete. rewrite !Qred_correct. rewrite TN_eq, T1_eq. reflexivity.
Qed.

Lemma merge_tau_eq tn sd :
  Qred (/ Qred (1 * 1 / Qred (TN tn + T1 sd))) = Qred (tn + qinv2 sd).
Proof.
  apply Qred_complete. rewrite !Qred_correct. rewrite TN_eq, T1_eq.
  unfold Qdiv. rewrite !Qmult_1_l. apply Qinv_involutive.
Qed.

(* ================================================================== *)
(* 2. what the merge expressions evaluate to                           *)
(* ================================================================== *)
Lemma fev_merge_y v r tn sd : r_tau r = Some tn -> v_fsd v = Some sd ->
  fev v (Some r) e_merge_y = Some (SR (Qred (Qred (Qred (TN tn * r_y r) + Qred (T1 sd * v_fv v)) / Qred (TN tn + T1 sd)))).
Proof.
  intros H1 H2. unfold e_merge_y, e_tau_n, e_tau_1. cbn [fev]. rewrite H1, H2. cbn [sv2]. reflexivity.
Qed.

Lemma fev_merge_s v r tn sd : r_tau r = Some tn -> v_fsd v = Some sd ->
  fev v (Some r) e_merge_s = Some (SQ (Qred (1 * 1 / Qred (TN tn + T1 sd)))).
Proof.
  intros H1 H2. unfold e_merge_s, e_tau_n, e_tau_1. cbn [fev]. rewrite H1, H2. cbn [sv2]. reflexivity.
Qed.

Lemma update_nth_at {A} (f : A -> A) : forall l i r, nth_error l i = Some r ->
  update_nth i f l = update_nth i (fun _ => f r) l.
Proof.
  induction l as [|a l IH]; intros i r H; destruct i; cbn [update_nth nth_error] in *; try discriminate.
  - inversion H; subst. reflexivity.
  - f_equal. apply IH; assumption.
Qed.

Lemma existsb_first {A} (p : A -> bool) l : existsb p l = true -> exists i, find_first p l 0 = Some i.
Proof.
  intros E. destruct (find_first p l 0) as [i|] eqn:F; [eauto|].
  apply find_first_none in F. congruence.
Qed.

(* ================================================================== *)
(* 3. the hand-written program means [record]                          *)
(* ================================================================== *)
Definition merge_defined (s : lstate) (x : list Q) (fsd : option Q) : Prop :=
  fsd <> None -> forall r, In r (rows s) -> qlist_eqb (r_x r) x = true -> r_tau r <> None.

Definition xm_after (s : lstate) (xm : Z) (s' : lstate) : Z :=
  if (List.length (rows s) <? List.length (rows s'))%nat then Z.min (xm + 1) (cap s') else xm.

Lemma xm_after_same s xm rs' c f1 f2 n h : List.length rs' = List.length (rows s) ->
  xm_after s xm (mkL rs' c f1 f2 n h) = xm.
Proof. intros H. unfold xm_after. cbn [rows]. rewrite H, Nat.ltb_irrefl. reflexivity. Qed.

Lemma update_nth_length {A} (f : A -> A) : forall l i, List.length (update_nth i f l) = List.length l.
Proof. induction l as [|a l IH]; intros [|i]; cbn [update_nth List.length]; auto. Qed.

Lemma env_xn1 s xm x xo fv fsd rp : env_xn (mkEnv s xm x xo fv fsd rp) + 1 = Z.of_nat (List.length (rows s)).
Proof. unfold env_xn. cbn [v_s]. lia. Qed.

Lemma run_new s xm x xo fv fsd rp (se : option fexpr) t :
  match se with
  | Some es => match fev (mkEnv s xm x xo fv fsd rp) None es with Some x => Some (Some (tau_of x)) | None => None end
  | None => Some None
  end = Some t ->
  run_rprog (model_new se) (mkEnv s xm x xo fv fsd rp) =
  let n0 := Z.of_nat (List.length (rows s)) in
  let c' := if n0 >? cap s - 1 then cap s + Z.max (ceil_half n0) 1 else cap s in
  Some (mkL (rows s ++ [mkRow xo x fv fv t 1]) c' (func_count s) (cache_count s) (noise_flag s) (he_flag s),
        Z.min (xm + 1) c', Ret fv fsd (Some (List.length (rows s)))).
Proof.
  intros Ht. unfold model_new. cbn [run_rprog]. rewrite Ht.
  unfold z_cap', z_xn1, zev. cbn [zeval v_s v_xm v_x v_xo v_fv v_fsd].
  rewrite !env_xn1. rewrite !Z.eqb_refl. cbn [andb].
  cbn [fevq fev nev v_fv]. reflexivity.
Qed.

Lemma run_model_record s xm x xo fv fsd rp :
  merge_defined s x fsd ->
  run_record model_record s xm x xo fv fsd rp =
  Some (fst (record s x xo fv fsd rp), xm_after s xm (fst (record s x xo fv fsd rp)), snd (record s x xo fv fsd rp)).
Proof.
  intros MD. unfold run_record, model_record. cbn [run_rprog cev v_rp v_fsd].
  destruct rp.
  - destruct fsd as [sd|].
    + cbn [cev mrows mrange rows_in mpred mcount v_s v_x].
      destruct (existsb (px x) (rows s)) eqn:E1.
      * destruct ((1 <? count_if (px x) (rows s))%nat) eqn:E2.
        -- (* more than one match *)
           cbn [run_rprog v_s v_xm]. unfold record, record_with. cbn [negb]. rewrite E1, E2. cbn [fst snd].
           unfold xm_after. rewrite Nat.ltb_irrefl. reflexivity.
        -- (* merge *)
           destruct (existsb_first _ _ E1) as (i & F).
           destruct (find_first_nth _ _ _ F) as (r & Hr & Hp).
           assert (Ht : r_tau r <> None).
           { apply MD; [discriminate | eapply nth_error_In; eassumption | exact Hp]. }
           destruct (r_tau r) as [tn|] eqn:Etau; [clear Ht | congruence].
           unfold count_if in E2.
           destruct (rec_merge s x xo fv sd i E2 F) as (y' & R).
           unfold record. rewrite R. cbn [fst snd].
           cbn [run_rprog ixev mrows mrange rows_in mpred v_s v_x v_xm v_fsd]. rewrite F, Hr.
           unfold fevq. rewrite (fev_merge_y (mkEnv s xm x xo fv (Some sd) true) r tn sd Etau eq_refl),
                   (fev_merge_s (mkEnv s xm x xo fv (Some sd) true) r tn sd Etau eq_refl).
           cbn [nev tau_of v_fv]. rewrite merge_y_eq, merge_tau_eq.
           rewrite xm_after_same by apply update_nth_length.
           rewrite (update_nth_at (merge_row fv sd) _ _ _ Hr).
           unfold merge_row at 1. rewrite Etau.
           (* the returned value is the merged Y *)
           unfold record_with, merge_index in R. cbn [negb] in R. rewrite E1 in R.
           unfold count_if in R. rewrite E2, F in R. inversion R as [Hy]. clear R.
           rewrite nth_error_update_nth, Hr, Nat.eqb_refl. cbn [option_map]. unfold merge_row. rewrite Etau. cbn [r_y].
           reflexivity.
      * (* new record with an SD *)
        rewrite (run_new s xm x xo fv (Some sd) true (Some FSd) (Some (qinv2 sd))) by reflexivity.
        unfold record, record_with. cbn [negb]. rewrite E1. cbn [fst snd rows cap].
        unfold xm_after. cbn [rows cap]. rewrite app_length. cbn [List.length].
        replace (List.length (rows s) <? List.length (rows s) + 1)%nat with true by (symmetry; apply Nat.ltb_lt; lia).
        reflexivity.
    + (* no SD: always a new record *)
      rewrite (run_new s xm x xo fv None true None None) by reflexivity.
      unfold record, record_with. cbn [negb fst snd rows cap].
      unfold xm_after. cbn [rows cap]. rewrite app_length. cbn [List.length].
      replace (List.length (rows s) <? List.length (rows s) + 1)%nat with true by (symmetry; apply Nat.ltb_lt; lia).
      reflexivity.
  - (* not recorded *)
    cbn [cev mrows mrange rows_in mpred v_s v_x].
    rewrite (find_last_existsb (px x) (rows s)).
    destruct (find_last (px x) (rows s) 0 None) as [i|] eqn:F.
    + destruct (find_last_nth _ _ _ F) as (r & Hr & Hp).
      unfold record. rewrite (rec_skip_hit s x xo fv fsd i F). cbn [fst snd].
      cbn [run_rprog ixev mrows mrange rows_in mpred v_s v_x v_xm v_fsd]. rewrite F, Hr.
      cbn [fevq fev nev v_fv].
      rewrite xm_after_same by apply update_nth_length.
      rewrite (update_nth_at (fun r => mkRow (r_xo r) (r_x r) (r_yo r) (r_y r) (r_tau r) (r_n r + 1)) _ _ _ Hr).
      reflexivity.
    + unfold record. rewrite (rec_skip_miss s x xo fv fsd F). cbn [fst snd].
      cbn [run_rprog fevq fev v_fv v_s v_xm v_fsd].
      unfold xm_after. rewrite Nat.ltb_irrefl. reflexivity.
Qed.

(* ================================================================== *)
(* 4. the generated programs ARE the hand-written ones                 *)
(* ================================================================== *)
Lemma src_record_is_model : src_record = model_record.
Proof. reflexivity. Qed.
Lemma src_call_is_model : src_call_events = model_call_events.
Proof. reflexivity. Qed.
Lemma src_add_is_model : src_add_events = model_add_events.
Proof. reflexivity. Qed.
Lemma src_tables_are_model :
  src_init_fills = model_fills /\ src_expand_fills = model_fills /\ src_expand_amount = model_expand_amount /\
  src_finalize_cut = model_finalize_cut /\ src_init_counters = model_init_counters.
Proof. repeat split; reflexivity. Qed.

(* ---- C12_record_is_source ---- *)
Definition ext_of (s : lstate) (xm : Z) : LoggerExtent.ext :=
  LoggerExtent.mkExt (Z.of_nat (List.length (rows s)) - 1) xm (cap s).
Definition grew (s s' : lstate) : bool := (List.length (rows s) <? List.length (rows s'))%nat.

Lemma record_new_or_same s x xo fv fsd rp :
  let s' := fst (record s x xo fv fsd rp) in
  (grew s s' = false /\ cap s' = cap s /\ List.length (rows s') = List.length (rows s)) \/
  (grew s s' = true /\ List.length (rows s') = S (List.length (rows s)) /\
   cap s' = (let n := Z.of_nat (List.length (rows s)) in if n >? cap s - 1 then cap s + Z.max (ceil_half n) 1 else cap s)).
Proof.
  cbv zeta. unfold grew, record, record_with.
  destruct rp; cbn [negb].
  - destruct fsd as [sd|].
    + destruct (existsb (px x) (rows s)) eqn:E1.
      * destruct ((1 <? count_if (px x) (rows s))%nat) eqn:E2.
        -- left. cbn [fst]. rewrite Nat.ltb_irrefl. auto.
        -- destruct (merge_index x (rows s)) as [i|]; cbn [fst rows cap].
           ++ left. rewrite update_nth_length, Nat.ltb_irrefl. auto.
           ++ right. rewrite app_length. cbn [List.length]. split; [apply Nat.ltb_lt; lia|]. split; [lia | reflexivity].
      * right. cbn [fst rows cap]. rewrite app_length. cbn [List.length]. split; [apply Nat.ltb_lt; lia|]. split; [lia | reflexivity].
    + right. cbn [fst rows cap]. rewrite app_length. cbn [List.length]. split; [apply Nat.ltb_lt; lia|]. split; [lia | reflexivity].
  - destruct (find_last (px x) (rows s) 0 None); cbn [fst rows cap]; left.
    + rewrite update_nth_length, Nat.ltb_irrefl. auto.
    + rewrite Nat.ltb_irrefl. auto.
Qed.

Lemma ceil_half_growth n : Z.max (ceil_half n) 1 = LoggerExtent.growth n.
Proof. reflexivity. Qed.

Lemma record_is_source s xm x xo fv fsd rp :
  merge_defined s x fsd ->
  exists xm',
    run_record src_record s xm x xo fv fsd rp = Some (fst (record s x xo fv fsd rp), xm', snd (record s x xo fv fsd rp)) /\
    ext_of (fst (record s x xo fv fsd rp)) xm' =
    LoggerExtent.ext_step (ext_of s xm) (grew s (fst (record s x xo fv fsd rp))).
Proof.
  intros MD. rewrite src_record_is_model. eexists. split; [apply run_model_record; exact MD|].
  destruct (record_new_or_same s x xo fv fsd rp) as [(G & C & L) | (G & L & C)]; cbv zeta in *.
  - unfold xm_after. fold (grew s (fst (record s x xo fv fsd rp))). rewrite G.
    unfold LoggerExtent.ext_step, ext_of. rewrite C, L. reflexivity.
  - unfold xm_after. fold (grew s (fst (record s x xo fv fsd rp))). rewrite G.
    unfold LoggerExtent.ext_step, LoggerExtent.new_record, ext_of. cbn [LoggerExtent.xn LoggerExtent.xmax LoggerExtent.cap].
    rewrite C, L. rewrite Nat2Z.inj_succ.
    replace (Z.of_nat (List.length (rows s)) - 1 + 1) with (Z.of_nat (List.length (rows s))) by lia.
    replace (Z.succ (Z.of_nat (List.length (rows s))) - 1) with (Z.of_nat (List.length (rows s))) by lia.
    rewrite ceil_half_growth. rewrite Z.gtb_ltb. reflexivity.
Qed.

(* ---- C12_merge_formula_is_source: the RUpd leaf of the merge path, semantically ---- *)
Fixpoint upd_leaves (p : rprog) : list (ixexpr * option fexpr * option fexpr * option nexpr * fexpr) :=
  match p with
  | RIf _ a b => upd_leaves a ++ upd_leaves b
  | RUpd i y s n v => [(i, y, s, n, v)]
  | _ => []
  end.
Fixpoint new_leaves (p : rprog) : list (zexpr * zexpr * zexpr * zexpr * zexpr) :=
  match p with
  | RIf _ a b => new_leaves a ++ new_leaves b
  | RNew at_ _ _ _ _ _ _ xn' cap' xmax' _ ri => [(at_, xn', cap', xmax', ri)]
  | _ => []
  end.

Lemma merge_formula_is_source :
  exists ey es en,
    upd_leaves src_record =
      [(IFirst (MRows RAll), Some ey, Some es, Some en, ey); (ILast (MRows RAll), None, None, Some en, FVal)] /\
    forall v r tn sd, r_tau r = Some tn -> v_fsd v = Some sd ->
      let r' := merge_row (v_fv v) sd r in
      fevq v (Some r) ey = Some (r_y r') /\
      option_map tau_of (fev v (Some r) es) = Some (match r_tau r' with Some t => t | None => 0%Q end) /\
      nev (Some r) en = Some (r_n r').
Proof.
  exists e_merge_y, e_merge_s, (NAdd NOld (NC 1)). split; [reflexivity|].
  intros v r tn sd Ht Hs. cbv zeta. unfold merge_row. rewrite Ht. cbn [r_y r_tau r_n].
  unfold fevq. rewrite (fev_merge_y v r tn sd Ht Hs), (fev_merge_s v r tn sd Ht Hs).
  cbn [option_map tau_of nev]. rewrite merge_y_eq, merge_tau_eq. auto.
Qed.

(* ---- C12_growth_is_source ---- *)
Lemma growth_is_source :
  List.length (new_leaves src_record) = 2%nat /\
  (forall l, In l (new_leaves src_record) -> forall e : LoggerExtent.ext,
     let '(at_, xn', cap', xmax', ri) := l in
     let ev := zeval (LoggerExtent.xn e) (LoggerExtent.cap e) (LoggerExtent.xmax e) in
     LoggerExtent.mkExt (ev xn') (ev xmax') (ev cap') = LoggerExtent.new_record e /\ ev at_ = ev xn' /\ ev ri = ev xn') /\
  (forall n cp xm, zeval n cp xm src_expand_amount = LoggerExtent.growth n) /\
  (forall n cp xm, zeval n cp xm src_finalize_cut = n + 1) /\
  src_init_fills = model_fills /\ src_expand_fills = model_fills /\ src_init_counters = model_init_counters.
Proof.
  split; [reflexivity|]. split.
  - intros l Hl e. cbn in Hl.
    assert (K : forall e : LoggerExtent.ext,
      let ev := zeval (LoggerExtent.xn e) (LoggerExtent.cap e) (LoggerExtent.xmax e) in
      LoggerExtent.mkExt (ev z_xn1) (ev (ZMin (ZAdd ZXmax (ZC 1)) z_cap')) (ev z_cap') = LoggerExtent.new_record e).
    { intros e0. cbv zeta. unfold z_cap', z_xn1, LoggerExtent.new_record. cbn [zeval].
      rewrite ceil_half_growth, Z.gtb_ltb. reflexivity. }
    destruct Hl as [<- | [<- | []]]; (split; [apply K | split; reflexivity]).
  - repeat split; reflexivity.
Qed.

(* ================================================================== *)
(* 5. the validity tests                                               *)
(* ================================================================== *)
Lemma checks_are_model : checks_of src_call_events = [ck_pair; ck_value; ck_sd_call] /\ checks_of src_add_events = [ck_value; ck_sd_add].
Proof. split; reflexivity. Qed.

Lemma value_checks_classify he res : forall noise,
  checks_outcome (checks_of src_call_events) noise he res = classify_call he res.
Proof.
  intros noise. rewrite (proj1 checks_are_model). unfold checks_outcome, classify_call.
  destruct he.
  - destruct res as [x | | | | a b]; try reflexivity.
    destruct a as [xa | | | | a1 a2]; try reflexivity.
    destruct xa as [qa | | |]; try reflexivity.
    destruct b as [xb | | | | b1 b2]; try reflexivity.
    destruct xb as [qb | | |]; try reflexivity.
    cbn [run_checks flag_ev vc_guard vc_disj vc_exn vc_tag ck_pair ck_value ck_sd_call disj_ev vtest_ev tri_of xisfinite negb xle].
    destruct (Qle_bool qb 0); reflexivity.
  - destruct res as [x | | | | a b]; try reflexivity.
    destruct x as [q | | |]; reflexivity.
Qed.

(* the generic step with every piece generated = the model's step (with X_max_idx following the extent rule) *)
Lemma sd_checks_call s y sd :
  run_checks [ck_pair; ck_value; ck_sd_call] (noise_flag s) (he_flag s)
             (if he_flag s then PPair (pq y) (psd sd) else pq y) (pq y) (psd (if he_flag s then sd else None)) =
  if he_flag s then (if sd_ok sd then None else Some ("ValueError"%string, "InvalidNoiseValue"%string)) else None.
Proof.
  destruct (he_flag s).
  - destruct sd as [q|]; cbn [run_checks flag_ev vc_guard vc_disj vc_exn vc_tag ck_pair ck_value ck_sd_call disj_ev vtest_ev tri_of xisfinite negb xle psd pq sd_ok].
    + destruct (Qle_bool q 0); reflexivity.
    + reflexivity.
  - reflexivity.
Qed.

Lemma sd_checks_add s y fsd : (noise_flag s = false -> fsd = None) -> (noise_flag s = true -> fsd <> None) ->
  run_checks [ck_value; ck_sd_add] (noise_flag s) (he_flag s) PNone (pq y) (psd fsd) =
  if noise_flag s && negb (sd_ok fsd) then Some ("ValueError"%string, "InvalidNoiseValue"%string) else None.
Proof.
  intros H0 H1. destruct (noise_flag s).
  - destruct fsd as [q|]; [|exfalso; apply H1; reflexivity].
    cbn [run_checks flag_ev vc_guard vc_disj vc_exn vc_tag ck_value ck_sd_add disj_ev vtest_ev tri_of xisfinite negb xle psd pq sd_ok andb].
    destruct (Qle_bool q 0); reflexivity.
  - rewrite H0 by reflexivity. reflexivity.
Qed.

Definition op_merge_defined (s : lstate) (o : op) : Prop :=
  match o with
  | Call x _ (OkVal _ sd) _ => merge_defined s x (if he_flag s then sd else None)
  | Add x _ _ sd => merge_defined s x (if noise_flag s then (match sd with Some q => Some q | None => Some 1%Q end) else None)
  | _ => True
  end.

Lemma merge_defined_counters s x fsd f :
  (rows (f s) = rows s) -> merge_defined s x fsd -> merge_defined (f s) x fsd.
Proof. intros H MD K r Hin. rewrite H in Hin. apply MD; assumption. Qed.

Lemma record_counters_fc s x xo fv fsd rp :
  record (bump_fc s) x xo fv fsd rp = (let '(s', r) := record s x xo fv fsd rp in (bump_fc s', r)).
Proof.
  unfold record, record_with, bump_fc. cbn [rows cap func_count cache_count noise_flag he_flag].
  destruct rp; cbn [negb].
  - destruct fsd as [sd|]; [|reflexivity].
    destruct (existsb (px x) (rows s)); [|reflexivity].
    destruct ((1 <? count_if (px x) (rows s))%nat); [reflexivity|].
    destruct (merge_index x (rows s)); reflexivity.
  - destruct (find_last (px x) (rows s) 0 None); reflexivity.
Qed.

Lemma step_is_source s xm o :
  op_merge_defined s o ->
  exists xm',
    step_gen src_record src_call_events src_add_events (s, xm) o = Some (fst (step s o), xm', snd (step s o)) /\
    ext_of (fst (step s o)) xm' =
    match o with
    | Finalize => LoggerExtent.mkExt (Z.of_nat (List.length (rows s)) - 1) xm (Z.of_nat (List.length (rows s)))
    | _ => LoggerExtent.ext_step (ext_of s xm) (grew s (fst (step s o)))
    end.
Proof.
  intros MD. unfold step_gen. rewrite src_call_is_model, src_add_is_model.
  change (checks_of model_call_events) with [ck_pair; ck_value; ck_sd_call].
  change (checks_of model_add_events) with [ck_value; ck_sd_add].
  change (count_after_record is_countf model_call_events) with true.
  change (count_after_record is_countc model_add_events) with false.
  change (default_of model_add_events) with (Some (GNoise, 1%Q)).
  destruct o as [x xo oc rp | x xo y sd |].
  - destruct oc as [y sd | e | k].
    + rewrite sd_checks_call. unfold step, step_with. cbn [op_merge_defined] in MD.
      assert (NOEXN : forall fsd, merge_defined s x fsd ->
        exists xm',
          match run_record src_record s xm x xo y fsd rp with
          | Some (s', xm'0, r) => match r with Exn _ => Some (s, xm, r) | _ => Some (bump_fc s', xm'0, r) end
          | None => None
          end =
          Some (fst (let '(s', r) := record_with merge_index s x xo y fsd rp in match r with Exn _ => (s, r) | _ => (bump_fc s', r) end),
                xm',
                snd (let '(s', r) := record_with merge_index s x xo y fsd rp in match r with Exn _ => (s, r) | _ => (bump_fc s', r) end)) /\
          ext_of (fst (let '(s', r) := record_with merge_index s x xo y fsd rp in match r with Exn _ => (s, r) | _ => (bump_fc s', r) end)) xm' =
          LoggerExtent.ext_step (ext_of s xm)
            (grew s (fst (let '(s', r) := record_with merge_index s x xo y fsd rp in match r with Exn _ => (s, r) | _ => (bump_fc s', r) end)))).
      { intros fsd MDf. destruct (record_is_source s xm x xo y fsd rp MDf) as (xm' & R & E).
        rewrite R. unfold record in *. destruct (record_with merge_index s x xo y fsd rp) as [s' r] eqn:RW. cbn [fst snd] in *.
        destruct r as [v f i | c |].
        - exists xm'. split; [reflexivity|]. cbn [fst]. exact E.
        - exists xm. split; [reflexivity|]. cbn [fst]. unfold grew. rewrite Nat.ltb_irrefl. reflexivity.
        - exists xm'. split; [reflexivity|]. cbn [fst]. exact E. }
      destruct (he_flag s) eqn:HE.
      * destruct (sd_ok sd) eqn:OK.
        -- apply NOEXN. exact MD.
        -- exists xm. split; [reflexivity|]. cbn [fst]. unfold grew. rewrite Nat.ltb_irrefl. reflexivity.
      * apply NOEXN. exact MD.
    + exists xm. split; [reflexivity|]. cbn [step step_with fst]. unfold grew. rewrite Nat.ltb_irrefl. reflexivity.
    + exists xm. split; [reflexivity|]. cbn [step step_with fst]. unfold grew. rewrite Nat.ltb_irrefl. reflexivity.
  - cbn [flag_ev]. cbn [op_merge_defined] in MD.
    set (fsd := if noise_flag s then match sd with Some q' => Some q' | None => Some 1%Q end else None) in *.
    rewrite sd_checks_add.
    2:{ intros H. subst fsd. rewrite H. reflexivity. }
    2:{ intros H. subst fsd. rewrite H. destruct sd; discriminate. }
    unfold step, step_with. fold fsd.
    destruct (noise_flag s && negb (sd_ok fsd)) eqn:BAD.
    + exists xm. split; [reflexivity|]. cbn [fst]. unfold grew. rewrite Nat.ltb_irrefl. reflexivity.
    + assert (MD' : merge_defined (bump_cc s) x fsd) by (apply (merge_defined_counters s x fsd bump_cc); [reflexivity | exact MD]).
      destruct (record_is_source (bump_cc s) xm x xo y fsd true MD') as (xm' & R & E).
      rewrite R. unfold record in *.
      destruct (record_with merge_index (bump_cc s) x xo y fsd true) as [s' r] eqn:RW. cbn [fst snd] in *.
      destruct r as [v f i | c |].
      * exists xm'. split; [reflexivity|]. cbn [fst]. exact E.
      * exists xm. split; [reflexivity|]. cbn [fst]. unfold grew, bump_cc. cbn [rows]. rewrite Nat.ltb_irrefl. reflexivity.
      * exists xm'. split; [reflexivity|]. cbn [fst]. exact E.
  - exists xm. split; reflexivity.
Qed.

Lemma call_add_are_source : src_call_events = model_call_events /\ src_add_events = model_add_events.
Proof. exact (conj src_call_is_model src_add_is_model). Qed.

Lemma value_checks_are_source :
  checks_of src_call_events = [ck_pair; ck_value; ck_sd_call] /\ checks_of src_add_events = [ck_value; ck_sd_add] /\
  (forall (noise he : bool) (res : pyval), checks_outcome (checks_of src_call_events) noise he res = classify_call he res) /\
  count_after_record is_countf src_call_events = true.
Proof.
  exact (conj (proj1 checks_are_model) (conj (proj2 checks_are_model)
          (conj (fun noise he res => value_checks_classify he res noise) eq_refl))).
Qed.

(* non-vacuity: a state with a merged row, the merge of a further observation runs through the generated program *)
Lemma source_example :
  let s := fst (run_with merge_index (init_logger 1 true true)
                  [Call [1#1; 2#1] [1#1; 2#1] (OkVal (3#1) (Some (1#1))) true; Call [3#1; 2#1] [3#1; 2#1] (OkVal (5#1) (Some (1#1))) true]) in
  merge_defined s [1#1; 2#1] (Some (1#2)) /\
  exists s' xm', run_record src_record s 1 [1#1; 2#1] [1#1; 2#1] (4#1) (Some (1#2)) true = Some (s', xm', Ret (19#5) (Some (1#2)) (Some 0%nat)).
Proof.
  cbv zeta. split.
  - intros _ r Hin _. vm_compute in Hin. destruct Hin as [<- | [<- | []]]; discriminate.
  - eexists. eexists. vm_compute. reflexivity.
Qed.
