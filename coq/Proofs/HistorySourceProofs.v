(* HistorySourceProofs.v — the programs regenerated from iteration_history.py / optimize_result.py (gen/Src_history.v) are the
   hand-written programs of Model/HistorySrc.v (closed data, by conversion), and those run exactly as Model/History.v's
   do_setitem / do_record / do_record_all / init_history / rstep for ALL states and arguments. *)
From Coq Require Import ZArith List String Bool Lia.
From PV Require Import Model.Val Model.History Model.HistoryTie Model.HistorySrc.
From PV Require Import gen.Src_history.
Import ListNotations.
Open Scope string_scope.
Open Scope Z_scope.

(* ------------------------------------------------------------------ source = hand-written programs *)

Lemma src_history_eq : src_history = model_history.
Proof. reflexivity. Qed.

Lemma src_result_eq : src_result = model_result.
Proof. reflexivity. Qed.

(* ------------------------------------------------------------------ dict lemmas *)

Lemma put_present : forall {A} k (a b : A) l, lookup k l = Some a -> put k b l = upd k b l.
Proof. intros A k a b l H. unfold put. rewrite H. reflexivity. Qed.

Lemma lookup_upd_same : forall {A} k (a b : A) l, lookup k l = Some a -> lookup k (upd k b l) = Some b.
Proof.
  intros A k a b l. induction l as [|[k' a'] r IH]; cbn [lookup upd]; intro H.
  - discriminate.
  - destruct (String.eqb k k') eqn:E; cbn [lookup]; rewrite E; auto.
Qed.

Lemma upd_upd : forall {A} k (b c : A) l, upd k c (upd k b l) = upd k c l.
Proof.
  intros A k b c l. induction l as [|[k' a'] r IH]; cbn [upd].
  - reflexivity.
  - destruct (String.eqb k k') eqn:E; cbn [upd]; rewrite E; [reflexivity | rewrite IH; reflexivity].
Qed.

Lemma copy_cells_length : forall cs memo n, List.length (fst (copy_cells memo n cs)) = List.length cs.
Proof.
  induction cs as [|c r IH]; intros memo n; cbn [copy_cells].
  - reflexivity.
  - destruct c as [v|].
    + destruct (copy_val memo n v) as [v' [memo' n1]].
      specialize (IH memo' n1). destruct (copy_cells memo' n1 r) as [r' n']. cbn [fst] in *. cbn [List.length]. lia.
    + specialize (IH memo n). destruct (copy_cells memo n r) as [r' n']. cbn [fst] in *. cbn [List.length]. lia.
Qed.

(* ------------------------------------------------------------------ __setitem__ *)

Definition G (s : hstate) : gstate := mkG s (Some true).

Lemma run_setitem_model : forall s k v,
  run_setitem model_history (G s) k v = (G (fst (do_setitem s k v)), match snd (do_setitem s k v) with Err c => Raised c | _ => Normal end).
Proof.
  intros s k v. unfold run_setitem, do_setitem, G.
  cbn [p_setitem model_history model_setitem exec_block exec ceval g_check g_h e_key].
  destruct (lookup k (items s)) as [st|] eqn:L; cbn [negb].
  - cbn [exec_block exec aeval e_src g_h e_key with_h g_check dict_set_copy].
    destruct v as [|cs|p]; cbn [dict_set_copy].
    + rewrite (put_present k st _ _ L). reflexivity.
    + destruct (copy_cells [] (S (next s)) cs) as [cs' n']. rewrite (put_present k st _ _ L). reflexivity.
    + rewrite (put_present k st _ _ L). reflexivity.
  - reflexivity.
Qed.

(* a present key: what self[key] = v does *)
Lemma run_setitem_arr : forall s k st cs,
  lookup k (items s) = Some st ->
  run_setitem model_history (G s) k (SrcArr cs) =
  (G (mkH (upd k (SArr (next s) (fst (copy_cells [] (S (next s)) cs))) (items s)) (snd (copy_cells [] (S (next s)) cs))), Normal).
Proof.
  intros s k st cs L. rewrite run_setitem_model. unfold do_setitem. rewrite L.
  destruct (copy_cells [] (S (next s)) cs) as [cs' n']. reflexivity.
Qed.

(* ------------------------------------------------------------------ _expand_array *)

Lemma run_expand_model : forall s k a cs z,
  lookup k (items s) = Some (SArr a cs) -> 0 <= z ->
  run_expand model_history (G s) k z =
  (G (mkH (upd k (SArr (next s) (fst (copy_cells [] (S (next s)) (cs ++ repeat None (Z.to_nat z))))) (items s))
          (snd (copy_cells [] (S (next s)) (cs ++ repeat None (Z.to_nat z))))), Normal).
Proof.
  intros s k a cs z L Hz. unfold run_expand.
  cbn [p_expand model_history model_expand exec_block exec aeval zeval g_h G e_key e_amount].
  rewrite L. destruct (z <? 0) eqn:E; [apply Z.ltb_lt in E; lia|].
  cbn [c_setitem]. fold (G s).
  rewrite (run_setitem_arr s k _ _ L). reflexivity.
Qed.

(* ------------------------------------------------------------------ record *)

Local Notation C2 := (mkCalls (run_setitem model_history) (run_expand model_history) stuck_record).
Local Notation E k v i := (mkEnv k SrcNone v i 0).

Lemma exec_block_cons : forall C g e s r,
  exec_block C g e (BCons s r) = match exec C g e s with (g', Normal) => exec_block C g' e r | other => other end.
Proof. reflexivity. Qed.
Lemma exec_block_nil : forall C g e, exec_block C g e BNil = (g, Normal).
Proof. reflexivity. Qed.
Lemma exec_if : forall C g e c a b,
  exec C g e (SIf c a b) =
  match ceval g e c with Exc x => (g, Raised x) | Val true => exec_block C g e a | Val false => exec_block C g e b end.
Proof. reflexivity. Qed.

Lemma upd_same : forall {A} k (a : A) l, lookup k l = Some a -> upd k a l = l.
Proof.
  intros A k a l. induction l as [|[k' a'] r IH]; cbn [lookup upd]; intro H.
  - reflexivity.
  - destruct (String.eqb k k') eqn:E0.
    + injection H as ->. reflexivity.
    + rewrite IH by assumption. reflexivity.
Qed.

Definition st_none : stmt := SIf CSelfIsNone (BCons (SSelfSet (AFullNone (ZLit 1))) BNil) BNil.
Definition st_grow : stmt := SIf (CLe ZLenSelf ZIter) (BCons (SExpand (ZSub (ZAdd ZIter (ZLit 1)) ZLenSelf)) BNil) BNil.
Definition st_store : stmt := SStoreAt ZIter VDeepcopyValue.

Lemma step_none_none : forall s k v i, lookup k (items s) = Some SNone ->
  exec C2 (G s) (E k v i) st_none = (G (mkH (upd k (SArr (next s) [None]) (items s)) (S (next s))), Normal).
Proof.
  intros s k v i L. unfold st_none. rewrite exec_if. cbn [ceval g_h G e_key]. rewrite L.
  rewrite exec_block_cons. cbn [exec aeval zeval g_h G e_key].
  change (1 <? 0) with false. cbv iota. change (Z.to_nat 1) with 1%nat. cbn [repeat c_setitem].
  rewrite (run_setitem_arr s k _ _ L). cbn [copy_cells fst snd]. rewrite exec_block_nil. reflexivity.
Qed.

Lemma step_none_other : forall s k v i st, lookup k (items s) = Some st -> st <> SNone ->
  exec C2 (G s) (E k v i) st_none = (G s, Normal).
Proof.
  intros s k v i st L N. unfold st_none. rewrite exec_if. cbn [ceval g_h G e_key]. rewrite L.
  destruct st; [congruence| |]; rewrite exec_block_nil; reflexivity.
Qed.

Lemma step_grow : forall s k v i a cs, lookup k (items s) = Some (SArr a cs) -> 0 <= i ->
  exec C2 (G s) (E k v i) st_grow =
  (G (let '(a2, cs2, n2) := grow a cs (next s) (Z.to_nat i) in mkH (upd k (SArr a2 cs2) (items s)) n2), Normal).
Proof.
  intros s k v i a cs L Hi. unfold st_grow. rewrite exec_if. cbn [ceval zeval g_h G e_key e_iter]. rewrite L.
  unfold grow.
  destruct (Z.of_nat (List.length cs) <=? i) eqn:E1.
  - apply Z.leb_le in E1.
    assert (En : Nat.leb (List.length cs) (Z.to_nat i) = true) by (apply Nat.leb_le; lia). rewrite En.
    rewrite exec_block_cons. cbn [exec zeval g_h G e_key e_iter c_expand]. rewrite L.
    rewrite (run_expand_model s k _ _ (i + 1 - Z.of_nat (List.length cs)) L) by lia.
    replace (Z.to_nat (i + 1 - Z.of_nat (List.length cs))) with (S (Z.to_nat i) - List.length cs)%nat by lia.
    destruct (copy_cells [] (S (next s)) (cs ++ repeat None (S (Z.to_nat i) - List.length cs))) as [cs2 n2]. cbn [fst snd].
    rewrite exec_block_nil. reflexivity.
  - apply Z.leb_gt in E1.
    assert (En : Nat.leb (List.length cs) (Z.to_nat i) = false) by (apply Nat.leb_gt; lia). rewrite En.
    rewrite exec_block_nil. rewrite (upd_same k _ _ L). destruct s; reflexivity.
Qed.

Lemma step_grow_scalar : forall s k v i p, lookup k (items s) = Some (SScalar p) ->
  exec C2 (G s) (E k v i) st_grow = (G s, Raised "TypeError").
Proof.
  intros s k v i p L. unfold st_grow. rewrite exec_if. cbn [ceval zeval g_h G e_key e_iter]. rewrite L. reflexivity.
Qed.

Lemma grow_len : forall a cs n i a2 cs2 n2, grow a cs n i = (a2, cs2, n2) -> (i < List.length cs2)%nat.
Proof.
  intros a cs n i a2 cs2 n2. unfold grow.
  destruct (Nat.leb (List.length cs) i) eqn:En.
  - apply Nat.leb_le in En.
    pose proof (copy_cells_length (cs ++ repeat None (S i - List.length cs)) [] (S n)) as HL.
    destruct (copy_cells [] (S n) (cs ++ repeat None (S i - List.length cs))) as [cs' n']. cbn [fst] in HL.
    intro H. injection H as _ <- _. rewrite HL, app_length, repeat_length. lia.
  - apply Nat.leb_gt in En. intro H. injection H as _ <- _. lia.
Qed.

Lemma step_store : forall s k a cs i v,
  lookup k (items s) = Some (SArr a cs) -> 0 <= i -> (Z.to_nat i < List.length cs)%nat ->
  exec C2 (G s) (E k v i) st_store =
  (G (mkH (upd k (SArr a (set_nth (Z.to_nat i) (Some (fst (copy1 (next s) v))) cs)) (items s)) (snd (copy1 (next s) v))), Normal).
Proof.
  intros s k a cs i v L Hi Hlen. unfold st_store.
  cbn [exec e_value e_key g_h G zeval e_iter].
  destruct (copy1 (next s) v) as [v' n'] eqn:C. rewrite L.
  destruct (i <? 0) eqn:E1; [apply Z.ltb_lt in E1; lia|].
  destruct (Z.of_nat (List.length cs) <=? i) eqn:E2; [apply Z.leb_le in E2; lia|].
  reflexivity.
Qed.

(* the three statements after the two guards, on a key that holds None or an array *)
Lemma record_tail : forall s k v i st a1 cs1 n1,
  lookup k (items s) = Some st -> 0 <= i -> ensure_array (next s) st = Some (a1, cs1, n1) ->
  exec_block C2 (G s) (E k v i) (BCons st_none (BCons st_grow (BCons st_store BNil))) =
  (let '(a2, cs2, n2) := grow a1 cs1 n1 (Z.to_nat i) in
   let (v', n3) := copy1 n2 v in
   (G (mkH (upd k (SArr a2 (set_nth (Z.to_nat i) (Some v') cs2)) (items s)) n3), Normal)).
Proof.
  intros s k v i st a1 cs1 n1 L Hi EA.
  assert (exists s1, exec C2 (G s) (E k v i) st_none = (G s1, Normal) /\ lookup k (items s1) = Some (SArr a1 cs1) /\ next s1 = n1 /\
                     forall x, upd k x (items s1) = upd k x (items s)) as [s1 [X1 [L1 [N1 U1]]]].
  { destruct st as [|a cs|p]; cbn [ensure_array] in EA; [| |discriminate]; injection EA as <- <- <-.
    - eexists. split; [apply (step_none_none s k v i L)|]. cbn [items next].
      split; [apply (lookup_upd_same k SNone _ _ L)|]. split; [reflexivity|]. intro x. apply upd_upd.
    - exists s. split; [apply (step_none_other s k v i _ L); discriminate|]. auto. }
  rewrite exec_block_cons, X1.
  rewrite exec_block_cons, (step_grow s1 k v i a1 cs1 L1 Hi). rewrite N1.
  destruct (grow a1 cs1 n1 (Z.to_nat i)) as [[a2 cs2] n2] eqn:GR.
  pose proof (grow_len _ _ _ _ _ _ _ GR) as Hlen.
  set (s2 := mkH (upd k (SArr a2 cs2) (items s1)) n2).
  assert (L2 : lookup k (items s2) = Some (SArr a2 cs2)) by (apply (lookup_upd_same k (SArr a1 cs1) _ _ L1)).
  rewrite exec_block_cons, (step_store s2 k a2 cs2 i v L2 Hi Hlen). cbn [next s2 items].
  destruct (copy1 n2 v) as [v' n3]. cbn [fst snd]. rewrite exec_block_nil, upd_upd, U1. reflexivity.
Qed.

Definition of_result (r : result) : outcome := match r with Err c => Raised c | _ => Normal end.

Lemma run_record_model : forall s k v i,
  run_record model_history (G s) k v i = (G (fst (do_record s k v i)), of_result (snd (do_record s k v i))).
Proof.
  intros s k v i. unfold run_record, do_record.
  cbn [p_record model_history]. unfold model_record.
  rewrite exec_block_cons, exec_if. cbn [ceval zeval g_h G e_iter e_key].
  destruct (i <? 0) eqn:Ei; [reflexivity|].
  apply Z.ltb_ge in Ei.
  rewrite exec_block_cons, exec_if. cbn [ceval zeval g_h G e_iter e_key].
  destruct (lookup k (items s)) as [st|] eqn:L; cbn [negb]; [|reflexivity].
  fold st_none st_grow st_store.
  destruct (ensure_array (next s) st) as [[[a1 cs1] n1]|] eqn:EA.
  - rewrite (record_tail s k v i st a1 cs1 n1 L Ei EA).
    destruct (grow a1 cs1 n1 (Z.to_nat i)) as [[a2 cs2] n2]. destruct (copy1 n2 v) as [v' n3].
    rewrite !exec_block_nil. reflexivity.
  - destruct st as [|a cs|p]; cbn [ensure_array] in EA; try discriminate.
    rewrite exec_block_cons, (step_none_other s k v i _ L) by discriminate.
    rewrite exec_block_cons, (step_grow_scalar s k v i p L). reflexivity.
Qed.

(* ------------------------------------------------------------------ record_iteration *)

Lemma do_record_res : forall s k v i, snd (do_record s k v i) = Ok \/ exists c, snd (do_record s k v i) = Err c.
Proof.
  intros s k v i. unfold do_record.
  destruct (i <? 0); [right; eexists; reflexivity|].
  destruct (lookup k (items s)) as [st|]; [|right; eexists; reflexivity].
  destruct (ensure_array (next s) st) as [[[a1 cs1] n1]|]; [|right; eexists; reflexivity].
  destruct (grow a1 cs1 n1 (Z.to_nat i)) as [[a2 cs2] n2]. destruct (copy1 n2 v) as [v' n3]. left. reflexivity.
Qed.

Lemma run_for_model : forall kvs s i,
  run_for (all_calls model_history) (G s) i
    (BCons (SIf (CNot CKeyIn) (BCons (SRaise "ValueError") BNil) (BCons SRecord BNil)) BNil) kvs =
  (G (fst (do_record_all s kvs i)), of_result (snd (do_record_all s kvs i))).
Proof.
  induction kvs as [|[k v] r IH]; intros s i; cbn [run_for do_record_all].
  - reflexivity.
  - cbn [exec_block exec ceval g_h G e_key].
    destruct (lookup k (items s)) as [st|] eqn:L; cbn [negb]; [|reflexivity].
    cbn [exec_block exec all_calls c_record e_key e_value e_iter]. fold (G s).
    rewrite run_record_model.
    destruct (do_record s k v i) as [s' res] eqn:E. cbn [fst snd].
    destruct res as [|c|st']; cbn [fst snd]; try reflexivity.
    + apply IH.
    + exfalso. destruct (do_record_res s k v i) as [H|[c H]]; rewrite E in H; cbn [snd] in H; discriminate.
Qed.

Lemma do_setitem_res : forall s k v, snd (do_setitem s k v) = Ok \/ exists c, snd (do_setitem s k v) = Err c.
Proof.
  intros s k v. unfold do_setitem. destruct (lookup k (items s)); [|right; eexists; reflexivity].
  destruct v as [|cs|p]; try (left; reflexivity).
  destruct (copy_cells [] (S (next s)) cs). left. reflexivity.
Qed.

Lemma do_record_all_res : forall kvs s i, snd (do_record_all s kvs i) = Ok \/ exists c, snd (do_record_all s kvs i) = Err c.
Proof.
  induction kvs as [|[k v] r IH]; intros s i; cbn [do_record_all].
  - left. reflexivity.
  - destruct (lookup k (items s)); [|right; eexists; reflexivity].
    destruct (do_record s k v i) as [s' res] eqn:E0.
    destruct res as [|c|st']; cbn [snd].
    + apply IH.
    + right. eexists. reflexivity.
    + exfalso. destruct (do_record_res s k v i) as [H|[c H]]; rewrite E0 in H; cbn [snd] in H; discriminate.
Qed.

Lemma to_of_result : forall r, (r = Ok \/ exists c, r = Err c) -> to_result (of_result r) = r.
Proof. intros r [->|[c ->]]; reflexivity. Qed.

Lemma run_record_iteration_model : forall s kvs i,
  run_record_iteration model_history (G s) kvs i =
  (G (fst (step s (RecordIteration kvs i))), of_result (snd (step s (RecordIteration kvs i)))).
Proof.
  intros s kvs i. unfold run_record_iteration. cbn [p_record_iteration model_history step]. unfold model_record_iteration.
  cbn [run_lstmts]. rewrite exec_if. cbn [ceval zeval e_iter].
  destruct (i <? 0).
  - reflexivity.
  - rewrite exec_block_nil. rewrite run_for_model.
    destruct (do_record_all s kvs i) as [s' res]. cbn [fst snd].
    destruct res; reflexivity.
Qed.

(* ------------------------------------------------------------------ one op; __init__ *)

Theorem history_step_is_source : forall s o,
  step_gen src_history (G s) o = (G (fst (step s o)), snd (step s o)).
Proof.
  intros s o. rewrite src_history_eq. destruct o as [k v|k v i|kvs i|k|k|id p]; cbn [step_gen].
  - rewrite run_setitem_model. fold (of_result (snd (do_setitem s k v))).
    rewrite (to_of_result _ (do_setitem_res s k v)). reflexivity.
  - rewrite run_record_model. rewrite (to_of_result _ (do_record_res s k v i)). reflexivity.
  - rewrite run_record_iteration_model. rewrite to_of_result; [reflexivity|].
    cbn [step]. destruct (i <? 0); [right; eexists; reflexivity | apply do_record_all_res].
  - cbn [g_h G]. destruct (step s (Get k)). reflexivity.
  - cbn [g_h G]. destruct (step s (Del k)). reflexivity.
  - cbn [g_h G]. destruct (step s (Mutate id p)). reflexivity.
Qed.

Theorem record_is_source : forall s k v i,
  run_record src_history (G s) k v i = (G (fst (do_record s k v i)), of_result (snd (do_record s k v i))).
Proof. intros. rewrite src_history_eq. apply run_record_model. Qed.

Theorem setitem_is_source : forall s k v,
  run_setitem src_history (G s) k v = (G (fst (do_setitem s k v)), of_result (snd (do_setitem s k v))).
Proof. intros. rewrite src_history_eq. apply run_setitem_model. Qed.

Lemma init_loop : forall keys l n,
  run_for (all_calls model_history) (mkG (mkH l n) (Some false)) 0 (BCons (SSelfSet ANone) BNil) (map (fun k => (k, no_value)) keys) =
  (mkG (mkH (fold_left (fun l k => put k SNone l) keys l) n) (Some false), Normal).
Proof.
  induction keys as [|k r IH]; intros l n; cbn [map run_for fold_left].
  - reflexivity.
  - rewrite exec_block_cons. cbn [exec aeval g_h e_key all_calls c_setitem].
    unfold run_setitem at 1. cbn [p_setitem model_history]. unfold model_setitem.
    rewrite exec_block_cons, exec_if. cbn [ceval g_check].
    rewrite exec_block_cons. cbn [exec aeval e_src g_h e_key with_h g_check dict_set_copy items next].
    rewrite !exec_block_nil. apply IH.
Qed.

Theorem history_init_is_source : forall keys, run_init src_history keys = (G (init_history keys), Normal).
Proof.
  intros keys. rewrite src_history_eq. unfold run_init. cbn [p_init model_history]. unfold model_init.
  cbn [run_lstmts g_h]. rewrite init_loop. reflexivity.
Qed.

(* ------------------------------------------------------------------ OptimizeResult *)

Theorem result_step_is_source : forall s o, rstep_gen src_result s o = rstep s o.
Proof.
  intros s o. rewrite src_result_eq. destruct o as [k v|k|k|k|id p]; cbn [rstep_gen]; try reflexivity.
  - unfold run_rsetitem. cbn [rp_keys rp_setitem model_result]. unfold model_rsetitem.
    cbn [rexec_block rexec rceval rstep].
    destruct (mem_str k result_keys); cbn [negb].
    + cbn [rexec_block rexec]. destruct (copy1 (rnext s) v) as [v' n']. reflexivity.
    + reflexivity.
Qed.

Theorem result_setitem_is_source : forall s k v,
  rp_keys src_result = result_keys /\
  run_rsetitem src_result s k v =
  (if mem_str k result_keys
   then let (v', n') := copy1 (rnext s) v in (mkR (put k v' (ritems s)) n', Normal)
   else (s, Raised "ValueError")) /\
  (fst (run_rsetitem src_result s k v), to_rresult (snd (run_rsetitem src_result s k v))) = rstep s (RSet k v).
Proof.
  intros s k v. split; [reflexivity|]. split.
  - rewrite src_result_eq. unfold run_rsetitem. cbn [rp_keys rp_setitem model_result]. unfold model_rsetitem.
    cbn [rexec_block rexec rceval].
    destruct (mem_str k result_keys); cbn [negb]; [|reflexivity].
    cbn [rexec_block rexec]. destruct (copy1 (rnext s) v) as [v' n']. reflexivity.
  - pose proof (result_step_is_source s (RSet k v)) as H. cbn [rstep_gen] in H.
    destruct (run_rsetitem src_result s k v) as [s' r]. exact H.
Qed.

(* non-vacuity: a growth with a gap, then a rejected key, through the GENERATED programs *)
Example source_example :
  exists g, run_init src_history ["a"; "b"] = (g, Normal) /\
    let (g1, r1) := step_gen src_history g (Record "a" (mkV (VZ 7) (Ext 0)) 2) in
    r1 = Ok /\ cells_of (g_h g1) "a" = Some [None; None; Some (mkV (VZ 7) (Own 2))] /\
    snd (step_gen src_history g1 (Record "zz" (mkV (VZ 7) Imm) 0)) = Err "ValueError" /\
    snd (rstep_gen src_result init_result (RSet "nope" (mkV (VZ 1) Imm))) = RErr "ValueError".
Proof. eexists. split; [reflexivity|]. vm_compute. repeat split. Qed.
