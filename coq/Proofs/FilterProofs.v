(* FilterProofs.v — every proof about Model/Filter.v (model M5 of contraints_check).
   Exported for C01 / C02 / C17 and the skeleton (all for ALL inputs, no length premises):
     filter_in_box, filter_feasible, filter_subset, filter_nodup_keys, filter_nodup,
     filter_distinct_Qeq, filter_sorted, filter_sorted_strict, filter_length_le,
     filter_log_irrelevant, filter_single_survives, filter_fresh_refuted, dedup_rows_redundant. *)
From Coq Require Import ZArith QArith Qround Lia List Bool Sorted Permutation.
From PV Require Import Model.Filter.
Import ListNotations.
Open Scope Z_scope.

(* ------------------------------------------------------------------------------------------ *)
(* Box predicates (Prop side of in_boxb)                                                       *)

Definition lo_le (lo : bnd) (x : Q) : Prop := match lo with Some l => (l <= x)%Q | None => True end.
Definition hi_ge (hi : bnd) (x : Q) : Prop := match hi with Some h => (x <= h)%Q | None => True end.
Definition bnd_le (lo hi : bnd) : Prop :=
  match lo, hi with Some l, Some h => (l <= h)%Q | _, _ => True end.

(* row r lies in the box: lb_i <= r_i <= ub_i for every coordinate (missing bound = infinite) *)
Fixpoint in_box (lb ub : list bnd) (r : qrow) : Prop :=
  match r with
  | [] => True
  | x :: r' => lo_le (hd None lb) x /\ hi_ge (hd None ub) x /\ in_box (tl lb) (tl ub) r'
  end.

(* the box is non-empty: lb_i <= ub_i wherever both are finite *)
Fixpoint box_ok (lb ub : list bnd) : Prop :=
  match lb with
  | [] => True
  | l :: lb' => bnd_le l (hd None ub) /\ box_ok lb' (tl ub)
  end.

Lemma Qle_bool_false : forall x y, Qle_bool x y = false -> (y < x)%Q.
Proof.
  intros x y H. apply Qnot_le_lt. intro L. apply Qle_bool_iff in L. congruence.
Qed.

Lemma clamp1_lo : forall lo hi x, lo_le lo (clamp1 lo hi x).
Proof.
  intros lo hi x. unfold clamp1. destruct lo as [l|]; cbn [lo_le]; auto.
  unfold qmax. destruct (Qle_bool l _) eqn:E.
  - apply Qle_bool_iff; exact E.
  - apply Qle_refl.
Qed.

Lemma clamp1_hi : forall lo hi x, bnd_le lo hi -> hi_ge hi (clamp1 lo hi x).
Proof.
  intros lo hi x. destruct hi as [h|]; cbn [hi_ge]; [|destruct lo; cbn; auto].
  unfold clamp1. destruct lo as [l|]; cbn [bnd_le].
  - intros L. unfold qmax, qmin. destruct (Qle_bool x h) eqn:E1.
    + destruct (Qle_bool l x) eqn:E2; [apply Qle_bool_iff; exact E1 | exact L].
    + destruct (Qle_bool l h) eqn:E2; [apply Qle_refl | exact L].
  - intros _. unfold qmin. destruct (Qle_bool x h) eqn:E1; [apply Qle_bool_iff; exact E1 | apply Qle_refl].
Qed.

Lemma clamp_row_in_box : forall r lb ub, box_ok lb ub -> in_box lb ub (clamp_row lb ub r).
Proof.
  induction r as [|x r IH]; intros lb ub OK; cbn [clamp_row in_box]; auto.
  destruct lb as [|l lb]; cbn [hd tl] in *.
  - split; [exact I|]. split.
    + apply clamp1_hi. cbn. destruct (hd None ub); exact I.
    + apply IH. exact I.
  - destruct OK as [B OK]. split; [apply clamp1_lo|]. split; [apply clamp1_hi; exact B|].
    apply IH; exact OK.
Qed.

Lemma in_boxb_in_box : forall r lb ub, in_boxb lb ub r = true -> in_box lb ub r.
Proof.
  induction r as [|x r IH]; intros lb ub H; cbn [in_boxb in_box] in *; auto.
  apply andb_true_iff in H. destruct H as [H H3]. apply andb_true_iff in H. destruct H as [H1 H2].
  split; [|split].
  - unfold ge_lo in H1. destruct (hd None lb); cbn; auto. apply Qle_bool_iff; exact H1.
  - unfold le_hi in H2. destruct (hd None ub); cbn; auto. apply Qle_bool_iff; exact H2.
  - apply IH; exact H3.
Qed.

Lemma in_box_in_boxb : forall r lb ub, in_box lb ub r -> in_boxb lb ub r = true.
Proof.
  induction r as [|x r IH]; intros lb ub H; cbn [in_boxb in_box] in *; auto.
  destruct H as [H1 [H2 H3]]. rewrite (IH _ _ H3), andb_true_r. apply andb_true_iff. split.
  - unfold ge_lo. destruct (hd None lb); cbn in *; auto. apply Qle_bool_iff; exact H1.
  - unfold le_hi. destruct (hd None ub); cbn in *; auto. apply Qle_bool_iff; exact H2.
Qed.

Lemma clamp_row_length : forall r lb ub, List.length (clamp_row lb ub r) = List.length r.
Proof. induction r as [|x r IH]; intros; cbn [clamp_row List.length]; auto. Qed.

(* a row already in the box is left alone by the projection (coordinates are returned as given) *)
Lemma clamp1_id : forall lo hi x, lo_le lo x -> hi_ge hi x -> clamp1 lo hi x = x.
Proof.
  intros lo hi x L H. unfold clamp1.
  assert (E : match hi with Some h => qmin x h | None => x end = x).
  { destruct hi as [h|]; auto. unfold qmin. cbn in H. apply Qle_bool_iff in H. rewrite H. reflexivity. }
  rewrite E. destruct lo as [l|]; auto. unfold qmax. cbn in L. apply Qle_bool_iff in L. rewrite L. reflexivity.
Qed.

Lemma clamp_row_id : forall r lb ub, in_box lb ub r -> clamp_row lb ub r = r.
Proof.
  induction r as [|x r IH]; intros lb ub H; cbn [clamp_row in_box] in *; auto.
  destruct H as [H1 [H2 H3]]. rewrite clamp1_id, IH; auto.
Qed.

(* ------------------------------------------------------------------------------------------ *)
(* Rounding respects equality of rationals                                                     *)

Lemma Qround_even_comp : forall x y, (x == y)%Q -> Qround_even x = Qround_even y.
Proof.
  intros x y E. unfold Qround_even. rewrite (Qfloor_comp _ _ E).
  assert (E2 : Qcompare (x - inject_Z (Qfloor y)) (1 # 2) = Qcompare (y - inject_Z (Qfloor y)) (1 # 2)).
  { apply Qcompare_comp; [rewrite E; reflexivity | reflexivity]. }
  rewrite E2. reflexivity.
Qed.

Lemma rkey_comp : forall tol a b, Forall2 Qeq a b -> rkey tol a = rkey tol b.
Proof.
  intros tol a b H. induction H as [|x y a b E H IH]; cbn [rkey map]; auto.
  unfold rkey in IH. rewrite IH. f_equal. apply Qround_even_comp. rewrite E. reflexivity.
Qed.

(* the rounded value is a nearest integer: |x - round x| <= 1/2 *)
Lemma Qround_even_near : forall x,
  (inject_Z (Qround_even x) - (1 # 2) <= x)%Q /\ (x <= inject_Z (Qround_even x) + (1 # 2))%Q.
Proof.
  intros x. unfold Qround_even.
  pose proof (Qfloor_le x) as F1. pose proof (Qlt_floor x) as F2.
  set (f := Qfloor x) in *.
  assert (F2' : (x < inject_Z f + 1)%Q).
  { eapply Qlt_le_trans; [exact F2|]. rewrite inject_Z_plus. apply Qle_refl. }
  destruct (Qcompare_spec (x - inject_Z f) (1 # 2)) as [E|L|G].
  - destruct (Z.even f).
    + split.
      * apply Qle_trans with (inject_Z f); [|exact F1].
        apply Qle_minus_iff. ring_simplify. discriminate.
      * apply Qle_minus_iff. rewrite <- E. ring_simplify. discriminate.
    + rewrite inject_Z_plus. split.
      * apply Qle_minus_iff. setoid_replace (x + - (inject_Z f + inject_Z 1 - (1 # 2)))%Q
          with ((x - inject_Z f) - (1 # 2))%Q by ring. rewrite E. discriminate.
      * apply Qlt_le_weak. eapply Qlt_le_trans; [exact F2'|].
        apply Qle_minus_iff. ring_simplify. discriminate.
  - split.
    + apply Qle_trans with (inject_Z f); [|exact F1].
      apply Qle_minus_iff. ring_simplify. discriminate.
    + apply Qlt_le_weak. apply Qlt_minus_iff. apply Qlt_minus_iff in L.
      setoid_replace (inject_Z f + (1 # 2) + - x)%Q with ((1 # 2) + - (x - inject_Z f))%Q by ring. exact L.
  - rewrite inject_Z_plus. split.
    + apply Qlt_le_weak. apply Qlt_minus_iff. apply Qlt_minus_iff in G.
      setoid_replace (x + - (inject_Z f + inject_Z 1 - (1 # 2)))%Q
        with (x - inject_Z f + - (1 # 2))%Q by ring. exact G.
    + apply Qlt_le_weak. eapply Qlt_le_trans; [exact F2'|].
      apply Qle_minus_iff. ring_simplify. discriminate.
Qed.

(* ------------------------------------------------------------------------------------------ *)
(* Lexicographic order on rounded rows                                                         *)

Lemma lex_compare_refl : forall a, lex_compare a a = Eq.
Proof. induction a as [|x a IH]; cbn [lex_compare]; auto. rewrite Z.compare_refl. exact IH. Qed.

Lemma lex_compare_eq : forall a b, lex_compare a b = Eq -> a = b.
Proof.
  induction a as [|x a IH]; intros [|y b] H; cbn [lex_compare] in H; try discriminate; auto.
  destruct (Z.compare_spec x y) as [E|L|G]; try discriminate. subst. f_equal. apply IH; exact H.
Qed.

Lemma lex_compare_antisym : forall a b, lex_compare b a = CompOpp (lex_compare a b).
Proof.
  induction a as [|x a IH]; intros [|y b]; cbn [lex_compare]; auto.
  rewrite (Z.compare_antisym x y). destruct (x ?= y); cbn [CompOpp]; auto.
Qed.

Lemma key_eqb_refl : forall a, key_eqb a a = true.
Proof. intros a. unfold key_eqb. rewrite lex_compare_refl. reflexivity. Qed.

Lemma key_eqb_eq : forall a b, key_eqb a b = true -> a = b.
Proof.
  intros a b H. unfold key_eqb in H. apply lex_compare_eq. destruct (lex_compare a b); auto; discriminate.
Qed.

Lemma key_leb_total : forall a b, key_leb a b = false -> key_leb b a = true.
Proof.
  intros a b H. unfold key_leb in *. rewrite (lex_compare_antisym a b).
  destruct (lex_compare a b); cbn [CompOpp]; auto; discriminate.
Qed.

Lemma key_leb_refl : forall a, key_leb a a = true.
Proof. intros a. unfold key_leb. rewrite lex_compare_refl. reflexivity. Qed.

Lemma lex_le_trans : forall a b c,
  lex_compare a b <> Gt -> lex_compare b c <> Gt -> lex_compare a c <> Gt.
Proof.
  induction a as [|x a IH]; intros [|y b] [|z c]; cbn [lex_compare]; try congruence.
  destruct (Z.compare_spec x y) as [E1|L1|G1]; destruct (Z.compare_spec y z) as [E2|L2|G2];
    subst; try congruence.
  - rewrite Z.compare_refl. apply IH.
  - intros _ _. destruct (Z.compare_spec y z); try lia; congruence.
  - intros _ _. destruct (Z.compare_spec x z); try lia; congruence.
  - intros _ _. destruct (Z.compare_spec x z); try lia; congruence.
Qed.

Lemma key_leb_trans : forall a b c, key_leb a b = true -> key_leb b c = true -> key_leb a c = true.
Proof.
  intros a b c H1 H2. unfold key_leb in *.
  pose proof (lex_le_trans a b c) as T.
  destruct (lex_compare a b); destruct (lex_compare b c); destruct (lex_compare a c);
    auto; try discriminate; exfalso; apply T; congruence.
Qed.

(* ------------------------------------------------------------------------------------------ *)
(* Generic list facts                                                                          *)

Lemma filter_len_le : forall {A} (p : A -> bool) l, (List.length (filter p l) <= List.length l)%nat.
Proof. induction l as [|a l IH]; cbn [filter List.length]; auto. destruct (p a); cbn [List.length]; lia. Qed.

Lemma filter_none : forall {A} (p : A -> bool) l, (forall x, In x l -> p x = false) -> filter p l = [].
Proof.
  induction l as [|a l IH]; intros H; cbn [filter]; auto.
  rewrite (H a (or_introl eq_refl)). apply IH. intros x Hx. apply H. right; exact Hx.
Qed.

Lemma NoDup_map_filter : forall {A B} (f : A -> B) (p : A -> bool) l,
  NoDup (map f l) -> NoDup (map f (filter p l)).
Proof.
  induction l as [|a l IH]; intros H; cbn [filter map] in *; auto.
  inversion H as [|? ? Hn Hd]; subst. destruct (p a); cbn [map]; auto.
  constructor; auto. intro Hin. apply Hn. apply in_map_iff in Hin. destruct Hin as [x [E Hx]].
  apply filter_In in Hx. apply in_map_iff. exists x. tauto.
Qed.

Lemma SSorted_filter : forall {A} (R : A -> A -> Prop) (p : A -> bool) l,
  StronglySorted R l -> StronglySorted R (filter p l).
Proof.
  induction l as [|a l IH]; intros H; cbn [filter]; auto.
  inversion H as [|? ? Hs Hf]; subst. destruct (p a); auto.
  constructor; auto. apply Forall_forall. intros x Hx. apply filter_In in Hx.
  rewrite Forall_forall in Hf. apply Hf. tauto.
Qed.

(* ------------------------------------------------------------------------------------------ *)
(* (b) exact de-duplication                                                                    *)

Lemma dedup_rows_In : forall l seen r, In r (dedup_rows seen l) -> In r l.
Proof.
  induction l as [|a t IH]; intros seen r H; cbn [dedup_rows] in H; auto.
  destruct (existsb (qrow_eqb a) seen).
  - right. eapply IH; exact H.
  - destruct H as [H|H]; [left; exact H | right; eapply IH; exact H].
Qed.

Lemma dedup_rows_length : forall l seen, (List.length (dedup_rows seen l) <= List.length l)%nat.
Proof.
  induction l as [|a t IH]; intros seen; cbn [dedup_rows List.length]; auto.
  destruct (existsb (qrow_eqb a) seen); cbn [List.length].
  - specialize (IH seen). lia.
  - specialize (IH (a :: seen)). lia.
Qed.

Lemma qrow_eqb_Qeq : forall a b, qrow_eqb a b = true <-> Forall2 Qeq a b.
Proof.
  induction a as [|x a IH]; intros [|y b]; cbn [qrow_eqb]; split; intros H; try discriminate;
    try (inversion H; fail); auto.
  - apply andb_true_iff in H. destruct H as [H1 H2]. constructor.
    + apply Qeq_bool_iff; exact H1.
    + apply IH; exact H2.
  - inversion H; subst. apply andb_true_iff. split; [apply Qeq_bool_iff; assumption | apply IH; assumption].
Qed.

(* ------------------------------------------------------------------------------------------ *)
(* (c) de-duplication by key, sort, selection of the candidate rows                            *)

Definition ent_le (a b : fentry) : Prop := key_leb (fst a) (fst b) = true.
Definition is_cand (e : fentry) : bool := match snd e with Some _ => true | None => false end.
Definition ent_wf (tol : Q) (e : fentry) : Prop :=
  match snd e with Some r => fst e = rkey tol r | None => True end.

Lemma dedup_keys_In : forall l seen e, In e (dedup_keys seen l) -> In e l.
Proof.
  induction l as [|a t IH]; intros seen e H; cbn [dedup_keys] in H; auto.
  destruct (existsb (key_eqb (fst a)) seen).
  - right. eapply IH; exact H.
  - destruct H as [H|H]; [left; exact H | right; eapply IH; exact H].
Qed.

Lemma dedup_keys_fresh : forall l seen e,
  In e (dedup_keys seen l) -> existsb (key_eqb (fst e)) seen = false.
Proof.
  induction l as [|a t IH]; intros seen e H; cbn [dedup_keys] in H; [contradiction|].
  destruct (existsb (key_eqb (fst a)) seen) eqn:E.
  - eapply IH; exact H.
  - destruct H as [H|H]; [subst; exact E|].
    apply IH in H. cbn [existsb] in H. apply orb_false_iff in H. tauto.
Qed.

Lemma dedup_keys_NoDup : forall l seen, NoDup (map fst (dedup_keys seen l)).
Proof.
  induction l as [|a t IH]; intros seen; cbn [dedup_keys]; [constructor|].
  destruct (existsb (key_eqb (fst a)) seen) eqn:E; auto.
  cbn [map]. constructor; auto.
  intro Hin. apply in_map_iff in Hin. destruct Hin as [e [Ee He]].
  apply dedup_keys_fresh in He. cbn [existsb] in He. apply orb_false_iff in He.
  destruct He as [He _]. rewrite Ee, key_eqb_refl in He. discriminate.
Qed.

Lemma dedup_keys_length : forall l seen, (List.length (dedup_keys seen l) <= List.length l)%nat.
Proof.
  induction l as [|a t IH]; intros seen; cbn [dedup_keys List.length]; auto.
  destruct (existsb (key_eqb (fst a)) seen); cbn [List.length].
  - specialize (IH seen). lia.
  - specialize (IH (fst a :: seen)). lia.
Qed.

Lemma dedup_keys_app : forall a seen b,
  exists s2, dedup_keys seen (a ++ b) = dedup_keys seen a ++ dedup_keys s2 b.
Proof.
  induction a as [|e a IH]; intros seen b; cbn [app dedup_keys].
  - exists seen. reflexivity.
  - destruct (existsb (key_eqb (fst e)) seen).
    + apply IH.
    + destruct (IH (fst e :: seen) b) as [s2 E]. exists s2. rewrite E. reflexivity.
Qed.

Lemma insert_In : forall e l x, In x (insert_entry e l) <-> x = e \/ In x l.
Proof.
  intros e l x. induction l as [|h t IH]; cbn [insert_entry].
  - cbn. intuition.
  - destruct (key_leb (fst e) (fst h)); cbn [In]; [intuition|]. rewrite IH. intuition.
Qed.

Lemma sort_In : forall l x, In x (sort_entries l) <-> In x l.
Proof.
  induction l as [|a l IH]; intros x; cbn [sort_entries fold_right]; [tauto|].
  rewrite insert_In. fold (sort_entries l). rewrite IH. cbn [In]. intuition.
Qed.

Lemma insert_perm : forall e l, Permutation (e :: l) (insert_entry e l).
Proof.
  intros e l. induction l as [|h t IH]; cbn [insert_entry]; auto.
  destruct (key_leb (fst e) (fst h)); auto.
  eapply perm_trans; [apply perm_swap|]. apply perm_skip. exact IH.
Qed.

Lemma sort_perm : forall l, Permutation l (sort_entries l).
Proof.
  induction l as [|a l IH]; cbn [sort_entries fold_right]; auto.
  fold (sort_entries l). eapply perm_trans; [apply perm_skip; exact IH | apply insert_perm].
Qed.

Lemma insert_sorted : forall e l, StronglySorted ent_le l -> StronglySorted ent_le (insert_entry e l).
Proof.
  intros e l. induction l as [|h t IH]; intros H; cbn [insert_entry].
  - constructor; constructor.
  - inversion H as [|? ? Hs Hf]; subst.
    destruct (key_leb (fst e) (fst h)) eqn:E.
    + constructor; auto. constructor; [exact E|].
      rewrite Forall_forall in *. intros x Hx. unfold ent_le in *.
      eapply key_leb_trans; [exact E | apply Hf; exact Hx].
    + constructor; auto. apply Forall_forall. intros x Hx. apply (proj1 (insert_In _ _ _)) in Hx.
      destruct Hx as [Hx|Hx].
      * subst. apply key_leb_total. exact E.
      * rewrite Forall_forall in Hf. apply Hf; exact Hx.
Qed.

Lemma sort_sorted : forall l, StronglySorted ent_le (sort_entries l).
Proof.
  induction l as [|a l IH]; cbn [sort_entries fold_right]; [constructor|].
  apply insert_sorted. exact IH.
Qed.

Lemma insert_head : forall e l, Forall (ent_le e) l -> insert_entry e l = e :: l.
Proof.
  intros e [|h t] H; cbn [insert_entry]; auto.
  inversion H; subst. unfold ent_le in *. match goal with K : key_leb _ _ = true |- _ => rewrite K end.
  reflexivity.
Qed.

(* selecting entries commutes with insertion into a sorted list *)
Lemma filter_insert_keep : forall (p : fentry -> bool) e l,
  StronglySorted ent_le l -> p e = true ->
  filter p (insert_entry e l) = insert_entry e (filter p l).
Proof.
  intros p e l. induction l as [|h t IH]; intros H Pe; cbn [insert_entry filter].
  - rewrite Pe. reflexivity.
  - inversion H as [|? ? Hs Hf]; subst.
    destruct (key_leb (fst e) (fst h)) eqn:E.
    + cbn [filter]. rewrite Pe. destruct (p h) eqn:Ph.
      * cbn [insert_entry]. rewrite E. reflexivity.
      * symmetry. apply insert_head. apply Forall_forall. intros x Hx.
        apply filter_In in Hx. destruct Hx as [Hx _].
        rewrite Forall_forall in Hf. unfold ent_le in *.
        eapply key_leb_trans; [exact E | apply Hf; exact Hx].
    + cbn [filter]. destruct (p h) eqn:Ph.
      * cbn [insert_entry]. rewrite E. f_equal. apply IH; auto.
      * apply IH; auto.
Qed.

Lemma filter_insert_drop : forall (p : fentry -> bool) e l,
  p e = false -> filter p (insert_entry e l) = filter p l.
Proof.
  intros p e l Pe. induction l as [|h t IH]; cbn [insert_entry filter].
  - rewrite Pe. reflexivity.
  - destruct (key_leb (fst e) (fst h)); cbn [filter].
    + rewrite Pe. reflexivity.
    + rewrite IH. reflexivity.
Qed.

Lemma filter_sort_app : forall (p : fentry -> bool) A B,
  (forall e, In e B -> p e = false) ->
  filter p (sort_entries (A ++ B)) = filter p (sort_entries A).
Proof.
  intros p A B HB. induction A as [|a A IH]; cbn [app sort_entries fold_right].
  - fold (sort_entries B). apply filter_none. intros x Hx. apply (proj1 (sort_In _ _)) in Hx. apply HB; exact Hx.
  - fold (sort_entries (A ++ B)). fold (sort_entries A). destruct (p a) eqn:Pa.
    + rewrite !filter_insert_keep by (auto using sort_sorted). rewrite IH. reflexivity.
    + rewrite !filter_insert_drop by exact Pa. exact IH.
Qed.

Lemma somes_filter : forall l, somes l = somes (filter is_cand l).
Proof.
  induction l as [|[k [r|]] t IH]; cbn [somes filter is_cand snd]; auto. rewrite IH. reflexivity.
Qed.

Lemma somes_In : forall l r, In r (somes l) <-> exists k, In (k, Some r) l.
Proof.
  induction l as [|[k [x|]] t IH]; intros r; cbn [somes In].
  - split; [tauto | intros [k []]].
  - rewrite IH. split.
    + intros [H|[k' H]]; [subst; exists k; left; reflexivity | exists k'; right; exact H].
    + intros [k' [H|H]]; [inversion H; left; reflexivity | right; exists k'; exact H].
  - rewrite IH. split.
    + intros [k' H]. exists k'. right; exact H.
    + intros [k' [H|H]]; [discriminate | exists k'; exact H].
Qed.

Lemma somes_length : forall l, (List.length (somes l) <= List.length l)%nat.
Proof. induction l as [|[k [x|]] t IH]; cbn [somes List.length]; lia. Qed.

Lemma somes_keys_In : forall tol l x,
  Forall (ent_wf tol) l -> In x (map (rkey tol) (somes l)) -> In x (map fst l).
Proof.
  intros tol. induction l as [|[k [r|]] t IH]; intros x W H; cbn [somes map In fst] in *; auto;
    inversion W as [|? ? W1 W2]; subst.
  - destruct H as [H|H]; [left; unfold ent_wf in W1; cbn in W1; congruence | right; apply IH; auto].
  - right; apply IH; auto.
Qed.

Lemma somes_keys_NoDup : forall tol l,
  Forall (ent_wf tol) l -> NoDup (map fst l) -> NoDup (map (rkey tol) (somes l)).
Proof.
  intros tol. induction l as [|[k [r|]] t IH]; intros W N; cbn [somes map fst] in *;
    [constructor| |]; inversion W as [|? ? W1 W2]; inversion N as [|? ? N1 N2]; subst; auto.
  constructor; auto. intro Hin. apply N1. unfold ent_wf in W1; cbn in W1. rewrite W1.
  eapply somes_keys_In; eauto.
Qed.

Lemma somes_sorted : forall tol l,
  Forall (ent_wf tol) l -> StronglySorted ent_le l ->
  StronglySorted (fun a b => key_leb (rkey tol a) (rkey tol b) = true) (somes l).
Proof.
  intros tol. induction l as [|[k [r|]] t IH]; intros W S; cbn [somes]; [constructor| |];
    inversion W as [|? ? W1 W2]; inversion S as [|? ? S1 S2]; subst; auto.
  constructor; auto. apply Forall_forall. intros x Hx. apply (proj1 (somes_In _ _)) in Hx. destruct Hx as [k' Hx].
  rewrite Forall_forall in S2, W2. specialize (S2 _ Hx). specialize (W2 _ Hx).
  unfold ent_le, ent_wf in *; cbn in *. subst. exact S2.
Qed.

Lemma stack_wf : forall tol U1 L, Forall (ent_wf tol) (stack_entries tol U1 L).
Proof.
  intros tol U1 L. apply Forall_forall. intros e He. unfold stack_entries in He.
  apply in_app_or in He. destruct He as [He|He]; apply in_map_iff in He; destruct He as [r [E _]];
    subst; unfold ent_wf; cbn; auto.
Qed.

Lemma unique_first_wf : forall tol l, Forall (ent_wf tol) l -> Forall (ent_wf tol) (unique_first l).
Proof.
  intros tol l W. rewrite Forall_forall in *. intros e He. unfold unique_first in He.
  apply (proj1 (sort_In _ _)) in He. apply dedup_keys_In in He. apply W; exact He.
Qed.

Lemma unique_first_NoDup : forall l, NoDup (map fst (unique_first l)).
Proof.
  intros l. unfold unique_first.
  eapply Permutation_NoDup; [apply Permutation_map; apply sort_perm | apply dedup_keys_NoDup].
Qed.

Lemma drop_evaluated_In : forall tol L U1 r, In r (drop_evaluated tol L U1) -> In r U1.
Proof.
  intros tol L U1 r H. unfold drop_evaluated, unique_first in H.
  apply (proj1 (somes_In _ _)) in H. destruct H as [k H]. apply (proj1 (sort_In _ _)) in H. apply dedup_keys_In in H.
  unfold stack_entries in H. apply in_app_or in H. destruct H as [H|H]; apply in_map_iff in H;
    destruct H as [u [E Hu]]; inversion E; subst; exact Hu.
Qed.

Lemma somes_unique_app : forall C Lg,
  (forall e, In e Lg -> is_cand e = false) ->
  somes (unique_first (C ++ Lg)) = somes (unique_first C).
Proof.
  intros C Lg HL. unfold unique_first.
  destruct (dedup_keys_app C [] Lg) as [s2 E]. rewrite E.
  rewrite somes_filter. rewrite (somes_filter (sort_entries (dedup_keys [] C))).
  rewrite filter_sort_app; [reflexivity|].
  intros e He. apply dedup_keys_In in He. apply HL; exact He.
Qed.

(* the evaluation log has NO influence on the result: candidates are stacked above the log and
   np.unique reports first occurrences, so only candidates can shadow candidates *)
Lemma drop_evaluated_log_irrelevant : forall tol L U1,
  drop_evaluated tol L U1 = drop_evaluated tol [] U1.
Proof.
  intros tol L U1. unfold drop_evaluated, stack_entries.
  rewrite somes_unique_app.
  - change (map (fun x : qrow => (rkey (half_tol tol) x, @None qrow)) []) with (@nil fentry).
    rewrite app_nil_r. reflexivity.
  - intros e He. apply in_map_iff in He. destruct He as [x [Ex _]]. subst. reflexivity.
Qed.

Lemma drop_evaluated_length : forall tol L U1, (List.length (drop_evaluated tol L U1) <= List.length U1)%nat.
Proof.
  intros tol L U1. rewrite drop_evaluated_log_irrelevant.
  unfold drop_evaluated, unique_first, stack_entries. cbn [map]. rewrite app_nil_r.
  eapply Nat.le_trans; [apply somes_length|].
  rewrite <- (Permutation_length (sort_perm _)).
  eapply Nat.le_trans; [apply dedup_keys_length|]. rewrite map_length. lia.
Qed.

Lemma drop_evaluated_keys_NoDup : forall tol L U1,
  NoDup (map (rkey (half_tol tol)) (drop_evaluated tol L U1)).
Proof.
  intros tol L U1. unfold drop_evaluated. apply somes_keys_NoDup.
  - apply unique_first_wf. apply stack_wf.
  - apply unique_first_NoDup.
Qed.

Lemma drop_evaluated_sorted : forall tol L U1,
  StronglySorted (fun a b => key_leb (rkey (half_tol tol) a) (rkey (half_tol tol) b) = true)
                 (drop_evaluated tol L U1).
Proof.
  intros tol L U1. unfold drop_evaluated. apply somes_sorted.
  - apply unique_first_wf. apply stack_wf.
  - unfold unique_first. apply sort_sorted.
Qed.

(* step (b) is subsumed by step (c): equal rows have equal keys and (c) keeps first occurrences
   too, so deleting the first np.unique would not change the function (an equivalent mutant) *)
Lemma dedup_keys_dedup_rows : forall tol l seenR seenK,
  Forall (fun s => existsb (key_eqb (rkey tol s)) seenK = true) seenR ->
  dedup_keys seenK (map (fun r => (rkey tol r, Some r)) (dedup_rows seenR l)) =
  dedup_keys seenK (map (fun r => (rkey tol r, Some r)) l).
Proof.
  intros tol. induction l as [|a t IH]; intros seenR seenK Inv; cbn [dedup_rows map dedup_keys]; auto.
  destruct (existsb (qrow_eqb a) seenR) eqn:ER.
  - apply existsb_exists in ER. destruct ER as [s [Hs Es]]. apply qrow_eqb_Qeq in Es.
    cbn [fst]. rewrite (rkey_comp tol a s Es).
    rewrite Forall_forall in Inv. rewrite (Inv s Hs). apply IH. apply Forall_forall; exact Inv.
  - cbn [map dedup_keys fst]. destruct (existsb (key_eqb (rkey tol a)) seenK) eqn:EK.
    + apply IH. constructor; auto.
    + f_equal. apply IH. constructor.
      * cbn [existsb]. rewrite key_eqb_refl. reflexivity.
      * rewrite Forall_forall in *. intros s Hs. cbn [existsb]. rewrite (Inv s Hs). apply orb_true_r.
Qed.

Lemma dedup_rows_redundant : forall tol L U1,
  drop_evaluated tol L (dedup_rows [] U1) = drop_evaluated tol L U1.
Proof.
  intros tol L U1. rewrite (drop_evaluated_log_irrelevant tol L U1), (drop_evaluated_log_irrelevant tol L _).
  unfold drop_evaluated, unique_first, stack_entries.
  change (map (fun x : qrow => (rkey (half_tol tol) x, @None qrow)) []) with (@nil fentry).
  rewrite !app_nil_r. rewrite dedup_keys_dedup_rows; [reflexivity | constructor].
Qed.

Lemma keep_feasible_In : forall cons l r, In r (keep_feasible cons l) -> In r l.
Proof. intros [c|] l r H; cbn [keep_feasible] in H; auto. apply filter_In in H. tauto. Qed.

(* ------------------------------------------------------------------------------------------ *)
(* The exported lemmas                                                                         *)

Lemma filter_In_projected : forall proj lb ub tol logX cons U r,
  In r (filter_candidates proj lb ub tol logX cons U) -> In r (project_rows proj lb ub U).
Proof.
  intros proj lb ub tol logX cons U r H. unfold filter_candidates in H.
  apply keep_feasible_In in H. apply drop_evaluated_In in H. apply dedup_rows_In in H. exact H.
Qed.

(* C01: every output row is in the box it was filtered against.  proj = true needs a non-empty box
   (lb_i <= ub_i); proj = false needs nothing. *)
Lemma filter_in_box : forall (proj : bool) (lb ub : list bnd) (tol : Q) (logX : list qrow)
         (cons : option (qrow -> bool)) (U : list qrow),
  (proj = true -> box_ok lb ub) ->
  Forall (in_box lb ub) (filter_candidates proj lb ub tol logX cons U).
Proof.
  intros proj lb ub tol logX cons U OK. apply Forall_forall. intros r H.
  apply filter_In_projected in H. unfold project_rows in H. destruct proj.
  - apply in_map_iff in H. destruct H as [u [E _]]. subst. apply clamp_row_in_box. auto.
  - apply filter_In in H. apply in_boxb_in_box. tauto.
Qed.

(* what happens without the premise: lb > ub sends every candidate to lb, OUTSIDE [.., ub] *)
Example filter_in_box_needs_box_ok :
  filter_candidates true [Some (1 # 1)] [Some (0 # 1)] (1 # 1) [] None [[0 # 1]] = [[1 # 1]]
  /\ ~ in_box [Some (1 # 1)] [Some (0 # 1)] [1 # 1].
Proof.
  split; [vm_compute; reflexivity|]. cbn. intros [_ [H _]]. apply Qle_bool_iff in H. vm_compute in H. discriminate.
Qed.

(* C02: with a constraint supplied every output row is feasible (oracle false = not violated) *)
Lemma filter_feasible : forall (proj : bool) (lb ub : list bnd) (tol : Q) (logX : list qrow) (c : qrow -> bool) (U : list qrow),
  Forall (fun r => c r = false) (filter_candidates proj lb ub tol logX (Some c) U).
Proof.
  intros. apply Forall_forall. intros r H. unfold filter_candidates, keep_feasible in H.
  apply filter_In in H. destruct H as [_ H]. apply negb_true_iff in H. exact H.
Qed.

(* nothing is invented: every output row is the projection of (proj) / is (no proj) an input row *)
Lemma filter_subset : forall (proj : bool) (lb ub : list bnd) (tol : Q) (logX : list qrow)
         (cons : option (qrow -> bool)) (U : list qrow),
  Forall (fun r => exists u, In u U /\ r = (if proj then clamp_row lb ub u else u))
         (filter_candidates proj lb ub tol logX cons U).
Proof.
  intros proj lb ub tol logX cons U. apply Forall_forall. intros r H.
  apply filter_In_projected in H. unfold project_rows in H. destruct proj.
  - apply in_map_iff in H. destruct H as [u [E Hu]]. exists u. auto.
  - apply filter_In in H. exists r. tauto.
Qed.

(* distinct after rounding to tol_mesh/2 ... *)
Lemma filter_nodup_keys : forall (proj : bool) (lb ub : list bnd) (tol : Q) (logX : list qrow)
         (cons : option (qrow -> bool)) (U : list qrow),
  NoDup (map (rkey (half_tol tol)) (filter_candidates proj lb ub tol logX cons U)).
Proof.
  intros. unfold filter_candidates. destruct cons as [c|]; cbn [keep_feasible].
  - apply NoDup_map_filter. apply drop_evaluated_keys_NoDup.
  - apply drop_evaluated_keys_NoDup.
Qed.

(* ... hence distinct *)
Lemma filter_nodup : forall (proj : bool) (lb ub : list bnd) (tol : Q) (logX : list qrow)
         (cons : option (qrow -> bool)) (U : list qrow),
  NoDup (filter_candidates proj lb ub tol logX cons U).
Proof. intros. eapply NoDup_map_inv. apply filter_nodup_keys. Qed.

(* ... also up to equality of rationals (two representations of the same number) *)
Lemma NoDup_map_pairs : forall {A B} (f : A -> B) l,
  NoDup (map f l) -> ForallOrdPairs (fun a b => f a <> f b) l.
Proof.
  induction l as [|a l IH]; intros H; cbn [map] in H; [constructor|].
  inversion H as [|? ? Hn Hd]; subst. constructor; auto.
  apply Forall_forall. intros x Hx E. apply Hn. rewrite E. apply in_map. exact Hx.
Qed.

Lemma filter_distinct_Qeq : forall (proj : bool) (lb ub : list bnd) (tol : Q) (logX : list qrow)
         (cons : option (qrow -> bool)) (U : list qrow),
  ForallOrdPairs (fun a b => ~ Forall2 Qeq a b) (filter_candidates proj lb ub tol logX cons U).
Proof.
  intros. pose proof (NoDup_map_pairs _ _ (filter_nodup_keys proj lb ub tol logX cons U)) as H.
  induction H as [|a l Ha Hl IH]; constructor; auto.
  rewrite Forall_forall in *. intros x Hx E. apply (Ha x Hx). apply rkey_comp. exact E.
Qed.

(* observation: the output is in lexicographic order of the rounded rows, not in input order *)
Lemma filter_sorted : forall (proj : bool) (lb ub : list bnd) (tol : Q) (logX : list qrow)
         (cons : option (qrow -> bool)) (U : list qrow),
  StronglySorted (fun a b => key_leb (rkey (half_tol tol) a) (rkey (half_tol tol) b) = true)
                 (filter_candidates proj lb ub tol logX cons U).
Proof.
  intros. unfold filter_candidates. destruct cons as [c|]; cbn [keep_feasible].
  - apply SSorted_filter. apply drop_evaluated_sorted.
  - apply drop_evaluated_sorted.
Qed.

Lemma SSorted_strict : forall (f : qrow -> zkey) l,
  StronglySorted (fun a b => key_leb (f a) (f b) = true) l -> NoDup (map f l) ->
  StronglySorted (fun a b => lex_compare (f a) (f b) = Lt) l.
Proof.
  intros f. induction l as [|a l IH]; intros S N; [constructor|].
  inversion S as [|? ? S1 S2]; cbn [map] in N; inversion N as [|? ? N1 N2]; subst.
  constructor; auto. rewrite Forall_forall in *. intros x Hx. specialize (S2 x Hx).
  unfold key_leb in S2. destruct (lex_compare (f a) (f x)) eqn:E; auto; try discriminate.
  exfalso. apply N1. apply lex_compare_eq in E. rewrite E. apply in_map. exact Hx.
Qed.

Lemma filter_sorted_strict : forall (proj : bool) (lb ub : list bnd) (tol : Q) (logX : list qrow)
         (cons : option (qrow -> bool)) (U : list qrow),
  StronglySorted (fun a b => lex_compare (rkey (half_tol tol) a) (rkey (half_tol tol) b) = Lt)
                 (filter_candidates proj lb ub tol logX cons U).
Proof. intros. apply SSorted_strict; [apply filter_sorted | apply filter_nodup_keys]. Qed.

Lemma filter_length_le : forall (proj : bool) (lb ub : list bnd) (tol : Q) (logX : list qrow)
         (cons : option (qrow -> bool)) (U : list qrow),
  (List.length (filter_candidates proj lb ub tol logX cons U) <= List.length U)%nat.
Proof.
  intros. unfold filter_candidates.
  assert (H1 : (List.length (project_rows proj lb ub U) <= List.length U)%nat).
  { unfold project_rows. destruct proj; [rewrite map_length; lia | apply filter_len_le]. }
  pose proof (dedup_rows_length (project_rows proj lb ub U) []) as H2.
  pose proof (drop_evaluated_length tol logX (dedup_rows [] (project_rows proj lb ub U))) as H3.
  destruct cons as [c|]; cbn [keep_feasible].
  - pose proof (filter_len_le (fun r => negb (c r))
                  (drop_evaluated tol logX (dedup_rows [] (project_rows proj lb ub U)))) as H4. lia.
  - lia.
Qed.

(* ------------------------------------------------------------------------------------------ *)
(* Freshness is FALSE of the code                                                              *)

Lemma filter_log_irrelevant : forall (proj : bool) (lb ub : list bnd) (tol : Q) (logX : list qrow)
         (cons : option (qrow -> bool)) (U : list qrow),
  filter_candidates proj lb ub tol logX cons U = filter_candidates proj lb ub tol [] cons U.
Proof. intros. unfold filter_candidates. rewrite drop_evaluated_log_irrelevant. reflexivity. Qed.

(* a single in-box candidate always survives, whatever has been evaluated before *)
Lemma filter_single_survives : forall lb ub tol logX u,
  in_boxb lb ub u = true -> filter_candidates false lb ub tol logX None [u] = [u].
Proof.
  intros lb ub tol logX u H. rewrite filter_log_irrelevant.
  unfold filter_candidates, project_rows. cbn [filter]. rewrite H.
  cbn [dedup_rows existsb keep_feasible]. unfold drop_evaluated, unique_first, stack_entries.
  cbn [map app dedup_keys existsb fst sort_entries fold_right insert_entry somes]. reflexivity.
Qed.

Lemma filter_fresh_refuted :
  exists (proj : bool) (lb ub : list bnd) (tol : Q) (logX : list qrow) (U : list qrow) (r x : qrow),
    In r (filter_candidates proj lb ub tol logX None U) /\ In x logX /\
    rkey (half_tol tol) r = rkey (half_tol tol) x /\ r = x.
Proof.
  exists false, [Some (-2 # 1); Some (-2 # 1)], [Some (2 # 1); Some (2 # 1)], (1 # 1),
         [[0 # 1; 0 # 1]; [1 # 1; -1 # 1]], [[1 # 1; -1 # 1]], [1 # 1; -1 # 1], [1 # 1; -1 # 1].
  vm_compute. intuition.
Qed.

(* ------------------------------------------------------------------------------------------ *)
(* Bundles used verbatim by Props/C17.v                                                        *)

Lemma filter_nodup_all :
  forall (proj : bool) (lb ub : list bnd) (tol : Q) (logX : list qrow)
         (cons : option (qrow -> bool)) (U : list qrow),
    let out := filter_candidates proj lb ub tol logX cons U in
    NoDup out /\
    ForallOrdPairs (fun a b => ~ Forall2 Qeq a b) out /\
    NoDup (map (rkey (half_tol tol)) out).
Proof.
  intros. split; [apply filter_nodup | split; [apply filter_distinct_Qeq | apply filter_nodup_keys]].
Qed.

Lemma filter_subset_all :
  forall (proj : bool) (lb ub : list bnd) (tol : Q) (logX : list qrow)
         (cons : option (qrow -> bool)) (U : list qrow),
    let out := filter_candidates proj lb ub tol logX cons U in
    Forall (fun r => exists u, In u U /\ r = (if proj then clamp_row lb ub u else u)) out /\
    (List.length out <= List.length U)%nat.
Proof. intros. split; [apply filter_subset | apply filter_length_le]. Qed.

Lemma filter_example :
  box_ok [Some (-2 # 1); Some (-2 # 1)] [Some (2 # 1); None] /\
  filter_candidates true [Some (-2 # 1); Some (-2 # 1)] [Some (2 # 1); None] (1 # 1)
    [[0 # 1; 0 # 1]]
    (Some (fun r => match r with [x; y] => Qle_bool (2 # 1) y | _ => true end))
    [[3 # 1; 0 # 1]; [5 # 1; 1 # 1]; [0 # 1; 0 # 1]; [1 # 4; 0 # 1]; [-1 # 1; 2 # 1]; [2 # 1; 0 # 1]]
  = [[0 # 1; 0 # 1]; [2 # 1; 0 # 1]; [2 # 1; 1 # 1]].
Proof. split; [cbn; repeat split; discriminate | vm_compute; reflexivity]. Qed.
