From Coq Require Import ZArith List Bool Lia.
From PV Require Import Model.LoggerExtent.
Import ListNotations.
Open Scope Z_scope.

Lemma growth_pos : forall n, 1 <= growth n.
Proof. intros n. unfold growth. apply Z.le_max_r. Qed.

Lemma grow_enough : forall e, 0 <= cap e -> -1 <= xn e -> (0 <= xn e -> xn e < cap e) ->
  xn e + 1 < cap e + growth (xn e + 1).
Proof.
  intros e Hc Hn Hlt. pose proof (growth_pos (xn e + 1)) as G.
  destruct (Z.eq_dec (xn e) (-1)) as [Heq|Hne].
  - rewrite Heq in *. lia.
  - assert (xn e < cap e) by (apply Hlt; lia). lia.
Qed.

Lemma new_record_inv : forall e, 0 <= cap e -> xmax e = xn e -> -1 <= xn e -> (0 <= xn e -> xn e < cap e) ->
  let e' := new_record e in xmax e' = xn e' /\ 0 <= xn e' /\ xn e' < cap e' /\ cap e <= cap e'.
Proof.
  intros e Hc Hm Hn Hlt. cbv zeta. unfold new_record. cbn [xn xmax cap].
  pose proof (growth_pos (xn e + 1)) as G.
  pose proof (grow_enough e Hc Hn Hlt) as GE.
  destruct (cap e - 1 <? xn e + 1) eqn:E; [apply Z.ltb_lt in E | apply Z.ltb_ge in E]; rewrite Hm.
  - split; [lia|]. split; [lia|]. split; lia.
  - split; [lia|]. split; [lia|]. split; lia.
Qed.

(* after any sequence of evaluations, for every initial cache size: the extent index is the index of the last record, and the
   tables are large enough to hold it *)
Lemma ext_run_inv : forall ops e, 0 <= cap e -> xmax e = xn e -> -1 <= xn e -> (0 <= xn e -> xn e < cap e) ->
  let e' := fold_left ext_step ops e in
  xmax e' = xn e' /\ -1 <= xn e' /\ (0 <= xn e' -> xn e' < cap e') /\ cap e <= cap e'.
Proof.
  induction ops as [|o r IH]; intros e Hc Hm Hn Hlt; cbn [fold_left].
  - repeat split; try assumption; lia.
  - destruct o; cbn [ext_step].
    + destruct (new_record_inv e Hc Hm Hn Hlt) as (A & B & C & D).
      assert (H1 : 0 <= cap (new_record e)) by lia.
      assert (H3 : -1 <= xn (new_record e)) by lia.
      assert (H4 : 0 <= xn (new_record e) -> xn (new_record e) < cap (new_record e)) by (intros _; exact C).
      destruct (IH (new_record e) H1 A H3 H4) as (A' & B' & C' & D').
      repeat split; try assumption. lia.
    + apply IH; assumption.
Qed.

Theorem extent_covers_every_record : forall (cache_size : Z) (ops : list bool), 0 <= cache_size ->
  let e := ext_run cache_size ops in
  xmax e = xn e /\ xn e + 1 = Z.of_nat (List.length (filter (fun b => b) ops)) /\ (0 <= xn e -> xn e < cap e).
Proof.
  intros c ops Hc. cbv zeta. unfold ext_run.
  destruct (ext_run_inv ops (ext_init c)) as (A & B & C & _); cbn [ext_init xn xmax cap]; try lia.
  split; [exact A|]. split; [|exact C].
  (* the number of records *)
  assert (G : forall ops e, xn (fold_left ext_step ops e) = xn e + Z.of_nat (List.length (filter (fun b => b) ops))).
  { clear. induction ops as [|o r IH]; intros e; cbn [fold_left filter List.length]; [lia|].
    rewrite IH. destruct o; cbn [ext_step filter List.length]; [unfold new_record; cbn [xn]; lia | lia]. }
  rewrite G. cbn [ext_init xn]. lia.
Qed.
