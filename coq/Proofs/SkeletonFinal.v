(* SkeletonFinal.v — proofs behind Props/C05.v (noisy targets: the reported estimate is the mean of
   fresh samples at the returned x) and Props/C09.v (definedness of the reads the crashes come from),
   over Model/Skeleton.v (main loop + final phase) and the side conditions of Model/SkeletonNoisy.v. *)
From Coq Require Import ZArith QArith Qabs List Bool Lia Lqa Arith.
From PV Require Import Model.Val Model.Skeleton Model.SkeletonValid Model.SkeletonNoisy Proofs.SkeletonInc.
Import ListNotations.
Open Scope Z_scope.

(* ================================================================== *)
(* 1. history bookkeeping: hist / piter / fin through the phases       *)
(* ================================================================== *)
(* [sameH s s']: the three fields of the history bookkeeping coincide *)
Definition sameH (s s' : st) : Prop :=
  hist s' = hist s /\ piter s' = piter s /\ fin s' = fin s.

Lemma sameH_refl : forall s, sameH s s.
Proof. intros s. unfold sameH. repeat split; reflexivity. Qed.

Lemma sameH_trans : forall s s' s'', sameH s s' -> sameH s' s'' -> sameH s s''.
Proof.
  intros s s' s'' (H1 & H2 & H3) (G1 & G2 & G3). unfold sameH.
  split; [congruence|]. split; congruence.
Qed.

Lemma sameH_set_ctrl : forall s a b c d e, sameH s (set_ctrl s a b c d e).
Proof. intros. unfold sameH. cbn. repeat split; reflexivity. Qed.

Lemma sameH_set_cur : forall s c, sameH s (set_cur s c).
Proof. intros. unfold sameH. cbn. repeat split; reflexivity. Qed.

Lemma sameH_do_eval : forall s e, sameH s (do_eval s e).
Proof. intros s e. unfold sameH, do_eval. destruct (e_fault e); cbn; repeat split; reflexivity. Qed.

Lemma sameH_lock_ks : forall o s, sameH s (lock_ks o s).
Proof.
  intros o s. unfold lock_ks. destruct (o_locked o); [apply sameH_set_ctrl | apply sameH_refl].
Qed.

Lemma sameH_poll_decision : forall o s, sameH s (fst (poll_decision o s)).
Proof.
  intros o s. unfold poll_decision.
  destruct ((scount s =? 0) || (scount s =? o_ntry o)); [|apply sameH_refl].
  destruct ((0 <? ssucc s) && o_skip o); cbn [fst]; apply sameH_set_ctrl.
Qed.

Lemma sameH_search : forall o SI ev s, sameH s (search_phase o SI ev s).
Proof.
  intros o SI ev s. unfold search_phase.
  pose proof (sameH_set_ctrl s (k s) (ks s) (scount s + 1) (ssucc s) (spree s)) as H1.
  set (s1 := set_ctrl s (k s) (ks s) (scount s + 1) (ssucc s) (spree s)) in *.
  destruct (se_eval ev) as [e|]; [|exact H1]. cbv zeta.
  pose proof (sameH_trans _ _ _ H1 (sameH_do_eval s1 e)) as H2.
  destruct (exn (do_eval s1 e)); [exact H2|].
  destruct (qltb 0 (e_impr e) && o_sloppy o || qltb SI (e_impr e)); [|exact H2].
  pose proof (sameH_trans _ _ _ H2 (sameH_set_cur (do_eval s1 e) (inc_of e))) as H3.
  destruct (qltb SI (e_impr e)); [|exact H3].
  eapply sameH_trans; [exact H3 | apply sameH_set_ctrl].
Qed.

Lemma sameH_poll_loop : forall o ncand evs a, sameH (p_s a) (p_s (poll_loop o ncand evs a)).
Proof.
  intros o ncand evs. induction evs as [|e r IH]; intros a; cbn [poll_loop]; [apply sameH_refl|].
  destruct (poll_guard o ncand a); [|apply sameH_refl].
  pose proof (sameH_do_eval (p_s a) e) as H1.
  destruct (exn (do_eval (p_s a) e)); [cbn [p_s]; exact H1|].
  eapply sameH_trans; [exact H1|].
  destruct (qltb (p_best a) (e_impr e)).
  - exact (IH (mkP (do_eval (p_s a) e) (e_impr e) (inc_of e) (p_cnt a + 1))).
  - exact (IH (mkP (do_eval (p_s a) e) (p_best a) (p_inc a) (p_cnt a + 1))).
Qed.

Lemma sameH_poll : forall o SI ev s, sameH s (poll_phase o SI ev s).
Proof.
  intros o SI ev s. unfold poll_phase.
  pose proof (sameH_poll_loop o (pe_ncand ev) (pe_evals ev) (mkP s 0 (cur s) 0)) as Ha.
  set (a := poll_loop o (pe_ncand ev) (pe_evals ev) (mkP s 0 (cur s) 0)) in *.
  cbn [p_s] in Ha. cbv zeta.
  destruct (exn (p_s a)); [exact Ha|].
  set (s2 := if qltb 0 (p_best a) && o_sloppy o || qltb SI (p_best a) then set_cur (p_s a) (p_inc a) else p_s a).
  assert (H2 : sameH s s2).
  { unfold s2. destruct (qltb 0 (p_best a) && o_sloppy o || qltb SI (p_best a)); [|exact Ha].
    eapply sameH_trans; [exact Ha | apply sameH_set_cur]. }
  destruct (qltb SI (p_best a)); (eapply sameH_trans; [exact H2 | apply sameH_set_ctrl]).
Qed.

(* the invariant of C09_history_length *)
Definition HL (s : st) : Prop :=
  0 <= piter s /\ Z.of_nat (List.length (hist s)) = piter s + (if fin s then 1 else 0).

Lemma HL_sameH : forall s s', sameH s s' -> HL s -> HL s'.
Proof. intros s s' (H1 & H2 & H3) HI. unfold HL in *. rewrite H1, H2, H3. exact HI. Qed.

Lemma HL_step : forall o s ev, HL s -> HL (step_iter o s ev).
Proof.
  intros o s ev HI. unfold step_iter.
  destruct (fin s || exn s) eqn:Efx; [exact HI|].
  apply orb_false_iff in Efx. destruct Efx as [Hfin _].
  pose proof (sameH_lock_ks o s) as H0.
  set (s0 := lock_ks o s) in *.
  set (s1 := if want_search o s0 then search_phase o (ie_SI ev) (ie_search ev) s0 else s0).
  assert (H1 : sameH s s1).
  { unfold s1. destruct (want_search o s0); [|exact H0].
    eapply sameH_trans; [exact H0 | apply sameH_search]. }
  destruct (exn s1); [exact (HL_sameH _ _ H1 HI)|].
  pose proof (sameH_poll_decision o s1) as H2.
  destruct (poll_decision o s1) as [s2 dopoll]. cbn [fst] in H2.
  set (s3 := if dopoll then poll_phase o (ie_SI ev) (ie_poll ev) s2 else s2).
  assert (H3 : sameH s s3).
  { eapply sameH_trans; [exact H1|]. eapply sameH_trans; [exact H2|].
    unfold s3. destruct dopoll; [apply sameH_poll | apply sameH_refl]. }
  destruct (exn s3); [exact (HL_sameH _ _ H3 HI)|].
  destruct (terminate o (if dopoll then k s3 else k s0) (ie_stall ev) s3) as [f m].
  destruct H3 as (Hh & Hp & Hf). destruct HI as [HI1 HI2]. rewrite Hfin in HI2.
  unfold HL. cbn [piter hist fin]. rewrite Hh, Hp.
  destruct dopoll; destruct f; cbn [orb negb andb]; try rewrite app_length; cbn [List.length]; lia.
Qed.

Lemma HL_run_loop : forall o evs s, HL s -> HL (run_loop o s evs).
Proof.
  intros o evs. unfold run_loop.
  induction evs as [|e r IH]; intros s HI; cbn [fold_left]; [exact HI|].
  apply IH. apply HL_step. exact HI.
Qed.

Lemma sameH_init_calls : forall l s recd, sameH s (fst (init_calls s recd l)).
Proof.
  induction l as [|c r IH]; intros s recd; cbn [init_calls]; [apply sameH_refl|].
  destruct (exn s); [apply sameH_refl|].
  pose proof (sameH_do_eval s (ic_eval c)) as H1.
  destruct (exn (do_eval s (ic_eval c))); [exact H1|].
  eapply sameH_trans; [exact H1 | apply IH].
Qed.

Lemma HL_init_phase : forall k0 ks0 o l fsd0, HL (init_phase k0 ks0 o l fsd0).
Proof.
  intros k0 ks0 o l fsd0. unfold init_phase.
  pose proof (sameH_init_calls l (init_state k0 ks0 o) []) as H1.
  destruct (init_calls (init_state k0 ks0 o) [] l) as [s recd]. cbn [fst] in H1.
  assert (H0 : HL (init_state k0 ks0 o)).
  { unfold HL. cbn [init_state piter hist fin List.length]. lia. }
  pose proof (HL_sameH _ _ H1 H0) as Hs.
  destruct (argmin_rows None recd) as [[u y]|]; [|exact Hs].
  exact (HL_sameH _ _ (sameH_set_cur s _) Hs).
Qed.

Theorem history_length :
  forall (k0 ks0 : Z) (o : opts) (l : list init_call) (fsd0 : Q) (evs : list iter_ev),
    let s := run k0 ks0 o l fsd0 evs in
    0 <= piter s /\
    Z.of_nat (List.length (hist s)) = piter s + (if fin s then 1 else 0).
Proof.
  intros k0 ks0 o l fsd0 evs s. unfold s, run.
  exact (HL_run_loop o evs _ (HL_init_phase k0 ks0 o l fsd0)).
Qed.

Theorem history_reads_in_range :
  forall (k0 ks0 : Z) (o : opts) (l : list init_call) (fsd0 : Q) (evs : list iter_ev),
    let s := run k0 ks0 o l fsd0 evs in
    fin s = false -> exn s = false -> 1 <= o_stall o -> 1 <= o_accel_steps o ->
    (o_stall o - 1 < piter s -> 0 <= piter s - o_stall o < Z.of_nat (List.length (hist s))) /\
    (o_accel_steps o < piter s -> 0 <= piter s - o_accel_steps o < Z.of_nat (List.length (hist s))).
Proof.
  intros k0 ks0 o l fsd0 evs s Hfin _ Hst Hac.
  destruct (history_length k0 ks0 o l fsd0 evs) as [Hp Hl]. fold s in Hp, Hl.
  rewrite Hfin in Hl. split; intros Hlt; lia.
Qed.

Theorem final_selection_defined :
  forall (k0 ks0 : Z) (o : opts) (l : list init_call) (fsd0 : Q) (evs : list iter_ev),
    let s := run k0 ks0 o l fsd0 evs in
    fin s = true -> exn s = false -> 0 < piter s ->
    (2 <= List.length (hist s))%nat /\
    forall i : nat, (1 <= i)%nat -> (Z.of_nat i <= piter s) -> exists h, nth_error (hist s) i = Some h.
Proof.
  intros k0 ks0 o l fsd0 evs s Hfin _ Hpos.
  destruct (history_length k0 ks0 o l fsd0 evs) as [Hp Hl]. fold s in Hp, Hl.
  rewrite Hfin in Hl. split; [lia|].
  intros i Hi1 Hi2. destruct (nth_error (hist s) i) as [h|] eqn:En; [exists h; reflexivity|].
  apply nth_error_None in En. lia.
Qed.

(* ================================================================== *)
(* 2. the poll loop stays within its candidate set                     *)
(* ================================================================== *)
Definition PC (o : opts) (ncand : Z) (n0 : Z) (a : pacc) : Prop :=
  0 <= p_cnt a /\ p_cnt a <= ncand /\ p_cnt a <= 2 * o_D o /\
  Z.of_nat (List.length (calls (p_s a))) <= n0 + p_cnt a + (if exn (p_s a) then 1 else 0).

Lemma poll_loop_PC : forall o ncand n0 evs a, PC o ncand n0 a -> PC o ncand n0 (poll_loop o ncand evs a).
Proof.
  intros o ncand n0 evs. induction evs as [|e r IH]; intros a HP; cbn [poll_loop]; [exact HP|].
  destruct (poll_guard o ncand a) eqn:G; [|exact HP].
  unfold poll_guard in G.
  apply andb_true_iff in G. destruct G as [G Gx].
  apply andb_true_iff in G. destruct G as [G Gn].
  apply andb_true_iff in G. destruct G as [_ Gd].
  apply negb_true_iff in Gx. apply Z.ltb_lt in Gn. apply Z.ltb_lt in Gd.
  destruct HP as (H0 & H1 & H2 & H3). rewrite Gx in H3.
  destruct (e_fault e) eqn:Ef.
  - destruct (do_eval_fault (p_s a) e Ef) as (E1 & E2 & _). rewrite E1.
    unfold PC. cbn [p_s p_cnt]. rewrite E1, E2, app_length. cbn [List.length]. lia.
  - destruct (do_eval_ok (p_s a) e Ef) as (E1 & E2 & _). rewrite E1.
    apply IH. unfold PC.
    destruct (qltb (p_best a) (e_impr e)); cbn [p_s p_cnt]; rewrite E1, E2, app_length;
      cbn [List.length]; lia.
Qed.

Theorem poll_within_candidates :
  forall (o : opts) (ev : poll_ev) (s : st),
    let a := poll_loop o (pe_ncand ev) (pe_evals ev) (mkP s 0 (cur s) 0) in
    0 <= pe_ncand ev -> 0 <= o_D o ->
    0 <= p_cnt a /\ p_cnt a <= pe_ncand ev /\ p_cnt a <= 2 * o_D o /\
    Z.of_nat (List.length (calls (p_s a))) <= Z.of_nat (List.length (calls s)) + p_cnt a + 1.
Proof.
  intros o ev s a Hn Hd.
  assert (HP0 : PC o (pe_ncand ev) (Z.of_nat (List.length (calls s))) (mkP s 0 (cur s) 0)).
  { unfold PC. cbn [p_s p_cnt]. destruct (exn s); lia. }
  pose proof (poll_loop_PC o (pe_ncand ev) _ (pe_evals ev) _ HP0) as HP. fold a in HP.
  destruct HP as (H0 & H1 & H2 & H3).
  split; [exact H0|]. split; [exact H1|]. split; [exact H2|].
  destruct (exn (p_s a)); lia.
Qed.

(* ================================================================== *)
(* 3. the final phase                                                  *)
(* ================================================================== *)
Definition ob_val (ob : bool * Q * option Q) : Q := snd (fst ob).

(* unconditional: the re-sampling never touches the incumbent or the history *)
Lemma final_samples_cur : forall n obs s u ys sds,
  cur (fst (fst (final_samples s u n obs ys sds))) = cur s /\
  hist (fst (fst (final_samples s u n obs ys sds))) = hist s.
Proof.
  induction n as [|m IH]; intros obs s u ys sds; cbn [final_samples].
  { cbn [fst]. split; reflexivity. }
  destruct obs as [|[[flt y] sd] r]; [cbn [fst]; split; reflexivity|].
  destruct (exn s); [cbn [fst]; split; reflexivity|].
  set (e := mkE u flt y y 0 0 false).
  assert (Hd : cur (do_eval s e) = cur s /\ hist (do_eval s e) = hist s).
  { unfold do_eval. destruct (e_fault e); cbn [cur hist]; split; reflexivity. }
  destruct (exn (do_eval s e)); [cbn [fst]; exact Hd|].
  destruct (IH r (do_eval s e) u (ys ++ [y]) (sds ++ [sd])) as [I1 I2].
  destruct Hd as [D1 D2]. split; congruence.
Qed.

(* when no sample raised: exactly the first n observations were consumed *)
Lemma final_samples_ok : forall n obs s u ys sds,
  exn (fst (fst (final_samples s u n obs ys sds))) = false -> (n <= List.length obs)%nat ->
  calls (fst (fst (final_samples s u n obs ys sds)))
    = calls s ++ map (fun ob => (u, Some (snd (fst ob)))) (firstn n obs) /\
  fc (fst (fst (final_samples s u n obs ys sds))) = fc s + Z.of_nat n /\
  nrows (fst (fst (final_samples s u n obs ys sds))) = nrows s /\
  snd (fst (final_samples s u n obs ys sds)) = ys ++ map (fun ob => snd (fst ob)) (firstn n obs) /\
  snd (final_samples s u n obs ys sds) = sds ++ map snd (firstn n obs).
Proof.
  induction n as [|m IH]; intros obs s u ys sds Hx Hlen; cbn [final_samples] in *.
  { cbn [fst snd firstn map]. rewrite !app_nil_r. repeat split; try reflexivity. lia. }
  destruct obs as [|[[flt y] sd] r]; [cbn [List.length] in Hlen; lia|].
  cbn [List.length] in Hlen.
  destruct (exn s) eqn:Hxs; [cbn [fst] in Hx; congruence|].
  set (e := mkE u flt y y 0 0 false) in *.
  destruct (e_fault e) eqn:Ef.
  { exfalso. destruct (do_eval_fault s e Ef) as (E1 & _). rewrite E1 in Hx. cbn [fst] in Hx. congruence. }
  destruct (do_eval_ok s e Ef) as (E1 & E2 & E3 & _). rewrite E1 in *.
  assert (En : nrows (do_eval s e) = nrows s).
  { unfold do_eval. rewrite Ef. reflexivity. }
  assert (Hlen' : (m <= List.length r)%nat) by lia.
  destruct (IH r (do_eval s e) u (ys ++ [y]) (sds ++ [sd]) Hx Hlen') as (I1 & I2 & I3 & I4 & I5).
  cbn [firstn map fst snd].
  split; [rewrite I1, E2; unfold e; cbn [e_u e_y]; rewrite <- app_assoc; reflexivity|].
  split; [rewrite I2, E3; lia|].
  split; [rewrite I3; exact En|].
  split; [rewrite I4, <- app_assoc; reflexivity | rewrite I5, <- app_assoc; reflexivity].
Qed.

Definition fin_inc (fev : final_ev) (h : hrow) : inc :=
  mkI (i_u (h_inc h)) (i_y (h_inc h)) (fe_f fev) (fe_s fev).

(* the branches of final_phase *)
Lemma final_phase_cases : forall o nfs fev s,
  ((exn s = true \/ o_det o = true \/ piter s <= 0) /\ final_phase o nfs fev s = mkFO s [] [] false)
  \/ (exn s = false /\ o_det o = false /\ 0 < piter s /\
      ((nth_error (hist s) (fe_idx fev) = None /\ final_phase o nfs fev s = mkFO s [] [] false) \/
       exists h, nth_error (hist s) (fe_idx fev) = Some h /\
         ((nfs <= 0 /\ final_phase o nfs fev s = mkFO (set_cur s (fin_inc fev h)) [] [] false) \/
          (0 < nfs /\ exists s2 ys sds,
             final_samples (set_cur s (fin_inc fev h)) (i_u (h_inc h)) (Z.to_nat nfs) (fe_obs fev) [] []
               = (s2, ys, sds) /\
             ((exn s2 = true /\ final_phase o nfs fev s = mkFO s2 ys sds true) \/
              (exn s2 = false /\
               final_phase o nfs fev s =
                 mkFO (set_cur s2 (mkI (i_u (h_inc h)) (i_y (h_inc h)) (fe_mean fev) (fe_sem fev)))
                      (match ys with [y] => [y; i_y (h_inc h)] | _ => ys end) sds true)))))).
Proof.
  intros o nfs fev s. unfold final_phase.
  destruct (exn s) eqn:Hx; cbn [orb].
  { left. split; [left; reflexivity | reflexivity]. }
  destruct (o_det o) eqn:Hd; cbn [orb].
  { left. split; [right; left; reflexivity | reflexivity]. }
  destruct (piter s <=? 0) eqn:Hp.
  { apply Z.leb_le in Hp. left. split; [right; right; exact Hp | reflexivity]. }
  apply Z.leb_gt in Hp. right. split; [reflexivity|]. split; [reflexivity|]. split; [exact Hp|].
  destruct (nth_error (hist s) (fe_idx fev)) as [h|] eqn:En.
  2:{ left. split; reflexivity. }
  right. exists h. split; [reflexivity|]. cbv zeta. cbn [i_u i_y].
  fold (fin_inc fev h).
  destruct (nfs <=? 0) eqn:Hn.
  { apply Z.leb_le in Hn. left. split; [exact Hn | reflexivity]. }
  apply Z.leb_gt in Hn. right. split; [exact Hn|].
  destruct (final_samples (set_cur s (fin_inc fev h)) (i_u (h_inc h)) (Z.to_nat nfs) (fe_obs fev) [] [])
    as [[s2 ys] sds] eqn:Efs.
  exists s2, ys, sds. split; [reflexivity|].
  destruct (exn s2) eqn:Hx2; [left | right]; split; reflexivity.
Qed.

Lemma match_single_other : forall (A : Type) (ys : list A) (d : A),
  List.length ys <> 1%nat -> match ys with [y] => [y; d] | _ => ys end = ys.
Proof.
  intros A ys d H. destruct ys as [|a [|b r]]; try reflexivity. cbn [List.length] in H. congruence.
Qed.

Theorem last_calls_at_x :
  forall (o : opts) (nfs : Z) (fev : final_ev) (s : st),
    let f := final_phase o nfs fev s in
    fo_sampled f = true -> exn (fo_st f) = false -> final_obs_ok nfs fev = true ->
    let u := i_u (cur (fo_st f)) in
    let fresh := firstn (Z.to_nat nfs) (fe_obs fev) in
    calls (fo_st f) = calls s ++ map (fun ob => (u, Some (snd (fst ob)))) fresh /\
    List.length fresh = Z.to_nat nfs /\ 0 < nfs /\
    fc (fo_st f) = fc s + nfs /\ nrows (fo_st f) = nrows s /\
    fo_sdvec f = map snd fresh /\
    (nfs <> 1 -> fo_yvec f = map (fun ob => snd (fst ob)) fresh) /\
    (nfs = 1 -> exists y, fresh = [y] /\ fo_yvec f = [snd (fst y); i_y (cur (fo_st f))]).
Proof.
  intros o nfs fev s f Hs Hx Hobs u fresh. unfold u. clear u.
  unfold final_obs_ok in Hobs. apply Nat.leb_le in Hobs.
  assert (Hlf : List.length fresh = Z.to_nat nfs) by (unfold fresh; apply firstn_length_le; exact Hobs).
  destruct (final_phase_cases o nfs fev s) as [(_ & E) | (Hxs & Hd & Hp & [(_ & E) | (h & En & [(_ & E) | (Hn & s2 & ys & sds & Efs & [(Hx2 & E) | (Hx2 & E)])])])];
    fold f in E; rewrite E in *; cbn [fo_sampled fo_st fo_yvec fo_sdvec] in *; try discriminate; try congruence.
  cbn [set_cur cur calls fc nrows i_u i_y].
  pose proof (final_samples_ok (Z.to_nat nfs) (fe_obs fev) (set_cur s (fin_inc fev h)) (i_u (h_inc h)) [] []) as Hok.
  rewrite Efs in Hok. cbn [fst snd] in Hok. destruct (Hok Hx2 Hobs) as (I1 & I2 & I3 & I4 & I5).
  fold fresh in I1, I4, I5. cbn [app] in I4, I5.
  split; [exact I1|]. split; [exact Hlf|]. split; [exact Hn|].
  split; [rewrite I2; cbn [set_cur fc]; rewrite Z2Nat.id by lia; reflexivity|].
  split; [exact I3|]. split; [exact I5|].
  assert (Hly : List.length ys = Z.to_nat nfs) by (rewrite I4, map_length; exact Hlf).
  split.
  - intros Hne. rewrite match_single_other; [exact I4|]. rewrite Hly. intros C.
    apply Hne. rewrite <- (Z2Nat.id nfs) by lia. rewrite C. reflexivity.
  - intros H1. subst nfs. change (Z.to_nat 1) with 1%nat in *.
    destruct fresh as [|ob [|ob' r]] eqn:Efr; cbn [List.length] in Hlf; try discriminate.
    exists ob. split; [reflexivity|]. rewrite I4. cbn [map]. reflexivity.
Qed.

Theorem no_resampling_otherwise :
  forall (o : opts) (nfs : Z) (fev : final_ev) (s : st),
    let f := final_phase o nfs fev s in
    fo_sampled f = false -> calls (fo_st f) = calls s /\ fc (fo_st f) = fc s /\ fo_yvec f = [] /\
    (o_det o = true \/ piter s <= 0 \/ exn s = true -> fo_st f = s).
Proof.
  intros o nfs fev s f Hs.
  destruct (final_phase_cases o nfs fev s) as [(_ & E) | (Hxs & Hd & Hp & [(_ & E) | (h & En & [(_ & E) | (Hn & s2 & ys & sds & Efs & [(Hx2 & E) | (Hx2 & E)])])])];
    fold f in E; rewrite E in *; cbn [fo_sampled fo_st fo_yvec fo_sdvec] in *; try discriminate.
  - repeat split; reflexivity.
  - repeat split; reflexivity.
  - split; [reflexivity|]. split; [reflexivity|]. split; [reflexivity|].
    intros [C | [C | C]]; [congruence | lia | congruence].
Qed.

Theorem yval_vec_defined :
  forall (o : opts) (nfs : Z) (fev : final_ev) (s : st),
    let f := final_phase o nfs fev s in
    exn (fo_st f) = false -> final_obs_ok nfs fev = true ->
    (fo_sampled f = true <-> (o_det o = false /\ 0 < piter s /\ 0 < nfs /\ exn s = false /\
                              (fe_idx fev < List.length (hist s))%nat)) /\
    (fo_sampled f = true -> fo_yvec f <> []).
Proof.
  intros o nfs fev s f Hx Hobs.
  unfold final_obs_ok in Hobs. apply Nat.leb_le in Hobs.
  destruct (final_phase_cases o nfs fev s) as [(Hc & E) | (Hxs & Hd & Hp & [(En & E) | (h & En & [(Hn & E) | (Hn & s2 & ys & sds & Efs & [(Hx2 & E) | (Hx2 & E)])])])];
    fold f in E; rewrite E in *; cbn [fo_sampled fo_st fo_yvec fo_sdvec] in *.
  - split; [|intros C; discriminate]. split; [intros C; discriminate|].
    intros (H1 & H2 & H3 & H4 & H5). exfalso. destruct Hc as [C | [C | C]]; [congruence | congruence | lia].
  - split; [|intros C; discriminate]. split; [intros C; discriminate|].
    intros (H1 & H2 & H3 & H4 & H5). exfalso. apply nth_error_None in En. lia.
  - split; [|intros C; discriminate]. split; [intros C; discriminate|].
    intros (H1 & H2 & H3 & H4 & H5). exfalso. lia.
  - exfalso. congruence.
  - assert (Hidx : (fe_idx fev < List.length (hist s))%nat).
    { apply nth_error_Some. rewrite En. discriminate. }
    split; [split; [intros _; repeat split; assumption | intros _; reflexivity]|].
    intros _.
    pose proof (final_samples_ok (Z.to_nat nfs) (fe_obs fev) (set_cur s (fin_inc fev h)) (i_u (h_inc h)) [] []) as Hok.
    rewrite Efs in Hok. cbn [fst snd] in Hok. destruct (Hok Hx2 Hobs) as (_ & _ & _ & I4 & _).
    cbn [app] in I4.
    assert (Hly : List.length ys = Z.to_nat nfs).
    { rewrite I4, map_length. apply firstn_length_le. exact Hobs. }
    destruct ys as [|a [|b r]]; [|discriminate|discriminate].
    cbn [List.length] in Hly. lia.
Qed.

(* ================================================================== *)
(* 4. mean / SEM and the noise test                                    *)
(* ================================================================== *)
Theorem estimate_is_mean_and_sem :
  forall (o : opts) (nfs : Z) (fev : final_ev) (s : st),
    let f := final_phase o nfs fev s in
    fo_sampled f = true -> exn (fo_st f) = false -> final_est_ok f = true ->
    fo_yvec f <> [] /\
    (Qabs (i_f (cur (fo_st f)) - qmean (fo_yvec f)) <= approx_eps * (1 + Qabs (qmean (fo_yvec f))))%Q /\
    (Qabs (i_s (cur (fo_st f)) * i_s (cur (fo_st f)) * qlen (fo_yvec f) - qvar (fo_yvec f))
       <= approx_eps * (1 + Qabs (qvar (fo_yvec f))))%Q.
Proof.
  intros o nfs fev s f Hs Hx Hok. generalize dependent f. intros f Hs Hx Hok.
  unfold final_est_ok in Hok. rewrite Hs, Hx in Hok. cbn [negb andb] in Hok.
  destruct (fo_yvec f) as [|y0 r] eqn:Ey; [discriminate|].
  set (l := y0 :: r) in *.
  apply andb_true_iff in Hok. destruct Hok as [Hok _].
  apply andb_true_iff in Hok. destruct Hok as [Hm Hv].
  unfold q_approx in Hm, Hv. apply Qle_bool_iff in Hm. apply Qle_bool_iff in Hv.
  split; [discriminate|]. split.
  - rewrite (Qred_correct (qmean l)) in Hm. exact Hm.
  - rewrite (Qred_correct (qvar l)) in Hv.
    rewrite (Qred_correct (i_s (cur (fo_st f)) * i_s (cur (fo_st f)) * qlen l)) in Hv. exact Hv.
Qed.

Theorem noise_test :
  forall (y0 y1 tol : Q), (0 <= tol)%Q ->
    ((y0 == y1)%Q -> noise_detected y0 y1 tol = false) /\
    ((tol < Qabs (y0 - y1))%Q <-> noise_detected y0 y1 tol = true).
Proof.
  intros y0 y1 tol Htol. unfold noise_detected. split.
  - intros Heq. destruct (qltb tol (Qabs (y0 - y1))) eqn:E; [|reflexivity].
    apply qltb_true in E. exfalso.
    assert (Hz : (y0 - y1 == 0)%Q) by lra.
    rewrite (Qabs_wd _ _ Hz) in E. change (Qabs 0) with 0%Q in E. lra.
  - split; [apply qltb_lt | apply qltb_true].
Qed.

(* ================================================================== *)
(* 5. the returned point was evaluated                                 *)
(* ================================================================== *)
(* pointwise Qeq on points: the side condition noisy_u_ok compares with Qeq_bool, so membership in
   the call list is stated up to Qeq of the coordinates *)
Lemma qlist_eqb_v_F2 : forall a b, qlist_eqb_v a b = true -> Forall2 Qeq a b.
Proof.
  induction a as [|x r IH]; intros b H; destruct b as [|y t]; cbn [qlist_eqb_v] in H; try discriminate.
  - constructor.
  - apply andb_true_iff in H. destruct H as [H1 H2].
    constructor; [apply Qeq_bool_iff; exact H1 | exact (IH t H2)].
Qed.

Lemma F2_refl : forall a : list Q, Forall2 Qeq a a.
Proof. induction a as [|x r IH]; constructor; [apply Qeq_refl | exact IH]. Qed.

Lemma F2_sym : forall a b : list Q, Forall2 Qeq a b -> Forall2 Qeq b a.
Proof.
  intros a b H. induction H as [|x y r t Hxy Hrt IH]; constructor; [apply Qeq_sym; exact Hxy | exact IH].
Qed.

Lemma F2_trans : forall a b c : list Q, Forall2 Qeq a b -> Forall2 Qeq b c -> Forall2 Qeq a c.
Proof.
  intros a b c H. revert c. induction H as [|x y r t Hxy Hrt IH]; intros c Hbc.
  - inversion Hbc. constructor.
  - inversion Hbc as [|y' z t' w Hyz Htw]. subst.
    constructor; [eapply Qeq_trans; [exact Hxy | exact Hyz] | exact (IH w Htw)].
Qed.

(* [EvP c cl]: the pair (point, observed value) of [c] is a successful call of [cl], up to Qeq *)
Definition EvP (c : inc) (cl : list (list Q * option Q)) : Prop :=
  exists u' y', In (u', Some y') cl /\ Forall2 Qeq u' (i_u c) /\ (y' == i_y c)%Q.

Lemma EvP_incl : forall c (l l' : list (list Q * option Q)),
  (forall p, In p l -> In p l') -> EvP c l -> EvP c l'.
Proof.
  intros c l l' Hincl (u' & y & Hin & Hq & Hy). exists u', y.
  split; [apply Hincl; exact Hin|]. split; [exact Hq | exact Hy].
Qed.

Lemma EvP_exact : forall c (l : list (list Q * option Q)), In (i_u c, Some (i_y c)) l -> EvP c l.
Proof.
  intros c l Hin. exists (i_u c), (i_y c). split; [exact Hin|]. split; [apply F2_refl | apply Qeq_refl].
Qed.

Lemma EvP_pair : forall c d l, pair_eqb c d = true -> EvP d l -> EvP c l.
Proof.
  intros c d l Hp (u' & y & Hin & Hq & Hy). unfold pair_eqb in Hp.
  apply andb_true_iff in Hp. destruct Hp as [Hu Hv].
  apply qlist_eqb_v_F2 in Hu. apply Qeq_bool_iff in Hv.
  exists u', y. split; [exact Hin|].
  split; [eapply F2_trans; [exact Hq | apply F2_sym; exact Hu]|].
  eapply Qeq_trans; [exact Hy | apply Qeq_sym; exact Hv].
Qed.

(* [stepU s s']: history untouched, calls only grow, func_count does not decrease, and the incumbent
   is the old one or a (point, value) evaluated meanwhile *)
Definition stepU (s s' : st) : Prop :=
  hist s' = hist s /\ (forall p, In p (calls s) -> In p (calls s')) /\ fc s <= fc s' /\
  (cur s' = cur s \/ In (i_u (cur s'), Some (i_y (cur s'))) (calls s')).

Lemma stepU_refl : forall s, stepU s s.
Proof.
  intros s. split; [reflexivity|]. split; [intros p Hp; exact Hp|]. split; [lia | left; reflexivity].
Qed.

Lemma stepU_trans : forall s s' s'', stepU s s' -> stepU s' s'' -> stepU s s''.
Proof.
  intros s s' s'' (H1 & H2 & Hf & H3) (G1 & G2 & Gf & G3).
  split; [congruence|]. split; [intros p Hp; apply G2; apply H2; exact Hp|]. split; [lia|].
  destruct G3 as [E | G3]; [|right; exact G3].
  rewrite E. destruct H3 as [E' | Hin]; [left; exact E'|].
  right. apply G2. exact Hin.
Qed.

Lemma stepU_same : forall s s', same s s' -> stepU s s'.
Proof.
  intros s s' (Hc & Hf & _ & Hcu & Hh).
  split; [exact Hh|]. split; [rewrite Hc; intros p Hp; exact Hp|]. split; [lia | left; exact Hcu].
Qed.

Lemma do_eval_calls : forall s e,
  hist (do_eval s e) = hist s /\ cur (do_eval s e) = cur s /\
  (forall p, In p (calls s) -> In p (calls (do_eval s e))) /\
  (exn (do_eval s e) = false -> In (e_u e, Some (e_y e)) (calls (do_eval s e))) /\
  fc s <= fc (do_eval s e).
Proof.
  intros s e. destruct (e_fault e) eqn:Ef.
  - destruct (do_eval_fault s e Ef) as (E1 & E2 & E3 & E4 & E5).
    split; [exact E5|]. split; [exact E4|]. split; [|split; [|lia]].
    + intros p Hp. rewrite E2. apply in_or_app. left. exact Hp.
    + intros C. congruence.
  - destruct (do_eval_ok s e Ef) as (E1 & E2 & E3 & E4 & E5).
    split; [exact E5|]. split; [exact E4|]. split; [|split; [|lia]].
    + intros p Hp. rewrite E2. apply in_or_app. left. exact Hp.
    + intros _. rewrite E2. apply in_or_app. right. left. reflexivity.
Qed.

Lemma stepU_do_eval : forall s e, stepU s (do_eval s e).
Proof.
  intros s e. destruct (do_eval_calls s e) as (H1 & H2 & H3 & _ & H5).
  split; [exact H1|]. split; [exact H3|]. split; [exact H5 | left; exact H2].
Qed.

Lemma stepU_search : forall o SI ev s, stepU s (search_phase o SI ev s).
Proof.
  intros o SI ev s. unfold search_phase.
  pose proof (stepU_same _ _ (same_set_ctrl s (k s) (ks s) (scount s + 1) (ssucc s) (spree s))) as H1.
  set (s1 := set_ctrl s (k s) (ks s) (scount s + 1) (ssucc s) (spree s)) in *.
  destruct (se_eval ev) as [e|]; [|exact H1]. cbv zeta.
  pose proof (stepU_trans _ _ _ H1 (stepU_do_eval s1 e)) as H2.
  destruct (do_eval_calls s1 e) as (_ & _ & _ & Hin & _).
  destruct (exn (do_eval s1 e)) eqn:Ex2; [exact H2|]. specialize (Hin eq_refl).
  destruct (qltb 0 (e_impr e) && o_sloppy o || qltb SI (e_impr e)); [|exact H2].
  assert (H3 : stepU s (set_cur (do_eval s1 e) (inc_of e))).
  { destruct H2 as (G1 & G2 & Gf & _). split; [exact G1|]. split; [exact G2|]. split; [exact Gf|].
    right. cbn [set_cur cur calls inc_of i_u i_y]. exact Hin. }
  destruct (qltb SI (e_impr e)); [|exact H3].
  eapply stepU_trans; [exact H3 | apply stepU_same; apply same_set_ctrl].
Qed.

Definition PU (s0 : st) (a : pacc) : Prop :=
  hist (p_s a) = hist s0 /\ (forall p, In p (calls s0) -> In p (calls (p_s a))) /\
  fc s0 <= fc (p_s a) /\ cur (p_s a) = cur s0 /\
  (p_inc a = cur s0 \/ In (i_u (p_inc a), Some (i_y (p_inc a))) (calls (p_s a))).

Lemma poll_loop_PU : forall o ncand s0 evs a, PU s0 a -> PU s0 (poll_loop o ncand evs a).
Proof.
  intros o ncand s0 evs. induction evs as [|e r IH]; intros a HP; cbn [poll_loop]; [exact HP|].
  destruct (poll_guard o ncand a); [|exact HP].
  destruct HP as (Hh & Hincl & Hfc & Hcu & Hinc).
  destruct (do_eval_calls (p_s a) e) as (D1 & D2 & D3 & D4 & D5).
  assert (Hinc' : p_inc a = cur s0 \/ In (i_u (p_inc a), Some (i_y (p_inc a))) (calls (do_eval (p_s a) e))).
  { destruct Hinc as [E | Hin]; [left; exact E | right; apply D3; exact Hin]. }
  assert (Hincl' : forall p, In p (calls s0) -> In p (calls (do_eval (p_s a) e))).
  { intros p Hp. apply D3. apply Hincl. exact Hp. }
  assert (Hfc' : fc s0 <= fc (do_eval (p_s a) e)) by lia.
  destruct (exn (do_eval (p_s a) e)) eqn:Ex2.
  - unfold PU. cbn [p_s p_inc]. split; [congruence|]. split; [exact Hincl'|]. split; [exact Hfc'|].
    split; [congruence | exact Hinc'].
  - specialize (D4 eq_refl). apply IH.
    destruct (qltb (p_best a) (e_impr e)); unfold PU; cbn [p_s p_inc].
    + split; [congruence|]. split; [exact Hincl'|]. split; [exact Hfc'|]. split; [congruence|].
      right. cbn [inc_of i_u i_y]. exact D4.
    + split; [congruence|]. split; [exact Hincl'|]. split; [exact Hfc'|]. split; [congruence | exact Hinc'].
Qed.

Lemma stepU_poll : forall o SI ev s, stepU s (poll_phase o SI ev s).
Proof.
  intros o SI ev s. unfold poll_phase.
  assert (HP0 : PU s (mkP s 0 (cur s) 0)).
  { unfold PU. cbn [p_s p_inc]. split; [reflexivity|]. split; [intros p Hp; exact Hp|].
    split; [lia|]. split; [reflexivity | left; reflexivity]. }
  pose proof (poll_loop_PU o (pe_ncand ev) s (pe_evals ev) _ HP0) as HP.
  set (a := poll_loop o (pe_ncand ev) (pe_evals ev) (mkP s 0 (cur s) 0)) in *.
  cbv zeta. destruct HP as (Hh & Hincl & Hfc & Hcu & Hinc).
  assert (Ha : stepU s (p_s a)).
  { split; [exact Hh|]. split; [exact Hincl|]. split; [exact Hfc | left; exact Hcu]. }
  destruct (exn (p_s a)); [exact Ha|].
  set (s2 := if qltb 0 (p_best a) && o_sloppy o || qltb SI (p_best a) then set_cur (p_s a) (p_inc a) else p_s a).
  assert (H2 : stepU s s2).
  { unfold s2. destruct (qltb 0 (p_best a) && o_sloppy o || qltb SI (p_best a)); [|exact Ha].
    split; [exact Hh|]. split; [exact Hincl|]. split; [exact Hfc|]. cbn [set_cur cur calls].
    destruct Hinc as [E | Hin]; [left; exact E | right; exact Hin]. }
  destruct (qltb SI (p_best a)); (eapply stepU_trans; [exact H2 | apply stepU_same; apply same_set_ctrl]).
Qed.

(* ---- one iteration, decomposed: the state s3 after search/poll, then the closing record ---- *)
Definition close_iter (o : opts) (ev : iter_ev) (s3 : st) (dopoll f : bool) (m kk : Z) : st :=
  mkSt (k s3) (ks s3) (scount s3) (ssucc s3) (spree s3)
       (if negb f && dopoll then piter s3 + 1 else piter s3) (fc s3) (nrows s3)
       (if negb (o_det o) && dopoll && (0 <? piter s3)
        then match ie_noisy ev with Some c => c | None => cur s3 end else cur s3)
       (calls s3)
       (if dopoll || f then hist s3 ++ [mkH (cur s3) (fc s3) kk] else hist s3) f m false.

Lemma step_iter_decomp : forall o s ev, fin s = false -> exn s = false ->
  exists s3 dopoll, stepU s s3 /\ sameH s s3 /\
    ((exn s3 = true /\ step_iter o s ev = s3 /\ noisy_u_ok_iter o s ev = true) \/
     (exn s3 = false /\ exists f m kk,
        step_iter o s ev = close_iter o ev s3 dopoll f m kk /\
        noisy_u_ok_iter o s ev =
          if negb (o_det o) && dopoll && (0 <? piter s3)
          then match ie_noisy ev with
               | Some c => pair_eqb c (cur s3) || existsb (fun h => pair_eqb c (h_inc h)) (hist s3)
               | None => true
               end
          else true)).
Proof.
  intros o s ev Hfin Hx. unfold step_iter, noisy_u_ok_iter. rewrite Hfin, Hx. cbn [orb].
  pose proof (stepU_same _ _ (same_lock_ks o s)) as H0.
  pose proof (sameH_lock_ks o s) as G0.
  set (s0 := lock_ks o s) in *.
  set (s1 := if want_search o s0 then search_phase o (ie_SI ev) (ie_search ev) s0 else s0) in *.
  assert (H1 : stepU s s1).
  { unfold s1. destruct (want_search o s0); [|exact H0].
    eapply stepU_trans; [exact H0 | apply stepU_search]. }
  assert (G1 : sameH s s1).
  { unfold s1. destruct (want_search o s0); [|exact G0].
    eapply sameH_trans; [exact G0 | apply sameH_search]. }
  destruct (exn s1) eqn:Ex1.
  { exists s1, false. split; [exact H1|]. split; [exact G1|]. left. repeat split; try reflexivity. exact Ex1. }
  pose proof (stepU_same _ _ (same_poll_decision o s1)) as H2.
  pose proof (sameH_poll_decision o s1) as G2.
  destruct (poll_decision o s1) as [s2 dopoll]. cbn [fst] in H2, G2.
  set (s3 := if dopoll then poll_phase o (ie_SI ev) (ie_poll ev) s2 else s2) in *.
  assert (H3 : stepU s s3).
  { eapply stepU_trans; [exact H1|]. eapply stepU_trans; [exact H2|].
    unfold s3. destruct dopoll; [apply stepU_poll | apply stepU_refl]. }
  assert (G3 : sameH s s3).
  { eapply sameH_trans; [exact G1|]. eapply sameH_trans; [exact G2|].
    unfold s3. destruct dopoll; [apply sameH_poll | apply sameH_refl]. }
  exists s3, dopoll. split; [exact H3|]. split; [exact G3|].
  destruct (exn s3) eqn:Ex3.
  { left. repeat split; reflexivity. }
  right. split; [reflexivity|].
  destruct (terminate o (if dopoll then k s3 else k s0) (ie_stall ev) s3) as [f m].
  exists f, m, (if dopoll then k s3 else k s0). split; reflexivity.
Qed.

(* invariant: the pair (point, observed value) of every history row is a successful call and its
   func_count is not ahead of the counter; without a pending exception the same holds for the incumbent *)
Definition InvP (s : st) : Prop :=
  (forall h, In h (hist s) -> EvP (h_inc h) (calls s) /\ h_fc h <= fc s) /\
  (exn s = false -> EvP (cur s) (calls s)).

Lemma InvP_stepU : forall s s', exn s = false -> stepU s s' -> InvP s ->
  (forall h, In h (hist s') -> EvP (h_inc h) (calls s') /\ h_fc h <= fc s') /\ EvP (cur s') (calls s').
Proof.
  intros s s' Hx (Hh & Hincl & Hfc & Hcu) (Hr & Hc). split.
  - intros h Hin. rewrite Hh in Hin. destruct (Hr h Hin) as [R1 R2].
    split; [exact (EvP_incl _ _ _ Hincl R1) | lia].
  - destruct Hcu as [E | Hin].
    + rewrite E. exact (EvP_incl _ _ _ Hincl (Hc Hx)).
    + exact (EvP_exact _ _ Hin).
Qed.

Lemma InvP_step : forall o s ev, noisy_u_ok_iter o s ev = true -> InvP s -> InvP (step_iter o s ev).
Proof.
  intros o s ev Hok HI.
  destruct (exn s) eqn:Hx; [rewrite step_iter_exn by exact Hx; exact HI|].
  destruct (fin s) eqn:Hfin.
  { unfold step_iter. rewrite Hfin. cbn [orb]. exact HI. }
  destruct (step_iter_decomp o s ev Hfin Hx)
    as (s3 & dopoll & HU & _ & [(Ex3 & Es & _) | (Ex3 & f & m & kk & Es & En)]);
    destruct (InvP_stepU s s3 Hx HU HI) as [Hr3 Hc3]; rewrite Es.
  - split; [exact Hr3 | intros C; congruence].
  - rewrite En in Hok. unfold close_iter, InvP. cbn [hist calls fc cur exn]. split.
    + intros h Hin. destruct (dopoll || f); [|exact (Hr3 h Hin)].
      apply in_app_or in Hin. destruct Hin as [Hin | [Heq | []]]; [exact (Hr3 h Hin)|].
      subst h. cbn [h_inc h_fc]. split; [exact Hc3 | lia].
    + intros _. destruct (negb (o_det o) && dopoll && (0 <? piter s3)); [|exact Hc3].
      destruct (ie_noisy ev) as [c|]; [|exact Hc3].
      apply orb_true_iff in Hok. destruct Hok as [Hp | Hp].
      * exact (EvP_pair _ _ _ Hp Hc3).
      * apply existsb_exists in Hp. destruct Hp as (h & Hin & Hp).
        destruct (Hr3 h Hin) as [R1 _]. exact (EvP_pair _ _ _ Hp R1).
Qed.

Lemma InvP_run_loop : forall o evs s, noisy_u_ok o s evs = true -> InvP s -> InvP (run_loop o s evs).
Proof.
  intros o evs. unfold run_loop.
  induction evs as [|e r IH]; intros s Hok HI; cbn [fold_left noisy_u_ok] in *; [exact HI|].
  apply andb_true_iff in Hok. destruct Hok as [Hok1 Hok2].
  apply IH; [exact Hok2|]. apply InvP_step; assumption.
Qed.

(* initial design: every recorded row is a successful call; without an exception every call of the
   list was made, so every call marked "record" is in the recorded rows *)
Lemma init_calls_rec : forall l s recd,
  (forall u y, In (u, y) recd -> In (u, Some y) (calls s)) ->
  (forall u y, In (u, y) (snd (init_calls s recd l)) -> In (u, Some y) (calls (fst (init_calls s recd l)))) /\
  (forall p, In p recd -> In p (snd (init_calls s recd l))) /\
  (exn (fst (init_calls s recd l)) = false ->
   forall c, In c l -> ic_record c = true -> In (e_u (ic_eval c), e_y (ic_eval c)) (snd (init_calls s recd l))).
Proof.
  induction l as [|c r IH]; intros s recd HR; cbn [init_calls].
  { cbn [fst snd]. split; [exact HR|]. split; [intros p Hp; exact Hp | intros _ c []]. }
  destruct (exn s) eqn:Hxs.
  { cbn [fst snd]. split; [exact HR|]. split; [intros p Hp; exact Hp | intros C; congruence]. }
  destruct (do_eval_calls s (ic_eval c)) as (_ & _ & D3 & D4 & _).
  destruct (exn (do_eval s (ic_eval c))) eqn:Ex2.
  { cbn [fst snd]. split; [intros u y Hin; apply D3; exact (HR u y Hin)|].
    split; [intros p Hp; exact Hp | intros C; congruence]. }
  specialize (D4 eq_refl).
  set (recd' := if ic_record c then recd ++ [(e_u (ic_eval c), e_y (ic_eval c))] else recd) in *.
  assert (Hincl : forall p, In p recd -> In p recd').
  { intros p Hp. unfold recd'. destruct (ic_record c); [apply in_or_app; left; exact Hp | exact Hp]. }
  assert (HR' : forall u y, In (u, y) recd' -> In (u, Some y) (calls (do_eval s (ic_eval c)))).
  { intros u y Hin. unfold recd' in Hin. destruct (ic_record c).
    - apply in_app_or in Hin. destruct Hin as [Hin | [Heq | []]].
      + apply D3. exact (HR u y Hin).
      + inversion Heq. subst u y. exact D4.
    - apply D3. exact (HR u y Hin). }
  destruct (IH (do_eval s (ic_eval c)) recd' HR') as (I1 & I2 & I3).
  split; [exact I1|]. split; [intros p Hp; apply I2; apply Hincl; exact Hp|].
  intros Hx c' [Heq | Hin] Hrec.
  - subst c'. apply I2. unfold recd'. rewrite Hrec. apply in_or_app. right. left. reflexivity.
  - exact (I3 Hx c' Hin Hrec).
Qed.


Lemma InvP_init : forall k0 ks0 o l fsd0,
  (exists c, In c l /\ ic_record c = true /\ e_fault (ic_eval c) = false) ->
  InvP (init_phase k0 ks0 o l fsd0).
Proof.
  intros k0 ks0 o l fsd0 (c & Hin & Hrec & _). unfold InvP.
  destruct (init_phase_struct k0 ks0 o l fsd0) as [Hh _]. rewrite Hh. clear Hh.
  split; [intros h []|].
  unfold init_phase.
  assert (HR0 : forall u y, In (u, y) (@nil (list Q * Q)) -> In (u, Some y) (calls (init_state k0 ks0 o))).
  { intros u y []. }
  destruct (init_calls_rec l (init_state k0 ks0 o) [] HR0) as (I1 & _ & I3).
  destruct (init_calls (init_state k0 ks0 o) [] l) as [s recd]. cbn [fst snd] in *.
  pose proof (argmin_spec recd None) as Harg.
  destruct (argmin_rows None recd) as [[u y]|].
  - intros _. cbn [set_cur cur calls].
    destruct Harg as ([C | Hinr] & _); [discriminate|].
    apply EvP_exact. cbn [i_u i_y]. exact (I1 u y Hinr).
  - intros Hx. exfalso. destruct Harg as [_ Hnil]. subst recd. exact (I3 Hx c Hin Hrec).
Qed.

Lemma InvP_run : forall k0 ks0 o l fsd0 evs,
  noisy_u_ok o (init_phase k0 ks0 o l fsd0) evs = true ->
  (exists c, In c l /\ ic_record c = true /\ e_fault (ic_eval c) = false) ->
  InvP (run k0 ks0 o l fsd0 evs).
Proof.
  intros k0 ks0 o l fsd0 evs Hok HR. unfold run.
  apply InvP_run_loop; [exact Hok | apply InvP_init; exact HR].
Qed.

Theorem rows_are_evaluated_pairs :
  forall (k0 ks0 : Z) (o : opts) (l : list init_call) (fsd0 : Q) (evs : list iter_ev),
    noisy_u_ok o (init_phase k0 ks0 o l fsd0) evs = true ->
    (exists c, In c l /\ ic_record c = true /\ e_fault (ic_eval c) = false) ->
    let s := run k0 ks0 o l fsd0 evs in
    forall h, In h (hist s) ->
      (exists u' y', In (u', Some y') (calls s) /\ Forall2 Qeq u' (i_u (h_inc h)) /\ (y' == i_y (h_inc h))%Q) /\
      h_fc h <= fc s.
Proof.
  intros k0 ks0 o l fsd0 evs Hok HR s h Hin.
  destruct (InvP_run k0 ks0 o l fsd0 evs Hok HR) as [Hr _]. exact (Hr h Hin).
Qed.

(* the returned incumbent is the chosen history row (point and observed value) *)
Theorem noisy_result_is_a_row :
  forall (o : opts) (nfs : Z) (fev : final_ev) (s : st),
    let f := final_phase o nfs fev s in
    exn s = false -> o_det o = false -> 0 < piter s -> (fe_idx fev < List.length (hist s))%nat ->
    exists h, nth_error (hist s) (fe_idx fev) = Some h /\
              i_u (cur (fo_st f)) = i_u (h_inc h) /\ i_y (cur (fo_st f)) = i_y (h_inc h).
Proof.
  intros o nfs fev s f Hx Hd Hp Hidx. unfold f.
  destruct (final_phase_cases o nfs fev s) as [(Hc & E) | (_ & _ & _ & [(En & E) | (h & En & [(Hn & E) | (Hn & s2 & ys & sds & Efs & [(Hx2 & E) | (Hx2 & E)])])])];
    rewrite E; cbn [fo_st].
  - exfalso. destruct Hc as [C | [C | C]]; [congruence | congruence | lia].
  - exfalso. apply nth_error_None in En. lia.
  - exists h. split; [exact En|]. cbn [set_cur cur fin_inc i_u i_y]. split; reflexivity.
  - exists h. split; [exact En|].
    destruct (final_samples_cur (Z.to_nat nfs) (fe_obs fev) (set_cur s (fin_inc fev h)) (i_u (h_inc h)) [] []) as [Hc _].
    rewrite Efs in Hc. cbn [fst] in Hc. rewrite Hc. cbn [set_cur cur fin_inc i_u i_y]. split; reflexivity.
  - exists h. split; [exact En|]. cbn [set_cur cur i_u i_y]. split; reflexivity.
Qed.

(* Statement note: the second conjunct of C05_returned_x_is_evaluated_iterate is membership in the
   call list UP TO Qeq of the coordinates and of the value, because noisy_u_ok compares with Qeq_bool. *)
Theorem returned_x_is_evaluated_iterate :
  forall (k0 ks0 : Z) (o : opts) (l : list init_call) (fsd0 : Q) (evs : list iter_ev) (nfs : Z) (fev : final_ev),
    let s := run k0 ks0 o l fsd0 evs in
    let f := run_full k0 ks0 o l fsd0 evs nfs fev in
    noisy_u_ok o (init_phase k0 ks0 o l fsd0) evs = true ->
    (exists c, In c l /\ ic_record c = true /\ e_fault (ic_eval c) = false) ->
    exn s = false -> o_det o = false -> 0 < piter s -> (fe_idx fev < List.length (hist s))%nat ->
    (exists h, nth_error (hist s) (fe_idx fev) = Some h /\ i_u (cur (fo_st f)) = i_u (h_inc h) /\ i_y (cur (fo_st f)) = i_y (h_inc h)) /\
    (exists u' y, In (u', Some y) (calls s) /\ Forall2 Qeq u' (i_u (cur (fo_st f))) /\ (y == i_y (cur (fo_st f)))%Q).
Proof.
  intros k0 ks0 o l fsd0 evs nfs fev s f Hok HR Hx Hd Hp Hidx.
  destruct (InvP_run k0 ks0 o l fsd0 evs Hok HR) as [Hrows _]. fold s in Hrows.
  pose proof (noisy_result_is_a_row o nfs fev s Hx Hd Hp Hidx) as Hmain.
  change (final_phase o nfs fev s) with f in Hmain.
  split; [exact Hmain|].
  destruct Hmain as (h & En & Eu & Ey). rewrite Eu, Ey.
  apply nth_error_In in En. destruct (Hrows h En) as [Hev _]. exact Hev.
Qed.

(* ---- recorded func_count: never ahead of the counter, non-decreasing along the history ---- *)
Definition MonoF (h : list hrow) : Prop :=
  forall (i j : nat) (a b : hrow), (i <= j)%nat ->
    nth_error h i = Some a -> nth_error h j = Some b -> h_fc a <= h_fc b.

Lemma MonoF_snoc : forall h r, MonoF h -> (forall x, In x h -> h_fc x <= h_fc r) -> MonoF (h ++ [r]).
Proof.
  intros h r HM Hb i j a b Hij Ha Hb'.
  destruct (lt_dec j (List.length h)) as [Hj | Hj].
  - rewrite nth_error_app1 in Ha by lia. rewrite nth_error_app1 in Hb' by lia.
    exact (HM i j a b Hij Ha Hb').
  - destruct (nth_error_snoc_last h r j b) as [Eb Ej]; [lia | exact Hb' |]. subst b.
    destruct (lt_dec i (List.length h)) as [Hi | Hi].
    + rewrite nth_error_app1 in Ha by lia. apply Hb. eapply nth_error_In. exact Ha.
    + destruct (nth_error_snoc_last h r i a) as [Ea _]; [lia | exact Ha |]. subst a. lia.
Qed.

Definition InvF (s : st) : Prop := MonoF (hist s) /\ forall h, In h (hist s) -> h_fc h <= fc s.

Lemma InvF_step : forall o s ev, InvF s -> InvF (step_iter o s ev).
Proof.
  intros o s ev HI.
  destruct (exn s) eqn:Hx; [rewrite step_iter_exn by exact Hx; exact HI|].
  destruct (fin s) eqn:Hfin.
  { unfold step_iter. rewrite Hfin. cbn [orb]. exact HI. }
  destruct HI as [HM Hb].
  destruct (step_iter_decomp o s ev Hfin Hx)
    as (s3 & dopoll & (Hh & _ & Hfc & _) & _ & [(Ex3 & Es & _) | (Ex3 & f & m & kk & Es & _)]); rewrite Es.
  - unfold InvF. rewrite Hh. split; [exact HM|]. intros h Hin. pose proof (Hb h Hin). lia.
  - unfold close_iter, InvF. cbn [hist fc]. rewrite Hh.
    assert (Hb3 : forall x, In x (hist s) -> h_fc x <= fc s3) by (intros x Hin; pose proof (Hb x Hin); lia).
    destruct (dopoll || f); [|split; [exact HM | exact Hb3]].
    split; [apply MonoF_snoc; [exact HM | exact Hb3]|].
    intros h Hin. apply in_app_or in Hin. destruct Hin as [Hin | [Heq | []]]; [exact (Hb3 h Hin)|].
    subst h. cbn [h_fc]. lia.
Qed.

Lemma InvF_run_loop : forall o evs s, InvF s -> InvF (run_loop o s evs).
Proof.
  intros o evs. unfold run_loop.
  induction evs as [|e r IH]; intros s HI; cbn [fold_left]; [exact HI|].
  apply IH. apply InvF_step. exact HI.
Qed.

Theorem func_count_nondecreasing :
  forall (k0 ks0 : Z) (o : opts) (l : list init_call) (fsd0 : Q) (evs : list iter_ev),
    let s := run k0 ks0 o l fsd0 evs in
    forall (i j : nat) (a b : hrow), (i <= j)%nat ->
      nth_error (hist s) i = Some a -> nth_error (hist s) j = Some b -> h_fc a <= h_fc b.
Proof.
  intros k0 ks0 o l fsd0 evs s.
  assert (H0 : InvF (init_phase k0 ks0 o l fsd0)).
  { destruct (init_phase_struct k0 ks0 o l fsd0) as [Hh _]. unfold InvF. rewrite Hh.
    split; [|intros h []]. intros i j a b _ Ha _. destruct i; discriminate. }
  destruct (InvF_run_loop o evs _ H0) as [HM _]. exact HM.
Qed.

(* ---- the closing record of a finished run ---- *)
Definition LR (o : opts) (s : st) : Prop :=
  fin s = true -> exn s = false ->
  exists h, nth_error (hist s) (List.length (hist s) - 1) = Some h /\ h_fc h = fc s /\
            (o_det o = true \/ piter s = 0 -> h_inc h = cur s).

Lemma LR_step : forall o s ev, LR o s -> LR o (step_iter o s ev).
Proof.
  intros o s ev HI.
  destruct (exn s) eqn:Hx; [rewrite step_iter_exn by exact Hx; exact HI|].
  destruct (fin s) eqn:Hfin.
  { unfold step_iter. rewrite Hfin. cbn [orb]. exact HI. }
  destruct (step_iter_decomp o s ev Hfin Hx)
    as (s3 & dopoll & _ & (_ & _ & Hf3) & [(Ex3 & Es & _) | (Ex3 & f & m & kk & Es & _)]); rewrite Es.
  - intros C. congruence.
  - unfold close_iter, LR. cbn [hist fc cur fin exn piter]. intros Hf _. subst f.
    rewrite orb_true_r. cbn [negb andb].
    exists (mkH (cur s3) (fc s3) kk). split.
    + rewrite app_length. cbn [List.length].
      rewrite nth_error_app2 by lia.
      replace (List.length (hist s3) + 1 - 1 - List.length (hist s3))%nat with 0%nat by lia. reflexivity.
    + cbn [h_fc h_inc]. split; [reflexivity|].
      intros [Hd | Hp0].
      * rewrite Hd. reflexivity.
      * rewrite Hp0. change (0 <? 0) with false. rewrite andb_false_r. reflexivity.
Qed.

Lemma LR_run_loop : forall o evs s, LR o s -> LR o (run_loop o s evs).
Proof.
  intros o evs. unfold run_loop.
  induction evs as [|e r IH]; intros s HI; cbn [fold_left]; [exact HI|].
  apply IH. apply LR_step. exact HI.
Qed.

Theorem result_is_last_row :
  forall (k0 ks0 : Z) (o : opts) (l : list init_call) (fsd0 : Q) (evs : list iter_ev),
    let s := run k0 ks0 o l fsd0 evs in
    fin s = true -> exn s = false -> (o_det o = true \/ piter s = 0) ->
    exists h, nth_error (hist s) (List.length (hist s) - 1) = Some h /\ h_inc h = cur s /\ h_fc h = fc s.
Proof.
  intros k0 ks0 o l fsd0 evs s Hfin Hx Hc.
  assert (H0 : LR o (init_phase k0 ks0 o l fsd0)).
  { intros C. exfalso.
    destruct (HL_init_phase k0 ks0 o l fsd0) as [_ Hl].
    destruct (init_phase_struct k0 ks0 o l fsd0) as [Hh _].
    rewrite Hh, C in Hl. cbn [List.length] in Hl.
    pose proof (sameH_init_calls l (init_state k0 ks0 o) []) as Hs.
    unfold init_phase in C.
    destruct (init_calls (init_state k0 ks0 o) [] l) as [s' recd]. cbn [fst] in Hs.
    destruct Hs as (_ & _ & Hf). cbn [init_state fin] in Hf.
    destruct (argmin_rows None recd) as [[u y]|]; cbn [set_cur fin] in C; congruence. }
  destruct (LR_run_loop o evs _ H0 Hfin Hx) as (h & Hn & Hfc & Hinc).
  exists h. split; [exact Hn|]. split; [exact (Hinc Hc) | exact Hfc].
Qed.

(* ================================================================== *)
(* 6. a concrete noisy final phase: three fresh samples 1, 2, 3        *)
(* ================================================================== *)
Definition fx_opts : opts :=
  mkO 1 100 10 2 (-10) false 0 5 false 0 0 0 1 0 false (1 # 1000) true false.

Definition fx_state : st :=
  mkSt 0 0 0 0 0 1 5 5 (mkI [1 # 2] 4 4 1) [([1 # 2], Some 4%Q)]
       [mkH (mkI [0%Q] 5 5 1) 3 0; mkH (mkI [1 # 2] 4 4 1) 5 0] true 1 false.

Definition fx_fev : final_ev :=
  mkFE 1 (7 # 2) (1 # 2) [(false, 1%Q, None); (false, 2%Q, Some (1 # 10)); (false, 3%Q, None)]
       2 (471404520791 # 1000000000000).

Theorem final_example : exists o nfs fev s,
  fo_sampled (final_phase o nfs fev s) = true /\ final_est_ok (final_phase o nfs fev s) = true /\ nfs = 3.
Proof.
  exists fx_opts, 3, fx_fev, fx_state.
  split; [vm_compute; reflexivity|]. split; [vm_compute; reflexivity | reflexivity].
Qed.

(* Why the second conjunct of [returned_x_is_evaluated_iterate] is stated up to Qeq: all premises hold,
   the noisy re-estimation writes the incumbent point 1 as 2#2 (accepted by noisy_u_ok, which can only
   compare with Qeq_bool), a later history row records it, and Leibniz membership in the call list fails. *)
Definition lx_evs : list iter_ev :=
  [mkIE 1 (mkSE None 0) (mkPE 2 [mkE [3 # 2] false 6 6 1 0 false] None) None None;
   mkIE 1 (mkSE None 0) (mkPE 2 [mkE [5 # 2] false 6 6 1 0 false] None) None (Some (mkI [2 # 2] 5 5 1));
   mkIE 1 (mkSE None 0) (mkPE 2 [mkE [7 # 2] false 6 6 1 0 false] None) None None].

Theorem returned_x_leibniz_refuted :
  exists k0 ks0 o l fsd0 evs nfs fev,
    let s := run k0 ks0 o l fsd0 evs in
    let f := run_full k0 ks0 o l fsd0 evs nfs fev in
    noisy_u_ok o (init_phase k0 ks0 o l fsd0) evs = true /\
    (exists c, In c l /\ ic_record c = true /\ e_fault (ic_eval c) = false) /\
    exn s = false /\ o_det o = false /\ 0 < piter s /\ (fe_idx fev < List.length (hist s))%nat /\
    ~ (exists y, In (i_u (cur (fo_st f)), Some y) (calls s)).
Proof.
  exists 0, 0, fx_opts, [mkIC (mkE [1%Q] false 5 5 1 0 true) true], 1%Q, lx_evs, 0,
    (mkFE 2 5 1 [] 0 0).
  cbv zeta.
  split; [vm_compute; reflexivity|].
  split.
  { exists (mkIC (mkE [1%Q] false 5 5 1 0 true) true).
    split; [left; reflexivity|]. split; reflexivity. }
  split; [vm_compute; reflexivity|]. split; [reflexivity|].
  split; [vm_compute; reflexivity|].
  split; [apply Nat.ltb_lt; vm_compute; reflexivity|].
  vm_compute. intros (y & [H | [H | [H | [H | []]]]]); discriminate H.
Qed.
