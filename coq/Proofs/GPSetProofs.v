(* GPSetProofs.v — proofs about Model/GPSet.v (C15).  Closed, stdlib only. *)
From Coq Require Import ZArith QArith List Bool Lia Permutation Sorted.
From PV Require Import Model.Val Model.GPSet.
Import ListNotations.
Open Scope Z_scope.

(* order by (distance, index) *)
Definition lex_le (a b : entry) : Prop :=
  (e_d a < e_d b)%Q \/ ((e_d a == e_d b)%Q /\ (e_i a <= e_i b)%nat).

Lemma lex_le_dist : forall a b, lex_le a b -> (e_d a <= e_d b)%Q.
Proof.
  intros a b [H | [H _]].
  - apply Qlt_le_weak; exact H.
  - rewrite H. apply Qle_refl.
Qed.

Lemma lex_le_intro : forall a b, (e_d a <= e_d b)%Q -> (e_i a <= e_i b)%nat -> lex_le a b.
Proof.
  intros a b Hd Hi. destruct (Qle_lt_or_eq _ _ Hd) as [H | H].
  - left; exact H.
  - right; split; assumption.
Qed.

(* ---------- insertion sort: permutation ---------- *)
Lemma insert_perm : forall x l, Permutation (insert x l) (x :: l).
Proof.
  intros x l. induction l as [| y r IH]; cbn [insert].
  - apply Permutation_refl.
  - destruct (Qle_bool (e_d x) (e_d y)).
    + apply Permutation_refl.
    + eapply Permutation_trans.
      * apply perm_skip. exact IH.
      * apply perm_swap.
Qed.

Lemma sort_perm : forall l, Permutation (sort_entries l) l.
Proof.
  induction l as [| x r IH]; cbn [sort_entries].
  - apply Permutation_refl.
  - eapply Permutation_trans.
    + apply insert_perm.
    + apply perm_skip. exact IH.
Qed.

(* ---------- insertion sort: sorted by (distance, index), i.e. stable ---------- *)
Lemma insert_sorted : forall x l,
    StronglySorted lex_le l ->
    Forall (fun y => (e_i x < e_i y)%nat) l ->
    StronglySorted lex_le (insert x l).
Proof.
  intros x l. induction l as [| y r IH]; intros Hs Hi; cbn [insert].
  - constructor; constructor.
  - inversion Hs as [| ? ? Hsr Hyr]; subst.
    inversion Hi as [| ? ? Hxy Hxr]; subst.
    destruct (Qle_bool (e_d x) (e_d y)) eqn:E.
    + apply Qle_bool_iff in E.
      constructor; [exact Hs |].
      constructor.
      * apply lex_le_intro; [exact E | lia].
      * rewrite Forall_forall in *. intros z Hz.
        apply lex_le_intro.
        -- eapply Qle_trans; [exact E | apply lex_le_dist; apply Hyr; exact Hz].
        -- specialize (Hxr z Hz). lia.
    + assert (Hlt : (e_d y < e_d x)%Q).
      { apply Qnot_le_lt. intro H. apply Qle_bool_iff in H. rewrite H in E. discriminate. }
      constructor.
      * apply IH; assumption.
      * rewrite Forall_forall in *. intros z Hz.
        apply (Permutation_in _ (insert_perm x r)) in Hz.
        destruct Hz as [Hz | Hz].
        -- subst z. left. exact Hlt.
        -- apply Hyr. exact Hz.
Qed.

Definition idx_increasing (l : list entry) : Prop :=
  StronglySorted (fun a b => (e_i a < e_i b)%nat) l.

Lemma sort_sorted : forall l, idx_increasing l -> StronglySorted lex_le (sort_entries l).
Proof.
  induction l as [| x r IH]; intros H; cbn [sort_entries].
  - constructor.
  - inversion H as [| ? ? Hr Hx]; subst.
    apply insert_sorted.
    + apply IH. exact Hr.
    + rewrite Forall_forall in *. intros y Hy.
      apply Hx. apply (Permutation_in _ (sort_perm r)). exact Hy.
Qed.

(* ---------- tagging ---------- *)
Lemma tag_from_bounds : forall dists log i e,
    In e (tag_from i dists log) -> (i <= e_i e)%nat.
Proof.
  induction dists as [| d ds IH]; intros log i e H; cbn [tag_from] in H.
  - contradiction.
  - destruct log as [| r rs]; [contradiction |].
    destruct H as [H | H].
    + subst e. cbn. lia.
    + apply IH in H. lia.
Qed.

Lemma tag_from_increasing : forall dists log i, idx_increasing (tag_from i dists log).
Proof.
  induction dists as [| d ds IH]; intros log i; cbn [tag_from].
  - constructor.
  - destruct log as [| r rs]; [constructor |].
    constructor.
    + apply IH.
    + rewrite Forall_forall. intros e He. apply tag_from_bounds in He. cbn. lia.
Qed.

Lemma tag_from_nth : forall dists log i e,
    In e (tag_from i dists log) ->
    (i <= e_i e)%nat /\
    nth_error log (e_i e - i) = Some (e_r e) /\ nth_error dists (e_i e - i) = Some (e_d e).
Proof.
  induction dists as [| d ds IH]; intros log i e H; cbn [tag_from] in H.
  - contradiction.
  - destruct log as [| r rs]; [contradiction |].
    destruct H as [H | H].
    + subst e. cbn [e_i e_r e_d]. rewrite Nat.sub_diag. cbn. auto.
    + specialize (IH rs (S i) e H). destruct IH as (Hb & Hl & Hd).
      split; [lia |].
      replace (e_i e - i)%nat with (S (e_i e - S i)) by lia.
      cbn [nth_error]. auto.
Qed.

Lemma tag_nth : forall dists log e,
    In e (tag dists log) ->
    nth_error log (e_i e) = Some (e_r e) /\ nth_error dists (e_i e) = Some (e_d e).
Proof.
  intros dists log e H. apply tag_from_nth in H. rewrite Nat.sub_0_r in H. tauto.
Qed.

Lemma tag_from_length : forall dists log i,
    List.length dists = List.length log -> List.length (tag_from i dists log) = List.length log.
Proof.
  induction dists as [| d ds IH]; intros log i H; destruct log as [| r rs]; cbn in *; try lia.
  f_equal. apply IH. lia.
Qed.

Lemma tag_from_rows : forall dists log i,
    List.length dists = List.length log -> map e_r (tag_from i dists log) = log.
Proof.
  induction dists as [| d ds IH]; intros log i H; destruct log as [| r rs]; cbn in *; try lia; try reflexivity.
  f_equal. apply IH. lia.
Qed.

Lemma tag_from_nodup : forall dists log i, NoDup (map e_i (tag_from i dists log)).
Proof.
  induction dists as [| d ds IH]; intros log i; cbn [tag_from].
  - constructor.
  - destruct log as [| r rs]; [constructor |].
    cbn [map e_i]. constructor.
    + intro H. apply in_map_iff in H. destruct H as (e & He & Hin).
      apply tag_from_bounds in Hin. lia.
    + apply IH.
Qed.

(* ---------- sorted log ---------- *)
Lemma sorted_log_perm : forall dists log, Permutation (sorted_log dists log) (tag dists log).
Proof. intros. apply sort_perm. Qed.

Lemma sorted_log_sorted : forall dists log, StronglySorted lex_le (sorted_log dists log).
Proof. intros. apply sort_sorted. apply tag_from_increasing. Qed.

Lemma sorted_log_length : forall dists log,
    List.length dists = List.length log -> List.length (sorted_log dists log) = List.length log.
Proof.
  intros dists log H. rewrite (Permutation_length (sorted_log_perm dists log)).
  apply tag_from_length. exact H.
Qed.

Lemma sorted_log_nodup : forall dists log, NoDup (map e_i (sorted_log dists log)).
Proof.
  intros. eapply Permutation_NoDup.
  - apply Permutation_sym. apply Permutation_map. apply sorted_log_perm.
  - apply tag_from_nodup.
Qed.

Lemma sorted_firstn_skipn : forall (R : entry -> entry -> Prop) l n a b,
    StronglySorted R l -> In a (firstn n l) -> In b (skipn n l) -> R a b.
Proof.
  intros R l. induction l as [| x r IH]; intros n a b Hs Ha Hb.
  - destruct n; cbn in Ha; contradiction.
  - destruct n as [| n]; [cbn in Ha; contradiction |].
    cbn [firstn skipn] in Ha, Hb.
    inversion Hs as [| ? ? Hsr Hx]; subst.
    destruct Ha as [Ha | Ha].
    + subst a. rewrite Forall_forall in Hx. apply Hx.
      apply (In_skipn_in _ _ _ Hb) || (rewrite <- (firstn_skipn n r); apply in_or_app; right; exact Hb).
    + eapply IH; eassumption.
Qed.

Lemma firstn_sorted : forall (R : entry -> entry -> Prop) l n,
    StronglySorted R l -> StronglySorted R (firstn n l).
Proof.
  intros R l. induction l as [| x r IH]; intros n Hs; destruct n as [| n]; cbn [firstn]; try constructor.
  - inversion Hs; subst. apply IH. assumption.
  - inversion Hs as [| ? ? Hsr Hx]; subst. rewrite Forall_forall in *. intros y Hy.
    apply Hx. rewrite <- (firstn_skipn n r). apply in_or_app. left. exact Hy.
Qed.

Lemma nodup_firstn : forall (A : Type) (l : list A) n, NoDup l -> NoDup (firstn n l).
Proof.
  intros A l. induction l as [| x r IH]; intros n H; destruct n as [| n]; cbn [firstn]; try constructor.
  - inversion H as [| ? ? Hx Hr]; subst. intro Hin. apply Hx.
    rewrite <- (firstn_skipn n r). apply in_or_app. left. exact Hin.
  - inversion H; subst. apply IH. assumption.
Qed.

(* ---------- the theorems ---------- *)

(* output = prefix of the (distance, index)-sorted log *)
Theorem training_set_is_nearest :
  forall (dists : list Q) (radius2 : Q) (n_min n_max buffer : Z) (log : list lrow),
    let n := Z.to_nat (ntrain_of n_min n_max buffer (count_within dists radius2) (Z.of_nat (List.length log))) in
    let srt := sorted_log dists log in
    training_set dists radius2 n_min n_max buffer log = map (fun e => out_row (e_r e)) (firstn n srt) /\
    Permutation srt (tag dists log) /\
    (List.length dists = List.length log -> map e_r (tag dists log) = log) /\
    StronglySorted lex_le srt /\
    (forall k o, In k (firstn n srt) -> In o (skipn n srt) -> (e_d k <= e_d o)%Q) /\
    (forall e, In e srt -> nth_error log (e_i e) = Some (e_r e) /\ nth_error dists (e_i e) = Some (e_d e)).
Proof.
  intros dists radius2 n_min n_max buffer log n srt.
  split; [reflexivity |].
  split; [apply sorted_log_perm |].
  split; [intro H; apply tag_from_rows; exact H |].
  split; [apply sorted_log_sorted |].
  split.
  - intros k o Hk Ho. apply lex_le_dist.
    eapply sorted_firstn_skipn; [apply sorted_log_sorted | exact Hk | exact Ho].
  - intros e He. apply tag_nth. apply (Permutation_in _ (sorted_log_perm dists log)). exact He.
Qed.

Lemma ntrain_bounds : forall n_min n_max buffer count nlogged,
    let n := ntrain_of n_min n_max buffer count nlogged in
    Z.min n_min nlogged <= n /\ n <= nlogged /\
    n <= Z.max (Z.max n_max n_min) (n_max - buffer) /\
    (0 <= buffer -> n <= Z.max n_max n_min) /\
    (0 <= n_min -> 0 <= nlogged -> 0 <= n).
Proof. intros. unfold n, ntrain_of. lia. Qed.

Theorem size_bounds :
  forall (dists : list Q) (radius2 : Q) (n_min n_max buffer : Z) (log : list lrow),
    List.length dists = List.length log ->
    0 <= n_min ->
    let nlogged := Z.of_nat (List.length log) in
    let n := ntrain_of n_min n_max buffer (count_within dists radius2) nlogged in
    n = Z.min (Z.max (Z.max n_min (n_max - buffer)) (Z.min n_max (count_within dists radius2))) nlogged /\
    Z.of_nat (List.length (training_set dists radius2 n_min n_max buffer log)) = n /\
    Z.min n_min nlogged <= n /\ n <= nlogged /\
    n <= Z.max (Z.max n_max n_min) (n_max - buffer) /\
    (0 <= buffer -> n <= Z.max n_max n_min).
Proof.
  intros dists radius2 n_min n_max buffer log Hlen Hmin nlogged n.
  pose proof (ntrain_bounds n_min n_max buffer (count_within dists radius2) nlogged) as B.
  cbn zeta in B. fold n in B. destruct B as (B1 & B2 & B3 & B4 & B5).
  split; [reflexivity |].
  split.
  - unfold training_set, training_set_n, kept_entries. rewrite map_length, firstn_length.
    rewrite sorted_log_length by exact Hlen. fold nlogged. fold n.
    assert (0 <= n) by (apply B5; unfold nlogged; lia).
    unfold nlogged in *. lia.
  - repeat split; assumption.
Qed.

(* each output row is the logged row of a distinct selected index, with the SD squared *)
Theorem pairs_are_logged :
  forall (dists : list Q) (radius2 : Q) (n_min n_max buffer : Z) (log : list lrow),
    let idx := selected_indices dists radius2 n_min n_max buffer log in
    NoDup idx /\
    Forall2 (fun i o => exists r, nth_error log i = Some r /\
                                  lr_x o = lr_x r /\ lr_y o = lr_y r /\
                                  lr_s o = option_map (fun s => Qred (s * s)) (lr_s r))
            idx (training_set dists radius2 n_min n_max buffer log).
Proof.
  intros dists radius2 n_min n_max buffer log idx.
  unfold idx, selected_indices, training_set, training_set_n, kept_entries.
  set (n := Z.to_nat _).
  split.
  - rewrite <- firstn_map. apply nodup_firstn. apply sorted_log_nodup.
  - assert (H : forall e, In e (firstn n (sorted_log dists log)) -> nth_error log (e_i e) = Some (e_r e)).
    { intros e He. apply (tag_nth dists log e).
      apply (Permutation_in _ (sorted_log_perm dists log)).
      rewrite <- (firstn_skipn n (sorted_log dists log)). apply in_or_app. left. exact He. }
    induction (firstn n (sorted_log dists log)) as [| e l IH]; cbn [map].
    + constructor.
    + constructor.
      * exists (e_r e). split; [apply H; left; reflexivity |].
        unfold out_row, lr_x, lr_y, lr_s, sq_s2. cbn. auto.
      * apply IH. intros e' He'. apply H. right. exact He'.
Qed.

Theorem noise_is_variance :
  forall (dists : list Q) (radius2 : Q) (n_min n_max buffer : Z) (log : list lrow) (j : nat) (o : lrow),
    nth_error (training_set dists radius2 n_min n_max buffer log) j = Some o ->
    exists i r,
      nth_error (selected_indices dists radius2 n_min n_max buffer log) j = Some i /\
      nth_error log i = Some r /\
      match lr_s r with
      | Some s => exists v, lr_s o = Some v /\ (v == s * s)%Q
      | None => lr_s o = None
      end.
Proof.
  intros dists radius2 n_min n_max buffer log j o Hj.
  destruct (pairs_are_logged dists radius2 n_min n_max buffer log) as [_ HF].
  cbn zeta in HF.
  revert j Hj.
  induction HF as [| i o' li lo Hio HF IH]; intros j Hj.
  - destruct j; discriminate.
  - destruct j as [| j].
    + cbn in Hj. injection Hj as ->.
      destruct Hio as (r & Hr & _ & _ & Hs).
      exists i, r. split; [reflexivity |]. split; [exact Hr |].
      destruct (lr_s r) as [s |]; cbn in Hs.
      * exists (Qred (s * s)). split; [exact Hs | apply Qred_correct].
      * exact Hs.
    + cbn [nth_error] in Hj |- *. apply IH. exact Hj.
Qed.

(* add_and_update_gp appends exactly the new observation *)
Theorem append_is_new_observation :
  forall (g : gpdata) (x : row) (y : Q) (sd : option Q) (specify : bool) (g' : gpdata),
    add_and_update g x y sd specify = Some g' ->
    g_X g' = g_X g ++ [x] /\ g_y g' = g_y g ++ [y] /\
    match specify, sd with
    | true, Some s => exists l v, g_s2 g = Some l /\ g_s2 g' = Some (l ++ [Some v]) /\ (v == s * s)%Q
    | _, _ => g_s2 g' = g_s2 g
    end.
Proof.
  intros g x y sd specify g' H. unfold add_and_update in H.
  destruct specify; destruct sd as [s |]; try (injection H as <-; cbn; auto).
  destruct (g_s2 g) as [l |] eqn:E; [| discriminate].
  injection H as <-. cbn. split; [reflexivity |]. split; [reflexivity |].
  exists l, (Qred (s * s)). split; [reflexivity |]. split; [reflexivity | apply Qred_correct].
Qed.

(* add_and_update only fails when the noise column was never set *)
Lemma add_and_update_defined :
  forall g x y sd specify, g_s2 g <> None -> add_and_update g x y sd specify <> None.
Proof.
  intros g x y sd specify H. unfold add_and_update.
  destruct specify; destruct sd; try discriminate.
  destruct (g_s2 g); [discriminate | contradiction].
Qed.

(* the initial training set (_get_fevals_data): every row is a flagged logged row with the SD squared, in log order *)
Theorem fevals_are_logged :
  forall (flags : list bool) (log : list lrow),
    fevals_data flags log = map out_row (map snd (filter fst (combine flags log))).
Proof.
  induction flags as [| f fs IH]; intros log; cbn [fevals_data combine].
  - reflexivity.
  - destruct log as [| r rs]; [reflexivity |].
    cbn [combine filter]. destruct f; cbn [fst map snd]; rewrite IH; reflexivity.
Qed.

(* local_gp_fitting hands the selected rows to the GP unchanged *)
Theorem set_training_columns :
  forall noise g ts,
    let g' := set_training noise g ts in
    g_X g' = map lr_x ts /\ g_y g' = map lr_y ts /\
    g_s2 g' = (if noise then Some (map lr_s ts) else g_s2 g).
Proof. intros. cbn. auto. Qed.

(* gsn (the function as called, with the full arrays and X_max_idx) is training_set on the prefix *)
Lemma gsn_is_training_set :
  forall xmax dmat radius2 n_min n_max buffer full,
    -1 <= xmax -> xmax + 1 <= Z.of_nat (List.length full) ->
    gsn xmax dmat radius2 n_min n_max buffer full =
    training_set (map dist_rowmin dmat) radius2 n_min n_max buffer (log_prefix xmax full).
Proof.
  intros xmax dmat radius2 n_min n_max buffer full H1 H2.
  unfold gsn, training_set. f_equal.
  unfold log_prefix. rewrite firstn_length. lia.
Qed.

(* ---------- posterior update after a REPEATED specified-noise evaluation: the clause fails ----------
   The logger merges the new observation into row i (value -> weighted mean y', SD -> combined s');
   add_and_update_gp appends (x, y', sd^2) to a GP that still holds the pre-merge pair (x, y_old, s_old^2):
   that older training pair is no longer a logged evaluation, and the appended noise is the single
   observation's variance, not the logged (combined) SD squared. *)
Definition ex_rep_log : list lrow := [ ([0#1], 0#1, Some (5#3)); ([1#1], 2#1, Some (1#2)) ].
Lemma pairs_logged_after_repeat_refuted :
  exists (log : list lrow) (dists : list Q) (i : nat) (x : row) (y_old s_old y_new sd y' s' : Q),
    nth_error log i = Some (x, y_old, Some s_old) /\
    (y' == (y_old / (s_old * s_old) + y_new / (sd * sd)) / (1 / (s_old * s_old) + 1 / (sd * sd)))%Q /\
    (1 / (s' * s') == 1 / (s_old * s_old) + 1 / (sd * sd))%Q /\
    let g := set_training true (mkG [] [] None) (training_set dists (9#1) 1 5 0 log) in
    pairs_logged g log = true /\
    exists g', add_and_update g x y' (Some sd) true = Some g' /\
               pairs_logged g' (merge_row i y' s' log) = false.
Proof.
  exists ex_rep_log, [0#1; 1#1], 0%nat, [0#1], (0#1), (5#3), (25#1), (5#4), (16#1), (1#1).
  split; [reflexivity |].
  split; [vm_compute; reflexivity |].
  split; [vm_compute; reflexivity |].
  cbn zeta. split; [vm_compute; reflexivity |].
  eexists. split; [vm_compute; reflexivity |].
  vm_compute. reflexivity.
Qed.
