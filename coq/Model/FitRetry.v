(* FitRetry.v — model M14: the three controllers around a failing GP hyper-parameter fit.
   Source: pybads/bads/gaussian_process_train.py
     _robust_gp_fit_            (l.514-640)  n_try = 10 attempts, drop step after remove_points_after_tries failures
     init_and_train_gp          (l.154-187)  `while not fitted` loop, training_failures 0 / 3 / other
     local_gp_fitting           (l.467-478)  posterior-update fallback (gp.update in try/except LinAlgError)
   Executable, no proofs.

   State = LENGTHS of the arrays handed to gpyreg.GP.fit (|X|, |Y|, the local s2, the GP's stored tmp_gp.s2) and
   the controller flags.  Oracles:
     fails : nat -> bool   fit invocation j (global count over the run) raises np.linalg.LinAlgError
     drops : nat -> nat    number of rows the drop step removes after the failure of invocation j
                           (closest-pair worse point + values above the 95th percentile; clipped to [1, |X|]:
                            with >= 1 row at least the closest-pair index is dropped — for a single row argmin of
                            the all-inf 1x1 matrix is (0,0) and that row goes; with 0 rows np.argmin raises ValueError)
   What GP.fit does with its arguments before any linear algebra (gpyreg _convert_shapes, then self.X/self.y/self.s2
   assignment) is modelled: y.reshape(N,1) and s2.reshape(N,1) raise ValueError when the lengths differ — that is how
   a misaligned s2 aborts the run.  Everything else inside fit is the oracle.
   Trusted (not modelled): the hyper-parameter resampling / noise nudging inside the except-handler does not raise;
   a fit that does not raise LinAlgError returns normally. *)
From Coq Require Import ZArith List Bool String Arith.
Import ListNotations.
Open Scope Z_scope.

Inductive s2len : Type := S2None | S2Scalar | S2Arr (n : nat).

(* the lengths seen at one fit attempt: X, Y, s2 argument, GP's stored s2 before the call *)
Record attempt := mkA { a_X : nat; a_Y : nat; a_s2 : s2len; a_tmp : option nat }.

Inductive rf_result : Type :=
| RFReturned (success : Z) (tr : list attempt)        (* (gp, new_hyp, res, success) returned, res bound *)
| RFStuck (why : string) (tr : list attempt).         (* an exception other than LinAlgError leaves the function *)

Definition rf_trace (r : rf_result) : list attempt :=
  match r with RFReturned _ t => t | RFStuck _ t => t end.

(* GP._convert_shapes on (X, y, s2) with X given: None = fine, Some msg = ValueError *)
Definition convert_error (nX nY : nat) (s2 : s2len) : option string :=
  if negb (Nat.eqb nY nX) then Some "ValueError: cannot reshape y"%string
  else match s2 with
       | S2Arr m => if Nat.eqb m nX then None else Some "ValueError: cannot reshape s2"%string
       | _ => None
       end.

(* GP.fit stores s2 on the object when it is given *)
Definition stored_after_fit (nX : nat) (s2 : s2len) (tmp : option nat) : option nat :=
  match s2 with S2None => tmp | _ => Some nX end.

Definition clip_drop (k n : nat) : nat := Nat.max 1 (Nat.min k n).

Section Robust.
  Variable repaired : bool.        (* true = the code as it is now (a4552d2); false = pre-repair: local s2 not shrunk *)
  Variable rpat : Z.               (* options["remove_points_after_tries"] *)
  Variable fails : nat -> bool.
  Variable drops : nat -> nat.

  (* one round of `for i_try in range(n_try)`; [left] = attempts left, [tr] = attempts so far (reversed) *)
  Fixpoint robust_loop (left i_try j nX nY : nat) (s2 : s2len) (tmp : option nat) (tr : list attempt) : rf_result :=
    match left with
    | O => RFStuck "UnboundLocalError: res unbound"%string (rev tr)     (* all n_try attempts failed: `return ..., res, ...` *)
    | S left' =>
        let tr' := mkA nX nY s2 tmp :: tr in
        match convert_error nX nY s2 with
        | Some msg => RFStuck msg (rev tr')
        | None =>
            let tmp1 := stored_after_fit nX s2 tmp in
            if negb (fails j) then
              RFReturned (if Nat.eqb i_try 0 then 1 else 0) (rev tr')      (* break: res bound *)
            else if Z.gtb (Z.of_nat i_try) (rpat - 1) then
              (* drop step: idx_drop_out has len(Y) entries *)
              match nX with
              | O => RFStuck "ValueError: argmin of an empty sequence"%string (rev tr')
              | _ =>
                  let k := clip_drop (drops j) nX in
                  let tmp2 :=                      (* tmp_gp.s2[~idx_drop_out] if not None and size > 0 *)
                    match tmp1 with
                    | Some (S m) => if Nat.eqb (S m) nY then Some (Some (S m - k)%nat) else None
                    | other => Some other
                    end in
                  let s2' :=                       (* s2[~idx_drop_out] if not None and not scalar — the repair *)
                    match s2 with
                    | S2Arr m => if repaired then (if Nat.eqb m nY then Some (S2Arr (m - k)) else None) else Some s2
                    | other => Some other
                    end in
                  match tmp2, s2' with
                  | Some t2, Some s2n => robust_loop left' (S i_try) (S j) (nX - k) (nY - k) s2n t2 tr'
                  | _, _ => RFStuck "IndexError: boolean index did not match"%string (rev tr')
                  end
              end
            else robust_loop left' (S i_try) (S j) nX nY s2 tmp1 tr'
        end
    end.

  Definition n_try : nat := 10.
  (* _robust_gp_fit_(gp, x_train, y_train, s2_train, ...) entered when [j] fits have been invoked so far;
     tmp = size of gp.s2 (deep-copied into tmp_gp) *)
  Definition robust_fit (j nX nY : nat) (s2 : s2len) (tmp : option nat) : rf_result :=
    robust_loop n_try 0 j nX nY s2 tmp [].
End Robust.

(* ---------- init_and_train_gp: while not fitted ---------- *)
Inductive init_branch : Type := BrHyp0 | BrZeros | BrPriorSample.
Definition branch_of (training_failures : nat) : init_branch :=
  match training_failures with
  | 0%nat => BrHyp0
  | 3%nat => BrZeros
  | _ => BrPriorSample
  end.

Inductive init_result : Type :=
| IReturned (attempts : nat) (last : init_branch)     (* fitted = True after this many fit invocations *)
| IStuck (why : string) (attempts : nat)
| IOutOfFuel (attempts : nat).                        (* the model's fuel ran out: the real loop is still spinning *)

(* hyp0_none: the start-point array was discarded (l.151-152); np.zeros(shape=hyp0.shape) then raises at failure 3 *)
Fixpoint init_loop (fuel : nat) (fails : nat -> bool) (hyp0_none : bool) (j tf : nat) : init_result :=
  match fuel with
  | O => IOutOfFuel tf
  | S f =>
      if Nat.eqb tf 3 && hyp0_none then IStuck "AttributeError: hyp0 is None"%string tf
      else if fails j then init_loop f fails hyp0_none (S j) (S tf)
      else IReturned (S tf) (branch_of tf)
  end.
Definition init_training (fuel : nat) (fails : nat -> bool) (hyp0_none : bool) (j : nat) : init_result :=
  init_loop fuel fails hyp0_none j 0.

(* ---------- local_gp_fitting: recompute posterior, fall back on LinAlgError ----------
   exit_flag before the update: None = np.inf (no refit), Some c = the success code of _robust_gp_fit_.
   update_fails: gp.update(hyp=hyp_gp) raises LinAlgError.
   handler_fails: the handler's gp.set_hyperparameters(old_hyp_gp) recomputes the posterior through gp.update
   again; if THAT raises LinAlgError nothing catches it. *)
Inductive upd_result : Type :=
| UReturned (exit_flag : option Z) (restored : bool)
| UStuck (why : string).
Definition update_fallback (exit_flag : option Z) (update_fails handler_fails : bool) : upd_result :=
  if update_fails then
    if handler_fails then UStuck "LinAlgError escapes the except-handler (set_hyperparameters recomputes the posterior)"%string
    else UReturned (Some (-2)) true
  else UReturned exit_flag false.

(* ---------- correspondence helpers ---------- *)
Definition s2len_eqb (a b : s2len) : bool :=
  match a, b with
  | S2None, S2None => true
  | S2Scalar, S2Scalar => true
  | S2Arr n, S2Arr m => Nat.eqb n m
  | _, _ => false
  end.
Definition onat_eqb (a b : option nat) : bool :=
  match a, b with Some x, Some y => Nat.eqb x y | None, None => true | _, _ => false end.
Definition attempt_eqb (a b : attempt) : bool :=
  Nat.eqb (a_X a) (a_X b) && Nat.eqb (a_Y a) (a_Y b) && s2len_eqb (a_s2 a) (a_s2 b) && onat_eqb (a_tmp a) (a_tmp b).
Fixpoint attempts_eqb (a b : list attempt) : bool :=
  match a, b with
  | [], [] => true
  | x :: r, y :: s => attempt_eqb x y && attempts_eqb r s
  | _, _ => false
  end.
(* expected: (Some code | None = an exception left the function, class name) and the attempts seen *)
Definition rf_matches (r : rf_result) (code : option Z) (exc : string) (tr : list attempt) : bool :=
  attempts_eqb (rf_trace r) tr &&
  match r, code with
  | RFReturned c _, Some c' => Z.eqb c c'
  | RFStuck why _, None => String.prefix exc why
  | _, _ => false
  end.
Definition nth_bool (l : list bool) (j : nat) : bool := nth j l false.
Definition nth_nat (l : list nat) (j : nat) : nat := nth j l 0%nat.
Definition init_matches (r : init_result) (attempts : nat) : bool :=
  match r with IReturned n _ => Nat.eqb n attempts | _ => false end.
