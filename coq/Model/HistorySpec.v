(* HistorySpec.v — the vocabulary in which the container laws of property C19 are stated
   (well-formed states, "this op may write cell (k,i)", "this identity is known to the caller").
   Definitions only; proofs are in Proofs/HistoryProofs.v, statements in Props/C19.v. *)
From Coq Require Import ZArith List String Bool.
From PV Require Import Model.Val Model.History.
Import ListNotations.
Open Scope Z_scope.

(* a stored identity is "owned below n": immutable, or allocated by the container before n *)
Definition id_below (lo n : nat) (id : ident) : Prop :=
  id = Imm \/ exists m, id = Own m /\ (lo <= m < n)%nat.

Definition cell_below (lo n : nat) (c : cell) : Prop :=
  match c with Some v => id_below lo n (vid v) | None => True end.

Definition stored_ok (n : nat) (st : stored) : Prop :=
  match st with
  | SArr a cs => (a < n)%nat /\ Forall (cell_below 0 n) cs
  | _ => True
  end.

(* every stored mutable object was allocated by the container (below its counter) *)
Definition wf (s : hstate) : Prop :=
  Forall (fun kv => stored_ok (next s) (snd kv)) (items s).

(* identities the caller can hold when it calls the container in state s: any immutable, any of its
   own objects, any object the container has allocated so far (obtained through a reference) *)
Definition id_known (s : hstate) (id : ident) : Prop :=
  match id with Own m => (m < next s)%nat | _ => True end.

(* op o may write cell (k, i) of the history (conservative):
   assignments/deletions of key k, records at (k, i), and in-place changes of container-owned objects
   through a reference handed out earlier *)
Definition touches (k : string) (i : nat) (o : op) : Prop :=
  match o with
  | SetItem k' _ => k' = k
  | Del k' => k' = k
  | Record k' _ i' => k' = k /\ i' = Z.of_nat i
  | RecordIteration kvs i' => i' = Z.of_nat i /\ In k (map fst kvs)
  | Get _ => False
  | Mutate id _ => exists m, id = Own m
  end.

(* cell (k, i) holds nothing: beyond the end / key holds None, or the None padding *)
Definition is_blank (s : hstate) (k : string) (i : nat) : Prop :=
  cell_at s k i = None \/ cell_at s k i = Some None.

(* key k can be recorded into: present and not an unsized scalar *)
Definition recordable (s : hstate) (k : string) : Prop :=
  exists st, lookup k (items s) = Some st /\ forall p, st <> SScalar p.

(* the same vocabulary for OptimizeResult *)
Definition rwf (s : rstate) : Prop :=
  Forall (fun kv => id_below 0 (rnext s) (vid (snd kv))) (ritems s).
