(* GPSet.v — model M13: how the GP training set is built from the evaluation log.
   Source: pybads/bads/gaussian_process_train.py
     get_grid_search_neighbors (l.1008-1060), _get_fevals_data (l.1063-1096),
     add_and_update_gp (l.1141-1174), local_gp_fitting l.224-229 (gp.X, gp.y, gp.s2 assignment).
   Executable, no proofs.

   What is modelled
     * the log is a list of rows (X[i], Y[i], S[i]); S[i] = None when the logger has no S column
       (noise_flag = False) or the cell is NaN (unknown-noise mode: S is allocated but never written);
     * distances are ORACLE rationals, one per prefix row, recorded from the real [udist]
       (a length-scaled squared Euclidean metric computed by SciPy's cdist: trusted, not modelled);
       if udist returns several columns the row minimum is taken ([dist_rowmin]);
     * [np.argsort(dist)] is modelled as a STABLE sort by distance = the order by (distance, index).
       numpy's default argsort (introsort) is NOT guaranteed stable: on tied distances the real
       order inside a tie group is unspecified.  The correspondence therefore compares model and
       code tie group by tie group as multisets ([gsn_matches] below); everything the theorems of
       C15 say about (distance)-order, membership and size is insensitive to the order inside a tie;
     * ntrain = min(max(n_train_min, n_train_max - buffer_ntrain, min(n_train_max, #{dist <= radius^2})),
                    X_max_idx + 1);
       radius^2 is an oracle rational (the float (gp_radius * effective_radius)**2 recomputed by the
       harness with the same IEEE operations);  a negative ntrain (negative n_train_min, never
       configured) would make Python slice from the end: outside the model ([Z.to_nat] gives 0);
     * the noise column handed to the GP is S^2 (after repair 46c5b20), exact rational square here,
       binary64-rounded square in the code (compared at 1e-9 relative, [q_approx]). *)
From Coq Require Import ZArith QArith List Bool.
From PV Require Import Model.Val.
Import ListNotations.
Open Scope Z_scope.

Definition row := list Q.
(* one logged evaluation: internal point, value, SD (None = no SD stored) *)
Definition lrow := (row * Q * option Q)%type.

Definition lr_x (r : lrow) : row := fst (fst r).
Definition lr_y (r : lrow) : Q := snd (fst r).
Definition lr_s (r : lrow) : option Q := snd r.

Record entry := mkE { e_d : Q; e_i : nat; e_r : lrow }.

(* zip distances, indices (from i) and rows *)
Fixpoint tag_from (i : nat) (dists : list Q) (log : list lrow) : list entry :=
  match dists, log with
  | d :: ds, r :: rs => mkE d i r :: tag_from (S i) ds rs
  | _, _ => []
  end.
Definition tag (dists : list Q) (log : list lrow) : list entry := tag_from 0%nat dists log.

(* stable insertion sort by distance: [x] (which precedes every element of [l] in the log) is put
   before the first element that is not strictly nearer, so ties keep index order *)
Fixpoint insert (x : entry) (l : list entry) : list entry :=
  match l with
  | [] => [x]
  | y :: r => if Qle_bool (e_d x) (e_d y) then x :: l else y :: insert x r
  end.
Fixpoint sort_entries (l : list entry) : list entry :=
  match l with
  | [] => []
  | x :: r => insert x (sort_entries r)
  end.

Definition sq_s2 (s : option Q) : option Q := option_map (fun q => Qred (q * q)) s.
(* what the GP receives for a logged row: same point, same value, SD squared *)
Definition out_row (r : lrow) : lrow := (lr_x r, lr_y r, sq_s2 (lr_s r)).

Definition count_within (dists : list Q) (radius2 : Q) : Z :=
  Z.of_nat (List.length (filter (fun d => Qle_bool d radius2) dists)).

Definition ntrain_of (n_min n_max buffer count nlogged : Z) : Z :=
  Z.min (Z.max (Z.max n_min (n_max - buffer)) (Z.min n_max count)) nlogged.

Definition sorted_log (dists : list Q) (log : list lrow) : list entry := sort_entries (tag dists log).

Definition kept_entries (nlogged : Z) (dists : list Q) (radius2 : Q) (n_min n_max buffer : Z)
           (log : list lrow) : list entry :=
  firstn (Z.to_nat (ntrain_of n_min n_max buffer (count_within dists radius2) nlogged)) (sorted_log dists log).

(* [nlogged] is what the code calls X_max_idx + 1 *)
Definition training_set_n (nlogged : Z) (dists : list Q) (radius2 : Q) (n_min n_max buffer : Z)
           (log : list lrow) : list lrow :=
  map (fun e => out_row (e_r e)) (kept_entries nlogged dists radius2 n_min n_max buffer log).

(* the function of the brief: [log] is the log prefix X[0..X_max_idx], one distance per row *)
Definition training_set (dists : list Q) (radius2 : Q) (n_min n_max buffer : Z) (log : list lrow) : list lrow :=
  training_set_n (Z.of_nat (List.length log)) dists radius2 n_min n_max buffer log.

Definition selected_indices (dists : list Q) (radius2 : Q) (n_min n_max buffer : Z) (log : list lrow) : list nat :=
  map e_i (kept_entries (Z.of_nat (List.length log)) dists radius2 n_min n_max buffer log).

(* ---- get_grid_search_neighbors as called: full arrays + X_max_idx, udist's matrix ---- *)
Definition qmin (a b : Q) : Q := if Qle_bool a b then a else b.
Definition dist_rowmin (r : list Q) : Q :=
  match r with [] => 0%Q | a :: t => fold_left qmin t a end.
Definition log_prefix (xmax : Z) (full : list lrow) : list lrow := firstn (Z.to_nat (xmax + 1)) full.

Definition gsn (xmax : Z) (dmat : list (list Q)) (radius2 : Q) (n_min n_max buffer : Z)
           (full : list lrow) : list lrow :=
  training_set_n (xmax + 1) (map dist_rowmin dmat) radius2 n_min n_max buffer (log_prefix xmax full).
Definition gsn_ntrain (xmax : Z) (dmat : list (list Q)) (radius2 : Q) (n_min n_max buffer : Z) : Z :=
  ntrain_of n_min n_max buffer (count_within (map dist_rowmin dmat) radius2) (xmax + 1).

(* ---- _get_fevals_data: all flagged rows, S^2 ---- *)
Fixpoint fevals_data (flags : list bool) (log : list lrow) : list lrow :=
  match flags, log with
  | f :: fs, r :: rs => if f then out_row r :: fevals_data fs rs else fevals_data fs rs
  | _, _ => []
  end.

(* ---- the data a GP object holds: gp.X, gp.y, gp.s2 (None, or one cell per row; a cell is None for NaN) ---- *)
Record gpdata := mkG { g_X : list row; g_y : list Q; g_s2 : option (list (option Q)) }.

(* local_gp_fitting l.224-229: gp.X, gp.y always replaced; gp.s2 only if the logger has an S column *)
Definition set_training (noise_flag : bool) (g : gpdata) (ts : list lrow) : gpdata :=
  mkG (map lr_x ts) (map lr_y ts) (if noise_flag then Some (map lr_s ts) else g_s2 g).

(* add_and_update_gp: None = np.concatenate((None, ...)) raises (gp.s2 never set) *)
Definition add_and_update (g : gpdata) (x_new : row) (y_new : Q) (sd_new : option Q) (specify : bool)
  : option gpdata :=
  match specify, sd_new with
  | true, Some sd =>
      match g_s2 g with
      | Some l => Some (mkG (g_X g ++ [x_new]) (g_y g ++ [y_new]) (Some (l ++ [Some (Qred (sd * sd))])))
      | None => None
      end
  | _, _ => Some (mkG (g_X g ++ [x_new]) (g_y g ++ [y_new]) (g_s2 g))
  end.

(* ---- "every training pair is a logged evaluation", as a decidable check on a GP data set and a log ----
   rows of the GP as (x, y, s2); a GP without noise column is compared on (x, y) only *)
Fixpoint gp_rows (xs : list row) (ys : list Q) (ss : option (list (option Q))) : list lrow :=
  match xs, ys with
  | x :: xr, y :: yr =>
      match ss with
      | Some (s :: sr) => (x, y, s) :: gp_rows xr yr (Some sr)
      | _ => (x, y, None) :: gp_rows xr yr None
      end
  | _, _ => []
  end.
Definition qeq_list (a b : list Q) : bool :=
  Nat.eqb (List.length a) (List.length b) && forallb (fun p => Qeq_bool (fst p) (snd p)) (combine a b).
Definition oq_eqb (a b : option Q) : bool :=
  match a, b with Some x, Some y => Qeq_bool x y | None, None => true | _, _ => false end.
(* GP row [g] is the log row [l]: same input, same value, and (if the GP carries noise) noise = S^2 *)
Definition is_log_row (with_noise : bool) (g l : lrow) : bool :=
  qeq_list (lr_x g) (lr_x l) && Qeq_bool (lr_y g) (lr_y l) &&
  (if with_noise then oq_eqb (lr_s g) (sq_s2 (lr_s l)) else true).
Fixpoint take_log_row (with_noise : bool) (g : lrow) (log : list lrow) : option (list lrow) :=
  match log with
  | [] => None
  | l :: r => if is_log_row with_noise g l then Some r
              else match take_log_row with_noise g r with Some r' => Some (l :: r') | None => None end
  end.
Fixpoint rows_logged (with_noise : bool) (rows log : list lrow) : bool :=
  match rows with
  | [] => true
  | g :: r => match take_log_row with_noise g log with
              | Some log' => rows_logged with_noise r log'
              | None => false
              end
  end.
Definition pairs_logged (g : gpdata) (log : list lrow) : bool :=
  Nat.eqb (List.length (g_X g)) (List.length (g_y g)) &&
  rows_logged (match g_s2 g with Some _ => true | None => false end) (gp_rows (g_X g) (g_y g) (g_s2 g)) log.

(* FunctionLogger._record under specified noise at an ALREADY LOGGED point (model M4, Model/Logger.v):
   row i keeps its point and receives the precision-weighted mean y' and the combined SD s' *)
Fixpoint merge_row (i : nat) (y' s' : Q) (log : list lrow) : list lrow :=
  match log, i with
  | [], _ => []
  | r :: t, O => (lr_x r, y', Some s') :: t
  | r :: t, S k => r :: merge_row k y' s' t
  end.

(* ---- correspondence helpers (evaluated under vm_compute on harness-written cases) ---- *)
Definition qlist_eqb (a b : list Q) : bool :=
  (Nat.eqb (List.length a) (List.length b)) && forallb (fun p => Qeq_bool (fst p) (snd p)) (combine a b).
Definition s2_ok (m e : option Q) : bool :=
  match m, e with
  | None, None => true
  | Some a, Some b => q_approx a b
  | _, _ => false
  end.
(* model row vs row returned by the code: point and value exact, variance at 1e-9 relative *)
Definition lrow_ok (m e : lrow) : bool :=
  qlist_eqb (lr_x m) (lr_x e) && Qeq_bool (lr_y m) (lr_y e) && s2_ok (lr_s m) (lr_s e).

Fixpoint remove_first (x : lrow) (l : list lrow) : option (list lrow) :=
  match l with
  | [] => None
  | y :: r => if lrow_ok y x then Some r
              else match remove_first x r with Some r' => Some (y :: r') | None => None end
  end.
(* take [k] rows from the front of [real]; each must be (a distinct) member of [group] *)
Fixpoint consume (k : nat) (real group : list lrow) : option (list lrow) :=
  match k with
  | O => Some real
  | S k' => match real with
            | [] => None
            | x :: rest => match remove_first x group with
                           | Some g' => consume k' rest g'
                           | None => None
                           end
            end
  end.
(* split a (sorted) list into the leading tie group of distance [d] and the rest *)
Fixpoint span_tie (d : Q) (l : list entry) : list entry * list entry :=
  match l with
  | [] => ([], [])
  | y :: r => if Qeq_bool (e_d y) d then let '(g, t) := span_tie d r in (y :: g, t) else ([], l)
  end.
(* [need] rows are still to be matched; walk the sorted log tie group by tie group *)
Fixpoint match_groups (fuel : nat) (need : nat) (sorted : list entry) (real : list lrow) : bool :=
  match fuel with
  | O => false
  | S f =>
      match need with
      | O => match real with [] => true | _ => false end
      | _ =>
          match sorted with
          | [] => false
          | y :: _ =>
              let '(g, t) := span_tie (e_d y) sorted in
              let k := Nat.min need (List.length g) in
              match consume k real (map (fun e => out_row (e_r e)) g) with
              | Some rest => match_groups f (need - k) t rest
              | None => false
              end
          end
      end
  end.
(* does the code's output (rows in its order) agree with the model up to the order inside tie groups,
   including which members of a tie group straddling the cut are kept? *)
Definition gsn_matches (xmax : Z) (dmat : list (list Q)) (radius2 : Q) (n_min n_max buffer : Z)
           (full : list lrow) (real : list lrow) (real_ntrain : Z) : bool :=
  let dists := map dist_rowmin dmat in
  let pre := log_prefix xmax full in
  let n := gsn_ntrain xmax dmat radius2 n_min n_max buffer in
  let srt := sorted_log dists pre in
  let need := Nat.min (Z.to_nat n) (List.length srt) in
  Z.eqb n real_ntrain && Nat.eqb (List.length real) need &&
  match_groups (S (S (List.length srt))) need srt real.

(* exact comparison (no tie tolerance) — used where the harness knows there are no ties *)
Fixpoint lrows_ok (m e : list lrow) : bool :=
  match m, e with
  | [], [] => true
  | a :: r, b :: s => lrow_ok a b && lrows_ok r s
  | _, _ => false
  end.

Definition opt_cells_ok (m e : option (list (option Q))) : bool :=
  match m, e with
  | None, None => true
  | Some a, Some b => Nat.eqb (List.length a) (List.length b) && forallb (fun p => s2_ok (fst p) (snd p)) (combine a b)
  | _, _ => false
  end.
Definition gpdata_ok (m e : gpdata) : bool :=
  Nat.eqb (List.length (g_X m)) (List.length (g_X e)) &&
  forallb (fun p => qlist_eqb (fst p) (snd p)) (combine (g_X m) (g_X e)) &&
  qlist_eqb (g_y m) (g_y e) && opt_cells_ok (g_s2 m) (g_s2 e).
Definition opt_gpdata_ok (m e : option gpdata) : bool :=
  match m, e with
  | None, None => true
  | Some a, Some b => gpdata_ok a b
  | _, _ => false
  end.
