(* FinalLib.v — small total functions the GENERATED file gen/Src_final.v is written in (translate/final.py): NumPy's row comparison
   `np.flatnonzero(np.all(X[:n] == u, axis=1))` and indexing of a float vector by an integer.  No proofs; does not depend on gen. *)
From Coq Require Import ZArith QArith List Bool.
Import ListNotations.
Open Scope Z_scope.

(* X[i] == u, all coordinates (floats as exact rationals: == is Qeq_bool) *)
Fixpoint qrow_eqb (a b : list Q) : bool :=
  match a, b with
  | [], [] => true
  | x :: r, y :: t => Qeq_bool x y && qrow_eqb r t
  | _, _ => false
  end.

(* np.flatnonzero(np.all(rows == u, axis=1)): the indices (counted from k) of the rows equal to u, ascending *)
Fixpoint rows_eq_from (k : Z) (rows : list (list Q)) (u : list Q) : list Z :=
  match rows with
  | [] => []
  | r :: t => if qrow_eqb r u then k :: rows_eq_from (k + 1) t u else rows_eq_from (k + 1) t u
  end.

(* v[i] for 0 <= i < len(v); 0 outside (the code would raise / wrap around: never the case for the indices the tail computes) *)
Definition nthq (l : list Q) (i : Z) : Q := if i <? 0 then 0%Q else nth (Z.to_nat i) l 0%Q.
