(* ESSelect.v — executable model (M10) of the selection bookkeeping of the search step:
     (a) ESSearch._get_selection_idx_mask_            (pybads/search/es_search.py l.44-69)
     (b) the candidate accumulation / ranking loop of ESSearch.__call__ (l.134-215)
     (c) the argmin + single evaluation of BADS._search_step_ (pybads/bads/bads.py l.1630-1655)
     (d) the hedge probabilities and the choice of ESSearchHedge.__call__ (search_hedge.py l.58-67)
   Floats are exact rationals.  Oracle inputs (never recomputed here): the weight vector [w0] after
   np.ceil(...).astype(int); the surviving candidates of every generation with their acquisition
   values (numbers or NaN); the values e_i = exp(beta*(g_i - max g)); the uniform draw.  No proofs in this file. *)
From Coq Require Import ZArith QArith List String Bool.
From PV Require Import Model.Val.
Import ListNotations.
Open Scope Z_scope.

(* ------------------------------------------------------------------ (a) selection mask *)

Definition zsum (l : list Z) : Z := fold_right Z.add 0 l.

(* np.sum(w > 0) *)
Definition count_pos (w : list Z) : Z := zsum (map (fun x => if 0 <? x then 1 else 0) w).

(* np.maximum(0, w - 1) *)
Definition dec0 (w : list Z) : list Z := map (fun x => Z.max 0 (x - 1)) w.

(* while (np.sum(w) - lamb) > nonzero: w = np.maximum(0, w - 1); nonzero = np.sum(w > 0) *)
Fixpoint shrink_loop (fuel : nat) (w : list Z) (lamb : Z) : list Z :=
  match fuel with
  | O => w
  | S f => if count_pos w <? zsum w - lamb then shrink_loop f (dec0 w) lamb else w
  end.

(* Fuel: (sum of the positive parts of w) + 1 — equal to sum w + 1 when no entry is negative.
   Proofs/ESSelectProofs.v (shrink_fuel_suffices) shows that for lamb >= 0 the loop has exited
   when this fuel runs out.  (For lamb < 0 the real loop does not terminate; lamb is
   int(n_search / n_search_iter) >= 0 in the code.) *)
Definition pos_sum (w : list Z) : Z := zsum (map (Z.max 0) w).
Definition shrink (w : list Z) (lamb : Z) : list Z :=
  shrink_loop (S (Z.to_nat (pos_sum w))) w lamb.

(* (np.argwhere(w > 0)[-1]).item() — None models the IndexError on an empty argwhere *)
Fixpoint last_pos_from (i : Z) (w : list Z) (acc : option Z) : option Z :=
  match w with
  | [] => acc
  | x :: r => last_pos_from (i + 1) r (if 0 <? x then Some i else acc)
  end.
Definition last_pos (w : list Z) : option Z := last_pos_from 0 w None.

(* w[strt:stop] = w[strt:stop] - 1   (0 <= strt; [i] is the index of the head of the list) *)
Fixpoint dec_slice (i strt stop : Z) (w : list Z) : list Z :=
  match w with
  | [] => []
  | x :: r => (if (strt <=? i) && (i <? stop) then x - 1 else x) :: dec_slice (i + 1) strt stop r
  end.

Fixpoint cumsum_from (acc : Z) (l : list Z) : list Z :=
  match l with
  | [] => []
  | x :: r => (acc + x) :: cumsum_from (acc + x) r
  end.
Definition cumsum (l : list Z) : list Z := cumsum_from 0 l.

Fixpoint zip_with {A B C} (f : A -> B -> C) (a : list A) (b : list B) : list C :=
  match a, b with
  | x :: r, y :: s => f x y :: zip_with f r s
  | _, _ => []
  end.

(* cw = np.cumsum(w) - w + 1 *)
Definition cw_of (w : list Z) : list Z := zip_with (fun c x => c - x + 1) (cumsum w) w.

(* np.max — None models the ValueError on an empty array *)
Definition zmax_list (l : list Z) : option Z :=
  match l with
  | [] => None
  | x :: r => Some (fold_left Z.max r x)
  end.

(* NumPy integer indexing into an array of length [len]: negative indices wrap once *)
Definition norm_index (len p : Z) : option Z :=
  if (0 <=? p) && (p <? len) then Some p
  else if (- len <=? p) && (p <? 0) then Some (p + len)
  else None.

Fixpoint norm_all (len : Z) (ps : list Z) : option (list Z) :=
  match ps with
  | [] => Some []
  | p :: r =>
      match norm_index len p, norm_all len r with
      | Some q, Some qs => Some (q :: qs)
      | _, _ => None
      end
  end.

Definition zrange (n : Z) : list Z := map Z.of_nat (seq 0 (Z.to_nat n)).
Definition mem_z (j : Z) (l : list Z) : bool := existsb (Z.eqb j) l.

(* idx = zeros(len); idx[ps] = 1; the first [n] entries of idx *)
Definition idx_bits (ps : list Z) (n : Z) : list Z :=
  map (fun j => if mem_z j ps then 1 else 0) (zrange n).

Inductive mres := MOk (m : list Z) | MErr (cls : string).

(* The integer part of _get_selection_idx_mask_, from w = np.ceil(...).astype(int) on. *)
Definition selection_mask (w0 : list Z) (lamb : Z) : mres :=
  let w1 := shrink w0 lamb in
  let delta := zsum w1 - lamb in
  match last_pos w1 with
  | None => MErr "IndexError"
  | Some lnz =>
      let strt := Z.max 0 (lnz - delta + 1) in
      let w2 := dec_slice 0 strt (lnz + 1) w1 in
      let cw := cw_of w2 in
      match zmax_list cw with
      | None => MErr "ValueError"
      | Some mx =>
          if mx + 1 <? 0 then MErr "ValueError"          (* np.zeros(negative) *)
          else match norm_all (mx + 1) cw with
               | None => MErr "IndexError"
               | Some ps => MOk (cumsum (idx_bits ps mx))  (* np.cumsum(idx[0:-1]) *)
               end
      end
  end.

(* us[selection_mask[0:ll]] : NumPy fancy indexing; None models IndexError *)
Fixpoint gather_z {A} (l : list A) (idx : list Z) : option (list A) :=
  match idx with
  | [] => Some []
  | i :: r =>
      match norm_index (Z.of_nat (List.length l)) i with
      | None => None
      | Some j =>
          match nth_error l (Z.to_nat j), gather_z l r with
          | Some x, Some xs => Some (x :: xs)
          | _, _ => None
          end
      end
  end.

(* the parents of the next generation: us[selection_mask[0:ll]], ll = min(lamb, us.shape[0]) *)
Definition parents {A} (us : list A) (mask : list Z) (lamb : nat) : option (list A) :=
  gather_z us (firstn (Nat.min lamb (List.length us)) mask).

(* ------------------------------------------------------------------ (b) ES accumulation *)

(* An acquisition value: a number or NaN (None).  The loop never inspects the values except through
   np.argsort, which ranks NaN after every number; a NaN value (an acquisition function failing on a
   candidate) is therefore an input like any other.  The correspondence injects NaN values from
   outside on some runs. *)
Definition zv := option Q.

(* the order np.argsort uses on floats: numbers by value, NaN after every number *)
Definition zle_bool (a b : zv) : bool :=
  match a, b with
  | Some x, Some y => Qle_bool x y
  | _, None => true
  | None, Some _ => false
  end.
Definition zle (a b : zv) : Prop :=
  match a, b with
  | Some x, Some y => (x <= y)%Q
  | _, None => True
  | None, Some _ => False
  end.
Definition zv_eqb (a b : zv) : bool :=
  match a, b with
  | Some x, Some y => Qeq_bool x y
  | None, None => true
  | _, _ => false
  end.

(* np.argsort(z): modelled as a STABLE insertion sort of (z_i, i) comparing z only.  NumPy's
   default kind is an unstable introsort/SIMD sort, so on ties of z the real order may differ;
   the correspondence compares the returned z exactly and, when the minimum is tied, only
   requires the returned row to be a survivor carrying that z. *)
Fixpoint ins (x : zv * nat) (l : list (zv * nat)) : list (zv * nat) :=
  match l with
  | [] => [x]
  | y :: r => if zle_bool (fst x) (fst y) then x :: l else y :: ins x r
  end.
Definition sort_pairs (l : list (zv * nat)) : list (zv * nat) := fold_right ins [] l.
Definition argsort (z : list zv) : list nat :=
  map snd (sort_pairs (combine z (seq 0 (List.length z)))).

(* a[idx] for in-range indices (argsort only produces indices < length z_candidates <= length us_candidates) *)
Definition gather {A} (l : list A) (idx : list nat) : list A :=
  flat_map (fun i => match nth_error l i with Some x => [x] | None => [] end) idx.

Section ES.
  Variable row : Type.

  (* us_candidates and z_candidates are SEPARATE arrays in the code; both only ever grow by the
     survivors of the current generation and their acquisition values, in step.  When a generation
     has no survivor (z_new.size == 0) the fallback
         z_new = np.random.rand(u_new.shape[0])                   (l.166)
     draws u_new.shape[0] = 0 values (acq_fcn_lcb returns one value per row of u_new, so z_new is
     empty exactly when u_new has no row): z_new stays empty, nothing is appended to either array
     and the ranking below is redone on the survivors accumulated so far.  (Before the repair the
     line assigned to z_candidates and wiped the accumulated values.) *)
  Record es_state := mkES {
    usc : list row;      (* us_candidates *)
    zc  : list zv;       (* z_candidates  *)
    us  : list row;      (* us = us_candidates[z_idx[0:N]] *)
    zs  : list zv        (* z  = z_candidates[z_idx[0:N]]  *)
  }.

  Definition es_init : es_state := mkES [] [] [] [].

  (* one pass of the loop body l.134-188 (selection; the step-size update l.190-197 and the reproduction l.199-208
     only shape the NEXT population, an oracle input) given the filtered generation with its acquisition values *)
  Definition es_step (first : bool) (lamb : nat) (st : es_state) (new : list (row * zv)) : es_state :=
    let u_new := map fst new in
    let z_new := map snd new in   (* when empty, l.166 redraws it with u_new.shape[0] = 0 entries: still empty *)
    let usc' := if first then u_new else usc st ++ u_new in
    let zc' := if first then z_new else zc st ++ z_new in
    let N := Nat.min (List.length usc') lamb in
    let idx := firstn N (argsort zc') in
    mkES usc' zc' (gather usc' idx) (gather zc' idx).

  Fixpoint es_loop (first : bool) (lamb : nat) (st : es_state) (gens : list (list (row * zv))) : es_state :=
    match gens with
    | [] => st
    | g :: r => es_loop false lamb (es_step first lamb st g) r
    end.

  (* l.211-215 (after repo commit 692d1d7):
         if us.shape[0] == 0: return us, z        -- the empty search set: a failed search
         return us[0], z[0]
     ESStuck models an IndexError on z[0]; Proofs/ESSelectProofs.v (es_never_stuck) shows it unreachable.
     Faithful for n_search_iter >= 1 only: with zero passes the code returns rows of an uninitialised
     np.empty array, the model ESEmpty. *)
  Inductive es_out := ESPoint (u : row) (z : zv) | ESEmpty | ESStuck.

  Definition es_result (st : es_state) : es_out :=
    match us st with
    | [] => ESEmpty
    | u :: _ => match zs st with
                | z :: _ => ESPoint u z
                | [] => ESStuck
                end
    end.

  Definition es_run (lamb : nat) (gens : list (list (row * zv))) : es_out :=
    es_result (es_loop true lamb es_init gens).

  (* -------------------------------------------------------------- (c) search-step argmin *)

  (* np.argmin: index of the FIRST minimum; None for an empty array *)
  Fixpoint argmin_from (i best_i : nat) (best : Q) (l : list Q) : nat :=
    match l with
    | [] => best_i
    | x :: r => if Qle_bool best x then argmin_from (S i) best_i best r
                else argmin_from (S i) i x r
    end.
  Definition argmin (l : list Q) : option nat :=
    match l with
    | [] => None
    | x :: r => Some (argmin_from 1 0 x r)
    end.

  (* `index_acq is None or index_acq.size < 1 or ~isfinite(index_acq)` (l.1640-1646) *)
  Definition acq_guard_fires (i : option nat) : bool :=
    match i with None => true | Some _ => false end.

  Inductive sevent := Call (u : row).

  (* l.1630-1655: if u_search_set.size > 0: z = acq(set); i = argmin z; u = set[i]; function_logger(u) *)
  Definition search_eval (set : list row) (z : list Q) : option row :=
    match set with
    | [] => None
    | _ => match argmin z with
           | Some i => nth_error set i
           | None => None
           end
    end.

  Definition search_trace (set : list row) (z : list Q) : list sevent :=
    match search_eval set z with
    | Some u => [Call u]
    | None => []
    end.
End ES.

Arguments usc {row}. Arguments zc {row}. Arguments us {row}. Arguments zs {row}.
Arguments Call {row}.
Arguments ESPoint {row}. Arguments ESEmpty {row}. Arguments ESStuck {row}.

(* ------------------------------------------------------------------ filter projection *)
(* np.maximum(np.minimum(U, ub), lb) of contraints_check(proj=True), coordinate-wise *)
Definition qmin (a b : Q) : Q := if Qle_bool a b then a else b.
Definition qmax (a b : Q) : Q := if Qle_bool a b then b else a.
Fixpoint clamp_row (u lb ub : list Q) : list Q :=
  match u, lb, ub with
  | x :: r, l :: ls, h :: hs => qmax (qmin x h) l :: clamp_row r ls hs
  | _, _, _ => []
  end.
Fixpoint in_box (u lb ub : list Q) : Prop :=
  match u, lb, ub with
  | x :: r, l :: ls, h :: hs => (l <= x)%Q /\ (x <= h)%Q /\ in_box r ls hs
  | [], [], [] => True
  | _, _, _ => False
  end.

(* ------------------------------------------------------------------ (d) hedge *)

Definition qsum (l : list Q) : Q := fold_right Qplus 0%Q l.

(* prob = e / sum(e) * (1 - n_funs * gamma) + gamma *)
Definition hedge_probs (e : list Q) (gamma : Q) : list Q :=
  let s := qsum e in
  let n := inject_Z (Z.of_nat (List.length e)) in
  map (fun ei => (ei / s * (1 - n * gamma) + gamma)%Q) e.

(* np.argwhere(rand < np.cumsum(prob))[0] — None models the IndexError on an empty argwhere
   (the `if len(chosen_hedge) == 0` fallback on the next line is never reached in that case) *)
Fixpoint first_below (rand acc : Q) (i : nat) (p : list Q) : option nat :=
  match p with
  | [] => None
  | x :: r => if Qle_bool (acc + x) rand then first_below rand (acc + x)%Q (S i) r else Some i
  end.
Definition hedge_choice (rand : Q) (p : list Q) : option nat := first_below rand 0%Q 0%nat p.

(* ------------------------------------------------------------------ glue for the correspondence *)

Definition mres_val (r : mres) : val :=
  match r with MOk m => vz_list m | MErr c => VS c end.

(* run-length decoding of the literals written by harness/comp_search.py *)
Definition expand_rle (l : list (Z * nat)) : list Z := flat_map (fun p => repeat (fst p) (snd p)) l.
(* expected mask: as multiplicities of the values 0,1,2,... (run-length coded; only used for masks that
   start at 0 and move by steps of 0/1), as a plain list, or as an exception class *)
Inductive mexp := EMult (m : list (Z * nat)) | EPlain (m : list Z) | EErr (cls : string).
Definition mask_of_mult (ms : list Z) : list Z :=
  flat_map (fun p : Z * Z => repeat (fst p) (Z.to_nat (snd p)))
           (combine (zrange (Z.of_nat (List.length ms))) ms).
Definition mask_case_ok (c : (list (Z * nat) * Z) * mexp) : bool :=
  let '((w0, lamb), e) := c in
  match selection_mask (expand_rle w0) lamb, e with
  | MOk m, EMult d => val_eqb (vz_list m) (vz_list (mask_of_mult (expand_rle d)))
  | MOk m, EPlain m' => val_eqb (vz_list m) (vz_list m')
  | MErr a, EErr b => String.eqb a b
  | _, _ => false
  end.
Definition mask_plain_ok (c : (list Z * Z) * val) : bool :=
  val_eqb (mres_val (selection_mask (fst (fst c)) (snd (fst c)))) (snd c).

(* rows of the ES cases: coordinates are numbers or NaN (None) *)
Fixpoint zrow_eqb (a b : list zv) : bool :=
  match a, b with
  | [], [] => true
  | x :: r, y :: s => zv_eqb x y && zrow_eqb r s
  | _, _ => false
  end.

(* ES case: (lamb, generations, expected).  When the minimal z is carried by more than one survivor
   only z and membership are compared (argsort is not stable). *)
Definition es_case_ok (c : (nat * list (list (list zv * zv))) * es_out (list zv)) : bool :=
  let '((lamb, gens), e) := c in
  match es_run (list zv) lamb gens, e with
  | ESEmpty, ESEmpty => true
  | ESStuck, ESStuck => true
  | ESPoint u z, ESPoint u' z' =>
      zv_eqb z z' &&
      (let ties := filter (fun p : list zv * zv => zv_eqb (snd p) z) (List.concat gens) in
       if (1 <? List.length ties)%nat then existsb (fun p : list zv * zv => zrow_eqb (fst p) u') ties
       else zrow_eqb u u')
  | _, _ => false
  end.

(* search-step case: (filtered set, its acquisition values, evaluated points in order) *)
Definition search_case_ok (c : (list (list Q) * list Q) * list (list Q)) : bool :=
  let '((set, z), calls) := c in
  val_eqb (VL (map (fun e => match e with Call u => vq_list u end) (search_trace (list Q) set z)))
          (VL (map vq_list calls)).

(* hedge case: (e, gamma, rand, prob as computed by the code) -> (prob approx, chosen index) *)
Definition hedge_case_ok (c : (list Q * Q * Q * list Q) * (xval * option nat)) : bool :=
  let '((e, gamma, rand, prob), (xp, ch)) := c in
  xval_ok (vq_list (hedge_probs e gamma)) xp &&
  match hedge_choice rand prob, ch with
  | Some i, Some j => Nat.eqb i j
  | None, None => true
  | _, _ => false
  end.
