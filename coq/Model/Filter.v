(* Filter.v — executable model (M5) of pybads/function_logger/constraints_check.py
   `contraints_check(U, lb, ub, tol_mesh, function_logger, proj, non_box_cons)`.

   Floats are exact rationals.  A bound is [option Q]: [None] = infinite on that side (the internal
   box of an unbounded variable is -inf/+inf).  Rows are [list Q]; a missing bound (bound list
   shorter than the row) counts as infinite, so every function is total and length preserving.
   The user's constraint is an oracle [list Q -> bool] on the INTERNAL row, true = violated
   (the code evaluates `non_box_cons(inverse_transf(row)) > 0`, so the oracle is fun u => c (inv u)).

   Statement by statement (constraints_check.py):
     l.22-27  proj:    U_new = maximum(minimum(U, ub), lb)          -> [map (clamp_row lb ub)]
              no proj: drop rows with any(U > ub) | any(U < lb)      -> [filter (in_boxb lb ub)]
     l.30-31  np.unique(U_new, axis=0, return_index) ; U_new[sort(idx)]
                       = first occurrences in the original order     -> [dedup_rows]
     l.34-43  tol = tol_mesh/2; u1 = round(U_new/tol); u2 = round(X[:X_max_idx+1]/tol);
              np.unique(vstack(u1,u2), axis=0, return_index) = for each distinct rounded row, in
              LEXICOGRAPHIC order, the index of its first occurrence in the stack; keep the
              indices < len(u1) and take those rows of U_new          -> [drop_evaluated]
              (the `if U_new.size > 0` guard is not modelled: on an empty list the stage is the
               identity anyway; D = 0 is outside the model)
     l.45-53  keep rows with non_box_cons(inverse_transf(row)) <= 0  -> [keep_feasible]
   np.round is round-half-to-even ([Qround_even]); -0.0 and 0.0 are equal for np.unique and in Q.
   No proofs in this file (Proofs/FilterProofs.v). *)
From Coq Require Import ZArith QArith Qround List Bool.
Import ListNotations.
Open Scope Z_scope.

Definition bnd := option Q.          (* None = infinite *)
Definition qrow := list Q.           (* one candidate / one logged internal point *)
Definition zkey := list Z.           (* a row after round(row / tol) *)

(* ---- (a) projection / box test ------------------------------------------------------------ *)

Definition qmin (x h : Q) : Q := if Qle_bool x h then x else h.     (* np.minimum(x, h) *)
Definition qmax (x l : Q) : Q := if Qle_bool l x then x else l.     (* np.maximum(x, l) *)

Definition clamp1 (lo hi : bnd) (x : Q) : Q :=
  let y := match hi with Some h => qmin x h | None => x end in
  match lo with Some l => qmax y l | None => y end.

Fixpoint clamp_row (lb ub : list bnd) (r : qrow) : qrow :=
  match r with
  | [] => []
  | x :: r' => clamp1 (hd None lb) (hd None ub) x :: clamp_row (tl lb) (tl ub) r'
  end.

Definition ge_lo (lo : bnd) (x : Q) : bool := match lo with Some l => Qle_bool l x | None => true end.
Definition le_hi (hi : bnd) (x : Q) : bool := match hi with Some h => Qle_bool x h | None => true end.

(* not (any(row > ub) or any(row < lb)) *)
Fixpoint in_boxb (lb ub : list bnd) (r : qrow) : bool :=
  match r with
  | [] => true
  | x :: r' => ge_lo (hd None lb) x && le_hi (hd None ub) x && in_boxb (tl lb) (tl ub) r'
  end.

Definition project_rows (proj : bool) (lb ub : list bnd) (U : list qrow) : list qrow :=
  if proj then map (clamp_row lb ub) U else filter (in_boxb lb ub) U.

(* ---- (b) exact de-duplication, first occurrences, original order -------------------------- *)

Fixpoint qrow_eqb (a b : qrow) : bool :=
  match a, b with
  | [], [] => true
  | x :: a', y :: b' => Qeq_bool x y && qrow_eqb a' b'
  | _, _ => false
  end.

Fixpoint dedup_rows (seen : list qrow) (l : list qrow) : list qrow :=
  match l with
  | [] => []
  | r :: t => if existsb (qrow_eqb r) seen then dedup_rows seen t
              else r :: dedup_rows (r :: seen) t
  end.

(* ---- (c) rounding to the half-tolerance lattice and np.unique on the stack ---------------- *)

(* np.round: nearest integer, ties to even *)
Definition Qround_even (x : Q) : Z :=
  let f := Qfloor x in
  match Qcompare (x - inject_Z f) (1 # 2) with
  | Lt => f
  | Gt => f + 1
  | Eq => if Z.even f then f else f + 1
  end.

Definition rkey (tol : Q) (r : qrow) : zkey := map (fun x => Qround_even (x / tol)) r.

Fixpoint lex_compare (a b : zkey) : comparison :=
  match a, b with
  | [], [] => Eq
  | [], _ :: _ => Lt
  | _ :: _, [] => Gt
  | x :: a', y :: b' => match Z.compare x y with Eq => lex_compare a' b' | c => c end
  end.
Definition key_eqb (a b : zkey) : bool := match lex_compare a b with Eq => true | _ => false end.
Definition key_leb (a b : zkey) : bool := match lex_compare a b with Gt => false | _ => true end.

(* a row of the stacked array: its rounded key, and the candidate it came from
   ([Some r] = index < len(u1), i.e. a candidate; [None] = a row of the evaluation log) *)
Definition fentry := (zkey * option qrow)%type.

Fixpoint dedup_keys (seen : list zkey) (l : list fentry) : list fentry :=
  match l with
  | [] => []
  | e :: t => if existsb (key_eqb (fst e)) seen then dedup_keys seen t
              else e :: dedup_keys (fst e :: seen) t
  end.

Fixpoint insert_entry (e : fentry) (l : list fentry) : list fentry :=
  match l with
  | [] => [e]
  | h :: t => if key_leb (fst e) (fst h) then e :: l else h :: insert_entry e t
  end.
Definition sort_entries (l : list fentry) : list fentry := fold_right insert_entry [] l.

(* np.unique(stack, axis=0, return_index=True): distinct keys in lexicographic order, each
   represented by its first occurrence in the stack *)
Definition unique_first (l : list fentry) : list fentry := sort_entries (dedup_keys [] l).

(* idx_sort[idx_sort < len(u1)] ; U_new[u1_idx] *)
Fixpoint somes (l : list fentry) : list qrow :=
  match l with
  | [] => []
  | (_, Some r) :: t => r :: somes t
  | (_, None) :: t => somes t
  end.

Definition stack_entries (tol : Q) (U1 logX : list qrow) : list fentry :=
  map (fun r => (rkey tol r, Some r)) U1 ++ map (fun x => (rkey tol x, None)) logX.

Definition half_tol (tol_mesh : Q) : Q := Qred (tol_mesh / (2 # 1)).

Definition drop_evaluated (tol_mesh : Q) (logX U1 : list qrow) : list qrow :=
  somes (unique_first (stack_entries (half_tol tol_mesh) U1 logX)).

(* ---- (d) non-box constraint ---------------------------------------------------------------- *)

Definition keep_feasible (cons : option (qrow -> bool)) (l : list qrow) : list qrow :=
  match cons with
  | None => l
  | Some c => filter (fun r => negb (c r)) l
  end.

(* ---- the function --------------------------------------------------------------------------- *)

Definition filter_candidates (proj : bool) (lb ub : list bnd) (tol_mesh : Q) (logX : list qrow)
           (cons : option (qrow -> bool)) (U : list qrow) : list qrow :=
  keep_feasible cons
    (drop_evaluated tol_mesh logX
       (dedup_rows [] (project_rows proj lb ub U))).

(* table oracle: the harness evaluates the user's constraint on the real inverse image of every
   row the filter can possibly query and hands the answers over as (row, violated) pairs;
   a row that is not in the table counts as violated *)
Fixpoint table_oracle (tb : list (qrow * bool)) (r : qrow) : bool :=
  match tb with
  | [] => true
  | (k, b) :: t => if qrow_eqb k r then b else table_oracle t r
  end.
