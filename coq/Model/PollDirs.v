(* PollDirs.v — executable model (M6) of pybads/poll/poll_mads_2n.py and of the candidate
   bookkeeping of the poll loop of BADS._poll_step_ (pybads/bads/bads.py l.1925-2147).

   Every random draw of the generator is an explicit input, in the order the code asks for it:
     draws  : the full dim x dim result of  rnd.randint(1, n_max*2, size=(dim,dim))   (raw values)
     sdraws : the dim results of            rnd.randint(1, 3, dim)                    (raw values 1|2)
     perm   : the row permutation chosen by rnd.permutation(D):  result[i] = D[perm[i]]
   Integers are Z, floats are exact rationals Q.  No proofs in this file.
   The last section holds the boolean comparison functions the tie evaluates with vm_compute
   (poll_case_ok: one call of the generator; poll_step_ok: one poll step of a real run). *)
From Coq Require Import ZArith QArith Qround List Bool.
From PV Require Import Model.Val.
Import ListNotations.
Open Scope Z_scope.

(* ---------------------------------------------------------------- matrices as lists of rows *)

Definition entry (M : list (list Z)) (i j : nat) : Z := nth j (nth i M []) 0.

(* the dim x dim array whose (i,j) entry is f i j *)
Definition mk (D : nat) (f : nat -> nat -> Z) : list (list Z) :=
  map (fun i => map (fun j => f i j) (seq 0 D)) (seq 0 D).

(* ---------------------------------------------------------------- n_max *)

(* np.round: round half to even *)
Definition round_half_even (q : Q) : Z :=
  let f := Qfloor q in
  match ((q - inject_Z f) ?= (1 # 2))%Q with
  | Lt => f
  | Gt => f + 1
  | Eq => if Z.even f then f else f + 1
  end.

(* n_max = np.maximum(1, np.round(search_mesh_size / mesh_size)) *)
Definition poll_n (search_mesh mesh : Q) : Z :=
  Z.max 1 (round_half_even (search_mesh / mesh)).

(* poll_mesh_multiplier ** k with the default multiplier 2.0 (k : mesh exponent) *)
Definition pow2 (k : Z) : Q :=
  if 0 <=? k then inject_Z (2 ^ k) else (1 # Z.to_pos (2 ^ (- k))).

(* optim_state["search_size_integer"] with search_size_locked (default):
   np.minimum(0, mesh_size_integer * search_grid_multiplier - search_grid_number) *)
Definition search_size_integer (mult num k : Z) : Z := Z.min 0 (k * mult - num).

(* the ranges the code asks numpy for: [low; high; rows; cols] of the entry draw, [low; high; size]
   of the sign draw (compared with what the real call requested) *)
Definition rand_contract (D : nat) (n : Z) : list Z :=
  [1; 2 * n; Z.of_nat D; Z.of_nat D; 1; 3; Z.of_nat D].

(* ---------------------------------------------------------------- the basis, step by step *)

(* rnd.randint(1, n_max*2, size=(dim,dim)) - n_max *)
Definition shift (D : nat) (n : Z) (M : list (list Z)) := mk D (fun i j => entry M i j - n).
(* np.tril(D, -1): keep the strictly lower part *)
Definition tril_strict (D : nat) (M : list (list Z)) :=
  mk D (fun i j => if (j <? i)%nat then entry M i j else 0).
(* diag = n_max * 2 * (rnd.randint(1, 3, dim) - 1.5)  =  n * (2 s - 3)  in {-n, +n} *)
Definition diag_of (n : Z) (sdraws : list Z) : list Z := map (fun s => n * (2 * s - 3)) sdraws.
(* D + np.eye(dim) * diag      ((eye*diag)[i][j] = eye[i][j] * diag[j]) *)
Definition add_diag (D : nat) (M : list (list Z)) (dg : list Z) :=
  mk D (fun i j => entry M i j + (if (i =? j)%nat then nth j dg 0 else 0)).
(* rnd.permutation(D): rows permuted, result[i] = D[perm[i]] *)
Definition permute_rows (D : nat) (perm : list nat) (M : list (list Z)) :=
  mk D (fun i j => entry M (nth i perm 0%nat) j).
(* np.transpose *)
Definition transpose (D : nat) (M : list (list Z)) := mk D (fun i j => entry M j i).

(* the lower-triangular matrix before permutation and transposition *)
Definition pre_basis (D : nat) (n : Z) (draws : list (list Z)) (sdraws : list Z) : list (list Z) :=
  add_diag D (tril_strict D (shift D n draws)) (diag_of n sdraws).

(* the integer basis  B = transpose(permutation(tril(draws - n, -1) + eye * diag)) *)
Definition poll_basis (D : nat) (n : Z) (draws : list (list Z)) (sdraws : list Z) (perm : list nat)
  : list (list Z) :=
  transpose D (permute_rows D perm (pre_basis D n draws sdraws)).

Definition neg_rows (M : list (list Z)) : list (list Z) := map (map Z.opp) M.

(* np.vstack((D, -D)): the 2*dim integer directions *)
Definition poll_dirs (B : list (list Z)) : list (list Z) := B ++ neg_rows B.

(* ---------------------------------------------------------------- scaling (over Q, exact) *)

Fixpoint map2 {A B C} (f : A -> B -> C) (a : list A) (b : list B) : list C :=
  match a, b with
  | x :: r, y :: s => f x y :: map2 f r s
  | _, _ => []
  end.

(* what poll_mads_2n returns:  vstack(D, -D) / poll_scale   (column j divided by poll_scale[j]) *)
Definition poll_dirs_scaled (dirs : list (list Z)) (ps : list Q) : list (list Q) :=
  map (fun row => map2 (fun b p => Qred (inject_Z b / p)) row ps) dirs.

(* vv = (B_new * mesh_size) * poll_scale, modelled exactly:  mesh * d  *)
Definition poll_vv (mesh : Q) (dirs : list (list Z)) : list (list Q) :=
  map (map (fun d => Qred (mesh * inject_Z d))) dirs.

(* u_poll_new = self.u + vv *)
Definition poll_point (u : list Q) (mesh : Q) (d : list Z) : list Q :=
  map2 (fun ui di => Qred (ui + mesh * inject_Z di)) u d.
Definition poll_points (u : list Q) (mesh : Q) (dirs : list (list Z)) : list (list Q) :=
  map (poll_point u mesh) dirs.

(* the whole generator on explicit choices *)
Definition poll_mads_2n (D : nat) (ps : list Q) (search_mesh mesh : Q)
           (draws : list (list Z)) (sdraws : list Z) (perm : list nat) : list (list Q) :=
  let n := poll_n search_mesh mesh in
  poll_dirs_scaled (poll_dirs (poll_basis D n draws sdraws perm)) ps.

(* ---------------------------------------------------------------- poll loop bookkeeping *)

Fixpoint remove_nth {A} (i : nat) (l : list A) : list A :=
  match l, i with
  | [], _ => []
  | _ :: r, O => r
  | a :: r, S k => a :: remove_nth k r
  end.

(* One poll step.  [cands] = u_poll after contraints_check; [choices] = the indices index_acq
   chosen round after round (argmin of the acquisition values: an oracle), ending when the loop
   ends for any reason (break, budget, empty set); [max_polls] = 2*D (poll_count < D*2).
   Each round evaluates u_poll[index_acq] and deletes that row (np.delete).
   Returns the evaluated points in order. *)
Fixpoint poll_loop {A} (max_polls : nat) (cands : list A) (choices : list nat) : list A :=
  match max_polls, choices with
  | S b, c :: rest =>
      match nth_error cands c with
      | Some x => x :: poll_loop b (remove_nth c cands) rest
      | None => []
      end
  | _, _ => []
  end.

(* ---------------------------------------------------------------- comparison functions for the tie *)

Fixpoint list_ok {A B} (f : A -> B -> bool) (a : list A) (b : list B) : bool :=
  match a, b with
  | [], [] => true
  | x :: r, y :: s => f x y && list_ok f r s
  | _, _ => false
  end.

(* exact: equal rationals.  not exact: the implementation rounded a division the model does exactly
   (poll_scale not a power of two) or an addition/multiplication chain: Val.q_approx (1e-9 relative);
   the sharp "2 ulp" check is done on the Python side. *)
Definition q_ok (exact : bool) (m e : Q) : bool := if exact then Qeq_bool m e else q_approx m e.
Definition qmat_ok (exact : bool) : list (list Q) -> list (list Q) -> bool := list_ok (list_ok (q_ok exact)).

Definition qrow_eqb : list Q -> list Q -> bool := list_ok Qeq_bool.

(* component level.  [contract] = what the real call asked numpy for
   (low, high, rows, cols of the entry draw; low, high, size of the sign draw);
   [B] = the array the real call returned. *)
Definition poll_case_ok (D : nat) (ps : list Q) (search_mesh mesh : Q)
           (draws : list (list Z)) (sdraws : list Z) (perm : list nat)
           (exact : bool) (contract : list Q) (B : list (list Q)) : bool :=
  let n := poll_n search_mesh mesh in
  list_ok Qeq_bool (map inject_Z (rand_contract D n)) contract
  && qmat_ok exact (poll_mads_2n D ps search_mesh mesh draws sdraws perm) B.

(* run level: one poll step of a real run.
   [B] returned array; [u] incumbent; [pre] = u_poll_new handed to contraints_check (2D rows);
   [cands] = what contraints_check returned; [choices] = index of each evaluated point in the
   shrinking candidate array; [evald] = the evaluated points in order (internal coordinates). *)
Definition poll_step_ok (D : nat) (ps : list Q) (search_mesh mesh : Q)
           (draws : list (list Z)) (sdraws : list Z) (perm : list nat)
           (exact : bool) (B : list (list Q)) (u : list Q)
           (pre cands : list (list Q)) (choices : list nat) (evald : list (list Q)) : bool :=
  let n := poll_n search_mesh mesh in
  let dirs := poll_dirs (poll_basis D n draws sdraws perm) in
  qmat_ok exact (poll_dirs_scaled dirs ps) B
  && qmat_ok false (poll_points u mesh dirs) pre
  && forallb (fun c => existsb (qrow_eqb c) pre) cands
  && qmat_ok true (poll_loop (2 * D) cands choices) evald.
