(* BoundsCheck.v — executable model (M3) of construction-time validation of a problem definition:
   pybads/bads/bads.py  BADS.__init__ l.150-169, 204-235  and  _bounds_check_ l.291-534  (N0 = 1:
   a single starting point), in the code's order of tests, as the code is NOW (the half-bounds test is
   the per-coordinate one of commit eabb777; an infinite x0 is rejected, commit 9bb1a08).

   Numbers are exact extended rationals (Model/XQ.v).  The code computes
       LB_eff = lb + 1e-3 * range        (binary64 constant 1e-3, two roundings)
   the model computes lb + (1/1000) * range exactly.  Consequences, stated once:
     * every DECISION (which test fires) is compared exactly with the implementation by the tie;
       this is sound as long as no comparison is decided by the rounding error (relative 2^-52) of
       these products: the generators keep |values| <= 1e6 and gaps >= 1e-6 relative for that reason;
     * MOVED values (x0 / plb / pub pushed to LB_eff or UB_eff) are compared approximately
       (XA, 1e-9 relative) — see harness/comp_bounds.py;
     * the exact-vs-float corner where range/|lb| < 2^-53/1e-3 (absorption: lb + 1e-3*range == lb
       in binary64) is OUTSIDE the model; the harness has a separately labelled stream for it.

   What is not modelled: option loading (except that D = 0 crashes there), the random draw of x0
   (the model says [Drawn]), the VariableTransformer self-test (inexact log/exp), non_box_cons.
   No proofs here. *)
From Coq Require Import ZArith QArith Qabs List Bool.
From PV Require Import Model.XQ.
Import ListNotations.
Open Scope Q_scope.

(* ---- input: each vector may be absent (Python None) ---- *)
Record defn : Type := mkDefn {
  d_x0 : option (list xq);
  d_lb : option (list xq);
  d_ub : option (list xq);
  d_plb : option (list xq);
  d_pub : option (list xq) }.

(* ValueError raised by the constructor, tagged by the test that raised it (code order) *)
Inductive reason : Type :=
| RUnknownDims      (* l.156-164  "bads:UnknownDims"                    *)
| RDimMismatch      (* l.355-365  "All input vectors (lower_bounds, ..." *)
| RNonFinitePB      (* l.368-373  "Plausible interval bounds ... finite" *)
| RFixed            (* l.390-399  "bads:FixedVariables"                  *)
| RMatchingPB       (* l.402-406  "bads:MatchingPB"                      *)
| RX0Outside        (* l.409-413  "bads:InitialPointsNotInsideBounds"    *)
| RTooClose         (* l.432-436  "bads:StrictBoundsTooClose"            *)
| RStrictBounds1    (* l.448-457  "bads:StrictBounds ... lower_bounds < plausible_lower_bounds" *)
| RStrictBounds2    (* l.487-496  "bads:StrictBounds ... lower_bounds <= plausible_lower_bounds" *)
| RHalfBounds.      (* l.500-504  "bads:HalfBounds"                      *)

(* any other exception class escaping the constructor *)
Inductive crash : Type :=
| CZeroDim          (* D = 0: ZeroDivisionError while evaluating the option defaults (l.182) *)
| COverflow.        (* np.random.uniform(plb, pub) with a non-finite range: OverflowError (l.235);
                       kept in the model, proved unreachable (C08_never_overflows) *)

(* one coordinate of the problem *)
Record coord : Type := mkC { cx : xq; cl : xq; cu : xq; cpl : xq; cpu : xq }.

Inductive start : Type :=
| Given (x : list xq)     (* the (possibly moved) user point *)
| Drawn.                  (* drawn uniformly from [plb, pub] by the constructor *)

Record norm : Type := mkNorm {
  n_x0 : start; n_lb : list xq; n_ub : list xq; n_plb : list xq; n_pub : list xq }.

Inductive outcome : Type :=
| Reject (r : reason)
| Crash (c : crash)
| Accept (n : norm).

(* ---- effective bounds, l.416-430 ---- *)
Definition scale_factor : Q := 1 # 1000.
(* sys.float_info.min = 2^-1022 *)
Definition realmin : Q := 1 # (2 ^ 1022).

(* bounds_range = ub - lb;  bounds_range[isinf] = 1e3 *)
Definition brange (l u : xq) : xq :=
  let r := xsub u l in if xisinf r then XFin (1000 # 1) else r.

Definition lb_eff (l u : xq) : xq :=
  if xisinf l then l
  else if xabs_le l realmin then xscale scale_factor (brange l u)
  else xadd l (xscale scale_factor (brange l u)).

Definition ub_eff (l u : xq) : xq :=
  if xisinf u then u
  else if xabs_le u realmin then xneg (xscale scale_factor (brange l u))
  else xsub u (xscale scale_factor (brange l u)).

Definition LBe (c : coord) : xq := lb_eff (cl c) (cu c).
Definition UBe (c : coord) : xq := ub_eff (cl c) (cu c).

(* ---- per-coordinate tests ---- *)
Definition t_nonfinite_pb (c : coord) : bool := negb (xisfinite (cpl c)) || negb (xisfinite (cpu c)).
Definition t_fixed (c : coord) : bool := xeq (cl c) (cu c) && xeq (cu c) (cpl c) && xeq (cpl c) (cpu c).
Definition t_matching (c : coord) : bool := xeq (cpl c) (cpu c).
Definition t_x0_outside (c : coord) : bool := xlt (cx c) (cl c) || xlt (cu c) (cx c) || xisinf (cx c).   (* l.409-413 *)
Definition t_too_close (c : coord) : bool := xle (UBe c) (LBe c).          (* LB_eff >= UB_eff *)
Definition t_x0_near (c : coord) : bool := xlt (cx c) (LBe c) || xlt (UBe c) (cx c).
Definition t_order_bad (c : coord) : bool :=
  negb (xle (cl c) (cpl c) && xlt (cpl c) (cpu c) && xle (cpu c) (cu c)).
Definition t_pb_near (c : coord) : bool := xlt (cpl c) (LBe c) || xlt (UBe c) (cpu c).
Definition t_x0_edge (c : coord) : bool := xle (cx c) (LBe c) || xle (UBe c) (cx c).
Definition t_half (c : coord) : bool := negb (Bool.eqb (xisfinite (cl c)) (xisfinite (cu c))).

(* ---- per-coordinate repairs ---- *)
(* l.445  x0 = maximum(minimum(x0, UB_eff), LB_eff) *)
Definition clamp_x (c : coord) : coord :=
  mkC (xmax (xmin (cx c) (UBe c)) (LBe c)) (cl c) (cu c) (cpl c) (cpu c).
(* l.468-469 *)
Definition pull_pb (c : coord) : coord :=
  mkC (cx c) (cl c) (cu c) (xmax (cpl c) (LBe c)) (xmin (cpu c) (UBe c)).
(* l.479-484 (N0 = 1: x0.min(0) = x0.max(0) = x0) *)
Definition expand_pb (c : coord) : coord :=
  mkC (cx c) (cl c) (cu c) (xmin (cpl c) (cx c)) (xmax (cpu c) (cx c)).

Definition apply_if (b : bool) (f : coord -> coord) (cs : list coord) : list coord :=
  if b then map f cs else cs.

(* ---- assembling the coordinates, l.150-169, 204-209, 307-365 ---- *)
Definition odefault (a b : option (list xq)) : option (list xq) :=
  match a with Some _ => a | None => b end.

Fixpoint zip5 (a b c d e : list xq) : list coord :=
  match a, b, c, d, e with
  | x :: a', l :: b', u :: c', p :: d', q :: e' => mkC x l u p q :: zip5 a' b' c' d' e'
  | _, _, _, _, _ => []
  end.

Inductive assembled : Type :=
| AReject (r : reason)
| ACrash (c : crash)
| ACoords (cs : list coord).

Definition assemble (d : defn) : assembled :=
  let plb0 := odefault (d_plb d) (d_lb d) in          (* l.151-154 *)
  let pub0 := odefault (d_pub d) (d_ub d) in
  let ox0 :=                                           (* l.156-166 *)
    match d_x0 d with
    | Some x => Some x
    | None => match plb0, pub0 with
              | Some p, Some _ => Some (repeat XNaN (List.length p))
              | _, _ => None
              end
    end in
  match ox0 with
  | None => AReject RUnknownDims
  | Some x0 =>
      let D := List.length x0 in                       (* l.168-169 *)
      if Nat.eqb D 0 then ACrash CZeroDim              (* l.174-186 *)
      else
        let lb := match d_lb d with Some l => l | None => repeat XNInf D end in   (* l.205-209 *)
        let ub := match d_ub d with Some u => u | None => repeat XPInf D end in
        let plb := match plb0 with Some p => p | None => lb end in               (* l.340-343 *)
        let pub := match pub0 with Some p => p | None => ub end in
        if negb (Nat.eqb (List.length lb) D && Nat.eqb (List.length ub) D &&
                 Nat.eqb (List.length plb) D && Nat.eqb (List.length pub) D)
        then AReject RDimMismatch                      (* l.355-365 *)
        else ACoords (zip5 x0 lb ub plb pub)
  end.

(* ---- _bounds_check_ proper, l.367-504, on assembled coordinates ---- *)
Inductive checked : Type :=
| BReject (r : reason)
| BAccept (cs : list coord).

Definition check_coords (cs : list coord) : checked :=
  if existsb t_nonfinite_pb cs then BReject RNonFinitePB
  else if existsb t_fixed cs then BReject RFixed
  else if existsb t_matching cs then BReject RMatchingPB
  else if existsb t_x0_outside cs then BReject RX0Outside
  else if existsb t_too_close cs then BReject RTooClose
  else
    let cs1 := apply_if (existsb t_x0_near cs) clamp_x cs in
    if existsb t_order_bad cs1 then BReject RStrictBounds1
    else
      let cs2 := apply_if (existsb t_pb_near cs1) pull_pb cs1 in
      let cs3 := apply_if (existsb t_x0_edge cs2) expand_pb cs2 in
      if existsb t_order_bad cs3 then BReject RStrictBounds2
      else if existsb t_half cs3 then BReject RHalfBounds
      else BAccept cs3.

(* ---- starting point, l.230-235 ---- *)
Definition t_range_nonfinite (c : coord) : bool := negb (xisfinite (xsub (cpu c) (cpl c))).

Definition finish (cs : list coord) : outcome :=
  let mk s := Accept (mkNorm s (map cl cs) (map cu cs) (map cpl cs) (map cpu cs)) in
  if forallb (fun c => xisfinite (cx c)) cs then mk (Given (map cx cs))
  else if existsb t_range_nonfinite cs then Crash COverflow
  else mk Drawn.

Definition construct (d : defn) : outcome :=
  match assemble d with
  | AReject r => Reject r
  | ACrash c => Crash c
  | ACoords cs =>
      match check_coords cs with
      | BReject r => Reject r
      | BAccept cs' => finish cs'
      end
  end.

(* ---- canonical value of an outcome, for the tie (harness/comp_bounds.py) ---- *)
From Coq Require Import String.
From PV Require Import Model.Val.
Open Scope string_scope.

Definition xq_val (a : xq) : val :=
  match a with XFin q => VQ (Qred q) | XPInf => VPInf | XNInf => VNInf | XNaN => VNaN end.
Definition xql_val (l : list xq) : val := VL (map xq_val l).

Definition reason_tag (r : reason) : string :=
  match r with
  | RUnknownDims => "UnknownDims" | RDimMismatch => "DimMismatch" | RNonFinitePB => "NonFinitePB"
  | RFixed => "Fixed" | RMatchingPB => "MatchingPB" | RX0Outside => "X0Outside"
  | RTooClose => "TooClose" | RStrictBounds1 => "StrictBounds1" | RStrictBounds2 => "StrictBounds2"
  | RHalfBounds => "HalfBounds"
  end.
Definition crash_tag (c : crash) : string :=
  match c with CZeroDim => "ZeroDivisionError" | COverflow => "OverflowError" end.

Definition outcome_val (o : outcome) : val :=
  match o with
  | Reject r => VL [VS "reject"; VS (reason_tag r)]
  | Crash c => VL [VS "crash"; VS (crash_tag c)]
  | Accept n =>
      VL [VS "accept";
          match n_x0 n with Given x => xql_val x | Drawn => VS "drawn" end;
          xql_val (n_lb n); xql_val (n_ub n); xql_val (n_plb n); xql_val (n_pub n)]
  end.
