(* ESSrc.v — the PROGRAM FORMS of the evolution-strategy search and their generic interpreters.

   translate/es.py re-reads pybads/search/es_search.py and pybads/search/search_hedge.py on every run and emits coq/gen/Src_es.v:
     src_mask   : list mstmt      the integer part of ESSearch._get_selection_idx_mask_ (everything after `w = np.ceil(..).astype(int)`),
                                  statement by statement, over integer scalars and integer vectors;
     src_mask_head : list (string * string)   the float part (tot, sqrt_tot, w): canonical text (its result w0 is an oracle input);
     src_gen    : list gstmt      the selection statements of one pass of the generations loop of ESSearch.__call__ (fallback draw of
                                  z_new, copy / append of the two candidate arrays, N, argsort, the two gathers);
     src_ret    : ret_prog        the statements after the loop (`if us.shape[0] == 0: return us, z` / `return us[0], z[0]`);
     src_calls  : list (string * list string)   the calls of the loop with their arguments (force_to_grid, contraints_check,
                                  acq_fcn_lcb, _get_selection_idx_mask_), canonical text;
     src_book   : list (string * string)        the other statements of the loop (nold, ntest, n_new, frac, the step-size update, ll,
                                  the reproduction), canonical text: they only shape the NEXT population, an oracle input;
     src_hedge  : hedge_prog      the probabilities / draw / class-by-name table of ESSearchHedge.__call__; src_update : text pins.
   This file defines what such programs MEAN and the hand-written programs (model_mask, model_gen, ...) that Model/ESSelect.v is claimed to be.
   No proofs here (Proofs/ESSourceProofs.v). *)
From Coq Require Import ZArith QArith List String Bool.
From PV Require Import Model.Val Model.ESSelect.
Import ListNotations.
Open Scope string_scope.
Open Scope Z_scope.

(* ================================================================== (a) the mask language *)

Inductive cmp := CGt | CGe | CLt | CLe | CEq | CNe.
(* x <c> k *)
Definition cmpb (c : cmp) (x k : Z) : bool :=
  match c with
  | CGt => k <? x | CGe => k <=? x | CLt => x <? k | CLe => x <=? k | CEq => x =? k | CNe => negb (x =? k)
  end.

Inductive sx :=                          (* integer scalar expression (never raises) *)
| SLit (z : Z)
| SVar (n : string)
| SAdd (a b : sx)
| SSub (a b : sx)
| SMax (a b : sx)                        (* np.maximum(a, b) *)
| SSum (v : vx)                          (* np.sum(v) *)
| SCount (c : cmp) (v : vx) (k : Z)      (* np.sum(v <c> k) *)
with vx :=                               (* integer vector expression (never raises) *)
| VVar (n : string)
| VSubS (v : vx) (s : sx)                (* v - s *)
| VAddS (v : vx) (s : sx)                (* v + s *)
| VMaxS (s : sx) (v : vx)                (* np.maximum(s, v) *)
| VSubV (a b : vx)                       (* a - b *)
| VCumsum (v : vx)                       (* np.cumsum(v) *)
| VDropLast (v : vx).                    (* v[0:-1] *)

Inductive sstmt :=
| MSet (n : string) (e : sx)             (* n = e *)
| MSetV (n : string) (e : vx).           (* n = e *)

Inductive mstmt :=
| MSimple (s : sstmt)
| MWhile (c : cmp) (a b : sx) (body : list sstmt)          (* while a <c> b: body *)
| MLastWhere (n : string) (c : cmp) (v : vx) (k : Z)       (* n = (np.argwhere(v <c> k)[-1]).item()      IndexError when empty *)
| MZerosMax (n : string) (v : vx) (k : Z)                  (* n = np.zeros(np.max(v) + k, dtype=int)     ValueError: empty v / negative *)
| MStore (n : string) (v : vx) (k : Z)                     (* n[v] = k                                   IndexError *)
| MDecSlice (n : string) (lo hi : sx) (k : Z)              (* n[lo:hi] = n[lo:hi] - k   (read for 0 <= lo: lo is np.maximum(0, ..)) *)
| MReturn (v : vx).

Inductive mval := MZ (z : Z) | MV (l : list Z).
Definition menv := list (string * mval).

Fixpoint mget (e : menv) (n : string) : mval :=
  match e with
  | [] => MZ 0
  | (k, v) :: r => if String.eqb k n then v else mget r n
  end.
(* in place when bound, appended when new *)
Fixpoint mset (e : menv) (n : string) (v : mval) : menv :=
  match e with
  | [] => [(n, v)]
  | (k, x) :: r => if String.eqb k n then (k, v) :: r else (k, x) :: mset r n v
  end.
Definition getz (e : menv) (n : string) : Z := match mget e n with MZ z => z | MV _ => 0 end.
Definition getv (e : menv) (n : string) : list Z := match mget e n with MV l => l | MZ _ => [] end.

Fixpoint evs (e : menv) (x : sx) : Z :=
  match x with
  | SLit z => z
  | SVar n => getz e n
  | SAdd a b => evs e a + evs e b
  | SSub a b => evs e a - evs e b
  | SMax a b => Z.max (evs e a) (evs e b)
  | SSum v => zsum (evv e v)
  | SCount c v k => zsum (map (fun x => if cmpb c x k then 1 else 0) (evv e v))
  end
with evv (e : menv) (x : vx) : list Z :=
  match x with
  | VVar n => getv e n
  | VSubS v s => map (fun x => x - evs e s) (evv e v)
  | VAddS v s => map (fun x => x + evs e s) (evv e v)
  | VMaxS s v => map (Z.max (evs e s)) (evv e v)
  | VSubV a b => zip_with Z.sub (evv e a) (evv e b)
  | VCumsum v => cumsum (evv e v)
  | VDropLast v => removelast (evv e v)
  end.

Definition run_s (e : menv) (s : sstmt) : menv :=
  match s with
  | MSet n x => mset e n (MZ (evs e x))
  | MSetV n x => mset e n (MV (evv e x))
  end.
Definition run_ss (e : menv) (p : list sstmt) : menv := fold_left run_s p e.

Fixpoint run_while (fuel : nat) (c : cmp) (a b : sx) (body : list sstmt) (e : menv) : menv :=
  match fuel with
  | O => e
  | S f => if cmpb c (evs e a) (evs e b) then run_while f c a b body (run_ss e body) else e
  end.

(* last index i with v[i] <c> k *)
Fixpoint last_where_from (c : cmp) (k : Z) (i : Z) (w : list Z) (acc : option Z) : option Z :=
  match w with
  | [] => acc
  | x :: r => last_where_from c k (i + 1) r (if cmpb c x k then Some i else acc)
  end.

(* n[ps] = k : positions already normalised *)
Definition store_at (v : list Z) (ps : list Z) (k : Z) : list Z :=
  map (fun p : Z * Z => if mem_z (fst p) ps then k else snd p) (combine (zrange (Z.of_nat (List.length v))) v).

(* n[lo:hi] = n[lo:hi] - k, 0 <= lo *)
Fixpoint sub_slice (i lo hi k : Z) (w : list Z) : list Z :=
  match w with
  | [] => []
  | x :: r => (if (lo <=? i) && (i <? hi) then x - k else x) :: sub_slice (i + 1) lo hi k r
  end.

(* [fuel] bounds every while loop of the program (the hand-written model's fuel: Model/ESSelect.v shrink) *)
Fixpoint run_m (fuel : nat) (p : list mstmt) (e : menv) : mres :=
  match p with
  | [] => MErr "NoReturn"
  | MSimple s :: r => run_m fuel r (run_s e s)
  | MWhile c a b body :: r => run_m fuel r (run_while fuel c a b body e)
  | MLastWhere n c v k :: r =>
      match last_where_from c k 0 (evv e v) None with
      | None => MErr "IndexError"
      | Some i => run_m fuel r (mset e n (MZ i))
      end
  | MZerosMax n v k :: r =>
      match zmax_list (evv e v) with
      | None => MErr "ValueError"
      | Some mx => if mx + k <? 0 then MErr "ValueError"
                   else run_m fuel r (mset e n (MV (repeat 0 (Z.to_nat (mx + k)))))
      end
  | MStore n v k :: r =>
      match norm_all (Z.of_nat (List.length (getv e n))) (evv e v) with
      | None => MErr "IndexError"
      | Some ps => run_m fuel r (mset e n (MV (store_at (getv e n) ps k)))
      end
  | MDecSlice n lo hi k :: r => run_m fuel r (mset e n (MV (sub_slice 0 (evs e lo) (evs e hi) k (getv e n))))
  | MReturn v :: _ => MOk (evv e v)
  end.

(* the integer part of _get_selection_idx_mask_ run on (w, lamb) *)
Definition run_mask (p : list mstmt) (w0 : list Z) (lamb : Z) : mres :=
  run_m (S (Z.to_nat (pos_sum w0))) p [("w", MV w0); ("lamb", MZ lamb)].

(* the hand-written model as a program (Model/ESSelect.v selection_mask) *)
Definition model_mask : list mstmt :=
  [ MSimple (MSet "nonzero" (SCount CGt (VVar "w") 0));
    MWhile CGt (SSub (SSum (VVar "w")) (SVar "lamb")) (SVar "nonzero")
      [ MSetV "w" (VMaxS (SLit 0) (VSubS (VVar "w") (SLit 1)));
        MSet "nonzero" (SCount CGt (VVar "w") 0) ];
    MSimple (MSet "delta" (SSub (SSum (VVar "w")) (SVar "lamb")));
    MLastWhere "lastnonzero" CGt (VVar "w") 0;
    MSimple (MSet "strt_point" (SMax (SLit 0) (SAdd (SSub (SVar "lastnonzero") (SVar "delta")) (SLit 1))));
    MDecSlice "w" (SVar "strt_point") (SAdd (SVar "lastnonzero") (SLit 1)) 1;
    MSimple (MSetV "cw" (VAddS (VSubV (VCumsum (VVar "w")) (VVar "w")) (SLit 1)));
    MZerosMax "idx" (VVar "cw") 1;
    MStore "idx" (VVar "cw") 1;
    MSimple (MSetV "select_mask" (VCumsum (VDropLast (VVar "idx"))));
    MReturn (VVar "select_mask") ].


(* ================================================================== (b) the generation language *)

Section GEN.
  Variable row : Type.

  Inductive gval := GRows (l : list row) | GZs (l : list zv) | GIdx (l : list nat) | GNat (n : nat).

  Inductive gx :=
  | GVar (n : string)
  | GCopy (a : gx)                         (* a.copy() *)
  | GAppend (a b : gx)                     (* np.append(a, b, axis=0) *)
  | GArgsort (a : gx)                      (* np.argsort(a) *)
  | GTake (a idx n : gx)                   (* a[idx[0:n]] *)
  | GMinShapeLamb (a : gx).                (* np.minimum(a.shape[0], self.lamb) *)

  Inductive gstmt :=
  | GAssign (n : string) (e : gx)
  | GIfFirst (a b : list (string * gx))    (* if i == 0: a  else: b *)
  | GRandFill (n : string) (m : string).   (* if n is None or n.size == 0: n = np.random.rand(m.shape[0]) *)

  Definition genv := list (string * gval).
  Fixpoint gget (e : genv) (n : string) : gval :=
    match e with
    | [] => GNat 0
    | (k, v) :: r => if String.eqb k n then v else gget r n
    end.
  Fixpoint gset (e : genv) (n : string) (v : gval) : genv :=
    match e with
    | [] => [(n, v)]
    | (k, x) :: r => if String.eqb k n then (k, v) :: r else (k, x) :: gset r n v
    end.

  Definition gshape0 (v : gval) : nat :=
    match v with GRows l => List.length l | GZs l => List.length l | GIdx l => List.length l | GNat _ => 0 end.

  Fixpoint evg (lamb : nat) (e : genv) (x : gx) : gval :=
    match x with
    | GVar n => gget e n
    | GCopy a => evg lamb e a
    | GAppend a b =>
        match evg lamb e a, evg lamb e b with
        | GRows x, GRows y => GRows (x ++ y)
        | GZs x, GZs y => GZs (x ++ y)
        | _, _ => GNat 0
        end
    | GArgsort a => match evg lamb e a with GZs z => GIdx (argsort z) | _ => GNat 0 end
    | GTake a idx n =>
        match evg lamb e idx, evg lamb e n with
        | GIdx ix, GNat k =>
            match evg lamb e a with
            | GRows l => GRows (gather l (firstn k ix))
            | GZs l => GZs (gather l (firstn k ix))
            | _ => GNat 0
            end
        | _, _ => GNat 0
        end
    | GMinShapeLamb a => GNat (Nat.min (gshape0 (evg lamb e a)) lamb)
    end.

  Definition run_assigns (lamb : nat) (e : genv) (p : list (string * gx)) : genv :=
    fold_left (fun e' s => gset e' (fst s) (evg lamb e' (snd s))) p e.

  Definition run_g (first : bool) (lamb : nat) (draws : list zv) (e : genv) (s : gstmt) : genv :=
    match s with
    | GAssign n x => gset e n (evg lamb e x)
    | GIfFirst a b => run_assigns lamb e (if first then a else b)
    | GRandFill n m =>
        match gget e n with
        | GZs [] => gset e n (GZs (firstn (gshape0 (gget e m)) draws))
        | _ => e
        end
    end.

  Definition grows (e : genv) (n : string) : list row := match gget e n with GRows l => l | _ => [] end.
  Definition gzs (e : genv) (n : string) : list zv := match gget e n with GZs l => l | _ => [] end.

  (* one pass of the loop body on the state of the hand-written model: u_new / z_new are the filtered generation and its
     acquisition values (oracle inputs), [draws] what np.random.rand would return *)
  Definition gen_step (p : list gstmt) (draws : list zv) (first : bool) (lamb : nat) (st : es_state row) (new : list (row * zv))
    : es_state row :=
    let e0 := [ ("u_new", GRows (map fst new)); ("z_new", GZs (map snd new));
                ("us_candidates", GRows (usc st)); ("z_candidates", GZs (zc st));
                ("us", GRows (us st)); ("z", GZs (zs st)) ] in
    let e := fold_left (run_g first lamb draws) p e0 in
    mkES row (grows e "us_candidates") (gzs e "z_candidates") (grows e "us") (gzs e "z").

  Fixpoint gen_loop (p : list gstmt) (draws : list zv) (first : bool) (lamb : nat) (st : es_state row) (gens : list (list (row * zv)))
    : es_state row :=
    match gens with
    | [] => st
    | g :: r => gen_loop p draws false lamb (gen_step p draws first lamb st g) r
    end.

  (* `if G.shape[0] == 0: return A, B` / `return C[i], D[j]` *)
  Record ret_prog := mkRet { r_guard : string; r_empty : string * string; r_point : (string * Z) * (string * Z) }.

  Definition gen_result (r : ret_prog) (st : es_state row) : es_out row :=
    let rows_of (n : string) := if String.eqb n "us" then Some (us st) else None in
    let zs_of (n : string) := if String.eqb n "z" then Some (zs st) else None in
    match rows_of (r_guard r), rows_of (fst (fst (r_point r))), zs_of (fst (snd (r_point r))) with
    | Some g, Some a, Some b =>
        match g with
        | [] => if String.eqb (fst (r_empty r)) "us" && String.eqb (snd (r_empty r)) "z" then ESEmpty else ESStuck
        | _ :: _ =>
            match norm_index (Z.of_nat (List.length a)) (snd (fst (r_point r))),
                  norm_index (Z.of_nat (List.length b)) (snd (snd (r_point r))) with
            | Some i, Some j =>
                match nth_error a (Z.to_nat i), nth_error b (Z.to_nat j) with
                | Some u, Some z => ESPoint u z
                | _, _ => ESStuck
                end
            | _, _ => ESStuck
            end
        end
    | _, _, _ => ESStuck
    end.

  Definition gen_run (p : list gstmt) (r : ret_prog) (draws : list zv) (lamb : nat) (gens : list (list (row * zv))) : es_out row :=
    gen_result r (gen_loop p draws true lamb (es_init row) gens).

  (* the hand-written model as a program (Model/ESSelect.v es_step / es_result) *)
  Definition model_gen : list gstmt :=
    [ GRandFill "z_new" "u_new";
      GIfFirst [ ("us_candidates", GCopy (GVar "u_new")); ("z_candidates", GCopy (GVar "z_new")) ]
               [ ("us_candidates", GAppend (GVar "us_candidates") (GVar "u_new"));
                 ("z_candidates", GAppend (GVar "z_candidates") (GVar "z_new")) ];
      GAssign "N" (GMinShapeLamb (GVar "us_candidates"));
      GAssign "z_idx" (GArgsort (GVar "z_candidates"));
      GAssign "z" (GTake (GVar "z_candidates") (GVar "z_idx") (GVar "N"));
      GAssign "us" (GTake (GVar "us_candidates") (GVar "z_idx") (GVar "N")) ].

  Definition model_ret : ret_prog := mkRet "us" ("us", "z") (("us", 0), ("z", 0)).
End GEN.







(* ================================================================== (d) the hedge *)

Inductive qx :=                          (* expression over rational vectors / scalars, read per entry *)
| QVar (n : string)                      (* a vector or a scalar of the environment *)
| QLit (z : Z)
| QMul (a b : qx) | QDiv (a b : qx) | QAdd (a b : qx) | QSub (a b : qx)
| QSumOf (a : qx).                       (* np.sum(a): a scalar *)

Inductive qval := QS (q : Q) | QV (l : list Q).
Definition qenv := list (string * qval).
Fixpoint qget (e : qenv) (n : string) : qval :=
  match e with
  | [] => QS 0
  | (k, v) :: r => if String.eqb k n then v else qget r n
  end.
Definition qlift (f : Q -> Q -> Q) (a b : qval) : qval :=
  match a, b with
  | QS x, QS y => QS (f x y)
  | QV l, QS y => QV (map (fun x => f x y) l)
  | QS x, QV l => QV (map (fun y => f x y) l)
  | QV l, QV m => QV (zip_with f l m)
  end.
Fixpoint evq (e : qenv) (x : qx) : qval :=
  match x with
  | QVar n => qget e n
  | QLit z => QS (inject_Z z)
  | QMul a b => qlift Qmult (evq e a) (evq e b)
  | QDiv a b => qlift Qdiv (evq e a) (evq e b)
  | QAdd a b => qlift Qplus (evq e a) (evq e b)
  | QSub a b => qlift Qminus (evq e a) (evq e b)
  | QSumOf a => match evq e a with QV l => QS (qsum l) | QS q => QS q end
  end.

(* ESSearchHedge.__call__:
     h_exp            the text of the expression bound to self.prob first (np.exp(..): the oracle vector e), which must also be the
                      argument of the np.sum it is divided by (h_norm, over the name "E" for that expression)
     h_scale          the third assignment, over "prob", "n_funs", "gamma"
     h_draw           (cmp, "rand" | "cumprob" order, which element of argwhere) of `np.argwhere(rand_uni < np.cumsum(self.prob))[0]`
     h_pick           the text of the strategy picked, h_classes the (name tested, class constructed) table in source order,
     h_args           the positional arguments of the constructor / the call *)
Record hedge_prog := mkHedge {
  h_exp : string;
  h_norm : qx;
  h_scale : qx;
  h_draw : cmp * Z;
  h_pick : string;
  h_classes : list (string * string);
  h_ctor_args : list string;
  h_call_args : list string
}.

Definition hedge_probs_src (h : hedge_prog) (e : list Q) (gamma : Q) : list Q :=
  let n := inject_Z (Z.of_nat (List.length e)) in
  let p1 := evq [("E", QV e)] (h_norm h) in
  match evq [("prob", p1); ("n_funs", QS n); ("gamma", QS gamma)] (h_scale h) with
  | QV l => l
  | QS _ => []
  end.

(* np.argwhere(rand <c> np.cumsum(p))[k] for k = 0 (first) or -1 (last) *)
Fixpoint where_cum (c : cmp) (rand acc : Q) (i : nat) (p : list Q) : list nat :=
  match p with
  | [] => []
  | x :: r =>
      let t := (match c with
                | CLt => negb (Qle_bool (acc + x) rand)          (* rand < cum *)
                | CLe => Qle_bool rand (acc + x)
                | CGt => negb (Qle_bool rand (acc + x))
                | CGe => Qle_bool (acc + x) rand
                | CEq => Qeq_bool rand (acc + x)
                | CNe => negb (Qeq_bool rand (acc + x))
                end) in
      (if t then [i] else []) ++ where_cum c rand (acc + x)%Q (S i) r
  end.
Definition hedge_choice_src (h : hedge_prog) (rand : Q) (p : list Q) : option nat :=
  let l := where_cum (fst (h_draw h)) rand 0%Q 0%nat p in
  if snd (h_draw h) =? 0 then hd_error l else if snd (h_draw h) =? -1 then hd_error (rev l) else None.

(* the class constructed for a strategy NAME: the first row of the table whose name matches *)
Fixpoint class_of (t : list (string * string)) (name : string) : option string :=
  match t with
  | [] => None
  | (n, c) :: r => if String.eqb n name then Some c else class_of r name
  end.

Definition model_hedge : hedge_prog :=
  mkHedge "np.exp(self.beta * (self.g - np.max(self.g)))"
          (QDiv (QVar "E") (QSumOf (QVar "E")))
          (QAdd (QMul (QVar "prob") (QSub (QLit 1) (QMul (QVar "n_funs") (QVar "gamma")))) (QVar "gamma"))
          (CLt, 0)
          "self.search_fcns[self.chosen_hedge.item()]"
          [("ES-wcm", "ESSearchWM"); ("ES-ell", "ESSearchELL")]
          ["self.mu"; "self.lamb"; "self.options_dict"]
          ["u"; "lb"; "ub"; "func_logger"; "gp"; "optim_state"; "self.chosen_search_fun[1]"; "self.non_box_cons"].

(* the model's reading of the table: the class is chosen by NAME *)
Definition model_class_of (name : string) : option string :=
  if String.eqb name "ES-wcm" then Some "ESSearchWM" else if String.eqb name "ES-ell" then Some "ESSearchELL" else None.


(* ================================================================== canonical-text pins of the statements that are not given a meaning here
   (ast.unparse of the alpha-renamed source; reviewed by hand against es_search.py / search_hedge.py).  model_mask_head: the float part of the
   mask (w0 is an oracle input).  model_loop_head: ESSearch.__call__ before the loop (the first population is sampled: oracle) and the loop
   header.  model_calls / model_call_binds: the calls of the loop body with their arguments and what their results are bound to.  model_book:
   the statements that only shape the NEXT population (nold, ntest, n_new, the frac guard of the empty generation, the step size, the mask call,
   ll, the reproduction).  model_order: how calls, program statements (Definition model_gen) and bookkeeping interleave.  model_init: the
   constructors.  model_hedge_rest / model_hedge_init / model_update: ESSearchHedge outside the structured part (Definition model_hedge). *)
Definition model_mask_head : list (string * string) :=
  [
    ("tot", "mu + lamb");
    ("sqrt_tot", "np.sqrt(np.arange(1, tot + 1))");
    ("w", "np.ceil(1.0 / sqrt_tot / np.sum(1.0 / sqrt_tot) * lamb).astype(int)") ].

Definition model_loop_head : list (string * string) :=
  [
    ("self.mesh_size", "optim_state['mesh_size']");
    ("self.search_factor", "optim_state['search_factor']");
    ("self.search_mesh_size", "optim_state['search_mesh_size']");
    ("self.tol_mesh", "optim_state['tol_mesh']");
    ("U", "gp.X");
    ("nvars", "U.shape[1]");
    ("self.sqrt_sigma", "self._initialize_(u, gp, optim_state, sum_rule)");
    ("self.sqrt_sigma", "self.mesh_size * self.search_factor * self.sqrt_sigma");
    ("N", "int(self.mu)");
    ("u_new", "u + self.vec * (np.random.normal(size=(N, nvars)) @ self.sqrt_sigma)");
    ("us_rows", "np.minimum(u_new.shape[0], self.lamb)");
    ("us", "np.empty((us_rows, u_new.shape[1]))");
    ("z", "np.empty((us_rows, 1))");
    ("for", "i in range(0, self.n_search_iter)") ].

Definition model_calls : list (string * list string) :=
  [
    ("force_to_grid", ["u_new"; "self.search_mesh_size"]);
    ("contraints_check", ["u_new"; "optim_state['lb_search']"; "optim_state['ub_search']"; "optim_state['tol_mesh']"; "func_logger"; "True"; "non_box_cons"]);
    ("acq_fcn_lcb", ["u_new"; "func_logger.func_count"; "gp"; "self.search_acq_fcn[1]"]) ].

Definition model_call_binds : list (string * string) :=
  [
    ("u_new", "force_to_grid");
    ("u_new", "contraints_check");
    ("(z_new, fmu, fs)", "acq_fcn_lcb if self.search_acq_fcn[0] == 'acq_LCB' else raise ValueError");
    ("z_new", "z_new.flatten()") ].

Definition model_book : list (string * string) :=
  [
    ("nold", "us.shape[0]");
    ("ntest", "np.minimum(u_new.shape[0], nold)");
    ("n_new", "np.sum(z_idx[0:ntest + 1] > nold)");
    ("if", "i < self.n_search_iter - 1");
    ("frac", "n_new / ntest if ntest > 0 else 0.0");
    ("if", "i > 0");
    ("self.scale", "self.scale * np.exp(self.es_beta * (frac - 0.2))");
    ("selection_mask", "self._get_selection_idx_mask_(us.shape[0], self.lamb)");
    ("ll", "np.minimum(self.lamb, us.shape[0])");
    ("u_new", "us[selection_mask[0:ll]] + np.random.normal(size=(ll, nvars)) @ self.sqrt_sigma * self.scale") ].

Definition model_order : list string :=
  ["call:force_to_grid"; "call:contraints_check"; "call:acq_fcn_lcb"; "gen:fallback"; "book:nold"; "gen:if_first"; "gen:N"; "gen:z_idx"; "book:ntest"; "book:n_new"; "gen:z"; "gen:us"; "book:reproduce"].

Definition model_init : list (string * string) :=
  [
    ("self.mu", "mu");
    ("self.lamb", "lamb");
    ("self.vec", "np.array([-1, 0])");
    ("self.w", "options_dict['poll_mesh_multiplier'] ** self.vec");
    ("self.ns", "np.diff(np.round(np.linspace(0, self.mu, np.size(self.w) + 1)).astype(int))");
    ("self.vec", "np.empty((0, 1), dtype='float')");
    ("for", "i in range(0, len(self.w))");
    ("self.vec", "np.append(self.vec, self.w[i] * np.ones((self.ns[i], 1)), axis=0)");
    ("self.scale", "options_dict['es_start']");
    ("self.n_search_iter", "options_dict['n_search_iter']");
    ("self.search_acq_fcn", "options_dict['search_acq_fcn']");
    ("self.es_beta", "options_dict['es_beta']");
    ("self.logger", "logging.getLogger('BADS')");
    ("class", "ESSearchWM(ESSearch)");
    ("super().__init__", "mu, lamb, options_dict");
    ("self.active_flag", "False");
    ("self.frac", "0.5");
    ("class", "ESSearchELL(ESSearch)") ].

Definition model_hedge_rest : list (string * string) :=
  [
    ("self.count Add=", "1");
    ("self.prob", "<1>");
    ("self.prob", "<2>");
    ("self.prob", "<3>");
    ("rand_uni", "np.random.rand()");
    ("self.chosen_hedge", "<draw>");
    ("if", "len(self.chosen_hedge) == 0");
    ("self.chosen_hedge", "np.random.randint(0, self.n_funs)");
    ("if", "self.gamma == 0");
    ("self.phat", "np.ones(self.g.shape)");
    ("else", "");
    ("self.phat", "np.full(self.g.shape, np.inf)");
    ("self.phat[self.chosen_hedge]", "self.prob[self.chosen_hedge]");
    ("self.chosen_search_fun", "<pick>");
    ("if", "<classes>") ].

Definition model_hedge_init : list (string * string) :=
  [
    ("self.search_fcns", "search_fcns");
    ("self.n_funs", "len(search_fcns)");
    ("self.g", "np.zeros(self.n_funs)");
    ("self.g[0]", "10");
    ("self.count", "-1");
    ("self.options_dict", "options_dict");
    ("self.non_box_cons", "non_box_cons");
    ("self.gamma", "options_dict['hedge_gamma']");
    ("self.beta", "options_dict['hedge_beta']");
    ("self.decay", "options_dict['hedge_decay']");
    ("es_iter", "self.options_dict['n_search_iter']");
    ("self.mu", "int(self.options_dict['n_search'] / es_iter)");
    ("self.lamb", "self.mu") ].

Definition model_update : list (string * string) :=
  [
    ("for", "i_hedge in range(self.n_funs)");
    ("u_hedge", "u_search[np.minimum(i_hedge, len(u_search) - 1):].copy()");
    ("if", "i_hedge == self.chosen_hedge");
    ("f_hedge", "f");
    ("fs_hedge", "fs");
    ("elif", "self.gamma == 0");
    ("(f_hedge, fs_hedge)", "gp.predict(u_hedge)");
    ("fs_hedge", "np.sqrt(fs_hedge)");
    ("else", "");
    ("f_hedge", "0");
    ("fs_hedge", "1");
    ("if", "fs_hedge == 0");
    ("er", "np.maximum(0, fval_old - f_hedge)");
    ("elif", "np.isfinite(f_hedge) and np.isfinite(fs_hedge) and np.isreal(fs_hedge) and (fs_hedge > 0)");
    ("gamma_z", "(fval_old - f_hedge) / fs_hedge");
    ("fpi", "0.5 * erfc(-gamma_z / np.sqrt(2))");
    ("er", "fs_hedge * (gamma_z * fpi + np.exp(-0.5 * gamma_z ** 2 / np.sqrt(2 * np.pi)))");
    ("else", "");
    ("er", "0");
    ("self.g[i_hedge]", "self.decay * self.g[i_hedge] + er / self.phat[i_hedge] / mesh_size") ].

(* ================================================================== glue for the tie: the GENERATED programs on the same cases *)

Definition mask_case_ok_with (p : list mstmt) (c : (list (Z * nat) * Z) * mexp) : bool :=
  let '((w0, lamb), e) := c in
  match run_mask p (expand_rle w0) lamb, e with
  | MOk m, EMult d => val_eqb (vz_list m) (vz_list (mask_of_mult (expand_rle d)))
  | MOk m, EPlain m' => val_eqb (vz_list m) (vz_list m')
  | MErr a, EErr b => String.eqb a b
  | _, _ => false
  end.
Definition mask_plain_ok_with (p : list mstmt) (c : (list Z * Z) * val) : bool :=
  val_eqb (mres_val (run_mask p (fst (fst c)) (snd (fst c)))) (snd c).

Definition es_case_ok_with (p : list gstmt) (r : ret_prog) (c : (nat * list (list (list zv * zv))) * es_out (list zv)) : bool :=
  let '((lamb, gens), e) := c in
  match gen_run (list zv) p r [] lamb gens, e with
  | ESEmpty, ESEmpty => true
  | ESStuck, ESStuck => true
  | ESPoint u z, ESPoint u' z' =>
      zv_eqb z z' &&
      (let ties := filter (fun p : list zv * zv => zv_eqb (snd p) z) (List.concat gens) in
       if (1 <? List.length ties)%nat then existsb (fun p : list zv * zv => zrow_eqb (fst p) u') ties
       else zrow_eqb u u')
  | _, _ => false
  end.

Definition hedge_case_ok_with (h : hedge_prog) (c : (list Q * Q * Q * list Q) * (xval * option nat)) : bool :=
  let '((e, gamma, rand, prob), (xp, ch)) := c in
  xval_ok (vq_list (hedge_probs_src h e gamma)) xp &&
  match hedge_choice_src h rand prob, ch with
  | Some i, Some j => Nat.eqb i j
  | None, None => true
  | _, _ => false
  end.
