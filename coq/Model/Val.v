(* Val.v — canonical value tree used by every correspondence check.
   The harness canonicalises what the implementation produced into a [val]
   literal; the model's executable definitions produce a [val]; Coq compares
   them with [val_eqb] under vm_compute and prints only the indices of the
   cases that differ.  No proofs here. *)
From Coq Require Import ZArith QArith Qabs List String Bool.
Import ListNotations.
Open Scope Z_scope.

Inductive val : Type :=
| VZ (z : Z)
| VQ (q : Q)
| VB (b : bool)
| VS (s : string)          (* tags: exception classes, enum names *)
| VNone
| VNaN | VPInf | VNInf
| VL (l : list val).

Fixpoint val_eqb (a b : val) {struct a} : bool :=
  match a, b with
  | VZ x, VZ y => Z.eqb x y
  | VQ x, VQ y => Qeq_bool x y
  | VZ x, VQ y => Qeq_bool (inject_Z x) y
  | VQ x, VZ y => Qeq_bool x (inject_Z y)
  | VB x, VB y => Bool.eqb x y
  | VS x, VS y => String.eqb x y
  | VNone, VNone => true
  | VNaN, VNaN => true
  | VPInf, VPInf => true
  | VNInf, VNInf => true
  | VL x, VL y =>
      (fix go (l1 l2 : list val) {struct l1} : bool :=
         match l1, l2 with
         | [], [] => true
         | v1 :: r1, v2 :: r2 => val_eqb v1 v2 && go r1 r2
         | _, _ => false
         end) x y
  | _, _ => false
  end.

(* indices (from 0) of the cases on which [ok] is false *)
Fixpoint bad_from {A} (ok : A -> bool) (n : nat) (l : list A) : list nat :=
  match l with
  | [] => []
  | x :: r => if ok x then bad_from ok (S n) r else n :: bad_from ok (S n) r
  end.
Definition bad_indices {A} (ok : A -> bool) (l : list A) : list nat := bad_from ok 0%nat l.

Definition vq_list (l : list Q) : val := VL (map (fun q => VQ (Qred q)) l).
Definition vz_list (l : list Z) : val := VL (map VZ l).
Definition vopt {A} (f : A -> val) (o : option A) : val :=
  match o with Some a => f a | None => VNone end.

(* approximate rational on the EXPECTED side only: |x - y| <= 1e-9 * (1 + |y|).
   Used solely where the implementation rounds an inexact float operation whose exact
   value the model computes (weighted means, 1/tau); counted separately in evidence. *)
Definition approx_eps : Q := 1 # 1000000000.
Definition q_approx (x y : Q) : bool :=
  Qle_bool (Qabs (x - y)) (approx_eps * (1 + Qabs y)).
Inductive xval : Type :=
| XV (v : val)               (* exact *)
| XA (q : Q)                 (* approximately q *)
| XL (l : list xval)
| XW.                         (* wildcard: not compared *)
Fixpoint xval_ok (m : val) (e : xval) {struct e} : bool :=
  match e with
  | XV v => val_eqb m v
  | XW => true
  | XA q => match m with VQ x => q_approx x q | VZ x => q_approx (inject_Z x) q | _ => false end
  | XL es =>
      match m with
      | VL ms =>
          (fix go (l1 : list val) (l2 : list xval) {struct l2} : bool :=
             match l1, l2 with
             | [], [] => true
             | v1 :: r1, v2 :: r2 => xval_ok v1 v2 && go r1 r2
             | _, _ => false
             end) ms es
      | _ => false
      end
  end.
