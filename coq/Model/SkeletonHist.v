(* SkeletonHist.v — decidable side condition tying the two "historic improvement" ORACLE values of a
   deterministic run to the history row the code reads (optimize(): the tol_stall_iters test reads
   iteration_history["fval"][poll_iteration - tol_stall_iters]; _poll_step_: the mesh-acceleration test
   reads iteration_history["fval"][iter - accelerate_mesh_steps]) and to the current incumbent value:
   for a deterministic target _eval_improvement_(f_base, fval, 0, 0, 0.5) is the rounded difference
   f_base - fval.  Evaluated by the tie on every loop iteration of every deterministic real run.
   No proofs here. *)
From Coq Require Import ZArith QArith Qabs List Bool.
From PV Require Import Model.Val Model.Skeleton.
Import ListNotations.
Open Scope Z_scope.

(* h is the binary64 rounding of a - b: |h - (a - b)| <= 2^-50 (|a| + |b|) *)
Definition approx_sub (h a b : Q) : bool :=
  Qle_bool (Qabs (h - (a - b))) ((1 # 1125899906842624) * (Qabs a + Qabs b)).

Definition hist_f (s : st) (i : Z) : option Q :=
  if i <? 0 then None
  else match nth_error (hist s) (Z.to_nat i) with Some r => Some (i_f (h_inc r)) | None => None end.

Definition base_ok (s : st) (idx : Z) (h : option Q) : bool :=
  match h, hist_f s idx with
  | Some v, Some fb => approx_sub v fb (i_f (cur s))
  | _, _ => false
  end.

(* the mesh-acceleration test of one poll step *)
Definition poll_hist_ok (o : opts) (SI : Q) (ev : poll_ev) (s2 : st) : bool :=
  let s3 := poll_phase o SI ev s2 in
  if exn s3 then true else
  let a := poll_loop o (pe_ncand ev) (pe_evals ev) (mkP s2 0 (cur s2) 0) in
  let good := qltb SI (p_best a) in
  if negb good && o_accel o && (o_accel_steps o <? piter s3)
  then base_ok s3 (piter s3 - o_accel_steps o) (pe_hist ev)
  else true.

Definition iter_hist_ok (o : opts) (s : st) (ev : iter_ev) : bool :=
  if fin s || exn s then true else
  let s0 := lock_ks o s in
  let s1 := if want_search o s0 then search_phase o (ie_SI ev) (ie_search ev) s0 else s0 in
  if exn s1 then true else
  let '(s2, dopoll) := poll_decision o s1 in
  let s3 := if dopoll then poll_phase o (ie_SI ev) (ie_poll ev) s2 else s2 in
  if exn s3 then true else
  let okP := if dopoll then poll_hist_ok o (ie_SI ev) (ie_poll ev) s2 else true in
  let okT := if o_stall o - 1 <? piter s3 then base_ok s3 (piter s3 - o_stall o) (ie_stall ev) else true in
  okP && okT.

Fixpoint run_hist_ok (o : opts) (s : st) (evs : list iter_ev) : bool :=
  match evs with
  | [] => true
  | e :: r => iter_hist_ok o s e && run_hist_ok o (step_iter o s e) r
  end.

Definition hist_ok (k0 ks0 : Z) (o : opts) (l : list init_call) (fsd0 : Q) (evs : list iter_ev) : bool :=
  negb (o_det o) || run_hist_ok o (init_phase k0 ks0 o l fsd0) evs.

(* ---- the WINDOWS of the two history tests, all noise modes: the code computes the stall improvement exactly in the iterations
   with poll_iteration > tol_stall_iters - 1 (tol_stall_iters AFTER the doubling for stochastic targets), and the acceleration
   improvement exactly in failed polls with accelerate_mesh on and iter > accelerate_mesh_steps.  [Some _] = the code computed it. *)
Definition is_some {A : Type} (x : option A) : bool := match x with Some _ => true | None => false end.

Definition iter_window_ok (o : opts) (s : st) (ev : iter_ev) : bool :=
  if fin s || exn s then true else
  let s0 := lock_ks o s in
  let s1 := if want_search o s0 then search_phase o (ie_SI ev) (ie_search ev) s0 else s0 in
  if exn s1 then true else
  let '(s2, dopoll) := poll_decision o s1 in
  let s3 := if dopoll then poll_phase o (ie_SI ev) (ie_poll ev) s2 else s2 in
  if exn s3 then true else
  let okP :=
    if dopoll then
      let a := poll_loop o (pe_ncand (ie_poll ev)) (pe_evals (ie_poll ev)) (mkP s2 0 (cur s2) 0) in
      let good := qltb (ie_SI ev) (p_best a) in
      Bool.eqb (is_some (pe_hist (ie_poll ev))) (negb good && o_accel o && (o_accel_steps o <? piter s3))
    else true in
  okP && Bool.eqb (is_some (ie_stall ev)) (o_stall o - 1 <? piter s3).

Fixpoint run_window_ok (o : opts) (s : st) (evs : list iter_ev) : bool :=
  match evs with
  | [] => true
  | e :: r => iter_window_ok o s e && run_window_ok o (step_iter o s e) r
  end.

Definition window_ok (k0 ks0 : Z) (o : opts) (l : list init_call) (fsd0 : Q) (evs : list iter_ev) : bool :=
  run_window_ok o (init_phase k0 ks0 o l fsd0) evs.
