(* FilterSrc.v — what the GENERATED file gen/Src_filter.v (translate/filter.py, regenerated from
   pybads/function_logger/constraints_check.py and pybads/bads/bads.py on every run) MEANS.

   (1) NumPy primitives, read per row / per coordinate on the carriers of Model/Filter.v
       (a 2-D float array = [list qrow]; a (1,D) bound row = [list bnd], [None] = infinite on ITS side:
       +inf in an upper-bound row, -inf in a lower-bound row; a rounded array = [list zkey];
       an index array = [list nat]; a boolean row mask = [list bool]).  The generated [src_filter] is a
       Gallina let-chain over these primitives, one [let] per assignment of the source, in source order,
       with the Python local names (Coq's conversion makes renamed locals irrelevant).
   (2) The hand-written let-chain [model_src_filter] and stages the proofs were written against.
   (3) The event language of the starting point's feasibility checks in BADS.__init__ /
       BADS._init_optim_state_ and its interpreter [run_start].
   No proofs in this file (Proofs/FilterSourceProofs.v). *)
From Coq Require Import ZArith QArith Qround List Bool String.
From PV Require Import Model.Filter.
Import ListNotations.
Open Scope Z_scope.

(* ---- element-wise comparisons and min / max against a broadcast bound row ------------------ *)

Inductive cmpop := CLt | CLe | CGt | CGe.

(* x OP y on floats without NaN; a > b is read as b < a, a >= b as b <= a *)
Definition qcmp (c : cmpop) (x y : Q) : bool :=
  match c with
  | CLt => negb (Qle_bool y x)
  | CLe => Qle_bool x y
  | CGt => negb (Qle_bool x y)
  | CGe => Qle_bool y x
  end.

(* against an UPPER bound (None = +inf) / a LOWER bound (None = -inf) *)
Definition cmp_hi (c : cmpop) (x : Q) (h : bnd) : bool :=
  match h with Some h' => qcmp c x h' | None => match c with CLt | CLe => true | _ => false end end.
Definition cmp_lo (c : cmpop) (x : Q) (l : bnd) : bool :=
  match l with Some l' => qcmp c x l' | None => match c with CGt | CGe => true | _ => false end end.

Fixpoint row_cmp_hi (c : cmpop) (r : qrow) (ub : list bnd) : list bool :=
  match r with [] => [] | x :: r' => cmp_hi c x (hd None ub) :: row_cmp_hi c r' (tl ub) end.
Fixpoint row_cmp_lo (c : cmpop) (r : qrow) (lb : list bnd) : list bool :=
  match r with [] => [] | x :: r' => cmp_lo c x (hd None lb) :: row_cmp_lo c r' (tl lb) end.
Definition np_cmp_hi (c : cmpop) (U : list qrow) (ub : list bnd) : list (list bool) := map (fun r => row_cmp_hi c r ub) U.
Definition np_cmp_lo (c : cmpop) (U : list qrow) (lb : list bnd) : list (list bool) := map (fun r => row_cmp_lo c r lb) U.

Definition bmin_hi (x : Q) (h : bnd) : Q := match h with Some h' => qmin x h' | None => x end.   (* np.minimum(x, ub_i) *)
Definition bmax_lo (x : Q) (l : bnd) : Q := match l with Some l' => qmax x l' | None => x end.   (* np.maximum(x, lb_i) *)
Fixpoint row_minimum_hi (r : qrow) (ub : list bnd) : qrow :=
  match r with [] => [] | x :: r' => bmin_hi x (hd None ub) :: row_minimum_hi r' (tl ub) end.
Fixpoint row_maximum_lo (r : qrow) (lb : list bnd) : qrow :=
  match r with [] => [] | x :: r' => bmax_lo x (hd None lb) :: row_maximum_lo r' (tl lb) end.
Definition np_minimum_hi (U : list qrow) (ub : list bnd) : list qrow := map (fun r => row_minimum_hi r ub) U.
Definition np_maximum_lo (U : list qrow) (lb : list bnd) : list qrow := map (fun r => row_maximum_lo r lb) U.

(* ---- masks ------------------------------------------------------------------------------- *)

Definition np_any_axis1 (M : list (list bool)) : list bool := map (existsb (fun b => b)) M.
Definition np_all_axis1 (M : list (list bool)) : list bool := map (forallb (fun b => b)) M.
Fixpoint mask_zip (f : bool -> bool -> bool) (a b : list bool) : list bool :=
  match a, b with x :: a', y :: b' => f x y :: mask_zip f a' b' | _, _ => [] end.
Definition mask_or := mask_zip orb.
Definition mask_and := mask_zip andb.
Definition mask_not (m : list bool) : list bool := map negb m.

(* A[mask] *)
Fixpoint take_mask {A : Type} (l : list A) (m : list bool) : list A :=
  match l, m with
  | x :: l', b :: m' => if b then x :: take_mask l' m' else take_mask l' m'
  | _, _ => []
  end.

(* A[idx] / A[idx, :]  (indices produced by np.unique are in range; an out-of-range index is dropped) *)
Definition take_idx {A : Type} (l : list A) (idx : list nat) : list A :=
  flat_map (fun i => match nth_error l i with Some x => [x] | None => [] end) idx.

(* idx < n, element-wise on an index array *)
Definition idx_lt (idx : list nat) (n : nat) : list bool := map (fun i => Nat.ltb i n) idx.

(* np.sort of an index array *)
Fixpoint nat_insert (i : nat) (l : list nat) : list nat :=
  match l with [] => [i] | h :: t => if Nat.leb i h then i :: l else h :: nat_insert i t end.
Definition np_sort_idx (l : list nat) : list nat := fold_right nat_insert [] l.

(* ---- np.unique(A, axis=0, return_index=True)[1] ------------------------------------------ *)
(* distinct rows in LEXICOGRAPHIC order, each represented by the index of its FIRST occurrence *)

Section Unique.
  Context {K P : Type} (cmp : K -> K -> comparison).
  Definition g_eqb (a b : K) : bool := match cmp a b with Eq => true | _ => false end.
  Definition g_leb (a b : K) : bool := match cmp a b with Gt => false | _ => true end.
  Fixpoint dedup_g (seen : list K) (l : list (K * P)) : list (K * P) :=
    match l with
    | [] => []
    | e :: t => if existsb (g_eqb (fst e)) seen then dedup_g seen t else e :: dedup_g (fst e :: seen) t
    end.
  Fixpoint insert_g (e : K * P) (l : list (K * P)) : list (K * P) :=
    match l with
    | [] => [e]
    | h :: t => if g_leb (fst e) (fst h) then e :: l else h :: insert_g e t
    end.
  Definition sort_g (l : list (K * P)) : list (K * P) := fold_right insert_g [] l.
  Definition unique_g (l : list (K * P)) : list (K * P) := sort_g (dedup_g [] l).
End Unique.

Fixpoint indexed {A : Type} (i : nat) (l : list A) : list (A * nat) :=
  match l with [] => [] | x :: t => (x, i) :: indexed (S i) t end.

Definition np_unique_index {K : Type} (cmp : K -> K -> comparison) (l : list K) : list nat :=
  map snd (unique_g cmp (indexed 0 l)).

(* lexicographic order of float rows (no NaN; -0.0 = 0.0) *)
Fixpoint qlex_compare (a b : qrow) : comparison :=
  match a, b with
  | [], [] => Eq
  | [], _ :: _ => Lt
  | _ :: _, [] => Gt
  | x :: a', y :: b' => match Qcompare x y with Eq => qlex_compare a' b' | c => c end
  end.

Definition np_unique_index_q (A : list qrow) : list nat := np_unique_index qlex_compare A.
Definition np_unique_index_z (A : list zkey) : list nat := np_unique_index lex_compare A.

(* ---- arithmetic -------------------------------------------------------------------------- *)

Definition q_div (a b : Q) : Q := Qred (a / b).                                   (* scalar / scalar, stored *)
Definition np_div (A : list qrow) (t : Q) : list qrow := map (map (fun x => x / t)%Q) A.   (* array / scalar *)
Definition np_round (A : list qrow) : list zkey := map (map Qround_even) A.        (* half to even *)
Definition np_vstack {A : Type} (a b : list A) : list A := a ++ b.
Definition np_len {A : Type} (a : list A) : nat := List.length a.

(* A.size > 0 for a 2-D array with D >= 1 columns (standing assumption of Model/Filter.v: D >= 1) *)
Definition np_nonempty {A : Type} (a : list A) : bool := match a with [] => false | _ :: _ => true end.

(* X[: stop] *)
Definition py_prefix {A : Type} (stop : Z) (l : list A) : list A :=
  if stop <? 0 then firstn (List.length l - Z.to_nat (- stop)) l else firstn (Z.to_nat stop) l.

(* C OP k, element-wise on the values the constraint returned *)
Definition vals_cmp (c : cmpop) (C : list Q) (k : Q) : list bool := map (fun v => qcmp c v k) C.

(* ---- the hand-written reading of contraints_check the proofs are written against ---------- *)
(* one definition per STAGE = per write of the returned variable at the top level of the body, each a
   function of exactly the parameters it reads (in signature order) and of the previous value *)

Definition model_stage1 (U : list qrow) (lb ub : list bnd) (proj : bool) : list qrow :=
  let U_new :=
    if proj then
      let U_new := np_maximum_lo (np_minimum_hi U ub) lb in U_new
    else
      let idx := mask_or (np_any_axis1 (np_cmp_hi CGt U ub)) (np_any_axis1 (np_cmp_lo CLt U lb)) in
      let U_new := take_mask U (mask_not idx) in U_new in
  U_new.

Definition model_stage2 (U_new : list qrow) : list qrow :=
  let idx_sort := np_unique_index_q U_new in
  let U_new := take_idx U_new (np_sort_idx idx_sort) in
  U_new.

Definition model_stage3 (tol_mesh : Q) (fl_X : list qrow) (fl_X_max_idx : Z) (U_new : list qrow) : list qrow :=
  let U_new :=
    if np_nonempty U_new then
      let tol := q_div tol_mesh (2 # 1) in
      let u1 := np_round (np_div U_new tol) in
      let X_max_idx := fl_X_max_idx in
      let u2 := np_round (np_div (py_prefix (X_max_idx + 1) fl_X) tol) in
      let tmp_u := np_vstack u1 u2 in
      let idx_sort := np_unique_index_z tmp_u in
      let u1_idx := take_mask idx_sort (idx_lt idx_sort (np_len u1)) in
      let U_new := take_idx U_new u1_idx in U_new
    else U_new in
  U_new.

Definition model_stage4 {XT : Type} (inverse_transf : qrow -> XT) (non_box_cons : option (XT -> Q))
           (U_new : list qrow) : list qrow :=
  let U_new :=
    match non_box_cons with
    | Some non_box_cons =>
      let X := map inverse_transf U_new in
      let C := map non_box_cons X in
      let idx := vals_cmp CLe C (0 # 1) in
      let U_new := take_mask U_new idx in U_new
    | None => U_new
    end in
  U_new.

Definition model_src_filter {XT : Type} (inverse_transf : qrow -> XT) (U : list qrow) (lb ub : list bnd) (tol_mesh : Q)
           (fl_X : list qrow) (fl_X_max_idx : Z) (proj : bool) (non_box_cons : option (XT -> Q)) : list qrow :=
  let U_new := model_stage1 U lb ub proj in
  let U_new := model_stage2 U_new in
  let U_new := model_stage3 tol_mesh fl_X fl_X_max_idx U_new in
  let U_new := model_stage4 inverse_transf non_box_cons U_new in
  U_new.

(* the user's constraint as Model/Filter.v sees it: true = violated = NOT (value <= 0) *)
Definition violated_of {XT : Type} (inverse_transf : qrow -> XT) (non_box_cons : option (XT -> Q)) : option (qrow -> bool) :=
  option_map (fun c u => negb (Qle_bool (c (inverse_transf u)) (0 # 1))) non_box_cons.

(* ---- the call sites of contraints_check in the package ----------------------------------- *)
(* `<cs_target> = contraints_check(<cs_target>, <cs_args>)` in function [cs_fun] of [cs_file]; the last statement before
   the call (same block) that writes the candidate variable; the statements after it (same block) that write it again *)
Record call_site := { cs_file : string; cs_fun : string; cs_target : string; cs_args : list string;
                      cs_last_write_before : string; cs_writes_after : list string }.

(* the call sites the pin theorem C17_call_sites_are_source was written against *)
Definition model_filter_calls : list call_site :=
  [
  {| cs_file := "pybads/bads/bads.py"; cs_fun := "BADS._init_mesh_"; cs_target := "u1";
     cs_args := ["self.optim_state['lb_search']"; "self.optim_state['ub_search']"; "self.optim_state['tol_mesh']"; "self.function_logger"; "True"; "self.non_box_cons"];
     cs_last_write_before := "u1 = force_to_grid(u1, self.optim_state['search_mesh_size'])";
     cs_writes_after := [] |};
  {| cs_file := "pybads/bads/bads.py"; cs_fun := "BADS._search_step_"; cs_target := "u_search_set";
     cs_args := ["self.optim_state['lb_search']"; "self.optim_state['ub_search']"; "self.optim_state['tol_mesh']"; "self.function_logger"; "True"; "self.non_box_cons"];
     cs_last_write_before := "u_search_set = force_to_grid(u_search_set, self.optim_state['search_mesh_size'])";
     cs_writes_after := [] |};
  {| cs_file := "pybads/bads/bads.py"; cs_fun := "BADS._poll_step_"; cs_target := "u_poll_new";
     cs_args := ["self.lower_bounds"; "self.upper_bounds"; "self.optim_state['tol_mesh']"; "self.function_logger"; "False"; "self.non_box_cons"];
     cs_last_write_before := "if self.options['force_poll_mesh']: u_poll_new = force_to_grid(u_poll_new, self.optim_state['search_mesh_size'])";
     cs_writes_after := [] |};
  {| cs_file := "pybads/search/es_search.py"; cs_fun := "ESSearch.__call__"; cs_target := "u_new";
     cs_args := ["optim_state['lb_search']"; "optim_state['ub_search']"; "optim_state['tol_mesh']"; "func_logger"; "True"; "non_box_cons"];
     cs_last_write_before := "u_new = force_to_grid(u_new, self.search_mesh_size)";
     cs_writes_after := ["nested in a later `if`: u_new = ..."] |}
  ]%string.

(* ---- the feasibility checks of the starting point: ordered events ------------------------- *)

Inductive cons_arg := ArgX0 | ArgInvU0.            (* non_box_cons(self.x0) | non_box_cons(inverse_transf(u0)) *)
Inductive agg := AggNone | AggAny | AggAll.        (* bare truth value of a one-element result | np.any | np.all *)

Inductive start_ev :=
| EvBoundsCheck                 (* self.x0, ... = self._bounds_check_(x0.copy(), ...) *)
| EvRandomStart                 (* if not np.all(np.isfinite(self.x0)): self.x0 = np.random.uniform(plb, pub) *)
| EvConsCheck (a : cons_arg) (c : cmpop) (g : agg) (exc : string)
                                (* if non_box_cons is not None and G(non_box_cons(A) C 0): raise EXC *)
| EvInitState                   (* self.optim_state = self._init_optim_state_() *)
| EvMakeLogger                  (* self.function_logger = FunctionLogger(fun=fun, ...): no target call can precede it *)
| EvSnap                        (* u0 = force_to_grid(grid_units(self.x0, var_transf, scale), search_mesh_size) *)
| EvPullLow                     (* u0[u0 < lower_bounds] = u0[u0 < lower_bounds] + search_mesh_size *)
| EvPullHigh                    (* u0[u0 > upper_bounds] = u0[u0 > upper_bounds] - search_mesh_size *)
| EvStoreU                      (* optim_state["u"] = u0 ; self.u = u0.flatten().copy() *)
| EvBoxTest (exc : string).     (* if np.any(u0 > ub) or np.any(u0 < lb): raise EXC *)

Definition model_init_events : list start_ev :=
  [EvBoundsCheck; EvRandomStart; EvConsCheck ArgX0 CGt AggNone "ValueError"; EvInitState; EvMakeLogger].
Definition model_state_events : list start_ev :=
  [EvSnap; EvPullLow; EvPullHigh; EvConsCheck ArgInvU0 CGt AggAny "ValueError"; EvStoreU; EvBoxTest "ValueError"].

(* the state the events act on: the start in the user's coordinates, the internal start (once snapped),
   whether the logger (the only caller of the target) exists.  Oracles: snap / pull_lo / pull_hi are the
   grid arithmetic (Src_grid.v, C01/C13), inv = inverse_transf, cons = the user's function (a value),
   inbox = the final box test.  x0 is the point AFTER _bounds_check_ / the random draw. *)
Record start_st := { ss_u0 : option qrow; ss_logger : bool; ss_stored : option qrow }.
Inductive start_out := Accepted (u : option qrow) | Rejected (exc : string) (logger_exists : bool) | Stuck.

Section Start.
  Context {XT : Type} (x0 : XT) (snap : XT -> qrow) (pull_lo pull_hi : qrow -> qrow) (inv : qrow -> XT)
          (cons : option (XT -> Q)) (inbox : qrow -> bool).

  Definition cons_fires (c : cmpop) (v : Q) : bool := qcmp c v (0 # 1).

  (* one event; [inl st'] = go on, [inr out] = stop.  [on_init] is what EvInitState does (the events of
     _init_optim_state_ when interpreting __init__; stuck inside _init_optim_state_ itself). *)
  Fixpoint run_evs (on_init : start_st -> start_st + start_out) (evs : list start_ev) (st : start_st)
    : start_st + start_out :=
    match evs with
    | [] => inl st
    | e :: rest =>
      let go st' := run_evs on_init rest st' in
      match e with
      | EvBoundsCheck | EvRandomStart => go st
      | EvConsCheck a c _ exc =>
        match cons with
        | None => go st
        | Some f =>
          match (match a with ArgX0 => Some x0 | ArgInvU0 => option_map inv (ss_u0 st) end) with
          | None => inr Stuck
          | Some x => if cons_fires c (f x) then inr (Rejected exc (ss_logger st)) else go st
          end
        end
      | EvInitState => match on_init st with inl st' => go st' | inr o => inr o end
      | EvMakeLogger => go {| ss_u0 := ss_u0 st; ss_logger := true; ss_stored := ss_stored st |}
      | EvSnap => go {| ss_u0 := Some (snap x0); ss_logger := ss_logger st; ss_stored := ss_stored st |}
      | EvPullLow => match ss_u0 st with None => inr Stuck
                     | Some u => go {| ss_u0 := Some (pull_lo u); ss_logger := ss_logger st; ss_stored := ss_stored st |} end
      | EvPullHigh => match ss_u0 st with None => inr Stuck
                      | Some u => go {| ss_u0 := Some (pull_hi u); ss_logger := ss_logger st; ss_stored := ss_stored st |} end
      | EvStoreU => match ss_u0 st with None => inr Stuck
                    | Some u => go {| ss_u0 := ss_u0 st; ss_logger := ss_logger st; ss_stored := Some u |} end
      | EvBoxTest exc => match ss_u0 st with None => inr Stuck
                         | Some u => if inbox u then go st else inr (Rejected exc (ss_logger st)) end
      end
    end.

  Definition run_start (init_evs state_evs : list start_ev) : start_out :=
    match run_evs (run_evs (fun _ => inr Stuck) state_evs) init_evs
                  {| ss_u0 := None; ss_logger := false; ss_stored := None |} with
    | inl st => if ss_logger st then Accepted (ss_stored st) else Stuck
    | inr o => o
    end.
End Start.
