(* SkeletonNoisy.v — side conditions and small definitions for stochastic targets (C05, C19) and for
   the definedness theorems (C09).  Like SkeletonValid.v: decidable facts about ORACLE values that the
   tie evaluates on every real event; no proofs here. *)
From Coq Require Import ZArith QArith Qabs List Bool.
From PV Require Import Model.Val Model.Skeleton Model.SkeletonValid.
Import ListNotations.
Open Scope Z_scope.

Fixpoint qlist_eqb_v (a b : list Q) : bool :=
  match a, b with
  | [], [] => true
  | x :: r, y :: t => Qeq_bool x y && qlist_eqb_v r t
  | _, _ => false
  end.

(* The incumbent written at the end of a noisy iteration (re-estimation / swap, optimize() l.1372-1411):
   either the current iterate with re-estimated (fval, fsd), or — when an earlier iterate looks better —
   the (point, observed value) of one of the RECORDED iterates (after repair 377f545 the swap updates
   u_best; before it the point was lost).  In both cases the pair (u, yval) is that of the current
   incumbent or of a history row. *)
Definition pair_eqb (c d : inc) : bool := qlist_eqb_v (i_u c) (i_u d) && Qeq_bool (i_y c) (i_y d).

Definition noisy_u_ok_iter (o : opts) (s : st) (ev : iter_ev) : bool :=
  if fin s || exn s then true else
  let s0 := lock_ks o s in
  let s1 := if want_search o s0 then search_phase o (ie_SI ev) (ie_search ev) s0 else s0 in
  if exn s1 then true else
  let '(s2, dopoll) := poll_decision o s1 in
  let s3 := if dopoll then poll_phase o (ie_SI ev) (ie_poll ev) s2 else s2 in
  if exn s3 then true else
  if negb (o_det o) && dopoll && (0 <? piter s3)
  then match ie_noisy ev with
       | Some c => pair_eqb c (cur s3) || existsb (fun h => pair_eqb c (h_inc h)) (hist s3)
       | None => true
       end
  else true.

Fixpoint noisy_u_ok (o : opts) (s : st) (evs : list iter_ev) : bool :=
  match evs with
  | [] => true
  | e :: r => noisy_u_ok_iter o s e && noisy_u_ok o (step_iter o s e) r
  end.

(* exact mean and (population) variance of a list of rationals *)
Definition qsum (l : list Q) : Q := fold_right Qplus 0%Q l.
Definition qlen (l : list Q) : Q := inject_Z (Z.of_nat (List.length l)).
Definition qmean (l : list Q) : Q := (qsum l / qlen l)%Q.
Definition qvar (l : list Q) : Q := (qsum (map (fun y => (y - qmean l) * (y - qmean l)) l) / qlen l)%Q.

(* the floats NumPy returned for mean and SEM agree with the exact values to 1e-9 relative
   (SEM^2 * n = variance, stated without a square root) *)
Definition final_est_ok (f : final_out) : bool :=
  if fo_sampled f && negb (exn (fo_st f)) then
    match fo_yvec f with
    | [] => false
    | l => q_approx (i_f (cur (fo_st f))) (Qred (qmean l)) &&
           q_approx (Qred (i_s (cur (fo_st f)) * i_s (cur (fo_st f)) * qlen l)) (Qred (qvar l)) &&
           Qle_bool 0 (i_s (cur (fo_st f)))
    end
  else true.

(* noise detection at the starting point (_init_mesh_ l.931-939) *)
Definition noise_detected (y0 y1 tol : Q) : bool := qltb tol (Qabs (y0 - y1)).

(* enough oracle observations were supplied for the final re-sampling *)
Definition final_obs_ok (nfs : Z) (ev : final_ev) : bool := (Z.to_nat nfs <=? List.length (fe_obs ev))%nat.
