(* FinalSrc.v — the tail of BADS.optimize(): hand-written counterparts of gen/Src_final.v (regenerated from the source by
   translate/final.py on every run) and the compositions of the GENERATED definitions that the tie evaluates on recorded
   end-games (harness/comp_final.py).  No proofs in this file. *)
From Coq Require Import ZArith QArith List Bool String.
From PV Require Import Model.Val Model.Skeleton Model.SkeletonNoisy gen.Src_final.
Import ListNotations.
Open Scope Z_scope.

(* ---- np.argmin: index of the FIRST minimum ---- *)
Fixpoint argmin_from (best : Q) (bi i : Z) (l : list Q) : Z :=
  match l with
  | [] => bi
  | x :: r => if qltb x best then argmin_from x i (i + 1) r else argmin_from best bi (i + 1) r
  end.
Definition argmin_first (l : list Q) : Z := match l with [] => 0 | x :: r => argmin_from x 0 1 r end.

Definition nthz {A : Type} (l : list A) (i : Z) : option A := if i <? 0 then None else nth_error l (Z.to_nat i).

(* ---- the hand-written reading of the tail (what Model/Skeleton.v [final_phase] assumes about the code) ---- *)
Definition hand_final_guard (level piter : Z) : bool := (0 <? level) && (0 <? piter).
Definition hand_yvec (ys : list Q) (cy : Q) : list Q := match ys with [y] => [y; cy] | _ => ys end.
Definition hand_sdvec (ys sds : list Q) (sdsup : Q) (spec : bool) : list Q :=
  match ys with [_] => if spec then sds ++ [sdsup] else sds | _ => sds end.

(* which attribute of the optimiser goes to which key of the OptimizeResult (optimize_result.py set_attributes), in its order;
   the first components are Model/History.v [set_attributes_keys] *)
Definition result_sources : list (string * string) :=
  [("fun", "bads.function_logger.fun");
   ("non_box_cons", "bads.non_box_cons");
   ("target_type", "(('stochastic (specified noise)') if (bads.options['specify_target_noise']) else ('stochastic')) if (bads.optim_state['uncertainty_handling_level'] > 0) else ('deterministic')");
   ("problem_type", "('unconstrained') if (np.all(np.isinf(bads.lower_bounds)) and np.all(np.isinf(bads.upper_bounds)) and (bads.non_box_cons is None)) else (('bound constraints') if (bads.non_box_cons is None) else ('non-box constraints'))");
   ("iterations", "bads.optim_state['iter']");
   ("func_count", "bads.function_logger.func_count");
   ("mesh_size", "bads.mesh_size");
   ("overhead", "bads.optim_state['overhead']");
   ("algorithm", "'Bayesian adaptive direct search'");
   ("yval_vec", "(bads.optim_state['yval_vec'].copy()) if (bads.optim_state['uncertainty_handling_level'] > 0 and bads.options['noise_final_samples'] > 0 and ('yval_vec' in bads.optim_state)) else (None)");
   ("ysd_vec", "(bads.optim_state['ysd_vec']) if (bads.options['specify_target_noise'] and bads.options['noise_final_samples'] > 0 and ('ysd_vec' in bads.optim_state)) else (None)");
   ("x0", "bads.x0.copy()");
   ("x", "bads.x.copy()");
   ("fval", "bads.fval");
   ("fsd", "bads.fsd");
   ("total_time", "bads.optim_state['total_time']");
   ("random_seed", "bads.optim_state['random_seed']");
   ("version", "installed version of 'pybads', None when the package metadata is missing");
   ("success", "True");
   ("status", "0");
   ("message", "bads.optim_state['termination_msg']")]%string.

Fixpoint assoc_str (k : string) (l : list (string * string)) : option string :=
  match l with
  | [] => None
  | (a, b) :: r => if String.eqb k a then Some b else assoc_str k r
  end.

(* ---- compositions of the GENERATED definitions, evaluated by the tie on recorded end-games ---- *)
Definition src_scores (sigma : Q) (fv fs : list Q) : list Q := map (fun p => src_sel_score sigma (fst p) (snd p)) (combine fv fs).
Definition src_am (sigma : Q) (fv fs : list Q) : Z := argmin_first (skipn (Z.to_nat src_sel_skip) (src_scores sigma fv fs)).

Fixpoint col (k : string) (t : list (string * list Q)) : list Q :=
  match t with
  | [] => []
  | (a, c) :: r => if String.eqb k a then c else col k r
  end.

(* the four restored fields, read through the generated keys and the generated index expressions; t holds the history columns
   yval / fval / fsd (the latter two after _re_evaluate_history_), hu the column u *)
Definition src_sel_row (sigma : Q) (t : list (string * list Q)) (hu : list (list Q)) (piter : Z) : option inc :=
  let am := src_am sigma (col "fval" t) (col "fsd" t) in
  match src_sel_keys with
  | [ky; kf; ks; ku] =>
      if String.eqb ku "u" then
        match nthz hu (src_sel_idx_u am piter), nthz (col ky t) (src_sel_idx_y am piter),
              nthz (col kf t) (src_sel_idx_f am piter), nthz (col ks t) (src_sel_idx_s am piter) with
        | Some u, Some y, Some f, Some s => Some (mkI u y f s)
        | _, _, _, _ => None
        end
      else None
  | _ => None
  end.

Definition inc_eqb (a b : inc) : bool :=
  qlist_eqb_v (i_u a) (i_u b) && Qeq_bool (i_y a) (i_y b) && Qeq_bool (i_f a) (i_f b) && Qeq_bool (i_s a) (i_s b).
Definition sel_ok (sigma : Q) (t : list (string * list Q)) (hu : list (list Q)) (piter : Z) (expect : inc) : bool :=
  match src_sel_row sigma t hu piter with Some c => inc_eqb c expect | None => false end.
(* only the pair (u, yval) is observable after the re-sampling overwrote fval / fsd *)
Definition sel_uy_ok (sigma : Q) (t : list (string * list Q)) (hu : list (list Q)) (piter : Z) (u : list Q) (y : Q) : bool :=
  match src_sel_row sigma t hu piter with Some c => qlist_eqb_v (i_u c) u && Qeq_bool (i_y c) y | None => false end.

(* number of logger calls of the tail *)
Definition src_final_calls (level piter nfs : Z) : Z :=
  if src_final_guard level piter && src_fs_guard nfs then src_fs_count nfs else 0.
(* the vectors are allocated with the size the loop fills *)
Definition src_alloc_ok (nfs : Z) : bool := (src_fs_alloc_y nfs =? src_fs_count nfs) && (src_fs_alloc_sd nfs =? src_fs_count nfs).

(* the calls: recorded flag and point *)
Definition calls_ok (flags : list bool) (points : list (list Q)) (u : list Q) : bool :=
  forallb (fun f => Bool.eqb f src_fs_record_flag) flags &&
  (if src_fs_call_arg =? 0 then forallb (fun p => qlist_eqb_v p u) points else true).

Definition qlist_opt_eqb (a : list Q) (b : list Q) : bool := qlist_eqb_v a b.

(* mean / SEM of the stored vector: the floats NumPy returned agree with the exact values to 1e-9 relative *)
Definition est_ok (yvec : list Q) (fval fsd : Q) : bool :=
  match yvec with
  | [] => false
  | l => (if src_fs_fval_is_mean_of_yvec then q_approx fval (Qred (qmean l)) else false) &&
         (if src_fs_fsd_is_std_over_sqrt
          then q_approx (Qred (fsd * fsd * inject_Z (src_fs_sem_div (Z.of_nat (List.length l))))) (Qred (qvar l)) && Qle_bool 0 fsd
          else false)
  end.
