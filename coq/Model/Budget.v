(* Budget.v — executable model (Z arithmetic) of the evaluation budget END TO END: from the options the USER
   passes to what the main loop and the final re-sampling are allowed to spend.

   Source (pinned tree + fix commits):
     BADS._init_mesh_          pybads/bads/bads.py l.916-1037   x0 evaluation, noise test, `max_fun_evals == 1` early return,
                                                                 fun_eval_start for noisy targets, the cap `max_fun_evals - 1`,
                                                                 the Sobol design, one evaluation per row that survives the filter
     init_sobol                pybads/init_functions/init_sobol.py l.59-62   n_samples = ceil(log2(fun_eval_start)), +1 if
                                                                 2**n_samples == D, 2**n_samples rows
     BADS._init_optimization_  pybads/bads/bads.py l.1053-1079  tol_stall_iters doubled, the reserve
                                                                 noise_final_samples := min(noise_final_samples, max_fun_evals - func_count),
                                                                 max_fun_evals := max_fun_evals - noise_final_samples
   Every arithmetic definition below is proved equal to the definition REGENERATED from the source by translate/budget.py
   (gen/Src_budget.v) in Proofs/BudgetProofs.v, so an edit of a source expression breaks a proof obligation.

   The model is faithful including the defects: nothing clamps the reserve at 0 (a budget below the initial design, or a
   negative noise_final_samples, makes it negative and INFLATES the loop budget), the cap `max_fun_evals - 1` is applied
   BEFORE rounding up to a power of two (so the design can exceed the budget), and a capped fun_eval_start <= 0 makes
   init_sobol raise (log2 of a non-positive number).  No proofs in this file. *)
From Coq Require Import ZArith QArith List Bool.
From PV Require Import Model.Val Model.Skeleton.
Import ListNotations.
Open Scope Z_scope.

(* ---- inputs: the user's options + two oracles ---- *)
Record binp := mkBI {
  bi_D : Z;               (* number of variables (= u0.size in init_sobol) *)
  bi_mfe : Z;             (* options['max_fun_evals'] as given by the USER *)
  bi_fes : Z;             (* options['fun_eval_start'] (default D) *)
  bi_nfs : Z;             (* options['noise_final_samples'] (default 10) *)
  bi_stall : Z;           (* options['tol_stall_iters'] *)
  bi_level0 : Z;          (* uncertainty_handling_level after construction: 0 undeclared, 1 declared, 2 specified noise *)
  bi_differ : bool;       (* ORACLE: outcome of the noise test |y0 - y0'| > tol_noise (read only when the test runs) *)
  bi_survive : Z          (* ORACLE: number of design rows that survive contraints_check (0 <= . <= rows) *)
}.

(* ---- _init_mesh_ ---- *)
Definition noise_test_runs (level : Z) : bool := level <? 1.
Definition level_set : Z := 1.
Definition level_after (level0 : Z) (differ : bool) : Z :=
  if noise_test_runs level0 && differ then level_set else level0.
Definition single_eval (mfe : Z) : bool := mfe =? 1.
Definition is_noisy (level : Z) : bool := 0 <? level.
Definition fes_noisy (fes mfe : Z) : Z := Z.min (Z.max 20 fes) mfe.
Definition design_wanted (fes : Z) : bool := 0 <? fes.
Definition fes_capped (fes mfe : Z) : Z := Z.min fes (mfe - 1).
(* record_duplicate_data of the three call sites *)
Definition site_x0_record : bool := true.
Definition site_test_record : bool := false.
Definition site_design_record : bool := true.

(* ---- init_sobol ---- *)
Definition sobol_n0 (f : Z) : Z := Z.log2_up f.
Definition sobol_bump_test (n D : Z) : bool := 2 ^ n =? D.
Definition sobol_bump (n : Z) : Z := n + 1.
Definition sobol_exp (f D : Z) : Z := let n := sobol_n0 f in if sobol_bump_test n D then sobol_bump n else n.
Definition sobol_rows_of (n : Z) : Z := 2 ^ n.
Definition sobol_rows (f D : Z) : Z := sobol_rows_of (sobol_exp f D).
(* int(np.ceil(np.log2(f))) raises for f <= 0 (OverflowError for -inf, ValueError for nan) *)
Definition sobol_raises (f : Z) : bool := f <? 1.

(* ---- _init_optimization_ ---- *)
Definition stall_eff (stall : Z) : Z := 2 * stall.
Definition nfs_eff (mfe nfs fc : Z) : Z := Z.min nfs (mfe - fc).
Definition maxfe_eff (mfe nfs fc : Z) : Z := mfe - nfs_eff mfe nfs fc.

(* ---- the readers in optimize() / _poll_step_ (mirrored by Model/Skeleton.v: terminate, poll_guard, final_phase) ---- *)
Definition term_budget (maxfe fc : Z) : bool := maxfe <=? fc.
Definition poll_guard_budget (maxfe fc : Z) : bool := fc <? maxfe.
Definition final_outer (level piter : Z) : bool := (0 <? level) && (0 <? piter).
Definition final_cond (nfs : Z) : bool := 0 <? nfs.
Definition final_count (nfs : Z) : Z := nfs.
Definition site_final_record : bool := false.
(* number of self.function_logger(...) call sites per method: _init_mesh_, optimize, _search_step_, _poll_step_ *)
Definition logger_sites : list Z := [3; 1; 1; 1].

(* ---- outputs ---- *)
Record bout := mkBO {
  bo_crash : bool;        (* init_sobol raises: the run dies in the initial design *)
  bo_skipped : bool;      (* max_fun_evals == 1: _init_mesh_ returns before the design *)
  bo_level : Z;           (* uncertainty_handling_level when the loop starts *)
  bo_fes : Z;             (* options['fun_eval_start'] after _init_mesh_ *)
  bo_rows : Z;            (* rows of the Sobol design handed to the filter (0: no design) *)
  bo_design : Z;          (* design rows evaluated *)
  bo_init_calls : Z;      (* target calls of _init_mesh_ = func_count when the reserve is computed *)
  bo_nfs : Z;             (* options['noise_final_samples'] as seen by the final phase (the reserve) *)
  bo_maxfe : Z;           (* options['max_fun_evals'] as seen by the loop *)
  bo_stall : Z            (* options['tol_stall_iters'] as seen by the loop *)
}.

Definition budget (b : binp) : bout :=
  let lvl := level_after (bi_level0 b) (bi_differ b) in
  let c0 := 1 + (if noise_test_runs (bi_level0 b) then 1 else 0) in
  let skipped := single_eval (bi_mfe b) in
  let fes1 := if negb skipped && is_noisy lvl then fes_noisy (bi_fes b) (bi_mfe b) else bi_fes b in
  let design := negb skipped && design_wanted fes1 in
  let f := fes_capped fes1 (bi_mfe b) in
  let crash := design && sobol_raises f in
  let runs := design && negb crash in
  let rows := if runs then sobol_rows f (bi_D b) else 0 in
  let dn := if runs then bi_survive b else 0 in
  let n := c0 + dn in
  if is_noisy lvl
  then mkBO crash skipped lvl fes1 rows dn n (nfs_eff (bi_mfe b) (bi_nfs b) n) (maxfe_eff (bi_mfe b) (bi_nfs b) n) (stall_eff (bi_stall b))
  else mkBO crash skipped lvl fes1 rows dn n (bi_nfs b) (bi_mfe b) (bi_stall b).

(* record_duplicate_data flag of every initial call, in order *)
Definition init_shape (b : binp) : list bool :=
  (site_x0_record :: (if noise_test_runs (bi_level0 b) then [site_test_record] else []))
  ++ repeat site_design_record (Z.to_nat (bo_design (budget b))).

(* ---- composition with the skeleton: the loop and the final phase see what _init_optimization_ left ---- *)
Definition with_budget (b : binp) (o : opts) : opts :=
  mkO (bi_D b) (bo_maxfe (budget b)) (o_maxiter o) (o_ntry o) (o_tolmesh o) (o_accel o) (o_accel_steps o)
      (bo_stall (budget b)) (o_skip o) (o_sme o) (o_smi o) (o_maxgrid o) (o_sgm o) (o_sgn o) (o_locked o)
      (o_tolfun o) (o_sloppy o) (negb (is_noisy (bo_level (budget b)))).

Definition whole_run (b : binp) (k0 ks0 : Z) (o : opts) (l : list init_call) (fsd0 : Q) (evs : list iter_ev) (fev : final_ev) : final_out :=
  run_full k0 ks0 (with_budget b o) l fsd0 evs (bo_nfs (budget b)) fev.

Definition total_calls (f : final_out) : Z := Z.of_nat (List.length (calls (fo_st f))).

(* ---- canonical dump for the tie ---- *)
Definition budget_dump (b : binp) : val :=
  let r := budget b in
  VL [VB (bo_crash r); VB (bo_skipped r); VZ (bo_level r); VZ (bo_fes r); VZ (bo_rows r); VZ (bo_init_calls r);
      VZ (bo_nfs r); VZ (bo_maxfe r); VZ (bo_stall r); VL (map VB (init_shape b))].
