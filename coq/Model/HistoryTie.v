(* HistoryTie.v — executable comparison between Model/History.v and what the harness observed on
   the real IterationHistory / OptimizeResult (harness/comp_history.py, harness/run_history.py).
   Not part of any theorem; used only under vm_compute by the correspondence check.

   The harness numbers every mutable Python object it sees: its own source objects HExt n (passed to
   the model as Ext n), every other object HObj h in order of first sighting.  The model numbers the
   objects it allocates with its own counter (Own m).  The two numberings need not agree; the observed
   trace matches the model iff there is ONE injective correspondence Own m <-> HObj h that is
   consistent over the whole trace (same real object <=> same model object).  [bij] carries it. *)
From Coq Require Import ZArith List String Bool.
From PV Require Import Model.Val Model.History.
Import ListNotations.
Open Scope Z_scope.

Inductive hid : Type := HImm | HExt (n : nat) | HObj (n : nat).
Inductive ecell : Type := ENone | EVal (p : val) (h : hid).
Inductive estored : Type := ESNone | ESScalar (p : val) | ESArr (h : nat) (cs : list ecell).
Inductive eres : Type := EOk | EErr (e : string) | ERef (e : estored).
Definition edump : Type := list (string * estored).

Definition bij : Type := list (nat * nat).

Fixpoint bij_check (b : bij) (m h : nat) : option bool :=
  match b with
  | [] => None
  | (m', h') :: r =>
      if Nat.eqb m m' then Some (Nat.eqb h h')
      else if Nat.eqb h h' then Some false
      else bij_check r m h
  end.

Definition bij_add (b : bij) (m h : nat) : option bij :=
  match bij_check b m h with
  | Some true => Some b
  | Some false => None
  | None => Some ((m, h) :: b)
  end.

Definition match_id (b : bij) (id : ident) (h : hid) : option bij :=
  match id, h with
  | Imm, HImm => Some b
  | Ext n, HExt n' => if Nat.eqb n n' then Some b else None
  | Own m, HObj h' => bij_add b m h'
  | _, _ => None
  end.

Definition match_cell (b : bij) (c : cell) (e : ecell) : option bij :=
  match c, e with
  | None, ENone => Some b
  | Some v, ENone =>            (* record(k, None, i): Python None is the padding value itself *)
      match payload v, vid v with VNone, Imm => Some b | _, _ => None end
  | Some v, EVal p h => if val_eqb (payload v) p then match_id b (vid v) h else None
  | None, EVal _ _ => None
  end.

Fixpoint match_cells (b : bij) (cs : list cell) (es : list ecell) : option bij :=
  match cs, es with
  | [], [] => Some b
  | c :: cr, e :: er => match match_cell b c e with Some b' => match_cells b' cr er | None => None end
  | _, _ => None
  end.

Definition match_stored (b : bij) (st : stored) (e : estored) : option bij :=
  match st, e with
  | SNone, ESNone => Some b
  | SScalar p, ESScalar p' => if val_eqb p p' then Some b else None
  | SArr a cs, ESArr h es => match bij_add b a h with Some b' => match_cells b' cs es | None => None end
  | _, _ => None
  end.

Fixpoint match_dump (b : bij) (its : list (string * stored)) (ed : edump) : option bij :=
  match its, ed with
  | [], [] => Some b
  | (k, st) :: ir, (k', e) :: er =>
      if String.eqb k k'
      then match match_stored b st e with Some b' => match_dump b' ir er | None => None end
      else None
  | _, _ => None
  end.

Definition match_res (b : bij) (r : result) (e : eres) : option bij :=
  match r, e with
  | Ok, EOk => Some b
  | Err x, EErr y => if String.eqb x y then Some b else None
  | Ref st, ERef e' => match_stored b st e'
  | _, _ => None
  end.

(* ops as the harness can express them: it cannot name a container-owned object by the model's
   number, so it names it by position *)
Inductive top : Type :=
| TOp (o : op)
| TMutateAt (k : string) (j : nat) (p : val)              (* change the object stored at (k, j) in place *)
| TRecordFrom (k k2 : string) (j : nat) (i : Z).          (* h.record(k, h[k2][j], i) *)

Definition resolve (s : hstate) (t : top) : option op :=
  match t with
  | TOp o => Some o
  | TMutateAt k j p =>
      match cell_at s k j with Some (Some v) => Some (Mutate (vid v) p) | _ => None end
  | TRecordFrom k k2 j i =>
      match cell_at s k2 j with Some (Some v) => Some (Record k v i) | _ => None end
  end.

(* index of the first op whose observed result / state differs from the model's; None = all agree *)
Fixpoint tie_from (n : nat) (s : hstate) (b : bij) (ops : list top) (exp : list (eres * option edump))
  : option nat :=
  match ops, exp with
  | [], [] => None
  | t :: ops', (er, ed) :: exp' =>
      match resolve s t with
      | None => Some n
      | Some o =>
          let (s', r) := step s o in
          match match_res b r er with
          | None => Some n
          | Some b1 =>
              match ed with
              | None => tie_from (S n) s' b1 ops' exp'
              | Some d =>
                  match match_dump b1 (items s') d with
                  | None => Some n
                  | Some b2 => tie_from (S n) s' b2 ops' exp'
                  end
              end
          end
      end
  | _, _ => Some n
  end.

Definition history_case : Type := (list string * list top) * list (eres * option edump).
Definition history_first_bad (c : history_case) : option nat :=
  let '(keys, ops) := fst c in tie_from 0 (init_history keys) [] ops (snd c).
Definition history_ok (c : history_case) : bool :=
  match history_first_bad c with None => true | Some _ => false end.

(* ------------------------------------------------------------------ OptimizeResult *)

Inductive erres : Type := EROk | ERErr (e : string) | ERRef (p : val) (h : hid).
Definition erdump : Type := list (string * (val * hid)).

Fixpoint match_rdump (b : bij) (its : list (string * value)) (ed : erdump) : option bij :=
  match its, ed with
  | [], [] => Some b
  | (k, v) :: ir, (k', (p, h)) :: er =>
      if String.eqb k k' && val_eqb (payload v) p
      then match match_id b (vid v) h with Some b' => match_rdump b' ir er | None => None end
      else None
  | _, _ => None
  end.

Definition match_rres (b : bij) (r : rresult) (e : erres) : option bij :=
  match r, e with
  | ROk, EROk => Some b
  | RErr x, ERErr y => if String.eqb x y then Some b else None
  | RRef v, ERRef p h => if val_eqb (payload v) p then match_id b (vid v) h else None
  | _, _ => None
  end.

Inductive rtop : Type :=
| RTOp (o : rop)
| RTMutateAt (k : string) (p : val)                        (* change the object stored under k in place *)
| RTSetFrom (k k2 : string).                               (* r[k] = r[k2] *)

Definition rresolve (s : rstate) (t : rtop) : option rop :=
  match t with
  | RTOp o => Some o
  | RTMutateAt k p => match lookup k (ritems s) with Some v => Some (RMutate (vid v) p) | None => None end
  | RTSetFrom k k2 => match lookup k2 (ritems s) with Some v => Some (RSet k v) | None => None end
  end.

Fixpoint rtie_from (n : nat) (s : rstate) (b : bij) (ops : list rtop) (exp : list (erres * option erdump))
  : option nat :=
  match ops, exp with
  | [], [] => None
  | t :: ops', (er, ed) :: exp' =>
      match rresolve s t with
      | None => Some n
      | Some o =>
          let (s', r) := rstep s o in
          match match_rres b r er with
          | None => Some n
          | Some b1 =>
              match ed with
              | None => rtie_from (S n) s' b1 ops' exp'
              | Some d =>
                  match match_rdump b1 (ritems s') d with
                  | None => Some n
                  | Some b2 => rtie_from (S n) s' b2 ops' exp'
                  end
              end
          end
      end
  | _, _ => Some n
  end.

Definition result_case : Type := list rtop * list (erres * option erdump).
Definition result_first_bad (c : result_case) : option nat :=
  rtie_from 0 init_result [] (fst c) (snd c).
Definition result_ok (c : result_case) : bool :=
  match result_first_bad c with None => true | Some _ => false end.

(* the two key lists of the model, for comparison with OptimizeResult._keys and with the keys present
   in a real OptimizeResult(bads) *)
Definition keys_val (l : list string) : val := VL (map VS l).
Definition keylists_ok (c : val * val) : bool :=
  val_eqb (keys_val result_keys) (fst c) && val_eqb (keys_val set_attributes_keys) (snd c).
