(* LoggerSrc.v — the PROGRAM FORM of pybads/function_logger/function_logger.py and its interpreter.

   translate/logger.py re-reads function_logger.py on every run and emits coq/gen/Src_logger.v:
     src_record : rprog          FunctionLogger._record (with _expand_arrays inlined at its call) executed SYMBOLICALLY: a decision tree
                                 over the conditions of its `if`s whose leaves are the final values of every tracked place on that path,
                                 as expressions over the state BEFORE the call (so the order of independent stores and the names of
                                 locals do not matter, everything else does);
     src_call_events             FunctionLogger.__call__ in statement order: target evaluation, tuple test, coercions, the validity
                                 tests (guard flag, exception class, ordered disjuncts), the call of _record and its arguments,
                                 `func_count += 1`, the returned tuple;
     src_add_events              FunctionLogger.add likewise (defaulting of fsd, tests, `cache_count += 1`, the call of _record);
     src_init_fills, src_expand_fills, src_expand_amount, src_finalize_cut     fill values / growth / truncation of the tables.
   This file says what such programs MEAN ([run_record], [run_checks], [step_gen]) and contains the hand-written programs
   ([model_record], [model_call_events], ...) that Model/Logger.v's [record] / [step] are claimed to be.
   No proofs here (Proofs/LoggerSourceProofs.v). *)
From Coq Require Import ZArith QArith Qabs List String Bool.
From PV Require Import Model.XQ Model.Val Model.Logger.
Import ListNotations.
Open Scope string_scope.
Open Scope Z_scope.

(* ------------------------------------------------------------------ integer expressions (Xn, capacity, X_max_idx) *)
Inductive zexpr : Type :=
| ZXn | ZCap | ZXmax                       (* self.Xn, <table>.shape[0], self.X_max_idx — BEFORE the call *)
| ZC (z : Z)
| ZAdd (a b : zexpr) | ZSub (a b : zexpr)
| ZMax (a b : zexpr) | ZMin (a b : zexpr)
| ZCeilHalf (a : zexpr)                    (* np.ceil(a / 2) *)
| ZIfGt (a b t e : zexpr).                 (* t if a > b else e *)

Fixpoint zeval (xn cp xm : Z) (e : zexpr) : Z :=
  match e with
  | ZXn => xn | ZCap => cp | ZXmax => xm | ZC z => z
  | ZAdd a b => zeval xn cp xm a + zeval xn cp xm b
  | ZSub a b => zeval xn cp xm a - zeval xn cp xm b
  | ZMax a b => Z.max (zeval xn cp xm a) (zeval xn cp xm b)
  | ZMin a b => Z.min (zeval xn cp xm a) (zeval xn cp xm b)
  | ZCeilHalf a => ceil_half (zeval xn cp xm a)
  | ZIfGt a b t e => if zeval xn cp xm a >? zeval xn cp xm b then zeval xn cp xm t else zeval xn cp xm e
  end.

(* ------------------------------------------------------------------ the duplicate search *)
Inductive range : Type := RAll | RUpto (e : zexpr).            (* self.X  |  self.X[: e] *)
Inductive mask : Type :=
| MRows (r : range)        (* (X[r] == x).all(axis=1)  /  np.all(X[r] == x, axis=1): rows EQUAL to x *)
| MElems (r : range).      (* X[r] == x used element-wise: np.any / np.argwhere(...)[0, 0] see a row sharing ANY coordinate *)
Inductive ixexpr : Type := IFirst (m : mask) | ILast (m : mask).     (* np.argwhere(m)[0, 0]  |  np.argwhere(m)[-1].item() *)

Inductive cond : Type :=
| CRecord                  (* record_duplicate_data *)
| CFsd                     (* fsd is not None *)
| CAny (m : mask)          (* np.any(m) *)
| CCountGt (m : mask) (k : nat).    (* np.sum(m) > k *)

(* ------------------------------------------------------------------ float expressions; sqrt is symbolic *)
Inductive fexpr : Type :=
| FY | FS                  (* Y[i], S[i] of the addressed row BEFORE the call *)
| FVal | FSd               (* fval_orig, fsd *)
| FC (q : Q)
| FAdd (a b : fexpr) | FSub (a b : fexpr) | FMul (a b : fexpr) | FDiv (a b : fexpr)
| FSq (a : fexpr) | FSqrt (a : fexpr).

Inductive nexpr : Type := NOld | NC (z : Z) | NAdd (a b : nexpr) | NMax (a b : nexpr).   (* n_evals[i] *)

(* a value is a rational or the square root of one *)
Inductive sv : Type := SR (q : Q) | SQ (q : Q).

Inductive pt : Type := PX | PXorig.        (* the arguments x / x_orig of _record *)

Inductive rprog : Type :=
| RIf (c : cond) (a b : rprog)
| RRaise (cls : string)
| RRet (v : fexpr) (i : option ixexpr)                                                   (* nothing written; return (v, i) *)
| RUpd (i : ixexpr) (y s : option fexpr) (n : option nexpr) (v : fexpr)                  (* row i: new Y, S, n_evals; return (v, i) *)
| RNew (at_ : zexpr) (pxo px : pt) (yo y : fexpr) (s : option fexpr) (n : nexpr)         (* row at_ of X_orig, X, Y_orig, Y, S, n_evals *)
       (xn' cap' xmax' : zexpr) (v : fexpr) (ri : zexpr).                                (* new Xn, capacity, X_max_idx; return (v, ri) *)

Record renv : Type := mkEnv { v_s : lstate; v_xm : Z; v_x : list Q; v_xo : list Q; v_fv : Q; v_fsd : option Q; v_rp : bool }.

Definition env_xn (v : renv) : Z := Z.of_nat (List.length (rows (v_s v))) - 1.
Definition zev (v : renv) (e : zexpr) : Z := zeval (env_xn v) (cap (v_s v)) (v_xm v) e.

(* rows beyond Xn are NaN (src_init_fills / src_expand_fills) and match no point: the whole table = the filled rows *)
Definition rows_in (v : renv) (r : range) : list row :=
  match r with RAll => rows (v_s v) | RUpto e => firstn (Z.to_nat (zev v e)) (rows (v_s v)) end.
Definition mrange (m : mask) : range := match m with MRows r => r | MElems r => r end.
Definition mpred (v : renv) (m : mask) : row -> bool :=
  match m with
  | MRows _ => fun r => qlist_eqb (r_x r) (v_x v)
  | MElems _ => fun r => qlist_any_eq (r_x r) (v_x v)
  end.
Definition mrows (v : renv) (m : mask) : list row := rows_in v (mrange m).
Fixpoint eq_count (a b : list Q) : nat :=
  match a, b with
  | x :: r, y :: s => ((if Qeq_bool x y then 1 else 0) + eq_count r s)%nat
  | _, _ => 0%nat
  end.
Definition mcount (v : renv) (m : mask) : nat :=
  match m with
  | MRows _ => count_if (mpred v m) (mrows v m)
  | MElems _ => fold_right (fun r acc => (eq_count (r_x r) (v_x v) + acc)%nat) 0%nat (mrows v m)
  end.
Definition ixev (v : renv) (i : ixexpr) : option nat :=
  match i with
  | IFirst m => find_first (mpred v m) (mrows v m) 0
  | ILast m => find_last (mpred v m) (mrows v m) 0 None
  end.
Definition cev (v : renv) (c : cond) : bool :=
  match c with
  | CRecord => v_rp v
  | CFsd => match v_fsd v with Some _ => true | None => false end
  | CAny m => existsb (mpred v m) (mrows v m)
  | CCountGt m k => (k <? mcount v m)%nat
  end.

Definition sv2 (f : Q -> Q -> Q) (a b : option sv) : option sv :=
  match a, b with Some (SR p), Some (SR q) => Some (SR (Qred (f p q))) | _, _ => None end.

Fixpoint fev (v : renv) (r : option row) (e : fexpr) : option sv :=
  match e with
  | FY => match r with Some r => Some (SR (r_y r)) | None => None end
  | FS => match r with
          | Some r => match r_tau r with Some t => Some (SQ (Qred (/ t))) | None => None end     (* S = sqrt(1 / tau); NaN: stuck *)
          | None => None
          end
  | FVal => Some (SR (v_fv v))
  | FSd => match v_fsd v with Some sd => Some (SR sd) | None => None end
  | FC q => Some (SR q)
  | FAdd a b => sv2 Qplus (fev v r a) (fev v r b)
  | FSub a b => sv2 Qminus (fev v r a) (fev v r b)
  | FMul a b => sv2 Qmult (fev v r a) (fev v r b)
  | FDiv a b =>
      match fev v r a, fev v r b with
      | Some (SR p), Some (SR q) => Some (SR (Qred (p / q)))
      | Some (SR p), Some (SQ q) => if Qle_bool 0 p then Some (SQ (Qred (p * p / q))) else None     (* p / sqrt q = sqrt (p^2 / q), p >= 0 *)
      | _, _ => None
      end
  | FSq a => match fev v r a with Some (SR p) => Some (SR (Qred (p * p))) | Some (SQ p) => Some (SR p) | None => None end
  | FSqrt a => match fev v r a with Some (SR p) => Some (SQ p) | _ => None end
  end.

Definition fevq (v : renv) (r : option row) (e : fexpr) : option Q :=
  match fev v r e with Some (SR q) => Some q | _ => None end.
(* what is kept for a stored SD: tau = 1 / S^2 *)
Definition tau_of (x : sv) : Q := match x with SR p => Qred (/ (p * p)) | SQ p => Qred (/ p) end.

Fixpoint nev (r : option row) (e : nexpr) : option Z :=
  match e with
  | NOld => match r with Some r => Some (r_n r) | None => None end
  | NC z => Some z
  | NAdd a b => match nev r a, nev r b with Some p, Some q => Some (p + q) | _, _ => None end
  | NMax a b => match nev r a, nev r b with Some p, Some q => Some (Z.max p q) | _, _ => None end
  end.


(* None = the program is STUCK on this input (an expression has no value: NaN poison, a store outside the modelled shapes) *)
Fixpoint run_rprog (p : rprog) (v : renv) : option (lstate * Z * result) :=
  let s := v_s v in
  match p with
  | RIf c a b => if cev v c then run_rprog a v else run_rprog b v
  | RRaise cls => Some (s, v_xm v, Exn cls)
  | RRet e i =>
      match fevq v None e with
      | Some q =>
          match i with
          | None => Some (s, v_xm v, Ret q (v_fsd v) None)
          | Some ie => match ixev v ie with Some k => Some (s, v_xm v, Ret q (v_fsd v) (Some k)) | None => None end
          end
      | None => None
      end
  | RUpd ie y sd n e =>
      match ixev v ie with
      | Some k =>
          match nth_error (rows s) k with
          | Some r =>
              let y' := match y with Some ey => fevq v (Some r) ey | None => Some (r_y r) end in
              let t' := match sd with
                        | Some es => match fev v (Some r) es with Some x => Some (Some (tau_of x)) | None => None end
                        | None => Some (r_tau r)
                        end in
              let n' := match n with Some en => nev (Some r) en | None => Some (r_n r) end in
              match y', t', n', fevq v (Some r) e with
              | Some y1, Some t1, Some n1, Some q =>
                  Some (mkL (update_nth k (fun _ => mkRow (r_xo r) (r_x r) (r_yo r) y1 t1 n1) (rows s))
                            (cap s) (func_count s) (cache_count s) (noise_flag s) (he_flag s),
                        v_xm v, Ret q (v_fsd v) (Some k))
              | _, _, _, _ => None
              end
          | None => None
          end
      | None => None
      end
  | RNew at_ pxo px yo y sd n xn' cap' xmax' e ri =>
      let n0 := Z.of_nat (List.length (rows s)) in
      let pick := fun p => match p with PX => v_x v | PXorig => v_xo v end in
      if (zev v at_ =? n0) && (zev v xn' =? n0) && (zev v ri =? n0) then
        let t' := match sd with
                  | Some es => match fev v None es with Some x => Some (Some (tau_of x)) | None => None end
                  | None => Some None
                  end in
        match fevq v None yo, fevq v None y, t', nev None n, fevq v None e with
        | Some yo1, Some y1, Some t1, Some n1, Some q =>
            Some (mkL (rows s ++ [mkRow (pick pxo) (pick px) yo1 y1 t1 n1]) (zev v cap') (func_count s) (cache_count s)
                      (noise_flag s) (he_flag s),
                  zev v xmax', Ret q (v_fsd v) (Some (List.length (rows s))))
        | _, _, _, _, _ => None
        end
      else None
  end.

Definition run_record (p : rprog) (s : lstate) (xm : Z) (x xo : list Q) (fv : Q) (fsd : option Q) (rp : bool)
  : option (lstate * Z * result) := run_rprog p (mkEnv s xm x xo fv fsd rp).

(* ---- the hand-written program: Model/Logger.v [record] + the extent rule of Model/LoggerExtent.v [new_record] ---- *)
Definition e_tau_n : fexpr := FDiv (FC 1) (FSq FS).          (* tau_n = 1 / self.S[idx] ** 2 *)
Definition e_tau_1 : fexpr := FDiv (FC 1) (FSq FSd).         (* tau_1 = 1 / fsd**2 *)
Definition e_merge_y : fexpr := FDiv (FAdd (FMul e_tau_n FY) (FMul e_tau_1 FVal)) (FAdd e_tau_n e_tau_1).
Definition e_merge_s : fexpr := FDiv (FC 1) (FSqrt (FAdd e_tau_n e_tau_1)).
Definition z_xn1 : zexpr := ZAdd ZXn (ZC 1).
Definition z_cap' : zexpr := ZIfGt z_xn1 (ZSub ZCap (ZC 1)) (ZAdd ZCap (ZMax (ZCeilHalf z_xn1) (ZC 1))) ZCap.
Definition model_new (s : option fexpr) : rprog :=
  RNew z_xn1 PXorig PX FVal FVal s (NMax (NC 1) (NAdd (NC 0) (NC 1))) z_xn1 z_cap' (ZMin (ZAdd ZXmax (ZC 1)) z_cap') FVal z_xn1.
Definition model_record : rprog :=
  RIf CRecord
    (RIf CFsd
       (RIf (CAny (MRows RAll))
          (RIf (CCountGt (MRows RAll) 1)
             (RRaise "ValueError")
             (RUpd (IFirst (MRows RAll)) (Some e_merge_y) (Some e_merge_s) (Some (NAdd NOld (NC 1))) e_merge_y))
          (model_new (Some FSd)))
       (model_new None))
    (RIf (CAny (MRows RAll))
       (RUpd (ILast (MRows RAll)) None None (Some (NAdd NOld (NC 1))) FVal)
       (RRet FVal None)).

(* ------------------------------------------------------------------ what the target returned, and the validity tests *)
Inductive pyval : Type :=
| PFloat (x : xq)                 (* a real scalar: finite, NaN, +-inf *)
| PComplex                        (* a finite complex-TYPED scalar (whatever its imaginary part) *)
| PArray                          (* an ndarray / list with more than one element *)
| PNone
| PPair (a b : pyval).            (* a tuple of length 2 *)

Inductive subj : Type := JRes | JVal | JSd.        (* fun_res, fval_orig, fsd *)
Inductive vtest : Type :=
| TNotPair (j : subj)             (* not (type(j) is tuple and len(j) == 2) *)
| TNotScalar (j : subj)           (* not np.isscalar(j) *)
| TNotFinite (j : subj)           (* not np.isfinite(j) *)
| TComplex (j : subj)             (* np.iscomplexobj(j) *)
| TIsNone (j : subj)              (* j is None *)
| TLeZero (j : subj).             (* j <= 0.0 *)
Inductive flag : Type := GAlways | GHe | GNoise.   (* guard of a test: none, self.he_noise_flag, self.noise_flag *)
Record vcheck : Type := mkCheck { vc_guard : flag; vc_exn : string; vc_tag : string; vc_disj : list vtest }.

(* a test is true, false, or itself raises (Python: np.isfinite(None) is a TypeError, `not <array>` a ValueError) *)
Inductive tri : Type := TT | TF | TErr (cls : string).
Definition tri_of (b : bool) : tri := if b then TT else TF.
Definition vtest_ev (t : vtest) (res val sd : pyval) : tri :=
  let pick := fun j => match j with JRes => res | JVal => val | JSd => sd end in
  match t with
  | TNotPair j => match pick j with PPair _ _ => TF | _ => TT end
  | TNotScalar j => match pick j with PFloat _ => TF | PComplex => TF | _ => TT end
  | TNotFinite j => match pick j with
                    | PFloat x => tri_of (negb (xisfinite x)) | PComplex => TF
                    | PNone => TErr "TypeError" | PArray => TErr "ValueError" | PPair _ _ => TErr "ValueError"
                    end
  | TComplex j => match pick j with PComplex => TT | _ => TF end
  | TIsNone j => match pick j with PNone => TT | _ => TF end
  | TLeZero j => match pick j with
                 | PFloat x => tri_of (xle x (XFin 0)) | PComplex => TErr "TypeError" | PNone => TErr "TypeError"
                 | PArray => TErr "ValueError" | PPair _ _ => TErr "TypeError"
                 end
  end.
(* a or b or c: left to right, short-circuit *)
Fixpoint disj_ev (l : list vtest) (res val sd : pyval) : tri :=
  match l with
  | [] => TF
  | t :: r => match vtest_ev t res val sd with TT => TT | TErr c => TErr c | TF => disj_ev r res val sd end
  end.
Definition flag_ev (g : flag) (noise he : bool) : bool := match g with GAlways => true | GHe => he | GNoise => noise end.
(* the first test that fires decides: Some (exception class, tag) *)
Fixpoint run_checks (cs : list vcheck) (noise he : bool) (res val sd : pyval) : option (string * string) :=
  match cs with
  | [] => None
  | c :: r =>
      if flag_ev (vc_guard c) noise he then
        match disj_ev (vc_disj c) res val sd with
        | TT => Some (vc_exn c, vc_tag c)
        | TErr cls => Some (cls, vc_tag c)          (* the test itself raises: np.isfinite(None) ..., same place *)
        | TF => run_checks r noise he res val sd
        end
      else run_checks r noise he res val sd
  end.

(* __call__ / add in statement order *)
Inductive cev_t : Type :=
| EvPoint (how : string)                  (* the point preamble: squeeze / atleast_1d / inverse transform (text pin) *)
| EvTarget (arg : string)                 (* fun_res = self.fun(<arg>) inside the try whose handler re-raises *)
| EvUnpack (g : flag)                     (* if g: fval_orig, fsd = fun_res (after the pair test) else: fval_orig = fun_res; fsd = None *)
| EvCoerce (what : string)                (* .item() of a size-1 ndarray / .flat[0] of a size-1 sequence (text pin) *)
| EvDefault (g : flag) (q : Q)            (* add: if g: (if fsd is None: fsd = q) else: fsd = None *)
| EvCheck (c : vcheck)
| EvRecord (args : list string)           (* self._record(...) with these arguments (canonical names) *)
| EvCountF                                (* self.func_count += 1 *)
| EvCountC                                (* self.cache_count += 1 *)
| EvReturn (vals : list string).

Definition checks_of (evs : list cev_t) : list vcheck :=
  flat_map (fun e => match e with EvCheck c => [c] | _ => [] end) evs.
Fixpoint ev_index (p : cev_t -> bool) (evs : list cev_t) (i : nat) : option nat :=
  match evs with [] => None | e :: r => if p e then Some i else ev_index p r (S i) end.
Definition is_record (e : cev_t) : bool := match e with EvRecord _ => true | _ => false end.
Definition is_countf (e : cev_t) : bool := match e with EvCountF => true | _ => false end.
Definition is_countc (e : cev_t) : bool := match e with EvCountC => true | _ => false end.
(* does the counter statement come AFTER the call of _record (so that an exception inside _record leaves it alone)? *)
Definition count_after_record (cnt : cev_t -> bool) (evs : list cev_t) : bool :=
  match ev_index is_record evs 0, ev_index cnt evs 0 with
  | Some r, Some c => (r <? c)%nat
  | _, _ => false
  end.
Definition default_of (evs : list cev_t) : option (flag * Q) :=
  match flat_map (fun e => match e with EvDefault g q => [(g, q)] | _ => [] end) evs with d :: _ => Some d | [] => None end.

Definition ck_pair : vcheck := mkCheck GHe "ValueError" "NotPair" [TNotPair JRes].
Definition ck_value : vcheck := mkCheck GAlways "ValueError" "InvalidFuncValue" [TNotScalar JVal; TNotFinite JVal; TComplex JVal].
Definition ck_sd_call : vcheck := mkCheck GHe "ValueError" "InvalidNoiseValue" [TIsNone JSd; TComplex JSd; TNotFinite JSd; TLeZero JSd].
Definition ck_sd_add : vcheck := mkCheck GNoise "ValueError" "InvalidNoiseValue" [TNotScalar JSd; TComplex JSd; TNotFinite JSd; TLeZero JSd].

Definition model_call_events : list cev_t :=
  [ EvPoint "flatten;inverse_transf"; EvTarget "x_orig"; EvCheck ck_pair; EvUnpack GHe; EvCoerce "item:fval_orig"; EvCoerce "item:fsd";
    EvCoerce "flat0:fval_orig"; EvCheck ck_value; EvCheck ck_sd_call;
    EvRecord ["x_orig"; "x"; "fval_orig"; "fsd"; "<time>"; "record_duplicate_data=record_duplicate_data"]; EvCountF;
    EvReturn ["fval"; "fsd"; "idx"] ].
Definition model_add_events : list cev_t :=
  [ EvPoint "flatten;inverse_transf"; EvDefault GNoise 1; EvCheck ck_value; EvCheck ck_sd_add; EvCountC;
    EvRecord ["x_orig"; "x"; "fval_orig"; "fsd"; "<time>"; "record_duplicate_data=True"]; EvReturn ["fval"; "fsd"; "idx"] ].

(* the hand-written classification of what the target returned (the [outcome] an op of Model/Logger.v carries) *)
Definition classify_call (he : bool) (res : pyval) : outcome :=
  let go := fun (val sd : pyval) =>
    match val with
    | PFloat (XFin y) =>
        if he then
          match sd with
          | PFloat (XFin q) => if Qle_bool q 0 then BadVal "InvalidNoiseValue" else OkVal y (Some q)
          | _ => BadVal "InvalidNoiseValue"
          end
        else OkVal y None
    | _ => BadVal "InvalidFuncValue"
    end in
  if he then match res with PPair a b => go a b | _ => BadVal "NotPair" end else go res PNone.

Definition checks_outcome (cs : list vcheck) (noise he : bool) (res : pyval) : outcome :=
  let '(val, sd) := if he then match res with PPair a b => (a, b) | _ => (res, PNone) end else (res, PNone) in
  match run_checks cs noise he res val sd with
  | Some (cls, tag) => if String.eqb cls "ValueError" then BadVal tag else Raise cls
  | None =>
      match val with
      | PFloat (XFin y) => OkVal y (match sd with PFloat (XFin q) => Some q | _ => None end)
      | _ => Raise "unchecked-value"
      end
  end.

(* ------------------------------------------------------------------ one op with every piece taken from programs *)
Definition pq (q : Q) : pyval := PFloat (XFin q).
Definition psd (o : option Q) : pyval := match o with Some q => pq q | None => PNone end.

Definition step_gen (prog : rprog) (call_evs add_evs : list cev_t) (sx : lstate * Z) (o : op) : option (lstate * Z * result) :=
  let '(s, xm) := sx in
  match o with
  | Call x xo oc recordp =>
      match oc with
      | Raise e => Some (s, xm, Exn e)
      | BadVal _ => Some (s, xm, Exn "ValueError")
      | OkVal y sd =>
          let fsd := if he_flag s then sd else None in
          match run_checks (checks_of call_evs) (noise_flag s) (he_flag s) (if he_flag s then PPair (pq y) (psd sd) else pq y) (pq y) (psd fsd) with
          | Some (cls, _) => Some (s, xm, Exn cls)
          | None =>
              let after := count_after_record is_countf call_evs in
              let s0 := if after then s else bump_fc s in
              match run_record prog s0 xm x xo y fsd recordp with
              | Some (s', xm', r) =>
                  match r with
                  | Exn _ => Some (s0, xm, r)
                  | _ => Some (if after then bump_fc s' else s', xm', r)
                  end
              | None => None
              end
          end
      end
  | Add x xo y sd =>
      match default_of add_evs with
      | Some (g, q) =>
          let fsd := if flag_ev g (noise_flag s) (he_flag s) then (match sd with Some q' => Some q' | None => Some q end) else None in
          match run_checks (checks_of add_evs) (noise_flag s) (he_flag s) PNone (pq y) (psd fsd) with
          | Some (cls, _) => Some (s, xm, Exn cls)
          | None =>
              let after := count_after_record is_countc add_evs in
              let s0 := if after then s else bump_cc s in
              match run_record prog s0 xm x xo y fsd true with
              | Some (s', xm', r) =>
                  match r with
                  | Exn _ => Some (s0, xm, r)
                  | _ => Some (if after then bump_cc s' else s', xm', r)
                  end
              | None => None
              end
          end
      | None => None
      end
  | Finalize =>
      Some (mkL (rows s) (Z.of_nat (List.length (rows s))) (func_count s) (cache_count s) (noise_flag s) (he_flag s), xm, Done)
  end.

Fixpoint run_gen (prog : rprog) (call_evs add_evs : list cev_t) (sx : lstate * Z) (ops : list op)
  : option (lstate * list (lstate * Z * result)) :=
  match ops with
  | [] => Some (fst sx, [])
  | o :: r =>
      match step_gen prog call_evs add_evs sx o with
      | Some (s', xm', res) =>
          match run_gen prog call_evs add_evs (s', xm') r with
          | Some (sf, tr) => Some (sf, (s', xm', res) :: tr)
          | None => None
          end
      | None => None
      end
  end.

(* same dump as Model/Logger.v run_logger, plus X_max_idx after every op; VS "stuck" when the program has no value *)
Definition run_logger_gen (prog : rprog) (call_evs add_evs : list cev_t) (cache_size : Z) (noise he : bool) (ops : list op) : val * list Z :=
  match run_gen prog call_evs add_evs (init_logger cache_size noise he, -1) ops with
  | Some (sf, tr) =>
      (VL [VL (map (fun sr => VL [dump_result (snd sr); dump_counters (fst (fst sr))]) tr); VL (map dump_row (rows sf))],
       map (fun sr => snd (fst sr)) tr)
  | None => (VS "stuck", [])
  end.

(* ------------------------------------------------------------------ tables: fill values, growth, truncation *)
Inductive fill : Type := FillNaN | FillZero | FillFalse.
(* the hand-written reading: (table, fill) in __init__ and in _expand_arrays; every table grows by the same amount along axis 0 *)
Definition model_fills : list (string * fill) :=
  [("X_orig", FillNaN); ("Y_orig", FillNaN); ("X", FillNaN); ("Y", FillNaN); ("S", FillNaN); ("n_evals", FillZero)].
Definition model_expand_amount : zexpr := ZMax (ZCeilHalf ZXn) (ZC 1).       (* int(np.max((np.ceil(self.Xn / 2), 1))), Xn at the call *)
Definition model_finalize_cut : zexpr := ZAdd ZXn (ZC 1).                   (* every table [: self.Xn + 1] *)
Definition model_init_counters : list (string * Z) := [("func_count", 0); ("cache_count", 0); ("Xn", -1); ("X_max_idx", -1)].
