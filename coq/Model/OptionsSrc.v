(* OptionsSrc.v — what a program regenerated from pybads/bads/options.py (class Options) and from the option part of
   BADS.__init__ MEANS.  translate/optionsclass.py writes coq/gen/Src_optionsclass.v in this language on every run:

     src_init      : list (cond * istmt)   Options.__init__ in statement order; a statement nested in `if`s carries the
                                            conjunction of their tests (the tests read only the caller's dict, which no
                                            statement of __init__ writes, so evaluating them per statement is the same)
     src_load      : list lstmt             Options.load_options_file in statement order
     src_validate  : list vstmt             Options.validate_option_names in statement order
     src_construct : list kstmt             the statements of BADS.__init__ that build / load / validate self.options

   State of one method call: a [frame] = the module-global D of pybads.bads.options, the object's entries other than the
   reserved one, and the value of the reserved entry self["useroptions"] (None = the key is not in the dict yet).
   The hand-written model (Model/Options.v) keeps the reserved entry apart from the store in the same way.
   Not modelled (outside Model/Options.v as well): self.descriptions; object identity of the protected set (a user dict
   naming the reserved key would ALIAS the caller's set into the object — [IUpdateUser] only records its names).
   No proofs in this file. *)
From Coq Require Import ZArith List String Bool.
From PV Require Import Model.Options.
Import ListNotations.
Open Scope Z_scope.

(* ---- tests: over the loop variable `key`, the protected set, the set of file option names, the caller's dict *)
Inductive cond :=
| CTrue
| CKeyProtected                  (* key in self.get("useroptions")   /   key in self["useroptions"] *)
| CKeyIs (s : string)            (* key == "s" *)
| CKeyInFiles                    (* key in file_option_names *)
| CUserGiven                     (* user_options is not None *)
| CUserHas (s : string)          (* "s" in user_options *)
| CNot (c : cond)
| CAnd (a b : cond)
| COr (a b : cond).

Record cenv := mkCenv { ce_key : string; ce_uo : list string; ce_names : list string; ce_user : option store }.

Fixpoint ceval (e : cenv) (c : cond) : bool :=
  match c with
  | CTrue => true
  | CKeyProtected => mem (ce_key e) (ce_uo e)
  | CKeyIs s => String.eqb (ce_key e) s
  | CKeyInFiles => mem (ce_key e) (ce_names e)
  | CUserGiven => match ce_user e with Some _ => true | None => false end
  | CUserHas s => match ce_user e with Some u => mem s (keys u) | None => false end
  | CNot a => negb (ceval e a)
  | CAnd a b => ceval e a && ceval e b
  | COr a b => ceval e a || ceval e b
  end.

Fixpoint uses_protected (c : cond) : bool :=
  match c with
  | CKeyProtected => true
  | CNot a => uses_protected a
  | CAnd a b | COr a b => uses_protected a || uses_protected b
  | _ => false
  end.

Record frame := mkFrame { fr_gd : option Z; fr_st : store; fr_uo : option (list string) }.

(* ---- load_options_file *)
Inductive bstmt :=
| BStoreEval                     (* self[key] = eval(value)        — eval in the frame of load_options_file: module globals + self *)
| BDescr.                        (* self.descriptions[key] = description *)

Inductive lstmt :=
| LBind                          (* for key, val in evaluation_parameters.items(): exec(f"{key} = {val}", globals()) *)
| LFor (c : cond) (body : list bstmt).
                                 (* for (key, value, description) in _read_config_file(options_path): if c: body *)

Fixpoint run_body (body : list bstmt) (gd : option Z) (k : string) (deps : list string) (st : store) : store * bool :=
  match body with
  | [] => (st, false)
  | BStoreEval :: r =>
      match eval_default gd st k deps with
      | None => (st, true)
      | Some v => run_body r gd k deps (upd k v st)
      end
  | BDescr :: r => run_body r gd k deps st
  end.

Fixpoint run_for (c : cond) (body : list bstmt) (gd : option Z) (uo : list string) (es : file) (st : store) : store * bool :=
  match es with
  | [] => (st, false)
  | (k, deps) :: r =>
      if ceval (mkCenv k uo [] None) c then
        let '(st', err) := run_body body gd k deps st in
        if err then (st', true) else run_for c body gd uo r st'
      else run_for c body gd uo r st
  end.

Definition is_nil {A} (l : list A) : bool := match l with [] => true | _ => false end.

(* second component: the exception that left the method, if any *)
Fixpoint run_load (p : list lstmt) (f : file) (oD : option Z) (fr : frame) : frame * option string :=
  match p with
  | [] => (fr, None)
  | LBind :: r => run_load r f oD (mkFrame (bind_D oD (fr_gd fr)) (fr_st fr) (fr_uo fr))
  | LFor c body :: r =>
      match fr_uo fr with
      | None =>
          (* self.get("useroptions") is None: `key in None` raises at the first entry *)
          if uses_protected c && negb (is_nil f) then (fr, Some "TypeError"%string)
          else let '(st', err) := run_for c body (fr_gd fr) [] f (fr_st fr) in
               if err then (mkFrame (fr_gd fr) st' None, Some "NameError"%string)
               else run_load r f oD (mkFrame (fr_gd fr) st' None)
      | Some uo =>
          let '(st', err) := run_for c body (fr_gd fr) uo f (fr_st fr) in
          if err then (mkFrame (fr_gd fr) st' (Some uo), Some "NameError"%string)
          else run_load r f oD (mkFrame (fr_gd fr) st' (Some uo))
      end
  end.

(* ---- Options.__init__ *)
Inductive istmt :=
| INew                           (* super().__init__() *)
| IDescrInit                     (* self.descriptions = dict() *)
| IProtectNone                   (* self["useroptions"] = set() *)
| ILoadDefault                   (* self.load_options_file(default_options_path, evaluation_parameters) *)
| IRaise (exn : string)          (* raise exn(...) *)
| IUpdateUser                    (* self.update(user_options)      — MutableMapping.update: self[k] = v per entry, caller's order *)
| IProtectUser.                  (* self["useroptions"].update(user_options.keys()) *)

Definition not_reserved (kv : string * value) : bool := negb (String.eqb (fst kv) reserved).

Fixpoint run_init (lp : list lstmt) (p : list (cond * istmt)) (f : file) (oD : option Z) (user : option store)
                  (fr : frame) : frame * outcome :=
  match p with
  | [] => (fr, Done)
  | (c, s) :: r =>
      if ceval (mkCenv EmptyString [] [] user) c then
        match s with
        | INew => run_init lp r f oD user (mkFrame (fr_gd fr) [] None)
        | IDescrInit => run_init lp r f oD user fr
        | IProtectNone => run_init lp r f oD user (mkFrame (fr_gd fr) (fr_st fr) (Some []))
        | ILoadDefault =>
            match run_load lp f oD fr with
            | (fr', Some e) => (fr', Raised e)
            | (fr', None) => run_init lp r f oD user fr'
            end
        | IRaise e => (fr, Raised e)
        | IUpdateUser =>
            match user with
            | None => (fr, Raised "TypeError")
            | Some u =>
                run_init lp r f oD user
                  (mkFrame (fr_gd fr) (update_store (fr_st fr) (filter not_reserved u))
                           (match get reserved u with
                            | None => fr_uo fr
                            | Some (VSet ns) => Some ns
                            | Some _ => None
                            end))
            end
        | IProtectUser =>
            match user, fr_uo fr with
            | None, _ => (fr, Raised "AttributeError")
            | Some _, None => (fr, Raised "KeyError")
            | Some u, Some uo => run_init lp r f oD user (mkFrame (fr_gd fr) (fr_st fr) (Some (uo ++ keys u)))
            end
        end
      else run_init lp r f oD user fr
  end.

(* ---- validate_option_names *)
Inductive vstmt :=
| VCollect                       (* file_option_names = set(); for p in options_paths: file_option_names.update(_read_config_file(p)[:, 0].flatten()) *)
| VFor (c : cond) (exn : string).   (* for key in self.keys(): if c: raise exn(...) *)

Definition self_keys (fr : frame) : list string :=
  (match fr_uo fr with Some _ => [reserved] | None => [] end) ++ keys (fr_st fr).

Fixpoint run_validate (p : list vstmt) (nms : list string) (collected : list string) (fr : frame) : outcome :=
  match p with
  | [] => Done
  | VCollect :: r => run_validate r nms nms fr
  | VFor c exn :: r =>
      if existsb (fun k => ceval (mkCenv k (match fr_uo fr with Some uo => uo | None => [] end) collected None) c) (self_keys fr)
      then Raised exn else run_validate r nms collected fr
  end.

(* ---- the class as a whole, acting on the world of Model/Options.v *)
Record class_src := mkClass {
  cs_init : list (cond * istmt);
  cs_load : list lstmt;
  cs_validate : list vstmt
}.

Definition user_of (w : world) (ou : option nat) : option store :=
  match ou with Some u => Some (callers w u) | None => None end.

Definition step_src (C : class_src) (w : world) (o : op) : world * outcome :=
  match o with
  | Init i f oD ou =>
      (* a fresh object; bound to objs[i] only if the constructor returns *)
      let '(fr, out) := run_init (cs_load C) (cs_init C) f oD (user_of w ou) (mkFrame (gD w) [] None) in
      match out with
      | Done => (mkWorld (fr_gd fr)
                         (set_at (insts w) i (mkInst (fr_st fr) (match fr_uo fr with Some uo => uo | None => [] end)))
                         (callers w), Done)
      | Raised e => (mkWorld (fr_gd fr) (insts w) (callers w), Raised e)
      end
  | Load i f oD =>
      let x := insts w i in
      let '(fr, e) := run_load (cs_load C) f oD (mkFrame (gD w) (store_of x) (Some (useropts x))) in
      (mkWorld (fr_gd fr)
               (set_at (insts w) i (mkInst (fr_st fr) (match fr_uo fr with Some uo => uo | None => [] end)))
               (callers w),
       match e with Some s => Raised s | None => Done end)
  | Validate i nms =>
      let x := insts w i in
      (w, run_validate (cs_validate C) nms [] (mkFrame (gD w) (store_of x) (Some (useropts x))))
  | Adjust _ _ => step w o
  end.

Fixpoint run_src (C : class_src) (w : world) (ops : list op) : world * list outcome :=
  match ops with
  | [] => (w, [])
  | o :: r => let '(w1, out) := step_src C w o in
              let '(w2, outs) := run_src C w1 r in (w2, out :: outs)
  end.

(* ---- BADS.__init__: the statements on self.options, in order; a raise ends the construction *)
Inductive fileref := FBasic | FAdvanced.
Inductive kstmt :=
| KInit (f : fileref)            (* self.options = Options(f, evaluation_parameters={"D": self.D}, user_options=options) *)
| KLoad (f : fileref)            (* self.options.load_options_file(f, evaluation_parameters={"D": self.D}) *)
| KValidate (fs : list fileref). (* self.options.validate_option_names(fs) *)

Definition file_of (b a : file) (r : fileref) : file := match r with FBasic => b | FAdvanced => a end.

Definition kop (i : nat) (b a : file) (D : Z) (ou : option nat) (k : kstmt) : op :=
  match k with
  | KInit f => Init i (file_of b a f) (Some D) ou
  | KLoad f => Load i (file_of b a f) (Some D)
  | KValidate fs => Validate i (flat_map (fun r => names (file_of b a r)) fs)
  end.

Fixpoint run_construct (C : class_src) (ks : list kstmt) (w : world) (i : nat) (b a : file) (D : Z) (ou : option nat)
  : world * outcome :=
  match ks with
  | [] => (w, Done)
  | k :: r => let '(w1, o) := step_src C w (kop i b a D ou k) in
              if is_done o then run_construct C r w1 i b a D ou else (w1, o)
  end.

(* an object as the class leaves it: the reserved entry is kept apart from the store *)
Definition wf_inst (x : inst) : Prop := ~ In reserved (keys (store_of x)).

(* ================================================================ translator validation: the ties' case runners
   evaluated with the GENERATED programs in place of the hand-written step / construct *)
Definition t1_ok_src (C : class_src) (c : t1_case) : bool :=
  let '((g0, cs, ops), (outs, g1, is, cs1)) := c in
  let '(w, o) := run_src C (with_callers (mkWorld g0 (fun _ => empty_inst) (fun _ => [])) cs) ops in
  list_eqb outcome_eqb o outs && oz_eqb (gD w) g1 &&
  forallb (fun x => store_eqb (store_of (insts w (fst x))) (fst (snd x)) &&
                    set_eqb (useropts (insts w (fst x))) (snd (snd x))) is &&
  forallb (fun x => store_eqb (callers w (fst x)) (snd x)) cs1.

Definition bstep_src (C : class_src) (ks : list kstmt) (b a : file) (w : world) (o : bop) : world * outcome :=
  match o with
  | BConstruct i D ou => run_construct C ks w i b a D ou
  | BRun i adj => step w (Adjust i adj)
  end.

Fixpoint t2_run_src (C : class_src) (kp : list kstmt) (b a : file) (ks : list string) (w : world) (ops : list bop)
                    (ex : list (outcome * list snap)) : bool :=
  match ops, ex with
  | [], [] => true
  | o :: r, (out, snaps) :: rx =>
      let '(w1, out1) := bstep_src C kp b a w o in
      outcome_eqb out1 out && forallb (snap_ok w1 ks) snaps && t2_run_src C kp b a ks w1 r rx
  | _, _ => false
  end.

Definition t2_ok_src (C : class_src) (kp : list kstmt) (b a : file) (c : t2_case) : bool :=
  let '((cs, extra, ops), ex) := c in
  t2_run_src C kp b a (names b ++ names a ++ extra) (with_callers world0 cs) ops ex.
