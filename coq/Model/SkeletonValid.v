(* SkeletonValid.v — decidable side conditions on the ORACLE values of a run, evaluated by the tie on
   every recorded event of every real run (they must all be true), and assumed by the theorems that
   need them.  They state numeric facts the exact-rational model does not derive:
   for a deterministic target the estimate used for the incumbent decision is the observed value with
   zero SD, and the SIGN/ORDER of the float improvement agrees with the order of the values
   (IEEE subtraction is sign-exact; _eval_improvement_ with q = 0.5 has x0(q) = 0).   No proofs here. *)
From Coq Require Import ZArith QArith List Bool.
From PV Require Import Model.Val Model.Skeleton.
Import ListNotations.
Open Scope Z_scope.

(* deterministic evaluation judged against the incumbent value [ybest] whose improvement is [best]
   (search step: best = 0, ybest = fval of the incumbent) *)
Definition eval_det_ok (best ybest : Q) (e : eval) : bool :=
  e_fault e ||
  (Qeq_bool (e_fmu e) (e_y e) && Qeq_bool (e_fs e) 0 &&
   Bool.eqb (qltb best (e_impr e)) (qltb (e_y e) ybest)).

Definition search_det_ok (ev : search_ev) (s : st) : bool :=
  match se_eval ev with
  | None => Qle_bool (se_impr0 ev) 0
  | Some e => eval_det_ok 0 (i_f (cur s)) e
  end.

Fixpoint poll_det_ok (o : opts) (ncand : Z) (evs : list eval) (a : pacc) : bool :=
  match evs with
  | [] => true
  | e :: r =>
      if poll_guard o ncand a then
        eval_det_ok (p_best a) (i_y (p_inc a)) e &&
        (let s' := do_eval (p_s a) e in
         if exn s' then true else
         let a' := if qltb (p_best a) (e_impr e)
                   then mkP s' (e_impr e) (inc_of e) (p_cnt a + 1)
                   else mkP s' (p_best a) (p_inc a) (p_cnt a + 1) in
         poll_det_ok o ncand r a')
      else true
  end.

(* validity of the oracle values consumed by one loop iteration, deterministic targets *)
Definition iter_det_ok (o : opts) (s : st) (ev : iter_ev) : bool :=
  if fin s || exn s then true else
  let s0 := lock_ks o s in
  let okS := if want_search o s0 then search_det_ok (ie_search ev) s0 else true in
  let s1 := if want_search o s0 then search_phase o (ie_SI ev) (ie_search ev) s0 else s0 in
  if exn s1 then okS else
  let '(s2, dopoll) := poll_decision o s1 in
  okS && (if dopoll then poll_det_ok o (pe_ncand (ie_poll ev)) (pe_evals (ie_poll ev)) (mkP s2 0 (cur s2) 0) else true)
      && Qle_bool 0 (ie_SI ev).

Fixpoint run_det_ok (o : opts) (s : st) (evs : list iter_ev) : bool :=
  match evs with
  | [] => true
  | e :: r => iter_det_ok o s e && run_det_ok o (step_iter o s e) r
  end.

(* initial design, deterministic target: every call reports (y, 0) as its estimate, and a call that is
   not recorded (the noise test) returns exactly the value of the first call *)
Definition init_det_ok (l : list init_call) : bool :=
  match l with
  | [] => true
  | c0 :: _ =>
      forallb (fun c => e_fault (ic_eval c) ||
                        (Qeq_bool (e_fmu (ic_eval c)) (e_y (ic_eval c)) && Qeq_bool (e_fs (ic_eval c)) 0 &&
                         (ic_record c || Qeq_bool (e_y (ic_eval c)) (e_y (ic_eval c0))))) l
      && ic_record c0
  end.

Definition det_ok (k0 ks0 : Z) (o : opts) (l : list init_call) (fsd0 : Q) (evs : list iter_ev) : bool :=
  o_det o && Qeq_bool fsd0 0 && init_det_ok l && run_det_ok o (init_phase k0 ks0 o l fsd0) evs.

(* number of valid target calls in the call list *)
Definition n_valid (c : list (list Q * option Q)) : Z :=
  Z.of_nat (List.length (filter (fun p => match snd p with Some _ => true | None => false end) c)).

(* bound on the number of loop iterations before termination *)
Definition iter_bound (o : opts) : nat :=
  Z.to_nat ((Z.max 1 (o_maxiter o) + Z.max 0 (o_maxfe o) + 2) * (Z.max 1 (o_ntry o) + 2)).

Definition ctrl_sane (o : opts) : Prop :=
  1 <= o_maxiter o /\ 1 <= o_sgm o /\ 0 <= o_sgn o /\ o_maxgrid o <= 0.
