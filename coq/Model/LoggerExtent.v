(* LoggerExtent.v — the EXTENT bookkeeping of FunctionLogger (function_logger.py: _record l.428-436, _expand_arrays l.298-335):
   Xn (index of the last record), X_max_idx (the extent other components read: training-set selection, candidate filter) and the
   capacity of the tables.  A new record does, in this order:  Xn += 1;  if Xn > capacity - 1: grow by max(ceil(Xn / 2), 1) rows;
   X_max_idx = min(X_max_idx + 1, capacity).   No proofs here. *)
From Coq Require Import ZArith List Bool.
Import ListNotations.
Open Scope Z_scope.

Record ext := mkExt { xn : Z; xmax : Z; cap : Z }.

Definition ext_init (cache_size : Z) : ext := mkExt (-1) (-1) cache_size.

Definition growth (n : Z) : Z := Z.max ((n + 1) / 2) 1.          (* max(ceil(n / 2), 1) for n >= 0 *)

Definition new_record (e : ext) : ext :=
  let n := xn e + 1 in
  let c := if cap e - 1 <? n then cap e + growth n else cap e in
  mkExt n (Z.min (xmax e + 1) c) c.

(* an evaluation that adds no record (a merged repeat, a not-to-be-recorded call) leaves the extent alone *)
Definition ext_step (e : ext) (new_row : bool) : ext := if new_row then new_record e else e.

Definition ext_run (cache_size : Z) (ops : list bool) : ext := fold_left ext_step ops (ext_init cache_size).

Fixpoint ext_trace (e : ext) (ops : list bool) : list (Z * Z * Z) :=
  match ops with
  | [] => []
  | o :: r => let e' := ext_step e o in (xn e', xmax e', cap e') :: ext_trace e' r
  end.
