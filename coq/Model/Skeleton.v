(* Skeleton.v — oracle-driven executable model (SK = M7 + M8) of BADS.optimize():
   initial design -> main loop { search? ; poll decision ; poll? ; termination tests ; history record }.
   Everything numerically opaque (GP fits, ES candidates, acquisition values, target values, the
   float results of _eval_improvement_ and of the forcing function) enters as ORACLE values carried by
   the events; the model does the bookkeeping: which evaluations happen, budget, counters, mesh
   exponents, incumbent, history, termination message.  No proofs in this file.

   Source: pybads/bads/bads.py  optimize() l.1140-1524, _search_step_ l.1526-1819,
   _poll_step_ l.1887-2265, _init_mesh_ l.917-1038 (as of the pinned tree + fix commits). *)
From Coq Require Import ZArith QArith List Bool.
From PV Require Import Model.Val.
Import ListNotations.
Open Scope Z_scope.

Definition qltb (a b : Q) : bool := negb (Qle_bool b a).     (* a < b *)

Record opts := mkO {
  o_D : Z;
  o_maxfe : Z;            (* options['max_fun_evals'] as seen by the loop (after the noisy reserve) *)
  o_maxiter : Z;
  o_ntry : Z;             (* search_n_try *)
  o_tolmesh : Z;          (* optim_state['tol_mesh'] = 2^o_tolmesh *)
  o_accel : bool; o_accel_steps : Z;
  o_stall : Z;            (* tol_stall_iters *)
  o_skip : bool;          (* skip_poll_after_search *)
  o_sme : Z; o_smi : Z;   (* search_mesh_expand, search_mesh_increment *)
  o_maxgrid : Z;          (* max_poll_grid_number *)
  o_sgm : Z; o_sgn : Z;   (* search_grid_multiplier, search_grid_number *)
  o_locked : bool;        (* search_size_locked *)
  o_tolfun : Q;
  o_sloppy : bool;
  o_det : bool            (* uncertainty_handling_level = 0 when the loop starts *)
}.

Record inc := mkI { i_u : list Q; i_y : Q; i_f : Q; i_s : Q }.   (* u, yval, fval, fsd *)

Record hrow := mkH { h_inc : inc; h_fc : Z; h_k : Z }.            (* recorded iterate, func_count, mesh exponent *)

(* one target evaluation with the oracle values the code derives from it *)
Record eval := mkE {
  e_u : list Q;           (* internal point handed to the logger *)
  e_fault : bool;         (* the target raised / returned an invalid value *)
  e_y : Q;                (* value returned by the logger (yval) *)
  e_fmu : Q; e_fs : Q;    (* estimate used for the incumbent decision: (y, 0) when deterministic, GP otherwise *)
  e_impr : Q;             (* float returned by _eval_improvement_(fval, f_mu, fsd, f_sd, q) *)
  e_newrow : bool         (* the logger appended a row (false: merged / not recorded) *)
}.

Record search_ev := mkSE {
  se_eval : option eval;  (* None: the filtered search set was empty, nothing evaluated *)
  se_impr0 : Q            (* improvement computed in the empty case *)
}.
Record poll_ev := mkPE {
  pe_ncand : Z;           (* size of the filtered poll set *)
  pe_evals : list eval;   (* evaluations in order; the oracle may stop early (GP-based break) *)
  pe_hist : option Q      (* f_q_historic_improvement of the acceleration test, when the code computed it *)
}.
Record iter_ev := mkIE {
  ie_SI : Q;              (* self.sufficient_improvement of this iteration *)
  ie_search : search_ev;  (* used only if the model decides to search *)
  ie_poll : poll_ev;      (* used only if the model decides to poll *)
  ie_stall : option Q;    (* historic improvement of the tol_stall_iters test, when computed *)
  ie_noisy : option inc   (* stochastic targets: incumbent after re-estimation/swap at the end of the iteration *)
}.

Record st := mkSt {
  k : Z; ks : Z;                       (* mesh_size_integer, search_size_integer *)
  scount : Z; ssucc : Z; spree : Z;    (* search_count, search_success, search_spree *)
  piter : Z;                           (* poll_iteration *)
  fc : Z;                              (* function_logger.func_count *)
  nrows : Z;                           (* number of logged rows (Xn + 1) *)
  cur : inc;                           (* incumbent *)
  calls : list (list Q * option Q);    (* every target invocation: point, Some value | None (fault) *)
  hist : list hrow;                    (* iteration history, index = iteration *)
  fin : bool; msg : Z;                 (* is_finished, termination message id 0..4 *)
  exn : bool                           (* an exception from the target is propagating: absorbing *)
}.

Definition set_ctrl (s : st) k' ks' sc ss sp : st :=
  mkSt k' ks' sc ss sp (piter s) (fc s) (nrows s) (cur s) (calls s) (hist s) (fin s) (msg s) (exn s).

(* ---- one evaluation: the logger call ---- *)
Definition do_eval (s : st) (e : eval) : st :=
  if e_fault e then
    mkSt (k s) (ks s) (scount s) (ssucc s) (spree s) (piter s) (fc s) (nrows s) (cur s)
         (calls s ++ [(e_u e, None)]) (hist s) (fin s) (msg s) true
  else
    mkSt (k s) (ks s) (scount s) (ssucc s) (spree s) (piter s) (fc s + 1)
         (if e_newrow e then nrows s + 1 else nrows s) (cur s)
         (calls s ++ [(e_u e, Some (e_y e))]) (hist s) (fin s) (msg s) false.

Definition inc_of (e : eval) : inc := mkI (e_u e) (e_y e) (e_fmu e) (e_fs e).
Definition set_cur (s : st) (c : inc) : st :=
  mkSt (k s) (ks s) (scount s) (ssucc s) (spree s) (piter s) (fc s) (nrows s) c (calls s) (hist s) (fin s) (msg s) (exn s).

(* ---- search step (only the bookkeeping) ---- *)
Definition want_search (o : opts) (s : st) : bool := (scount s <? o_ntry o) && (o_D o <? nrows s).

Definition search_phase (o : opts) (SI : Q) (ev : search_ev) (s : st) : st :=
  let s1 := set_ctrl s (k s) (ks s) (scount s + 1) (ssucc s) (spree s) in
  match se_eval ev with
  | None => s1                                  (* empty set: improvement se_impr0 <= 0 for the default quantile *)
  | Some e =>
      let s2 := do_eval s1 e in
      if exn s2 then s2 else
      let success := qltb SI (e_impr e) in
      let improved := (qltb 0 (e_impr e) && o_sloppy o) || success in
      if improved then
        let s3 := set_cur s2 (inc_of e) in
        if success then set_ctrl s3 (k s3) (ks s3) (scount s3) (ssucc s3 + 1) (spree s3) else s3
      else s2
  end.

(* ---- poll decision (optimize() l.1247-1284) ---- *)
Definition poll_decision (o : opts) (s : st) : st * bool :=
  if (scount s =? 0) || (scount s =? o_ntry o) then
    if (0 <? ssucc s) && o_skip o then
      let sp := spree s + 1 in
      let k' := if (0 <? o_sme o) && (sp mod o_sme o =? 0) && (0 <? o_smi o)
                then Z.min (k s + o_smi o) (o_maxgrid o) else k s in
      (set_ctrl s k' (ks s) 0 0 sp, false)
    else (set_ctrl s (k s) (ks s) 0 0 0, true)
  else (s, false).

(* ---- poll step ---- *)
Record pacc := mkP { p_s : st; p_best : Q; p_inc : inc; p_cnt : Z }.

Definition poll_guard (o : opts) (ncand : Z) (a : pacc) : bool :=
  (fc (p_s a) <? o_maxfe o) && (p_cnt a <? 2 * o_D o) && (p_cnt a <? ncand) && negb (exn (p_s a)).

Fixpoint poll_loop (o : opts) (ncand : Z) (evs : list eval) (a : pacc) : pacc :=
  match evs with
  | [] => a
  | e :: r =>
      if poll_guard o ncand a then
        let s' := do_eval (p_s a) e in
        if exn s' then mkP s' (p_best a) (p_inc a) (p_cnt a) else
        let a' := if qltb (p_best a) (e_impr e)
                  then mkP s' (e_impr e) (inc_of e) (p_cnt a + 1)
                  else mkP s' (p_best a) (p_inc a) (p_cnt a + 1) in
        poll_loop o ncand r a'
      else a
  end.

Definition poll_phase (o : opts) (SI : Q) (ev : poll_ev) (s : st) : st :=
  let a := poll_loop o (pe_ncand ev) (pe_evals ev) (mkP s 0 (cur s) 0) in
  let s1 := p_s a in
  if exn s1 then s1 else
  let good := qltb SI (p_best a) in
  let moved := (qltb 0 (p_best a) && o_sloppy o) || good in
  let s2 := if moved then set_cur s1 (p_inc a) else s1 in
  if good then
    set_ctrl s2 (Z.min (k s2 + 1) (o_maxgrid o)) (ks s2) (scount s2) (ssucc s2) (spree s2)
  else
    let k1 := k s2 - 1 in
    let k2 := if o_accel o && (o_accel_steps o <? piter s2)
              then match pe_hist ev with
                   | Some h => if qltb h (o_tolfun o) then k1 - 1 else k1
                   | None => k1
                   end
              else k1 in
    set_ctrl s2 k2 (Z.min (ks s2) (k2 * o_sgm o - o_sgn o)) (scount s2) (ssucc s2) (spree s2).

(* ---- termination tests (l.1299-1337), later ones overwrite ---- *)
Definition terminate (o : opts) (kobs : Z) (stall : option Q) (s : st) : bool * Z :=
  let t1 := if o_maxfe o <=? fc s then (true, 1) else (false, 0) in
  let t2 := if o_maxiter o - 1 <=? piter s then (true, 2) else t1 in
  let t3 := if kobs <? o_tolmesh o then (true, 3) else t2 in
  if o_stall o - 1 <? piter s then
    match stall with
    | Some h => if qltb h (o_tolfun o) then (true, 4) else t3
    | None => t3
    end
  else t3.

Definition lock_ks (o : opts) (s : st) : st :=
  if o_locked o then set_ctrl s (k s) (Z.min 0 (k s * o_sgm o - o_sgn o)) (scount s) (ssucc s) (spree s) else s.

(* ---- one iteration of the while loop ---- *)
Definition step_iter (o : opts) (s : st) (ev : iter_ev) : st :=
  if fin s || exn s then s else
  let s0 := lock_ks o s in
  let k0 := k s0 in
  let s1 := if want_search o s0 then search_phase o (ie_SI ev) (ie_search ev) s0 else s0 in
  if exn s1 then s1 else
  let '(s2, dopoll) := poll_decision o s1 in
  let s3 := if dopoll then poll_phase o (ie_SI ev) (ie_poll ev) s2 else s2 in
  if exn s3 then s3 else
  let kobs := if dopoll then k s3 else k0 in
  let '(f, m) := terminate o kobs (ie_stall ev) s3 in
  let h' := if dopoll || f then hist s3 ++ [mkH (cur s3) (fc s3) (if dopoll then k s3 else k0)] else hist s3 in
  let c' := if negb (o_det o) && dopoll && (0 <? piter s3)
            then match ie_noisy ev with Some c => c | None => cur s3 end else cur s3 in
  let p' := if negb f && dopoll then piter s3 + 1 else piter s3 in
  mkSt (k s3) (ks s3) (scount s3) (ssucc s3) (spree s3) p' (fc s3) (nrows s3) c' (calls s3) h' f m false.

Definition run_loop (o : opts) (s : st) (evs : list iter_ev) : st := fold_left (step_iter o) evs s.

(* ---- initial design (_init_mesh_): x0, optional noise test, design points; incumbent = first argmin
       over the RECORDED values ---- *)
Record init_call := mkIC { ic_eval : eval; ic_record : bool }.

Fixpoint argmin_rows (best : option (list Q * Q)) (l : list (list Q * Q)) : option (list Q * Q) :=
  match l with
  | [] => best
  | (u, y) :: r =>
      match best with
      | None => argmin_rows (Some (u, y)) r
      | Some (_, yb) => if qltb y yb then argmin_rows (Some (u, y)) r else argmin_rows best r
      end
  end.

Definition init_state (k0 ks0 : Z) (o : opts) : st :=
  mkSt k0 ks0 (o_ntry o) 0 0 0 0 0 (mkI [] 0 0 0) [] [] false 0 false.

Fixpoint init_calls (s : st) (recd : list (list Q * Q)) (l : list init_call) : st * list (list Q * Q) :=
  match l with
  | [] => (s, recd)
  | c :: r =>
      if exn s then (s, recd) else
      let s' := do_eval s (ic_eval c) in
      if exn s' then (s', recd)
      else init_calls s' (if ic_record c then recd ++ [(e_u (ic_eval c), e_y (ic_eval c))] else recd) r
  end.

(* fsd0: incumbent SD after _init_optimization_ (0 deterministic; noise_size or S[argmin] otherwise: oracle) *)
Definition init_phase (k0 ks0 : Z) (o : opts) (l : list init_call) (fsd0 : Q) : st :=
  let '(s, recd) := init_calls (init_state k0 ks0 o) [] l in
  match argmin_rows None recd with
  | Some (u, y) => set_cur s (mkI u y y fsd0)
  | None => s
  end.

Definition run (k0 ks0 : Z) (o : opts) (l : list init_call) (fsd0 : Q) (evs : list iter_ev) : st :=
  run_loop o (init_phase k0 ks0 o l fsd0) evs.

(* ---- canonical dump for the tie ---- *)
Definition dump_inc (c : inc) : val := VL [vq_list (i_u c); VQ (Qred (i_y c)); VQ (Qred (i_f c)); VQ (Qred (i_s c))].
Definition dump_ctrl (s : st) : val :=
  VL [VZ (k s); VZ (ks s); VZ (scount s); VZ (ssucc s); VZ (spree s); VZ (piter s); VZ (fc s); VZ (nrows s);
      VB (fin s); VZ (msg s); VB (exn s)].
Definition dump_st (s : st) : val := VL [dump_ctrl s; dump_inc (cur s); VZ (Z.of_nat (List.length (hist s)))].

Fixpoint run_trace (o : opts) (s : st) (evs : list iter_ev) : list val :=
  match evs with
  | [] => []
  | e :: r => let s' := step_iter o s e in dump_st s' :: run_trace o s' r
  end.
Definition dump_hrow (h : hrow) : val := VL [dump_inc (h_inc h); VZ (h_fc h); VZ (h_k h)].
Definition dump_calls (s : st) : val :=
  VL (map (fun c => VL [vq_list (fst c); vopt (fun q => VQ (Qred q)) (snd c)]) (calls s)).

(* full observable trace of a run: state after init, after every loop iteration, history, calls *)
Definition run_dump (k0 ks0 : Z) (o : opts) (l : list init_call) (fsd0 : Q) (evs : list iter_ev) : val :=
  let s0 := init_phase k0 ks0 o l fsd0 in
  let sf := run_loop o s0 evs in
  VL [dump_st s0; VL (run_trace o s0 evs); VL (map dump_hrow (hist sf)); dump_calls sf].

(* ---- final phase (optimize() l.1428-1494): stochastic targets with at least one completed poll
   iteration re-estimate the history, return the iterate with the lowest quantile bound and
   re-sample it noise_final_samples times WITHOUT recording.  Oracles: the chosen index, the
   re-estimated (fval, fsd) of that iterate, the observations, NumPy's mean and SEM. ---- *)
Record final_ev := mkFE {
  fe_idx : nat;            (* min_q_beta_idx: chosen history index *)
  fe_f : Q; fe_s : Q;      (* re-estimated fval, fsd of that iterate *)
  fe_obs : list (bool * Q * option Q);   (* per final sample: fault?, value, SD reported *)
  fe_mean : Q; fe_sem : Q  (* np.mean(yval_vec), np.std(yval_vec)/sqrt(n) *)
}.

Record final_out := mkFO {
  fo_st : st;
  fo_yvec : list Q;               (* optim_state['yval_vec'] *)
  fo_sdvec : list (option Q);     (* SDs reported with the fresh samples *)
  fo_sampled : bool               (* the re-sampling branch ran *)
}.

Fixpoint final_samples (s : st) (u : list Q) (n : nat) (obs : list (bool * Q * option Q)) (ys : list Q) (sds : list (option Q))
  : st * list Q * list (option Q) :=
  match n, obs with
  | S m, (flt, y, sd) :: r =>
      if exn s then (s, ys, sds) else
      let s' := do_eval s (mkE u flt y y 0 0 false) in
      if exn s' then (s', ys, sds) else final_samples s' u m r (ys ++ [y]) (sds ++ [sd])
  | _, _ => (s, ys, sds)
  end.

Definition final_phase (o : opts) (nfs : Z) (ev : final_ev) (s : st) : final_out :=
  if exn s || o_det o || (piter s <=? 0) then mkFO s [] [] false else
  match nth_error (hist s) (fe_idx ev) with
  | None => mkFO s [] [] false
  | Some h =>
      let c := mkI (i_u (h_inc h)) (i_y (h_inc h)) (fe_f ev) (fe_s ev) in
      let s1 := set_cur s c in
      if nfs <=? 0 then mkFO s1 [] [] false else
      let '(s2, ys, sds) := final_samples s1 (i_u c) (Z.to_nat nfs) (fe_obs ev) [] [] in
      if exn s2 then mkFO s2 ys sds true else
      let yvec := match ys with [y] => [y; i_y c] | _ => ys end in
      mkFO (set_cur s2 (mkI (i_u c) (i_y c) (fe_mean ev) (fe_sem ev))) yvec sds true
  end.

Definition run_full (k0 ks0 : Z) (o : opts) (l : list init_call) (fsd0 : Q) (evs : list iter_ev) (nfs : Z) (fev : final_ev) : final_out :=
  final_phase o nfs fev (run k0 ks0 o l fsd0 evs).

Definition dump_final (f : final_out) : val :=
  VL [dump_ctrl (fo_st f); dump_inc (cur (fo_st f)); vq_list (fo_yvec f);
      VL (map (vopt (fun q => VQ (Qred q))) (fo_sdvec f)); VB (fo_sampled f); dump_calls (fo_st f)].

Definition run_full_dump (k0 ks0 : Z) (o : opts) (l : list init_call) (fsd0 : Q) (evs : list iter_ev) (nfs : Z) (fev : final_ev) : val :=
  let s0 := init_phase k0 ks0 o l fsd0 in
  let sf := run_loop o s0 evs in
  VL [dump_st s0; VL (run_trace o s0 evs); VL (map dump_hrow (hist sf)); dump_final (final_phase o nfs fev sf)].
