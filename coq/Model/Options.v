(* Options.v — model M12: load-order semantics of pybads' option machinery.

   Source modelled (pybads/bads/options.py, pybads/bads/bads.py l.171-189):
     Options.__init__          self["useroptions"] = set(); load_options_file(basic, {"D": D});
                               if user_options is not None: if "useroptions" in user_options: raise ValueError;
                                                            self.update(user_options);
                                                            self["useroptions"].update(user_options.keys())
     load_options_file         for key, val in evaluation_parameters.items(): exec(f"{key} = {val}", globals())
                               for (key, value, _) in file order:
                                   if key not in self.get("useroptions") and key != "useroptions":
                                       self[key] = eval(value)
     validate_option_names     for key in self.keys(): if key != "useroptions" and key not in file names: raise ValueError
     BADS.__init__             Options(basic, {"D": D}, user) ; load_options_file(advanced, {"D": D}) ; validate

   A default expression is an UNINTERPRETED function of its key and of the current values of its free
   names (the module-global D and the option keys it reads through self.get / self[...]); the free-name
   sets come from the translator (gen/Src_options.v).  The module-global D is process state [gD]
   shared by all instances.  Caller-owned dicts live in a heap [callers] so that "the caller's dict is
   never written" is a statement about state and not a tautology of value semantics.
   No proofs in this file. *)
From Coq Require Import ZArith List String Bool.
Require PV.Model.Val.       (* not imported: only so that the case runner's [bad_indices] is built with this model *)
Import ListNotations.
Open Scope Z_scope.

Inductive value : Type :=
| VUser (tag : Z)                                  (* an object supplied by the caller, identified by its tag *)
| VSet (names : list string)                       (* a set of strings (a caller value like any other) *)
| VInt (d : Z)                                     (* the value of the module-global D *)
| VAbsent                                          (* self.get of a key that is not in the store: None *)
| VDefault (key : string) (args : list (string * value))   (* eval of key's default text, with these values of its free names *)
| VAdjusted (key : string) (old : value).          (* optimize()'s noisy-mode adjustment: a function of the old value *)

Definition store := list (string * value).
Definition entry := (string * list string)%type.    (* (key, free names of its default within {"D"} + option keys) *)
Definition file := list entry.
Definition names (f : file) : list string := map fst f.

Definition mem (k : string) (l : list string) : bool := existsb (String.eqb k) l.
Definition subset (a b : list string) : bool := forallb (fun k => mem k b) a.
Definition set_eqb (a b : list string) : bool := subset a b && subset b a.

Fixpoint value_eqb (a b : value) {struct a} : bool :=
  match a, b with
  | VUser x, VUser y => Z.eqb x y
  | VSet x, VSet y => set_eqb x y
  | VInt x, VInt y => Z.eqb x y
  | VAbsent, VAbsent => true
  | VDefault k x, VDefault k' y =>
      String.eqb k k' &&
      (fix go (l1 l2 : list (string * value)) {struct l1} : bool :=
         match l1, l2 with
         | [], [] => true
         | (n1, v1) :: r1, (n2, v2) :: r2 => String.eqb n1 n2 && value_eqb v1 v2 && go r1 r2
         | _, _ => false
         end) x y
  | VAdjusted k x, VAdjusted k' y => String.eqb k k' && value_eqb x y
  | _, _ => false
  end.

(* ---- dict with insertion order (Python dict): lookup, assignment *)
Fixpoint get (k : string) (st : store) : option value :=
  match st with
  | [] => None
  | (k', v) :: r => if String.eqb k k' then Some v else get k r
  end.

Fixpoint upd (k : string) (v : value) (st : store) : store :=
  match st with
  | [] => [(k, v)]
  | (k', v') :: r => if String.eqb k k' then (k, v) :: r else (k', v') :: upd k v r
  end.

Definition keys (st : store) : list string := map fst st.

(* ---- one Options object, the process *)
Record inst := mkInst { store_of : store; useropts : list string }.
Definition empty_inst : inst := mkInst [] [].

Record world := mkWorld {
  gD : option Z;                 (* module-global D of pybads.bads.options; None = never bound *)
  insts : nat -> inst;           (* Options objects by instance id *)
  callers : nat -> store         (* caller-owned dicts by address *)
}.

Definition set_at {A} (f : nat -> A) (i : nat) (x : A) : nat -> A :=
  fun j => if Nat.eqb j i then x else f j.

Inductive outcome := Done | Raised (exn : string).

(* ---- evaluation of one default in the current process/instance state *)
Definition reserved : string := "useroptions"%string.
Definition dname : string := "D"%string.

Definition arg_value (d : Z) (st : store) (n : string) : value :=
  if String.eqb n dname then VInt d
  else match get n st with Some v => v | None => VAbsent end.

Definition eval_default (gd : option Z) (st : store) (k : string) (deps : list string) : option value :=
  match gd with
  | Some d => Some (VDefault k (map (fun n => (n, arg_value d st n)) deps))
  | None => if mem dname deps then None        (* NameError: name 'D' is not defined *)
            else Some (VDefault k (map (fun n => (n, arg_value 0 st n)) deps))
  end.

Definition skipped (uo : list string) (k : string) : bool := mem k uo || String.eqb k reserved.

(* the loop of load_options_file; second component: an eval raised (loop left, entries so far stored) *)
Fixpoint load_entries (gd : option Z) (uo : list string) (es : file) (st : store) : store * bool :=
  match es with
  | [] => (st, false)
  | (k, deps) :: r =>
      if skipped uo k then load_entries gd uo r st
      else match eval_default gd st k deps with
           | None => (st, true)
           | Some v => load_entries gd uo r (upd k v st)
           end
  end.

(* exec(f"{key} = {val}", globals()) for evaluation_parameters = {"D": d} (Some d) or {} (None) *)
Definition bind_D (oD : option Z) (g : option Z) : option Z :=
  match oD with Some d => Some d | None => g end.

(* self.update(user): copies entries in the caller's dict order (a user dict naming the reserved key
   never gets here: Options.__init__ rejects it first). *)
Definition update_store (st : store) (user : store) : store :=
  fold_left (fun s kv => upd (fst kv) (snd kv) s) user st.

Inductive op :=
| Init (i : nat) (f : file) (oD : option Z) (ou : option nat)    (* objs[i] = Options(f, {"D": D} | {}, callers[u] | None) *)
| Load (i : nat) (f : file) (oD : option Z)                      (* objs[i].load_options_file(f, {"D": D} | {}) *)
| Validate (i : nat) (nms : list string)                         (* objs[i].validate_option_names(files with these names) *)
| Adjust (i : nat) (ks : list string).                           (* optimize() of the owner re-writes these options *)

Definition op_inst (o : op) : nat :=
  match o with Init i _ _ _ => i | Load i _ _ => i | Validate i _ => i | Adjust i _ => i end.

Definition adjust_store (st : store) (ks : list string) : store :=
  fold_left (fun s k => match get k s with Some v => upd k (VAdjusted k v) s | None => s end) ks st.

Definition step (w : world) (o : op) : world * outcome :=
  match o with
  | Init i f oD ou =>
      let gd := bind_D oD (gD w) in
      let '(st1, err) := load_entries gd [] f [] in
      if err then (mkWorld gd (insts w) (callers w), Raised "NameError")
      else match ou with
           | None => (mkWorld gd (set_at (insts w) i (mkInst st1 [])) (callers w), Done)
           | Some u =>
               let user := callers w u in
               (* if "useroptions" in user_options: raise ValueError — after the basic load, before update *)
               if mem reserved (keys user) then (mkWorld gd (insts w) (callers w), Raised "ValueError")
               else (mkWorld gd (set_at (insts w) i (mkInst (update_store st1 user) (keys user))) (callers w), Done)
           end
  | Load i f oD =>
      let gd := bind_D oD (gD w) in
      let x := insts w i in
      let '(st', err) := load_entries gd (useropts x) f (store_of x) in
      (mkWorld gd (set_at (insts w) i (mkInst st' (useropts x))) (callers w),
       if err then Raised "NameError" else Done)
  | Validate i nms =>
      (w, if forallb (fun kv => mem (fst kv) nms) (store_of (insts w i)) then Done else Raised "ValueError")
  | Adjust i ks =>
      let x := insts w i in
      (mkWorld (gD w) (set_at (insts w) i (mkInst (adjust_store (store_of x) ks) (useropts x))) (callers w), Done)
  end.

Fixpoint run (w : world) (ops : list op) : world * list outcome :=
  match ops with
  | [] => (w, [])
  | o :: r => let '(w1, out) := step w o in
              let '(w2, outs) := run w1 r in (w2, out :: outs)
  end.

(* BADS.__init__ l.171-186 as an op sequence; a raise ends the construction *)
Definition construct_ops (i : nat) (b a : file) (D : Z) (ou : option nat) : list op :=
  [Init i b (Some D) ou; Load i a (Some D); Validate i (names b ++ names a)].

Definition is_done (o : outcome) : bool := match o with Done => true | _ => false end.

Definition construct (w : world) (i : nat) (b a : file) (D : Z) (ou : option nat) : world * outcome :=
  let '(w1, o1) := step w (Init i b (Some D) ou) in
  if is_done o1 then
    let '(w2, o2) := step w1 (Load i a (Some D)) in
    if is_done o2 then step w2 (Validate i (names b ++ names a)) else (w2, o2)
  else (w1, o1).

Definition world0 : world := mkWorld None (fun _ => empty_inst) (fun _ => []).
Definition with_callers (w : world) (cs : list (nat * store)) : world :=
  mkWorld (gD w) (insts w) (fold_left (fun f c => set_at f (fst c) (snd c)) cs (callers w)).

(* ---- static condition on a pair of files under which every default is a function of the FINAL
        values of the keys it reads (checked for the real files by vm_compute in Props/C20.v):
        no key twice, no reserved names, the basic file reads no option at all (it is evaluated
        BEFORE the user's dict is applied), an advanced default reads only keys that precede it. *)
Fixpoint nodupb (l : list string) : bool :=
  match l with [] => true | x :: r => negb (mem x r) && nodupb r end.

Fixpoint order_ok (seen : list string) (es : file) : bool :=
  match es with
  | [] => true
  | (k, deps) :: r => forallb (fun d => String.eqb d dname || mem d seen) deps && order_ok (k :: seen) r
  end.

Definition deps_ok (b a : file) : bool :=
  nodupb (names b ++ names a) &&
  negb (mem reserved (names b ++ names a)) && negb (mem dname (names b ++ names a)) &&
  forallb (fun e => forallb (fun d => String.eqb d dname) (snd e)) b &&
  order_ok (names b) a.

(* what the property prescribes for a key, given the final store: the user's value, or the default
   text applied to the instance's own D and the final values of the keys it reads *)
Definition spec_value (D : Z) (st : store) (e : entry) : value :=
  VDefault (fst e) (map (fun n => (n, arg_value D st n)) (snd e)).

(* ================================================================ correspondence helpers *)

(* --- T1: exact dump of a world for a finite set of instances / callers *)
Definition dump := (list outcome * option Z * list (nat * (store * list string)) * list (nat * store))%type.

Fixpoint store_eqb (a b : store) : bool :=
  match a, b with
  | [], [] => true
  | (k1, v1) :: r1, (k2, v2) :: r2 => String.eqb k1 k2 && value_eqb v1 v2 && store_eqb r1 r2
  | _, _ => false
  end.
Definition outcome_eqb (a b : outcome) : bool :=
  match a, b with Done, Done => true | Raised x, Raised y => String.eqb x y | _, _ => false end.
Fixpoint list_eqb {A} (eqb : A -> A -> bool) (a b : list A) : bool :=
  match a, b with
  | [], [] => true
  | x :: r, y :: s => eqb x y && list_eqb eqb r s
  | _, _ => false
  end.
Definition oz_eqb (a b : option Z) : bool :=
  match a, b with None, None => true | Some x, Some y => Z.eqb x y | _, _ => false end.

(* case = (initial global D, caller dicts, ops) , expected dump *)
Definition t1_case := ((option Z * list (nat * store) * list op) * dump)%type.
Definition t1_ok (c : t1_case) : bool :=
  let '((g0, cs, ops), (outs, g1, is, cs1)) := c in
  let '(w, o) := run (with_callers (mkWorld g0 (fun _ => empty_inst) (fun _ => [])) cs) ops in
  list_eqb outcome_eqb o outs && oz_eqb (gD w) g1 &&
  forallb (fun x => store_eqb (store_of (insts w (fst x))) (fst (snd x)) &&
                    set_eqb (useropts (insts w (fst x))) (snd (snd x))) is &&
  forallb (fun x => store_eqb (callers w (fst x)) (snd x)) cs1.

(* --- T2: the real files; observational classification of a stored value *)
Inductive code :=
| CU (tag : Z)            (* the caller's object with this tag *)
| CF (d : Z)              (* the key's default text evaluated with D = d and the CURRENT values of the keys it reads *)
| CN                      (* the same for a default that does not read D *)
| CA                      (* re-written by the owner's optimize() *)
| CM                      (* key not in the store *)
| CB.                     (* anything else *)

Definition code_eqb (a b : code) : bool :=
  match a, b with
  | CU x, CU y => Z.eqb x y | CF x, CF y => Z.eqb x y
  | CN, CN => true | CA, CA => true | CM, CM => true | _, _ => false
  end.

Definition args_current (st : store) (args : list (string * value)) : bool :=
  forallb (fun nv => String.eqb (fst nv) dname ||
                     match get (fst nv) st with Some v => value_eqb v (snd nv) | None => value_eqb VAbsent (snd nv) end) args.

Definition code_of (st : store) (k : string) : code :=
  match get k st with
  | None => CM
  | Some (VUser t) => CU t
  | Some (VAdjusted _ _) => CA
  | Some (VDefault k' args) =>
      if String.eqb k' k && args_current st args then
        match get dname args with Some (VInt d) => CF d | None => CN | _ => CB end
      else CB
  | Some _ => CB
  end.

(* BADS-level ops on the real files *)
Inductive bop :=
| BConstruct (i : nat) (D : Z) (ou : option nat)
| BRun (i : nat) (adjusted : list string).

Definition bstep (b a : file) (w : world) (o : bop) : world * outcome :=
  match o with
  | BConstruct i D ou => construct w i b a D ou
  | BRun i ks => step w (Adjust i ks)
  end.

(* expected, per op: outcome and, for each live instance listed, the codes of the listed keys
   and the protected set *)
Definition snap := (nat * list code * list string)%type.
Definition t2_case := ((list (nat * store) * list string * list bop) * list (outcome * list snap))%type.

Definition snap_ok (w : world) (ks : list string) (s : snap) : bool :=
  let '(i, cs, uo) := s in
  list_eqb code_eqb (map (code_of (store_of (insts w i))) ks) cs && set_eqb (useropts (insts w i)) uo.

Fixpoint t2_run (b a : file) (ks : list string) (w : world) (ops : list bop) (ex : list (outcome * list snap)) : bool :=
  match ops, ex with
  | [], [] => true
  | o :: r, (out, snaps) :: rx =>
      let '(w1, out1) := bstep b a w o in
      outcome_eqb out1 out && forallb (snap_ok w1 ks) snaps && t2_run b a ks w1 r rx
  | _, _ => false
  end.

Definition t2_ok (b a : file) (c : t2_case) : bool :=
  let '((cs, extra, ops), ex) := c in
  t2_run b a (names b ++ names a ++ extra) (with_callers world0 cs) ops ex.
