(* LoggerSpec.v — the abstract specification the concrete logger model (Logger.v) refines.
   Short enough to read in a minute: the log is a list of records in first-call order; a record
   keeps every observation recorded at its point; nothing else exists.  No proofs here. *)
From Coq Require Import ZArith QArith List String Bool.
From PV Require Import Model.Val Model.Logger.
Import ListNotations.
Open Scope Z_scope.

Record arec := mkA {
  a_xo : list Q;                    (* original-space point *)
  a_x : list Q;                     (* internal point *)
  a_obs : list (Q * option Q);      (* recorded observations at this point, in call order: value, SD *)
  a_hits : Z                        (* evaluations at this point flagged "do not record" *)
}.
Record aspec := mkS { recs : list arec; a_fc : Z; a_cc : Z }.
Definition spec_init : aspec := mkS [] 0 0.

Definition at_x (x : list Q) (a : arec) : bool := qlist_eqb (a_x a) x.

(* apply f to the FIRST / LAST record at point x (there is at most one in the specified-noise mode) *)
Fixpoint upd_first (x : list Q) (f : arec -> arec) (l : list arec) : list arec :=
  match l with
  | [] => []
  | a :: r => if at_x x a then f a :: r else a :: upd_first x f r
  end.
Definition upd_last (x : list Q) (f : arec -> arec) (l : list arec) : list arec :=
  rev (upd_first x f (rev l)).

Definition add_obs (y : Q) (sd : option Q) (a : arec) : arec :=
  mkA (a_xo a) (a_x a) (a_obs a ++ [(y, sd)]) (a_hits a).
Definition add_hit (a : arec) : arec :=
  mkA (a_xo a) (a_x a) (a_obs a) (a_hits a + 1).

(* a recorded observation (y, sd) at x *)
Definition spec_record (l : list arec) (x xo : list Q) (y : Q) (sd : option Q) : option (list arec) :=
  match sd with
  | Some _ =>
      if existsb (at_x x) l then
        if (1 <? List.length (filter (at_x x) l))%nat then None          (* "More than one match" error *)
        else Some (upd_first x (add_obs y sd) l)                     (* merge into that point's own record *)
      else Some (l ++ [mkA xo x [(y, sd)] 0])
  | None => Some (l ++ [mkA xo x [(y, sd)] 0])
  end.

Definition valid_call (he : bool) (o : outcome) : bool :=
  match o with
  | OkVal _ sd => if he then sd_ok sd else true
  | _ => false
  end.

Definition spec_step (noise he : bool) (a : aspec) (o : op) : aspec :=
  match o with
  | Call x xo oc recordp =>
      match oc with
      | OkVal y sd =>
          if valid_call he oc then
            let sd' := if he then sd else None in
            if recordp then
              match spec_record (recs a) x xo y sd' with
              | Some l => mkS l (a_fc a + 1) (a_cc a)
              | None => a
              end
            else mkS (upd_last x add_hit (recs a)) (a_fc a + 1) (a_cc a)
          else a
      | _ => a                       (* the target raised / returned an invalid value: nothing changes *)
      end
  | Add x xo y sd =>
      let fsd := if noise then (match sd with Some q => Some q | None => Some 1%Q end) else None in
      if noise && negb (sd_ok fsd) then a
      else match spec_record (recs a) x xo y fsd with
           | Some l => mkS l (a_fc a) (a_cc a + 1)
           | None => mkS (recs a) (a_fc a) (a_cc a + 1)
           end
  | Finalize => a
  end.

Definition spec_run (noise he : bool) (ops : list op) : aspec :=
  fold_left (spec_step noise he) ops spec_init.

(* ---- what a concrete row must be, given the abstract record (the abstraction relation) ---- *)
Definition sum_tau (obs : list (Q * option Q)) : Q :=
  fold_right (fun o acc => match snd o with Some sd => (qinv2 sd + acc)%Q | None => acc end) 0%Q obs.
Definition sum_wy (obs : list (Q * option Q)) : Q :=
  fold_right (fun o acc => match snd o with Some sd => (qinv2 sd * fst o + acc)%Q | None => acc end) 0%Q obs.

Definition row_rep (r : row) (a : arec) : Prop :=
  r_xo r = a_xo a /\ r_x r = a_x a /\
  r_n r = Z.of_nat (List.length (a_obs a)) + a_hits a /\
  match a_obs a with
  | [] => False
  | (y0, sd0) :: rest =>
      r_yo r = y0 /\
      match sd0 with
      | None => rest = [] /\ r_y r = y0 /\ r_tau r = None                 (* plain record: exactly the value returned *)
      | Some _ =>                                                          (* specified noise: precision-weighted mean *)
          (forall o, In o (a_obs a) -> exists sd, snd o = Some sd /\ (0 < sd)%Q) /\
          exists t, r_tau r = Some t /\ (t == sum_tau (a_obs a))%Q /\
                    (r_y r * sum_tau (a_obs a) == sum_wy (a_obs a))%Q
      end
  end.

Definition state_rep (s : lstate) (a : aspec) : Prop :=
  Forall2 row_rep (rows s) (recs a) /\ func_count s = a_fc a /\ cache_count s = a_cc a.

(* configurations covered: deterministic (false,false), specified noise (true,true); with
   unknown-noise level 1 (true,false) only sequences without Add (the code would merge into a
   record that has no SD and write NaN; BADS itself never does that). *)
Definition is_add (o : op) : bool := match o with Add _ _ _ _ => true | _ => false end.
Definition wf_cfg (noise he : bool) (ops : list op) : Prop :=
  (he = true -> noise = true) /\ (noise = he \/ forallb (fun o => negb (is_add o)) ops = true).

Definition op_point (o : op) : list Q :=
  match o with Call x _ _ _ => x | Add x _ _ _ => x | Finalize => [] end.
Definition set_cap (s : lstate) (c : Z) : lstate :=
  mkL (rows s) c (func_count s) (cache_count s) (noise_flag s) (he_flag s).
