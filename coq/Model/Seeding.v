(* Seeding.v — M15: noninterference model of random seeding and process-global state (C07).

   Source modelled (pybads/bads/bads.py, options.py; see translate/rng_sites.py for the scan):
     BADS.__init__          l.171-192  Options(...) / load_options_file(...) : `exec("D = <D>", globals())`
                                       re-binds the module global D of options.py, THEN the defaults are
                                       `eval`-ed;   l.192 `self._init_random_seed_()`;   l.231 the random x0
                                       (`np.random.uniform`) when x0 was omitted.
     BADS._init_random_seed_ l.900     `np.random.seed(int(options["random_seed"]))` iff a seed was given.
     BADS._init_optimization_ l.1044   first thing: `self._init_random_seed_()` again; afterwards every draw
                                       of optimize() (Sobol seed fall-back, poll, ES search, hedge, GP training,
                                       gpyreg through its legacy-stream proxy, a noisy target's own
                                       `np.random.randn()`) comes from NumPy's global legacy stream.

   The model is a PROCESS with three pieces of global state and a list of operations on it.  The
   instance under test is `Construct` followed (after arbitrary foreign operations) by `Optimize`.
   What the instance can observe of the process is exactly: the identities (seed, index) of the draws
   it makes from the global stream, the value of the module global D at the moment its defaults are
   evaluated, and — only if the static scan found a site outside the allowed classes — the remaining
   process state ([foreign_garbage]).  "The behaviour of the instance is a function of what it
   observes" is expressed by an arbitrary continuation [beh] that decides, from everything observed
   so far, whether another draw is made.

   The two assumptions P1 (every draw goes through the global stream or a generator seeded from
   run-local data) and P2 (no other process-global mutable state is read) are NOT assumed silently:
   they are the [leaks]/[layout] arguments of the model, and gen/Src_rng_sites.v — regenerated from
   /repo and gpyreg on every run — supplies their actual values ([src_rng_sites], [src_layout]).

   No proofs in this file. *)
From Coq Require Import ZArith List String Bool.
Import ListNotations.
Open Scope Z_scope.

(* ------------------------------------------------------------------ the table of the static scan *)

(* what a site is *)
Inductive category : Type :=
| CDraw            (* a draw: np.random.X(...), rnd.X(...), <generator>.X(...) *)
| CSeedWrite       (* np.random.seed(...) / set_state *)
| CGenCtor         (* default_rng / Generator / RandomState / SeedSequence / bit generators *)
| CQmcCtor         (* scipy.stats.qmc engines: Sobol(...), Halton(...) ... *)
| CRngPass         (* a call passing rng= / random_state= / seed= *)
| COsEntropy       (* os.urandom, secrets.*, uuid4, stdlib `random` *)
| CTime            (* time.time() and friends *)
| CTimeSink        (* a time-derived value reaching a seed, a draw or control flow *)
| CHashId          (* hash( / id( *)
| CSetIter         (* iteration over a set *)
| CGlobalStmt      (* `global x` *)
| CDynScope        (* exec / eval / globals() / vars() / setattr on a module *)
| CIniDefault      (* an option default of an .ini file that reads a module global (D) *)
| CEnvRead         (* os.environ / os.getenv *)
| CModuleMutable   (* module-level assignment of a mutable object *)
| CClassMutable    (* class-level mutable attribute *)
| CMutableDefault  (* mutable default argument *)
| CLogging         (* logging configuration: basicConfig, getLogger, setLevel *)
| CPrintState.     (* np.array2string / array_str / array_repr: reads the process-global print options
                      (np.set_printoptions) unless every layout option is pinned in the call *)

(* where the seed of a generator / QMC engine / seed write comes from *)
Inductive seedclass : Type :=
| SeedNA                  (* the site has no seed argument (plain draw etc.) *)
| SeedFromData            (* a function of run-local data only (arguments, self.*, constants) *)
| SeedFromGlobalStream    (* drawn from NumPy's global legacy stream *)
| Unscrambled             (* QMC engine with scramble=False: a fixed deterministic sequence *)
| Unseeded.               (* None / absent / OS entropy / time / hash / unknown provenance *)

Inductive kind : Type :=
| GlobalStream        (* goes through numpy's global legacy generator => fixed by np.random.seed *)
| SeededFromRunData   (* private generator (or seed write) whose seed is a function of run-local data *)
| RebindEveryLoad     (* the options `exec`: the global is re-bound before every read *)
| ReadOnlyConstant    (* process-global object that is never written after import *)
| LoggingOnly         (* affects only log output / timing records *)
| Unclassified.       (* anything the scanner could not put into one of the classes above *)

Record site : Type := mk_site {
  s_file : string;    (* path relative to the package parent, e.g. "pybads/search/es_search.py" *)
  s_fun  : string;    (* qualified function name (line independent), "<module>" at module scope *)
  s_what : string;    (* the source text of the site (truncated) *)
  s_cat  : category;
  s_seed : seedclass;
  s_kind : kind }.

Definition allowed_kind (k : kind) : bool :=
  match k with Unclassified => false | _ => true end.

(* Coq-side cross-check of the scanner's verdict: the kind claimed must be one that the site's
   category and seed class can justify (so a scanner bug that labels an unseeded generator
   "GlobalStream" is caught here, not trusted). *)
Definition kind_justified (s : site) : bool :=
  match s_cat s, s_seed s, s_kind s with
  | _, Unseeded, _ => false
  | CDraw, SeedNA, GlobalStream => true
  | CDraw, SeedFromData, SeededFromRunData => true
  | CDraw, SeedFromGlobalStream, GlobalStream => true
  | CDraw, Unscrambled, ReadOnlyConstant => true
  | CSeedWrite, SeedFromData, SeededFromRunData => true
  | CSeedWrite, SeedFromGlobalStream, GlobalStream => true
  | (CGenCtor | CQmcCtor | CRngPass), SeedFromData, SeededFromRunData => true
  | (CGenCtor | CQmcCtor | CRngPass), SeedFromGlobalStream, GlobalStream => true
  | CQmcCtor, Unscrambled, ReadOnlyConstant => true
  | CRngPass, SeedNA, GlobalStream => true          (* forwards None / the caller's own rng *)
  | CTime, SeedNA, LoggingOnly => true
  | CLogging, SeedNA, LoggingOnly => true
  | (CDynScope | CIniDefault), SeedNA, RebindEveryLoad => true
  | (CModuleMutable | CClassMutable | CMutableDefault), SeedNA, ReadOnlyConstant => true
  | CSetIter, SeedNA, ReadOnlyConstant => true       (* order-insensitive reduction only *)
  | CEnvRead, SeedNA, ReadOnlyConstant => true       (* the guard of the verification probe only *)
  | CPrintState, SeedNA, ReadOnlyConstant => true    (* every layout option pinned in the call or by an enclosing `with np.printoptions(...)` *)
  | CPrintState, SeedNA, LoggingOnly => true         (* inside a display-only function (__str__/__repr__/formatting) *)
  | _, _, _ => false
  end.

Definition allowed_site (s : site) : bool := allowed_kind (s_kind s) && kind_justified s.

Definition count_kind (k : kind) (l : list site) : nat :=
  List.length (filter (fun s => match s_kind s, k with
                               | GlobalStream, GlobalStream | SeededFromRunData, SeededFromRunData
                               | RebindEveryLoad, RebindEveryLoad | ReadOnlyConstant, ReadOnlyConstant
                               | LoggingOnly, LoggingOnly | Unclassified, Unclassified => true
                               | _, _ => false end) l).

(* The ORDER facts of the source the model depends on (also extracted by the scan). *)
Record layout : Type := mk_layout {
  l_ctor_seed_first   : bool;  (* __init__: `self._init_random_seed_()` is an unconditional statement that
                                  precedes every statement that may draw (the random x0) *)
  l_opt_reseed_first  : bool;  (* optimize(): nothing that may draw precedes `_init_optimization_()`, whose
                                  first may-draw statement is the unconditional `_init_random_seed_()` *)
  l_seed_from_option  : bool;  (* the only np.random.seed site is _init_random_seed_, its argument is
                                  int(self.options["random_seed"]), guarded only by "is not None" *)
  l_rebind_before_eval: bool;  (* options.py: the exec-rebinding loop precedes the eval of the defaults in
                                  the same function, and every load passes D *)
  l_no_lazy_global    : bool   (* no default is a lambda whose body reads a module global lazily *)
}.

Definition layout_ok (L : layout) : bool :=
  l_ctor_seed_first L && l_opt_reseed_first L && l_seed_from_option L &&
  l_rebind_before_eval L && l_no_lazy_global L.

Definition good_layout : layout := mk_layout true true true true true.

(* ------------------------------------------------------------------ the process model *)

Record pstate : Type := mk_pstate {
  stream : option (Z * nat);   (* Some (seed, number of draws since seeding); None = never seeded
                                  (state from OS entropy at import) *)
  gD : option Z;               (* module global D of pybads.bads.options *)
  foreign_garbage : Z          (* all other process-global state (caches, class-level lists, Python's
                                  own `random`, hash seed, ...): unconstrained *)
}.

(* identity of a draw: Some (seed, index) if the stream had been seeded, None otherwise *)
Definition draw_id : Type := option (Z * nat).

Definition draw1 (s : pstate) : draw_id * pstate :=
  match stream s with
  | Some (sd, k) => (Some (sd, k), mk_pstate (Some (sd, S k)) (gD s) (foreign_garbage s))
  | None => (None, s)
  end.

Fixpoint drawn (n : nat) (s : pstate) : pstate :=
  match n with O => s | S m => drawn m (snd (draw1 s)) end.

(* np.random.seed(int(seed)) if a seed was given: an OVERWRITE of the stream component *)
Definition seed_write (seed : option Z) (s : pstate) : pstate :=
  match seed with
  | Some sd => mk_pstate (Some (sd, O)) (gD s) (foreign_garbage s)
  | None => s
  end.

Definition rebind_D (D : Z) (s : pstate) : pstate := mk_pstate (stream s) (Some D) (foreign_garbage s).
Definition touch (g : Z) (s : pstate) : pstate := mk_pstate (stream s) (gD s) g.

(* Foreign operations: everything else that may run in the process. *)
Inductive fop : Type :=
| ForeignDraw (n : nat)                                   (* n draws from the global stream *)
| ForeignSeed (s : Z)                                     (* np.random.seed(s) *)
| ForeignConstruct (D' : Z) (seed : option Z) (x0_given : bool) (g : Z)
     (* BADS(...) of an unrelated problem: re-binds D, seeds if it has a seed, may draw an x0,
        may leave arbitrary other traces g *)
| ForeignOptimize (seed : option Z) (draws : nat) (g : Z) (* optimize() of an unrelated instance *)
| ForeignTouch (g : Z).                                   (* any other write to process-global state *)

Definition fstep (s : pstate) (o : fop) : pstate :=
  match o with
  | ForeignDraw n => drawn n s
  | ForeignSeed sd => seed_write (Some sd) s
  | ForeignConstruct D' seed x0g g =>
      let s1 := seed_write seed (rebind_D D' s) in
      touch g (if x0g then s1 else drawn 1 s1)
  | ForeignOptimize seed n g => touch g (drawn n (seed_write seed s))
  | ForeignTouch g => touch g s
  end.

Definition run_foreign (s : pstate) (h : list fop) : pstate := fold_left fstep h s.

(* ------------------------------------------------------------------ the instance under test *)

Inductive x0_obs : Type := X0Given | X0Drawn (d : draw_id).

(* what the instance remembers from its construction *)
Record inst : Type := mk_inst {
  i_seed : option Z;
  i_D : Z;
  i_x0 : x0_obs;
  i_defaults_D : option Z;     (* the value of the module global D its defaults were evaluated with *)
  i_ctor_leak : option Z       (* Some g iff the construction read unclassified process state *)
}.

(* Construct: loads (re-bind D, then evaluate the defaults), seed, random x0 if omitted.
   [L] says in which order the source does these; [leaks] whether some site is outside the classes. *)
Definition construct (L : layout) (leaks : bool) (seed : option Z) (D : Z) (x0_given : bool)
           (s : pstate) : inst * pstate :=
  let dflt_D := if l_rebind_before_eval L then Some D else gD s in
  let s1 := rebind_D D s in
  let seed_eff := if l_seed_from_option L then seed else None in
  let '(x0, s3) :=
    if x0_given then (X0Given, seed_write seed_eff s1)
    else if l_ctor_seed_first L
         then let '(d, s') := draw1 (seed_write seed_eff s1) in (X0Drawn d, s')
         else let '(d, s') := draw1 s1 in (X0Drawn d, seed_write seed_eff s') in
  (mk_inst seed D x0 dflt_D (if leaks then Some (foreign_garbage s) else None), s3).

(* everything the optimisation observes, in order *)
Record opt_obs : Type := mk_opt_obs {
  o_draws : list draw_id;      (* identities of the draws consumed by optimize(), in order *)
  o_lazy_D : option (option Z);(* Some v iff a lazily evaluated default read the module global D *)
  o_leak : option Z            (* Some g iff an unclassified site read other process state *)
}.

(* The draw loop: [beh] is the instance's behaviour — from what it remembers and everything it has
   drawn so far it decides whether to draw again.  Arbitrary, hence covers the target's own noise
   draws, Sobol's fall-back seed, poll/search/hedge/GP-training draws. *)
Fixpoint draw_loop (beh : inst -> list draw_id -> bool) (i : inst) (fuel : nat)
         (seen : list draw_id) (s : pstate) : list draw_id * pstate :=
  match fuel with
  | O => (seen, s)
  | S f => if beh i seen
           then let '(d, s') := draw1 s in draw_loop beh i f (seen ++ [d]) s'
           else (seen, s)
  end.

Definition optimize (L : layout) (leaks : bool) (beh : inst -> list draw_id -> bool) (fuel : nat)
           (i : inst) (s : pstate) : opt_obs * pstate :=
  let seed_eff := if l_seed_from_option L then i_seed i else None in
  let s1 := if l_opt_reseed_first L then seed_write seed_eff s else s in
  let '(ds, s2) := draw_loop beh i fuel [] s1 in
  (mk_opt_obs ds
              (if l_no_lazy_global L then None else Some (gD s))
              (if leaks then Some (foreign_garbage s) else None),
   s2).

(* The observable of one complete use of the instance inside a process:
     initial state, foreign history h, Construct, foreign ops m (interleaved), Optimize. *)
Definition observe (L : layout) (leaks : bool) (s0 : pstate) (h : list fop)
           (seed : option Z) (D : Z) (x0_given : bool) (m : list fop)
           (beh : inst -> list draw_id -> bool) (fuel : nat) : inst * opt_obs :=
  let '(i, s2) := construct L leaks seed D x0_given (run_foreign s0 h) in
  let '(o, _) := optimize L leaks beh fuel i (run_foreign s2 m) in
  (i, o).

(* "leaks" as computed from the scan *)
Definition leaks_of (sites : list site) : bool := negb (forallb allowed_site sites).

(* the state of a freshly started interpreter *)
Definition fresh : pstate := mk_pstate None None 0.
