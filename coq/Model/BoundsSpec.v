(* BoundsSpec.v — the property's validity list, written declaratively on the raw definition,
   independently of the order of tests in Model/BoundsCheck.v.  Only definitions, no proofs.

   Property C08: a definition is INVALID exactly when: mismatched dimensions, non-finite or equal
   plausible bounds, bounds not ordered lb <= plb < pub <= ub, x0 outside the hard bounds, a variable
   with identical or numerically indistinguishable hard bounds, a variable bounded on one side only,
   or no way to infer the dimension.  Plausible bounds omitted default to the hard bounds; hard
   bounds omitted are -inf / +inf; x0 omitted is "no point given" (NaN in every coordinate). *)
From Coq Require Import ZArith QArith Qabs List Bool.
From PV Require Import Model.XQ Model.BoundsCheck.
Import ListNotations.
Open Scope Q_scope.

(* ---- coordinate i of the definition, after the documented defaults ---- *)
Definition at_ (o : option (list xq)) (dflt : xq) (i : nat) : xq :=
  match o with Some v => nth i v XNaN | None => dflt end.

Definition lb_at (d : defn) (i : nat) : xq := at_ (d_lb d) XNInf i.
Definition ub_at (d : defn) (i : nat) : xq := at_ (d_ub d) XPInf i.
Definition plb_at (d : defn) (i : nat) : xq := at_ (d_plb d) (lb_at d i) i.
Definition pub_at (d : defn) (i : nat) : xq := at_ (d_pub d) (ub_at d i) i.
Definition x0_at (d : defn) (i : nat) : xq := at_ (d_x0 d) XNaN i.

Definition coord_at (d : defn) (i : nat) : coord :=
  mkC (x0_at d i) (lb_at d i) (ub_at d i) (plb_at d i) (pub_at d i).

(* ---- the dimension: from x0, else from the (defaulted) plausible bounds ---- *)
Definition dim_of (d : defn) : option nat :=
  match d_x0 d with
  | Some x => Some (List.length x)
  | None =>
      match odefault (d_plb d) (d_lb d), odefault (d_pub d) (d_ub d) with
      | Some p, Some _ => Some (List.length p)
      | _, _ => None
      end
  end.

Definition given (d : defn) : list (list xq) :=
  flat_map (fun o => match o with Some v => [v] | None => [] end)
           [d_x0 d; d_lb d; d_ub d; d_plb d; d_pub d].

(* ---- what makes one coordinate invalid ---- *)
Definition bad_coord (c : coord) : Prop :=
     xisfinite (cpl c) = false \/ xisfinite (cpu c) = false            (* non-finite plausible bound *)
  \/ xeq (cpl c) (cpu c) = true                                          (* equal plausible bounds *)
  \/ ~ (xle (cl c) (cpl c) = true /\ xlt (cpl c) (cpu c) = true /\ xle (cpu c) (cu c) = true)
                                                                         (* not lb <= plb < pub <= ub *)
  \/ xlt (cx c) (cl c) = true \/ xlt (cu c) (cx c) = true               (* x0 outside the hard bounds *)
  \/ xisinf (cx c) = true                                                (* ... an infinite x0 is not a point *)
  \/ xle (ub_eff (cl c) (cu c)) (lb_eff (cl c) (cu c)) = true           (* identical / indistinguishable:
                                                                            no room between the effective bounds *)
  \/ xisfinite (cl c) <> xisfinite (cu c).                               (* bounded on one side only *)

Definition invalid (d : defn) : Prop :=
  match dim_of d with
  | None => True                                                         (* no way to infer the dimension *)
  | Some D =>
         (exists v, In v (given d) /\ List.length v <> D)               (* mismatched dimensions *)
      \/ (exists i, (i < D)%nat /\ bad_coord (coord_at d i))
  end.

(* the property quantifies over D = 1..3; D = 0 (an empty x0) is outside it *)
Definition nonempty (d : defn) : Prop := dim_of d <> Some 0%nat.

(* ---- the classes of definitions on which the code departs from the list ---- *)
(* a non-zero bound of magnitude <= realmin: the code's special case for |bound| <= realmin replaces
   lb + 1e-3*range by 1e-3*range, which is only right for a bound equal to 0 *)
Definition denormal_like (a : xq) : bool := xabs_le a realmin && negb (xeq a (XFin 0)).

Definition regular_coord (c : coord) : Prop :=
     denormal_like (cl c) = false /\ denormal_like (cu c) = false
  (* the plausible box is not entirely inside one of the two 0.1% margins of the hard box *)
  /\ xlt (cpl c) (ub_eff (cl c) (cu c)) = true /\ xlt (lb_eff (cl c) (cu c)) (cpu c) = true.

(* x0 has no NaN coordinate, or is not given (absent, or NaN in every coordinate) *)
Definition x0_regular (d : defn) : Prop :=
  match d_x0 d with
  | None => True
  | Some x => Forall (fun a => xisnan a = false) x \/ Forall (fun a => a = XNaN) x
  end.

Definition regular (d : defn) : Prop :=
  x0_regular d /\ forall D i, dim_of d = Some D -> (i < D)%nat -> regular_coord (coord_at d i).

(* ---- the documented repairs, per coordinate (edge: some coordinate of the clamped x0 sits on an
        effective bound, which makes the code expand the plausible box to contain x0) ---- *)
Definition clamp (c : coord) : xq := xmax (xmin (cx c) (UBe c)) (LBe c).
Definition repaired (edge : bool) (c : coord) : coord :=
  let x := clamp c in
  let p := xmax (cpl c) (LBe c) in
  let q := xmin (cpu c) (UBe c) in
  mkC x (cl c) (cu c) (if edge then xmin p x else p) (if edge then xmax q x else q).
Definition on_edge (c : coord) : bool := xle (clamp c) (LBe c) || xle (UBe c) (clamp c).

(* ---- the normal form of an accepted definition, coordinate i ---- *)
Definition nthx (l : list xq) (i : nat) : xq := nth i l XNaN.

Definition normal_coord (d : defn) (n : norm) (i : nat) : Prop :=
  let l := nthx (n_lb n) i in let u := nthx (n_ub n) i in
  let p := nthx (n_plb n) i in let q := nthx (n_pub n) i in
     l = lb_at d i /\ u = ub_at d i                               (* the hard bounds are the given ones *)
  /\ xle l p = true /\ xlt p q = true /\ xle q u = true           (* lb <= plb < pub <= ub *)
  /\ xisfinite p = true /\ xisfinite q = true                     (* plausible bounds finite *)
  /\ xisfinite l = xisfinite u                                    (* bounded on both sides or on none *)
  /\ match n_x0 n with
     | Drawn =>                                    (* any point of [plb, pub] is within the effective bounds *)
         xle (lb_eff l u) p = true /\ xle q (ub_eff l u) = true
     | Given x =>
         let xi := nthx x i in
            xisfinite xi = true
         /\ xle (lb_eff l u) xi = true /\ xle xi (ub_eff l u) = true          (* LB_eff <= x0 <= UB_eff *)
         /\ (denormal_like l = false -> xisfinite l = true -> xlt l xi = true)  (* strictly inside *)
         /\ (denormal_like u = false -> xisfinite u = true -> xlt xi u = true)
     end.
