(* BoundsSrc.v — the PROGRAM FORM of BADS._bounds_check_ and its generic interpreter.

   translate/bounds.py re-reads pybads/bads/bads.py on every run and emits coq/gen/Src_bounds.v:
     src_prog : list step      the body of _bounds_check_ in statement order: every
                               `if np.any(A) or np.any(B) ...: raise ValueError(msg)`  is  STest tag [A; B; ...]
                               (tag = the message class, harness/comp_bounds.classify_message), every
                               `if np.any(G) ...: <assignments to x0 / plausible bounds>`  is  SRepair name [G; ...] f
                               (f = the per-coordinate reading of the assignments, in their order);
     src_lb_eff, src_ub_eff    the per-coordinate reading of the effective-bounds block;
     src_* (strings / lists)   the order of the arguments and of the returned tuple, the vectors the shape test checks,
                               the defaults of absent plausible bounds, and the defaults of BADS.__init__.
   This file defines what such a program MEANS ([run_prog]: the first failing test rejects; a repair is applied to every
   coordinate when its guard holds for some coordinate — NumPy's `np.any` over the row), the hand-written program
   [model_prog] that Model/BoundsCheck.v's [check_coords] is claimed to be, and the constructor [construct_with p]
   that runs an arbitrary program between [assemble] and [finish] (used by the tie to evaluate the GENERATED program on
   the same definitions as the hand-written model).  No proofs here (Proofs/BoundsSourceProofs.v). *)
From Coq Require Import ZArith QArith List Bool String.
From PV Require Import Model.XQ Model.Val Model.BoundsCheck.
Import ListNotations.
Open Scope string_scope.

Definition cpred : Type := coord -> bool.

Inductive step : Type :=
| STest (tag : string) (disj : list cpred)                       (* if any(d1) or any(d2) ...: raise ValueError(tag) *)
| SRepair (name : string) (guard : list cpred) (f : coord -> coord).   (* if any(g1) or ...: every coordinate := f coordinate *)

Inductive schecked : Type :=
| SReject (tag : string)
| SAccept (cs : list coord).

(* np.any(d1) or np.any(d2) or ... over the row of coordinates *)
Definition any_of (ds : list cpred) (cs : list coord) : bool := existsb (fun p => existsb p cs) ds.
(* the same condition read per coordinate: (d1 | d2 | ...)[i] *)
Definition flat (ds : list cpred) : cpred := fun c => existsb (fun p => p c) ds.

Fixpoint run_prog (p : list step) (cs : list coord) : schecked :=
  match p with
  | [] => SAccept cs
  | STest tag ds :: p' => if any_of ds cs then SReject tag else run_prog p' cs
  | SRepair _ g f :: p' => run_prog p' (if any_of g cs then map f cs else cs)
  end.

Definition tests_of (p : list step) : list (string * cpred) :=
  flat_map (fun s => match s with STest tag ds => [(tag, flat ds)] | SRepair _ _ _ => [] end) p.
Definition repairs_of (p : list step) : list (string * cpred * (coord -> coord)) :=
  flat_map (fun s => match s with STest _ _ => [] | SRepair n g f => [(n, flat g, f)] end) p.
(* the positions: true = test, false = repair *)
Definition shape_of (p : list step) : list bool :=
  map (fun s => match s with STest _ _ => true | SRepair _ _ _ => false end) p.

(* ---- the hand-written model as a program (Model/BoundsCheck.v check_coords, same order) ---- *)
Definition TAG_NOTREAL : string := "NotReal".      (* l.376-387: np.isreal is true of every extended rational *)

Definition model_prog : list step :=
  [ STest (reason_tag RNonFinitePB) [t_nonfinite_pb];
    STest TAG_NOTREAL [];
    STest (reason_tag RFixed) [t_fixed];
    STest (reason_tag RMatchingPB) [t_matching];
    STest (reason_tag RX0Outside) [t_x0_outside];
    STest (reason_tag RTooClose) [t_too_close];
    SRepair "cx" [t_x0_near] clamp_x;
    STest (reason_tag RStrictBounds1) [t_order_bad];
    SRepair "cpl+cpu" [t_pb_near] pull_pb;
    SRepair "cpl+cpu" [t_x0_edge] expand_pb;
    STest (reason_tag RStrictBounds2) [t_order_bad];
    STest (reason_tag RHalfBounds) [t_half] ].

Definition tag_checked (r : checked) : schecked :=
  match r with BReject r => SReject (reason_tag r) | BAccept cs => SAccept cs end.

(* ---- the constructor around an arbitrary program ---- *)
Definition construct_with (p : list step) (d : defn) : val :=
  match assemble d with
  | AReject r => outcome_val (Reject r)
  | ACrash c => outcome_val (Crash c)
  | ACoords cs =>
      match run_prog p cs with
      | SReject tag => VL [VS "reject"; VS tag]
      | SAccept cs' => outcome_val (finish cs')
      end
  end.

(* ---- what BADS.__init__ and the head / tail of _bounds_check_ do with the five vectors, as data
        (compared with the generated src_* of the same names by C08_assembly_is_source) ---- *)
(* positional arguments of _bounds_check_ and the tuple it returns, as the coordinate fields they are *)
Definition model_arg_order : list string := ["cx"; "cl"; "cu"; "cpl"; "cpu"].
(* vectors whose shape is compared with (1, D) before any test (-> RDimMismatch) *)
Definition model_shape_checked : list string := ["cl"; "cu"; "cpl"; "cpu"].
(* _bounds_check_ (N0 = 1): an absent plausible bound is a copy of the hard bound *)
Definition model_bc_defaults : list (string * string) := [("cpl", "cl"); ("cpu", "cu")].
(* BADS.__init__, in statement order: (vector, condition under which it is replaced, replacement) *)
Definition model_init_defaults : list (string * string * string) :=
  [ ("cpl", "cpl is None and cl is not None", "cl");
    ("cpu", "cpu is None and cu is not None", "cu");
    ("cx",  "cx is None and (cpl is None or cpu is None)", "raise UnknownDims");
    ("cx",  "cx is None", "full(shape(cpl), nan)");
    ("D",   "always", "shape(cx)[1]");
    ("cl",  "cl is None", "ones((1, D)) * -inf");
    ("cu",  "cu is None", "ones((1, D)) * inf");
    ("cx",  "after _bounds_check_: not all(isfinite(cx))", "uniform(cpl, cpu)") ].
