(* BoundsSrc.v — the PROGRAM FORM of BADS._bounds_check_ and its generic interpreter.

   translate/bounds.py re-reads pybads/bads/bads.py on every run and emits coq/gen/Src_bounds.v:
     src_prog : list step      the body of _bounds_check_ in statement order: every
                               `if np.any(A) or np.any(B) ...: raise ValueError(msg)`  is  STest tag [A; B; ...]
                               (tag = the message class, harness/comp_bounds.classify_message), every
                               `if np.any(G) ...: <assignments to x0 / plausible bounds>`  is  SRepair name [G; ...] f
                               (f = the per-coordinate reading of the assignments, in their order);
     src_lb_eff, src_ub_eff    the per-coordinate reading of the effective-bounds block;
     src_head : list hstmt     BADS.__init__ up to the call of _bounds_check_, then the head of _bounds_check_ (defaults of
                               absent vectors, bads:UnknownDims, D, the shape test), over the five OPTIONAL vectors;
     src_arg_order, src_return_order, src_post_check   the call, the returned tuple, the draw of a non-finite x0 (text pins).
   This file defines what such a program MEANS ([run_prog]: the first failing test rejects; a repair is applied to every
   coordinate when its guard holds for some coordinate — NumPy's `np.any` over the row), the hand-written program
   [model_prog] that Model/BoundsCheck.v's [check_coords] is claimed to be, the head language with [run_head], and the
   constructors [construct_with p] / [construct_with2 h p] that run arbitrary programs in the place of [assemble] and
   [check_coords] (used by the tie to evaluate the GENERATED programs on the same definitions as the hand-written model).  No proofs here (Proofs/BoundsSourceProofs.v). *)
From Coq Require Import ZArith QArith List Bool String.
From PV Require Import Model.XQ Model.Val Model.BoundsCheck.
Import ListNotations.
Open Scope string_scope.

Definition cpred : Type := coord -> bool.

Inductive step : Type :=
| STest (tag : string) (disj : list cpred)                       (* if any(d1) or any(d2) ...: raise ValueError(tag) *)
| SRepair (name : string) (guard : list cpred) (f : coord -> coord).   (* if any(g1) or ...: every coordinate := f coordinate *)

Inductive schecked : Type :=
| SReject (tag : string)
| SAccept (cs : list coord).

(* np.any(d1) or np.any(d2) or ... over the row of coordinates *)
Definition any_of (ds : list cpred) (cs : list coord) : bool := existsb (fun p => existsb p cs) ds.
(* the same condition read per coordinate: (d1 | d2 | ...)[i] *)
Definition flat (ds : list cpred) : cpred := fun c => existsb (fun p => p c) ds.

Fixpoint run_prog (p : list step) (cs : list coord) : schecked :=
  match p with
  | [] => SAccept cs
  | STest tag ds :: p' => if any_of ds cs then SReject tag else run_prog p' cs
  | SRepair _ g f :: p' => run_prog p' (if any_of g cs then map f cs else cs)
  end.

Definition tests_of (p : list step) : list (string * cpred) :=
  flat_map (fun s => match s with STest tag ds => [(tag, flat ds)] | SRepair _ _ _ => [] end) p.
Definition repairs_of (p : list step) : list (string * cpred * (coord -> coord)) :=
  flat_map (fun s => match s with STest _ _ => [] | SRepair n g f => [(n, flat g, f)] end) p.
(* the positions: true = test, false = repair *)
Definition shape_of (p : list step) : list bool :=
  map (fun s => match s with STest _ _ => true | SRepair _ _ _ => false end) p.

(* ---- the hand-written model as a program (Model/BoundsCheck.v check_coords, same order) ---- *)
Definition TAG_NOTREAL : string := "NotReal".      (* l.376-387: np.isreal is true of every extended rational *)

Definition model_prog : list step :=
  [ STest (reason_tag RNonFinitePB) [t_nonfinite_pb];
    STest TAG_NOTREAL [];
    STest (reason_tag RFixed) [t_fixed];
    STest (reason_tag RMatchingPB) [t_matching];
    STest (reason_tag RX0Outside) [t_x0_outside];
    STest (reason_tag RTooClose) [t_too_close];
    SRepair "cx" [t_x0_near] clamp_x;
    STest (reason_tag RStrictBounds1) [t_order_bad];
    SRepair "cpl+cpu" [t_pb_near] pull_pb;
    SRepair "cpl+cpu" [t_x0_edge] expand_pb;
    STest (reason_tag RStrictBounds2) [t_order_bad];
    STest (reason_tag RHalfBounds) [t_half] ].

Definition tag_checked (r : checked) : schecked :=
  match r with BReject r => SReject (reason_tag r) | BAccept cs => SAccept cs end.

(* ---- the constructor around an arbitrary program ---- *)
Definition construct_with (p : list step) (d : defn) : val :=
  match assemble d with
  | AReject r => outcome_val (Reject r)
  | ACrash c => outcome_val (Crash c)
  | ACoords cs =>
      match run_prog p cs with
      | SReject tag => VL [VS "reject"; VS tag]
      | SAccept cs' => outcome_val (finish cs')
      end
  end.

(* ---- caller and tail of _bounds_check_, as data (compared with the generated src_* of the same names) ---- *)
(* positional arguments of _bounds_check_ in the call of BADS.__init__, and the tuple it returns / __init__ unpacks *)
Definition model_arg_order : list string := ["cx"; "cl"; "cu"; "cpl"; "cpu"].
(* the only statement of BADS.__init__ on the vectors after the check: (vector, condition, new value) = [finish] *)
Definition model_post_check : list (string * string * string) := [("cx", "not all(isfinite(cx))", "uniform(cpl, cpu)")].

(* ---- THE HEAD: what happens to the five OPTIONAL vectors before the first test — BADS.__init__ up to the call of
        _bounds_check_, then the head of _bounds_check_ (N0 = 1) — as a program with its own interpreter.
        translate/bounds.py emits src_head; C08_assemble_is_source proves [assemble] is [run_head src_head]. ---- *)
Inductive vfield : Type := FX | FL | FU | FPL | FPU.

Inductive ocond : Type :=
| CNone (v : vfield)                   (* v is None *)
| CSome (v : vfield)                   (* v is not None *)
| CAnd (a b : ocond) | COr (a b : ocond) | CNot (a : ocond).

Inductive oval : Type :=
| VCopy (v : vfield)                   (* np.atleast_2d(v).copy(), np.copy(v) *)
| VFullLike (v : vfield) (x : xq)      (* np.full(np.atleast_2d(v).shape, x) *)
| VRow (x : xq).                       (* np.ones((1, self.D)) * x *)

Inductive hstmt : Type :=
| HAssign (c : ocond) (v : vfield) (e : oval)     (* if c: v = e *)
| HRaise (c : ocond) (tag : string)               (* if c: raise ValueError(<message of class tag>) *)
| HDim                                            (* x0 = np.atleast_2d(x0); self.D = x0.shape[1]; then the option files are
                                                     evaluated with D (D = 0: ZeroDivisionError, not translated) *)
| HShape (vs : list vfield) (tag : string).       (* if v.shape != (1, D) for some v of vs: raise ValueError *)

Record hstate : Type := mkH { hx : option (list xq); hl : option (list xq); hu : option (list xq);
                              hp : option (list xq); hq : option (list xq); hD : nat }.

Inductive hassembled : Type :=
| HReject (tag : string)
| HCrash (c : crash)
| HCoords (cs : list coord).

Definition hget (s : hstate) (v : vfield) : option (list xq) :=
  match v with FX => hx s | FL => hl s | FU => hu s | FPL => hp s | FPU => hq s end.
Definition hset (s : hstate) (v : vfield) (a : option (list xq)) : hstate :=
  match v with
  | FX => mkH a (hl s) (hu s) (hp s) (hq s) (hD s)
  | FL => mkH (hx s) a (hu s) (hp s) (hq s) (hD s)
  | FU => mkH (hx s) (hl s) a (hp s) (hq s) (hD s)
  | FPL => mkH (hx s) (hl s) (hu s) a (hq s) (hD s)
  | FPU => mkH (hx s) (hl s) (hu s) (hp s) a (hD s)
  end.
Definition is_none {A} (o : option A) : bool := match o with None => true | Some _ => false end.
Fixpoint hcond (s : hstate) (c : ocond) : bool :=
  match c with
  | CNone v => is_none (hget s v)
  | CSome v => negb (is_none (hget s v))
  | CAnd a b => hcond s a && hcond s b
  | COr a b => hcond s a || hcond s b
  | CNot a => negb (hcond s a)
  end.
Definition hval (s : hstate) (e : oval) : option (list xq) :=
  match e with
  | VCopy v => hget s v
  | VFullLike v x => match hget s v with Some l => Some (repeat x (List.length l)) | None => None end
  | VRow x => Some (repeat x (hD s))
  end.

(* An absent vector where the code needs a value (np.atleast_2d(None).shape, ...) cannot occur in a program that, like
   the source, fills or rejects first; the interpreter answers HReject "Absent" there. *)
Fixpoint run_head (p : list hstmt) (s : hstate) : hassembled :=
  match p with
  | [] => match hx s, hl s, hu s, hp s, hq s with
          | Some x, Some l, Some u, Some p, Some q => HCoords (zip5 x l u p q)
          | _, _, _, _, _ => HReject "Absent"
          end
  | HAssign c v e :: p' => run_head p' (if hcond s c then hset s v (hval s e) else s)
  | HRaise c tag :: p' => if hcond s c then HReject tag else run_head p' s
  | HDim :: p' => match hx s with
                  | Some x => let D := List.length x in
                              if Nat.eqb D 0 then HCrash CZeroDim
                              else run_head p' (mkH (hx s) (hl s) (hu s) (hp s) (hq s) D)
                  | None => HReject "Absent"
                  end
  | HShape vs tag :: p' =>
      if forallb (fun v => match hget s v with Some l => Nat.eqb (List.length l) (hD s) | None => false end) vs
      then run_head p' s else HReject tag
  end.

Definition head_of_defn (d : defn) : hstate := mkH (d_x0 d) (d_lb d) (d_ub d) (d_plb d) (d_pub d) 0.

Definition head_view (a : assembled) : hassembled :=
  match a with AReject r => HReject (reason_tag r) | ACrash c => HCrash c | ACoords cs => HCoords cs end.

(* the hand-written reading of the head (Model/BoundsCheck.v [assemble]) as such a program *)
Definition model_head : list hstmt :=
  [ HAssign (CAnd (CNone FPL) (CSome FL)) FPL (VCopy FL);                                  (* __init__ l.151-154 *)
    HAssign (CAnd (CNone FPU) (CSome FU)) FPU (VCopy FU);
    HRaise (CAnd (CNone FX) (COr (CNone FPL) (CNone FPU))) (reason_tag RUnknownDims);      (* l.156-164 *)
    HAssign (CAnd (CNone FX) (CNot (COr (CNone FPL) (CNone FPU)))) FX (VFullLike FPL XNaN);  (* l.165-166 *)
    HDim;                                                                                  (* l.168-186 *)
    HAssign (CNone FL) FL (VRow XNInf);                                                    (* l.205-209 *)
    HAssign (CNone FU) FU (VRow XPInf);
    HAssign (CNone FPL) FPL (VCopy FL);                                                    (* _bounds_check_ l.340-343 *)
    HAssign (CNone FPU) FPU (VCopy FU);
    HShape [FL; FU; FPL; FPU] (reason_tag RDimMismatch) ].                                 (* l.355-365 *)

(* the constructor around two arbitrary programs *)
Definition construct_with2 (h : list hstmt) (p : list step) (d : defn) : val :=
  match run_head h (head_of_defn d) with
  | HReject tag => VL [VS "reject"; VS tag]
  | HCrash c => outcome_val (Crash c)
  | HCoords cs =>
      match run_prog p cs with
      | SReject tag => VL [VS "reject"; VS tag]
      | SAccept cs' => outcome_val (finish cs')
      end
  end.
