(* SkeletonBox.v — provenance of the points handed to the logger (C01, C02): where the skeleton's
   evaluation points come from.  The sets returned by contraints_check at its call sites are recorded
   from the run; the side condition [prov_okb] (every evaluated point except the start is a row of one
   of those sets) is evaluated by the tie on every real run.  No proofs here. *)
From Coq Require Import ZArith QArith List Bool.
From PV Require Import Model.Val Model.Skeleton Model.Filter.
Import ListNotations.
Open Scope Z_scope.

Definition eval_points_iter (ev : iter_ev) : list qrow :=
  (match se_eval (ie_search ev) with Some e => [e_u e] | None => [] end) ++ map e_u (pe_evals (ie_poll ev)).

Definition eval_points (l : list init_call) (evs : list iter_ev) : list qrow :=
  map (fun c => e_u (ic_eval c)) l ++ flat_map eval_points_iter evs.

(* u0 : the mesh-snapped starting point (checked by the constructor); F : recorded filter outputs *)
Definition prov_okb (u0 : qrow) (F : list (list qrow)) (pts : list qrow) : bool :=
  forallb (fun u => qrow_eqb u u0 || existsb (fun S => existsb (qrow_eqb u) S) F) pts.

(* a box (lb', ub') lies within the hard internal box (LB, UB), coordinate-wise (None = infinite) *)
Definition lo_within (lo' LO : bnd) : bool :=
  match LO, lo' with
  | None, _ => true
  | Some L, Some l' => Qle_bool L l'
  | Some _, None => false
  end.
Definition hi_within (hi' HI : bnd) : bool :=
  match HI, hi' with
  | None, _ => true
  | Some H, Some h' => Qle_bool h' H
  | Some _, None => false
  end.
Fixpoint box_withinb (lb' ub' LB UB : list bnd) : bool :=
  match LB, UB with
  | [], [] => true
  | L :: LB', H :: UB' =>
      lo_within (hd None lb') L && hi_within (hd None ub') H && box_withinb (tl lb') (tl ub') LB' UB'
  | _, _ => false
  end.

(* the inward-rounded search box (_update_search_bounds_, bads.py): force_to_grid then step inside *)
Definition to_grid (x m : Q) : Q := (m * inject_Z (Qround_even (x / m)))%Q.
Definition lb_search1 (lb m : Q) : Q := let g := to_grid lb m in if Qle_bool lb g then g else (g + m)%Q.
Definition ub_search1 (ub m : Q) : Q := let g := to_grid ub m in if Qle_bool g ub then g else (g - m)%Q.
