(* Logger.v — executable model (M4) of pybads/function_logger/function_logger.py:
   FunctionLogger.__call__ / add / _record / _expand_arrays / finalize.
   Only the filled rows 0..Xn are kept (rows beyond Xn are NaN in the code and can never
   match a finite point).  Floats are exact rationals; the inverse transform of a point is
   an oracle input (x_orig) carried by each op.  No proofs in this file. *)
From Coq Require Import ZArith QArith Qabs List String Bool.
From PV Require Import Model.Val.
Import ListNotations.
Open Scope Z_scope.

Record row := mkRow {
  r_xo : list Q;        (* X_orig[i] *)
  r_x  : list Q;        (* X[i]      *)
  r_yo : Q;             (* Y_orig[i] : value returned by the first recorded call  *)
  r_y  : Q;             (* Y[i]      : current (possibly merged) value, exact     *)
  r_tau : option Q;     (* 1 / S[i]^2, None when S[i] is NaN (no SD recorded)     *)
  r_n  : Z              (* n_evals[i] *)
}.

Record lstate := mkL {
  rows : list row;      (* filled rows, index = position; Xn = length - 1 *)
  cap : Z;              (* X_orig.shape[0] *)
  func_count : Z;
  cache_count : Z;
  noise_flag : bool;    (* uncertainty_handling_level > 0 *)
  he_flag : bool        (* uncertainty_handling_level = 2 *)
}.

Definition init_logger (cache_size : Z) (noise he : bool) : lstate :=
  mkL [] cache_size 0 0 noise he.

Inductive outcome :=
| OkVal (y : Q) (sd : option Q)   (* what the target returned: value, and SD when it returned a pair *)
| Raise (exn : string)            (* the target raised *)
| BadVal (kind : string).         (* NaN / inf / complex / vector / None / not-a-pair / bad SD *)

Inductive op :=
| Call (x xo : list Q) (o : outcome) (record : bool)
| Add  (x xo : list Q) (y : Q) (sd : option Q)
| Finalize.

Inductive result :=
| Ret (fval : Q) (fsd : option Q) (idx : option nat)
| Exn (cls : string)
| Done.

Fixpoint qlist_eqb (a b : list Q) : bool :=
  match a, b with
  | [], [] => true
  | x :: r, y :: s => Qeq_bool x y && qlist_eqb r s
  | _, _ => false
  end.

(* element-wise: does any coordinate coincide?  (np.any over a row of X == x) *)
Fixpoint qlist_any_eq (a b : list Q) : bool :=
  match a, b with
  | x :: r, y :: s => Qeq_bool x y || qlist_any_eq r s
  | _, _ => false
  end.

Fixpoint find_first {A} (p : A -> bool) (l : list A) (i : nat) : option nat :=
  match l with
  | [] => None
  | a :: r => if p a then Some i else find_first p r (S i)
  end.

Fixpoint find_last {A} (p : A -> bool) (l : list A) (i : nat) (acc : option nat) : option nat :=
  match l with
  | [] => acc
  | a :: r => find_last p r (S i) (if p a then Some i else acc)
  end.

Definition count_if {A} (p : A -> bool) (l : list A) : nat := List.length (filter p l).

Fixpoint update_nth {A} (n : nat) (f : A -> A) (l : list A) : list A :=
  match l, n with
  | [], _ => []
  | a :: r, O => f a :: r
  | a :: r, S m => a :: update_nth m f r
  end.

(* The row index the code merges into:  np.argwhere(duplicate_flag.all(axis=1))[0, 0]
   i.e. the first row EQUAL to x.  (Before the repair recorded in known_findings.json the
   code used np.argwhere(duplicate_flag)[0, 0] on the element-wise matrix = the first row
   sharing ANY coordinate with x; that version is kept below as [merge_index_elementwise]
   for the historical refutation theorem.) *)
Definition merge_index (x : list Q) (rs : list row) : option nat :=
  find_first (fun r => qlist_eqb (r_x r) x) rs 0.
Definition merge_index_elementwise (x : list Q) (rs : list row) : option nat :=
  find_first (fun r => qlist_any_eq (r_x r) x) rs 0.

Definition qinv2 (sd : Q) : Q := Qred (/ (sd * sd))%Q.

Definition merge_row (fv sd : Q) (r : row) : row :=
  match r_tau r with
  | Some tn =>
      let t1 := qinv2 sd in
      mkRow (r_xo r) (r_x r) (r_yo r) (Qred ((tn * r_y r + t1 * fv) / (tn + t1)))%Q (Some (Qred (tn + t1))%Q) (r_n r + 1)
  | None => r  (* NaN poison in the code; excluded by [well_formed_op] / the generator *)
  end.

Definition ceil_half (n : Z) : Z := (n + 1) / 2.

(* _record(x_orig, x, fval_orig, fsd, record_duplicate_data) *)
Definition record_with (midx : list Q -> list row -> option nat)
           (s : lstate) (x xo : list Q) (fv : Q) (fsd : option Q) (recordp : bool)
  : lstate * result :=
  if negb recordp then
    match find_last (fun r => qlist_eqb (r_x r) x) (rows s) 0 None with
    | Some i =>
        (mkL (update_nth i (fun r => mkRow (r_xo r) (r_x r) (r_yo r) (r_y r) (r_tau r) (r_n r + 1)) (rows s))
             (cap s) (func_count s) (cache_count s) (noise_flag s) (he_flag s),
         Ret fv fsd (Some i))
    | None => (s, Ret fv fsd None)
    end
  else
    let dup := match fsd with
               | Some sd =>
                   if existsb (fun r => qlist_eqb (r_x r) x) (rows s) then
                     if (1 <? count_if (fun r => qlist_eqb (r_x r) x) (rows s))%nat then Some (inr tt)
                     else match midx x (rows s) with
                          | Some i => Some (inl (i, sd))
                          | None => None
                          end
                   else None
               | None => None
               end in
    match dup with
    | Some (inr _) => (s, Exn "ValueError")
    | Some (inl (i, sd)) =>
        let rs' := update_nth i (merge_row fv sd) (rows s) in
        let y' := match nth_error rs' i with Some r => r_y r | None => fv end in
        (mkL rs' (cap s) (func_count s) (cache_count s) (noise_flag s) (he_flag s),
         Ret y' fsd (Some i))
    | None =>
        let xn := Z.of_nat (List.length (rows s)) in     (* Xn after the increment *)
        let cap' := if xn >? cap s - 1 then cap s + Z.max (ceil_half xn) 1 else cap s in
        let r := mkRow xo x fv fv (match fsd with Some sd => Some (qinv2 sd) | None => None end) 1 in
        (mkL (rows s ++ [r]) cap' (func_count s) (cache_count s) (noise_flag s) (he_flag s),
         Ret fv fsd (Some (List.length (rows s))))
    end.

Definition record := record_with merge_index.

Definition bump_fc (s : lstate) : lstate :=
  mkL (rows s) (cap s) (func_count s + 1) (cache_count s) (noise_flag s) (he_flag s).
Definition bump_cc (s : lstate) : lstate :=
  mkL (rows s) (cap s) (func_count s) (cache_count s + 1) (noise_flag s) (he_flag s).

Definition sd_ok (sd : option Q) : bool :=
  match sd with Some q => negb (Qle_bool q 0) | None => false end.

Definition step_with (midx : list Q -> list row -> option nat) (s : lstate) (o : op) : lstate * result :=
  match o with
  | Call x xo oc recordp =>
      match oc with
      | Raise e => (s, Exn e)
      | BadVal _ => (s, Exn "ValueError")
      | OkVal y sd =>
          if he_flag s then
            if sd_ok sd then
              let '(s', r) := record_with midx s x xo y sd recordp in
              match r with Exn _ => (s, r) | _ => (bump_fc s', r) end
            else (s, Exn "ValueError")
          else
            let '(s', r) := record_with midx s x xo y None recordp in
            match r with Exn _ => (s, r) | _ => (bump_fc s', r) end
      end
  | Add x xo y sd =>
      let fsd := if noise_flag s then (match sd with Some q => Some q | None => Some 1%Q end) else None in
      if noise_flag s && negb (sd_ok fsd) then (s, Exn "ValueError")
      else
        let s1 := bump_cc s in
        let '(s', r) := record_with midx s1 x xo y fsd true in
        match r with Exn _ => (s1, r) | _ => (s', r) end
  | Finalize =>
      (mkL (rows s) (Z.of_nat (List.length (rows s))) (func_count s) (cache_count s) (noise_flag s) (he_flag s), Done)
  end.

Definition step := step_with merge_index.

Fixpoint run_with midx (s : lstate) (ops : list op) : lstate * list (lstate * result) :=
  match ops with
  | [] => (s, [])
  | o :: r =>
      let '(s', res) := step_with midx s o in
      let '(sf, tr) := run_with midx s' r in
      (sf, (s', res) :: tr)
  end.

(* ---- canonical dump, compared with the implementation after every op ---- *)
Definition dump_row (r : row) : val :=
  VL [vq_list (r_xo r); vq_list (r_x r); VQ (Qred (r_yo r)); VQ (Qred (r_y r));
      match r_tau r with Some t => VQ (Qred (/ t)%Q) | None => VNone end; VZ (r_n r)].
Definition dump_counters (s : lstate) : val :=
  VL [VZ (Z.of_nat (List.length (rows s)) - 1); VZ (cap s); VZ (func_count s); VZ (cache_count s)].
Definition dump_result (r : result) : val :=
  match r with
  | Ret fv fsd idx => VL [VQ (Qred fv); vopt (fun q => VQ (Qred q)) fsd; vopt (fun n => VZ (Z.of_nat n)) idx]
  | Exn c => VS c
  | Done => VNone
  end.
(* per op: (result, counters); then the full row dump of the final state *)
Definition run_logger_with midx (cache_size : Z) (noise he : bool) (ops : list op) : val :=
  let '(sf, tr) := run_with midx (init_logger cache_size noise he) ops in
  VL [VL (map (fun sr => VL [dump_result (snd sr); dump_counters (fst sr)]) tr);
      VL (map dump_row (rows sf))].
Definition run_logger := run_logger_with merge_index.
Definition run_logger_elementwise := run_logger_with merge_index_elementwise.
