(* History.v — model M11: the two record containers of pybads.

   IterationHistory (pybads/utils/iteration_history.py): a dict  key -> None | 1-D object array of
   cells, with __setitem__ (deep copy, unknown key => ValueError once check_keys is on), record,
   _expand_array, record_iteration, __getitem__, __delitem__.
   OptimizeResult (pybads/bads/optimize_result.py): a dict restricted to the 21 names of _keys, with
   __setitem__ (deep copy, unknown key => ValueError), __getitem__, __getattr__, __delitem__ and
   set_attributes (which keys it writes).

   Python object identity is modelled by a tag on every value:
     Imm    an immutable object (int, float, str, None ...): copy.deepcopy returns the object itself and
            nobody can change it, so its identity is irrelevant;
     Ext n  a mutable object owned by the environment (the caller's list / dict / ndarray number n);
     Own n  a mutable object allocated by the container (by copy.deepcopy), numbered by the container's
            allocation counter [next].
   copy.deepcopy is modelled exactly for flat arrays of atomic values, INCLUDING its memo: inside one
   deepcopy call the same source object is copied once and the copy is shared.
   The environment can change a mutable object in place: op [Mutate id p] gives payload p to every
   stored occurrence of the object id (this is what a Python reference does).  "The container holds a
   copy" = no Mutate of an environment object (Ext) ever changes what is stored.

   Executable, total; no proofs here (Proofs/HistoryProofs.v). *)
From Coq Require Import ZArith List String Bool.
From PV Require Import Model.Val.
Import ListNotations.
Open Scope Z_scope.

(* ------------------------------------------------------------------ values and identities *)

Inductive ident : Type := Imm | Ext (n : nat) | Own (n : nat).

Definition ident_eqb (a b : ident) : bool :=
  match a, b with
  | Imm, Imm => true
  | Ext n, Ext m => Nat.eqb n m
  | Own n, Own m => Nat.eqb n m
  | _, _ => false
  end.

Record value : Type := mkV { payload : val; vid : ident }.

(* a cell of a history array: None = Python None (padding) *)
Definition cell : Type := option value.

(* what a key of IterationHistory maps to *)
Inductive stored : Type :=
| SNone                                     (* None: nothing recorded yet *)
| SArr (aid : nat) (cells : list cell)      (* the 1-D object array, itself an object (identity aid) *)
| SScalar (p : val).                        (* an unsized immutable scalar put there with h[k] = 5 *)

(* what the environment may assign with h[k] = ... *)
Inductive src : Type :=
| SrcNone
| SrcArr (cells : list cell)
| SrcScalar (p : val).

(* ------------------------------------------------------------------ copy.deepcopy *)

Fixpoint memo_find (id : ident) (memo : list (ident * nat)) : option nat :=
  match memo with
  | [] => None
  | (i, n) :: r => if ident_eqb id i then Some n else memo_find id r
  end.

(* deep copy of one atomic value under a memo; n = allocation counter *)
Definition copy_val (memo : list (ident * nat)) (n : nat) (v : value)
  : value * (list (ident * nat) * nat) :=
  match vid v with
  | Imm => (v, (memo, n))
  | id =>
      match memo_find id memo with
      | Some m => (mkV (payload v) (Own m), (memo, n))
      | None => (mkV (payload v) (Own n), ((id, n) :: memo, S n))
      end
  end.

Fixpoint copy_cells (memo : list (ident * nat)) (n : nat) (cs : list cell) : list cell * nat :=
  match cs with
  | [] => ([], n)
  | None :: r => let (r', n') := copy_cells memo n r in (None :: r', n')
  | Some v :: r =>
      let '(v', (memo', n1)) := copy_val memo n v in
      let (r', n') := copy_cells memo' n1 r in (Some v' :: r', n')
  end.

(* one copy.deepcopy(value) call: fresh memo *)
Definition copy1 (n : nat) (v : value) : value * nat :=
  let '(v', (_, n')) := copy_val [] n v in (v', n').

(* ------------------------------------------------------------------ the dict *)

Section Assoc.
  Context {A : Type}.
  Fixpoint lookup (k : string) (l : list (string * A)) : option A :=
    match l with
    | [] => None
    | (k', a) :: r => if String.eqb k k' then Some a else lookup k r
    end.
  (* replace the first binding of k (no effect when k is absent) *)
  Fixpoint upd (k : string) (a : A) (l : list (string * A)) : list (string * A) :=
    match l with
    | [] => []
    | (k', a') :: r => if String.eqb k k' then (k', a) :: r else (k', a') :: upd k a r
    end.
  (* replace, or append when absent (dict.__setitem__) *)
  Definition put (k : string) (a : A) (l : list (string * A)) : list (string * A) :=
    match lookup k l with
    | Some _ => upd k a l
    | None => l ++ [(k, a)]
    end.
  Fixpoint remove_key (k : string) (l : list (string * A)) : list (string * A) :=
    match l with
    | [] => []
    | (k', a') :: r => if String.eqb k k' then remove_key k r else (k', a') :: remove_key k r
    end.
End Assoc.

Record hstate : Type := mkH { items : list (string * stored); next : nat }.

(* IterationHistory(keys): every key bound to None, then check_keys = True *)
Definition init_history (keys : list string) : hstate :=
  mkH (fold_left (fun l k => put k SNone l) keys []) 0%nat.

Inductive op : Type :=
| SetItem (k : string) (v : src)                        (* h[k] = v *)
| Record (k : string) (v : value) (i : Z)               (* h.record(k, v, i) *)
| RecordIteration (kvs : list (string * value)) (i : Z) (* h.record_iteration(dict(kvs), i) *)
| Get (k : string)                                      (* h[k] *)
| Del (k : string)                                      (* del h[k] *)
| Mutate (id : ident) (p : val).                        (* environment changes object id in place *)

Inductive result : Type :=
| Ok
| Err (e : string)
| Ref (s : stored).      (* a reference to the stored object (NOT a copy) *)

Fixpoint set_nth {A} (n : nat) (a : A) (l : list A) : list A :=
  match l, n with
  | [], _ => []
  | _ :: r, O => a :: r
  | x :: r, S m => x :: set_nth m a r
  end.

(* __setitem__ with check_keys on *)
Definition do_setitem (s : hstate) (k : string) (v : src) : hstate * result :=
  match lookup k (items s) with
  | None => (s, Err "ValueError")
  | Some _ =>
      match v with
      | SrcNone => (mkH (upd k SNone (items s)) (next s), Ok)
      | SrcScalar p => (mkH (upd k (SScalar p) (items s)) (next s), Ok)
      | SrcArr cs =>
          let (cs', n') := copy_cells [] (S (next s)) cs in
          (mkH (upd k (SArr (next s) cs') (items s)) n', Ok)
      end
  end.

(* the array that record() works on after its first two statements:
   None -> deepcopy(np.full([1], None));  too short -> deepcopy(np.append(old, padding)) *)
Definition ensure_array (n : nat) (st : stored) : option (nat * list cell * nat) :=
  match st with
  | SNone => Some (n, [None], S n)
  | SArr a cs => Some (a, cs, n)
  | SScalar _ => None
  end.

Definition grow (a : nat) (cs : list cell) (n : nat) (i : nat) : nat * list cell * nat :=
  if Nat.leb (List.length cs) i
  then let (cs', n') := copy_cells [] (S n) (cs ++ repeat None (S i - List.length cs)) in (n, cs', n')
  else (a, cs, n).

Definition do_record (s : hstate) (k : string) (v : value) (i : Z) : hstate * result :=
  if i <? 0 then (s, Err "ValueError")
  else
    match lookup k (items s) with
    | None => (s, Err "ValueError")
    | Some st =>
        match ensure_array (next s) st with
        | None => (s, Err "TypeError")            (* len() of an unsized scalar *)
        | Some (a1, cs1, n1) =>
            let '(a2, cs2, n2) := grow a1 cs1 n1 (Z.to_nat i) in
            let (v', n3) := copy1 n2 v in
            (mkH (upd k (SArr a2 (set_nth (Z.to_nat i) (Some v') cs2)) (items s)) n3, Ok)
        end
    end.

Fixpoint do_record_all (s : hstate) (kvs : list (string * value)) (i : Z) : hstate * result :=
  match kvs with
  | [] => (s, Ok)
  | (k, v) :: r =>
      match lookup k (items s) with
      | None => (s, Err "ValueError")
      | Some _ =>
          match do_record s k v i with
          | (s', Ok) => do_record_all s' r i
          | (s', e) => (s', e)
          end
      end
  end.

Definition mutate_cell (id : ident) (p : val) (c : cell) : cell :=
  match c with
  | Some v => if ident_eqb (vid v) id then Some (mkV p (vid v)) else c
  | None => None
  end.

Definition mutate_stored (id : ident) (p : val) (st : stored) : stored :=
  match st with
  | SArr a cs => SArr a (map (mutate_cell id p) cs)
  | _ => st
  end.

Definition do_mutate (s : hstate) (id : ident) (p : val) : hstate :=
  match id with
  | Imm => s
  | _ => mkH (map (fun kv => (fst kv, mutate_stored id p (snd kv))) (items s)) (next s)
  end.

Definition step (s : hstate) (o : op) : hstate * result :=
  match o with
  | SetItem k v => do_setitem s k v
  | Record k v i => do_record s k v i
  | RecordIteration kvs i => if i <? 0 then (s, Err "ValueError") else do_record_all s kvs i
  | Get k => match lookup k (items s) with Some st => (s, Ref st) | None => (s, Err "KeyError") end
  | Del k => match lookup k (items s) with
             | Some _ => (mkH (remove_key k (items s)) (next s), Ok)
             | None => (s, Err "KeyError")
             end
  | Mutate id p => (do_mutate s id p, Ok)
  end.

Definition run (s : hstate) (ops : list op) : hstate :=
  fold_left (fun s o => fst (step s o)) ops s.

(* observations used by the laws *)
Definition cells_of (s : hstate) (k : string) : option (list cell) :=
  match lookup k (items s) with
  | Some (SArr _ cs) => Some cs
  | _ => None
  end.
Definition cell_at (s : hstate) (k : string) (i : nat) : option cell :=
  match cells_of s k with
  | Some cs => nth_error cs i
  | None => None
  end.
Definition cell_payload (c : cell) : option val := option_map payload c.
Definition payloads (cs : list cell) : list (option val) := map cell_payload cs.
(* length of the array under k; 0 when the key holds None (what record() starts from) *)
Definition len_of (s : hstate) (k : string) : nat :=
  match cells_of s k with Some cs => List.length cs | None => O end.

(* ------------------------------------------------------------------ OptimizeResult *)

Definition result_keys : list string :=
  ["x"; "x0"; "success"; "status"; "message"; "fun"; "func_count"; "iterations"; "target_type";
   "problem_type"; "mesh_size"; "non_box_cons"; "yval_vec"; "ysd_vec"; "fval"; "fsd"; "total_time";
   "overhead"; "random_seed"; "algorithm"; "version"]%string.

(* the keys set_attributes assigns, in its order: all 21 names of _keys (status since commit 39edf28) *)
Definition set_attributes_keys : list string :=
  ["fun"; "non_box_cons"; "target_type"; "problem_type"; "iterations"; "func_count"; "mesh_size";
   "overhead"; "algorithm"; "yval_vec"; "ysd_vec"; "x0"; "x"; "fval"; "fsd"; "total_time";
   "random_seed"; "version"; "success"; "status"; "message"]%string.

Definition mem_str (k : string) (l : list string) : bool := existsb (String.eqb k) l.

Record rstate : Type := mkR { ritems : list (string * value); rnext : nat }.
Definition init_result : rstate := mkR [] 0%nat.

Inductive rop : Type :=
| RSet (k : string) (v : value)      (* r[k] = v *)
| RGet (k : string)                  (* r[k] *)
| RGetAttr (k : string)              (* r.k   (k is not the name of a dict method) *)
| RDel (k : string)                  (* del r[k] *)
| RMutate (id : ident) (p : val).

Inductive rresult : Type :=
| ROk
| RErr (e : string)
| RRef (v : value).

Definition rmutate_val (id : ident) (p : val) (v : value) : value :=
  if ident_eqb (vid v) id then mkV p (vid v) else v.

Definition rstep (s : rstate) (o : rop) : rstate * rresult :=
  match o with
  | RSet k v =>
      if mem_str k result_keys
      then let (v', n') := copy1 (rnext s) v in (mkR (put k v' (ritems s)) n', ROk)
      else (s, RErr "ValueError")
  | RGet k => match lookup k (ritems s) with Some v => (s, RRef v) | None => (s, RErr "KeyError") end
  | RGetAttr k => match lookup k (ritems s) with Some v => (s, RRef v) | None => (s, RErr "AttributeError") end
  | RDel k => match lookup k (ritems s) with
              | Some _ => (mkR (remove_key k (ritems s)) (rnext s), ROk)
              | None => (s, RErr "KeyError")
              end
  | RMutate id p =>
      match id with
      | Imm => (s, ROk)
      | _ => (mkR (map (fun kv => (fst kv, rmutate_val id p (snd kv))) (ritems s)) (rnext s), ROk)
      end
  end.

Definition rrun (s : rstate) (ops : list rop) : rstate :=
  fold_left (fun s o => fst (rstep s o)) ops s.

(* OptimizeResult(bads): set_attributes assigns its keys in order; vals = what it reads from bads *)
Definition set_attributes (s : rstate) (vals : string -> value) : rstate :=
  rrun s (map (fun k => RSet k (vals k)) set_attributes_keys).
