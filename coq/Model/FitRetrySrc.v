(* FitRetrySrc.v — what a program GENERATED from pybads/bads/gaussian_process_train.py by translate/fitretry.py MEANS
   (coq/gen/Src_fitretry.v instantiates [robust_src] and [init_src]), and the same two programs written by hand
   ([model_robust], [model_init]).  Executable, no proofs.  Proofs/FitRetrySourceProofs.v shows that the interpreter
   on the generated program is Model/FitRetry.v's hand-written state machine for ALL inputs.

   _robust_gp_fit_ is read as
       <prologue: copies of the training set, n_try, success_flag>            -> rs_n_try, rs_flag_init
       for i_try in range(n_try):
           try:    new_hyp, _, res = tmp_gp.fit(<args>, ...); break            -> rs_fit_args, rs_binds_res, rs_try_breaks
           except <classes>: <handler>                                        -> rs_caught, rs_handler
       <epilogue>                                                             -> rs_success, rs_success_else, rs_return, rs_epilogue
   The state the interpreter runs on is the hand-written model's: the LENGTHS of X, Y, the local s2 and tmp_gp.s2.
   Oracles ([fails], [drops]) are those of Model/FitRetry.v; what gpyreg.GP.fit does with its arguments before any
   linear algebra is FitRetry.convert_error / stored_after_fit (shared, not generated: it is gpyreg, not pybads).
   Statements of the handler that do not touch the lengths (new start point of the hyper-parameters, noise nudging)
   are carried as canonical text [HPin] in their position: they are compared, not interpreted. *)
From Coq Require Import ZArith List Bool String Arith.
From PV Require Import Model.FitRetry.
Import ListNotations.
Open Scope string_scope.
Open Scope Z_scope.

(* the four arrays whose lengths are tracked: locals X, Y, s2 (copies of x_train, y_train, s2_train) and tmp_gp.s2 *)
Inductive avar : Type := VX | VY | VS2 | VTmp
                       | VGpX | VGpY.   (* tmp_gp.X, tmp_gp.y: the training set stored ON the GP object (by fit, and by the drop step) *)

(* integer expressions / the guard of the drop step; `a > b` is emitted as ZLt b a, `a >= b` as ZLe b a *)
Inductive zexpr : Type :=
| ZItry                                  (* the loop variable *)
| ZOpt (key : string)                    (* options[key] *)
| ZConst (c : Z)
| ZAdd (a b : zexpr)
| ZSub (a b : zexpr).
Inductive zcond : Type := ZLt (a b : zexpr) | ZLe (a b : zexpr).

(* guard of one masked store (Python `and` = left-to-right, short-circuit) *)
Inductive sguard : Type :=
| GAlways
| GNotNone (v : avar)                    (* v is not None *)
| GNotScalar (v : avar)                  (* not np.isscalar(v) *)
| GSizePos (v : avar)                    (* v.size > 0 *)
| GAnd (a b : sguard).

Inductive mapp : Type := MDrop | MKeep   (* v = v[~mask]  /  v = v[mask] *)
                       | MCopy (src : avar).   (* v = src : the whole (already trimmed) array src, no mask involved *)

(* the boolean drop mask, as the source builds it *)
Record mask_src : Type := mkMask {
  mk_len : avar;                         (* np.zeros(len(v)).astype(bool): the length of the mask *)
  mk_pair : avar * avar;                 (* cdist(a, b), lower triangle and diagonal set to inf, argmin: the closest pair;
                                            np.argmin raises ValueError when a has no row *)
  mk_worse : string * nat * nat * avar * nat * nat;
                                         (* (op, l, r, v, t, e): if v[pair[l]] op v[pair[r]] then mask[pair[t]] = True
                                            else mask[pair[e]] = True; `>`/`>=` emitted as Lt/Le with swapped operands *)
  mk_or : string * bool * avar * Z       (* mask = logical_or(mask, (v op percentile(v, q)).flatten()):
                                            (op, percentile on the LEFT of op after normalisation, v, q) *)
}.

Inductive hstmt : Type :=
| HFlag (b : bool)                                                   (* success_flag[i_try] = b *)
| HDropIf (c : zcond) (m : mask_src) (stores : list (avar * sguard * mapp))
| HPin (text : string).                                              (* not interpreted (no effect on the lengths) *)

Inductive scond : Type := SAllFalse | SAllTrue | SAnyFalse | SAnyTrue.   (* np.all(~f), np.all(f), np.any(~f), np.any(f) *)

Record robust_src : Type := mkRobust {
  rs_n_try : nat;
  rs_flag_init : bool;
  rs_prologue : list string;             (* statements before the loop other than the tracked copies, canonical text *)
  rs_fit_recv : string;                  (* canonical text of the object whose fit is called *)
  rs_fit_args : list avar;               (* positional arguments of fit, by role *)
  rs_fit_kw : list string;               (* keyword arguments, canonical text *)
  rs_binds_res : bool;                   (* the try body binds the name returned as 3rd component *)
  rs_try_breaks : bool;                  (* the try body ends in `break` *)
  rs_caught : list string;               (* exception classes of the handler (last component of the dotted name) *)
  rs_handler : list hstmt;
  rs_success : list (scond * Z);         (* if / elif chain computing `success` *)
  rs_success_else : Z;
  rs_epilogue : list string;             (* other statements after the loop, canonical text *)
  rs_return : list string                (* roles of the returned names *)
}.

(* ---------- interpreter ---------- *)
Record lens : Type := mkL { l_X : nat; l_Y : nat; l_s2 : s2len; l_tmp : option nat; l_gX : nat; l_gY : nat }.

Definition alen (v : avar) (st : lens) : option nat :=          (* None: not an array *)
  match v with
  | VX => Some (l_X st)
  | VY => Some (l_Y st)
  | VS2 => match l_s2 st with S2Arr m => Some m | _ => None end
  | VTmp => l_tmp st
  | VGpX => Some (l_gX st)
  | VGpY => Some (l_gY st)
  end.
Definition aset (v : avar) (n : nat) (st : lens) : lens :=
  match v with
  | VX => mkL n (l_Y st) (l_s2 st) (l_tmp st) (l_gX st) (l_gY st)
  | VY => mkL (l_X st) n (l_s2 st) (l_tmp st) (l_gX st) (l_gY st)
  | VS2 => mkL (l_X st) (l_Y st) (S2Arr n) (l_tmp st) (l_gX st) (l_gY st)
  | VTmp => mkL (l_X st) (l_Y st) (l_s2 st) (Some n) (l_gX st) (l_gY st)
  | VGpX => mkL (l_X st) (l_Y st) (l_s2 st) (l_tmp st) n (l_gY st)
  | VGpY => mkL (l_X st) (l_Y st) (l_s2 st) (l_tmp st) (l_gX st) n
  end.
Definition is_none (v : avar) (st : lens) : bool :=
  match v with
  | VS2 => match l_s2 st with S2None => true | _ => false end
  | VTmp => match l_tmp st with None => true | _ => false end
  | _ => false
  end.
Definition is_scalar (v : avar) (st : lens) : bool :=
  match v with VS2 => match l_s2 st with S2Scalar => true | _ => false end | _ => false end.

(* None = the guard itself raises (attribute of None) *)
Fixpoint geval (g : sguard) (st : lens) : option bool :=
  match g with
  | GAlways => Some true
  | GNotNone v => Some (negb (is_none v st))
  | GNotScalar v => Some (negb (is_scalar v st))
  | GSizePos v => match alen v st with Some n => Some (Nat.ltb 0 n) | None => None end
  | GAnd a b => match geval a st with
                | Some true => geval b st
                | other => other
                end
  end.

Fixpoint zeval (e : zexpr) (i_try : nat) (rpat : Z) : option Z :=
  match e with
  | ZItry => Some (Z.of_nat i_try)
  | ZOpt key => if String.eqb key "remove_points_after_tries" then Some rpat else None
  | ZConst c => Some c
  | ZAdd a b => match zeval a i_try rpat, zeval b i_try rpat with Some x, Some y => Some (x + y) | _, _ => None end
  | ZSub a b => match zeval a i_try rpat, zeval b i_try rpat with Some x, Some y => Some (x - y) | _, _ => None end
  end.
Definition zcond_eval (c : zcond) (i_try : nat) (rpat : Z) : option bool :=
  match c with
  | ZLt a b => match zeval a i_try rpat, zeval b i_try rpat with Some x, Some y => Some (Z.ltb x y) | _, _ => None end
  | ZLe a b => match zeval a i_try rpat, zeval b i_try rpat with Some x, Some y => Some (Z.leb x y) | _, _ => None end
  end.

(* Does the mask mark one member of the closest pair on BOTH arms (so that at least one row goes)? *)
Definition marks_one (m : mask_src) : bool :=
  let '(_, l, r, _, t, e) := mk_worse m in
  Nat.ltb l 2 && Nat.ltb r 2 && Nat.ltb t 2 && Nat.ltb e 2.

(* number of True entries of a mask of [len] entries, the oracle saying [d]:
   with a marked member of the closest pair at least one, never more than the length *)
Definition mask_count (m : mask_src) (d len : nat) : nat :=
  if marks_one m then clip_drop d len else Nat.min d len.

Definition ix_error : string := "IndexError: boolean index did not match".

(* the masked stores, in source order; inl = the exception that leaves the function *)
Fixpoint run_stores (stores : list (avar * sguard * mapp)) (len k : nat) (st : lens) : string + lens :=
  match stores with
  | [] => inr st
  | (v, g, app) :: rest =>
      match geval g st with
      | None => inl "AttributeError: 'NoneType' object has no attribute 'size'"
      | Some false => run_stores rest len k st
      | Some true =>
          match app with
          | MCopy src =>
              match alen src st with
              | None => inl "TypeError: object is not subscriptable"
              | Some n => run_stores rest len k (aset v n st)
              end
          | _ =>
              match alen v st with
              | None => inl "TypeError: object is not subscriptable"
              | Some n =>
                  if Nat.eqb n len
                  then run_stores rest len k (aset v (match app with MDrop => n - k | _ => k end)%nat st)
                  else inl ix_error
              end
          end
      end
  end.

(* one handler run: (lengths, flags) -> the same, or the exception *)
Definition set_flag (i : nat) (b : bool) (fl : list bool) : list bool :=
  firstn i fl ++ match skipn i fl with [] => [] | _ :: r => b :: r end.

Fixpoint run_handler (h : list hstmt) (i_try : nat) (rpat : Z) (d : nat) (st : lens) (fl : list bool)
  : string + (lens * list bool) :=
  match h with
  | [] => inr (st, fl)
  | HPin _ :: rest => run_handler rest i_try rpat d st fl
  | HFlag b :: rest =>
      if Nat.ltb i_try (List.length fl) then run_handler rest i_try rpat d st (set_flag i_try b fl)
      else inl "IndexError: index out of bounds"
  | HDropIf c m stores :: rest =>
      match zcond_eval c i_try rpat with
      | None => inl "KeyError: option"
      | Some false => run_handler rest i_try rpat d st fl
      | Some true =>
          match alen (mk_len m) st, alen (fst (mk_pair m)) st with
          | Some len, Some rows =>
              match rows with
              | O => inl "ValueError: argmin of an empty sequence"
              | _ =>
                  match run_stores stores len (mask_count m d len) st with
                  | inl e => inl e
                  | inr st' => run_handler rest i_try rpat d st' fl
                  end
              end
          | _, _ => inl "TypeError: object has no len"
          end
      end
  end.

Definition scond_eval (c : scond) (fl : list bool) : bool :=
  match c with
  | SAllFalse => forallb negb fl
  | SAllTrue => forallb (fun b => b) fl
  | SAnyFalse => existsb negb fl
  | SAnyTrue => existsb (fun b => b) fl
  end.
Fixpoint success_of (chain : list (scond * Z)) (dflt : Z) (fl : list bool) : Z :=
  match chain with
  | [] => dflt
  | (c, v) :: rest => if scond_eval c fl then v else success_of rest dflt fl
  end.

(* `except C`: C catches the raised class or one of its bases.  The only class the oracle raises is numpy.linalg.LinAlgError,
   a subclass of ValueError (-> Exception -> BaseException). *)
Definition bases_of (cls : string) : list string :=
  if String.eqb cls "LinAlgError" then ["LinAlgError"; "ValueError"; "Exception"; "BaseException"] else [cls; "Exception"; "BaseException"].
Definition caught (cls : string) (l : list string) : bool :=
  existsb (fun c => existsb (String.eqb c) (bases_of cls)) l.

(* after the loop: the return statement reads `res`, which only a successful fit binds *)
Definition finish (p : robust_src) (res_bound : bool) (fl : list bool) (tr : list attempt) : rf_result :=
  if existsb (String.eqb "res") (rs_return p) && negb res_bound
  then RFStuck "UnboundLocalError: res unbound" (rev tr)
  else RFReturned (success_of (rs_success p) (rs_success_else p) fl) (rev tr).

Section RunRobust.
  Variable p : robust_src.
  Variable rpat : Z.
  Variable fails : nat -> bool.      (* fit invocation j raises np.linalg.LinAlgError *)
  Variable drops : nat -> nat.

  Fixpoint run_loop (left i_try j : nat) (st : lens) (fl : list bool) (res_bound : bool) (tr : list attempt) : rf_result :=
    match left with
    | O => finish p res_bound fl tr
    | S left' =>
        match rs_fit_args p with
        | [VX; VY; VS2] =>
            let tr' := mkA (l_X st) (l_Y st) (l_s2 st) (l_tmp st) :: tr in
            match convert_error (l_X st) (l_Y st) (l_s2 st) with
            | Some msg => RFStuck msg (rev tr')
            | None =>
                (* GP.fit stores its arguments on the object before any linear algebra: self.X, self.y (and s2 when given) *)
                let st1 := mkL (l_X st) (l_Y st) (l_s2 st) (stored_after_fit (l_X st) (l_s2 st) (l_tmp st)) (l_X st) (l_Y st) in
                if negb (fails j) then
                  if rs_try_breaks p then finish p (rs_binds_res p) fl tr'
                  else run_loop left' (S i_try) (S j) st1 fl (rs_binds_res p || res_bound) tr'
                else if caught "LinAlgError" (rs_caught p) then
                  match run_handler (rs_handler p) i_try rpat (drops j) st1 fl with
                  | inl e => RFStuck e (rev tr')
                  | inr (st2, fl2) => run_loop left' (S i_try) (S j) st2 fl2 res_bound tr'
                  end
                else RFStuck "LinAlgError: not caught by the handler" (rev tr')
            end
        | _ => RFStuck "fit arguments outside the model" (rev tr)
        end
    end.

  Definition run_robust (j nX nY : nat) (s2 : s2len) (tmp : option nat) : rf_result :=
    run_loop (rs_n_try p) 0 j (mkL nX nY s2 tmp nX nY) (repeat (rs_flag_init p) (rs_n_try p)) false [].
End RunRobust.

(* the unique drop statement of a handler *)
Fixpoint drops_of (h : list hstmt) : list (zcond * mask_src * list (avar * sguard * mapp)) :=
  match h with
  | [] => []
  | HDropIf c m s :: r => (c, m, s) :: drops_of r
  | _ :: r => drops_of r
  end.

(* ---------- init_and_train_gp: `while not fitted` ---------- *)
Inductive istart : Type :=
| IGiven                                 (* hyp0=hyp0 *)
| IZerosLike                             (* np.zeros(shape=hyp0.shape): AttributeError when hyp0 is None *)
| IPrior.                                (* _get_random_samples_from_priors_(gp) *)
Record init_arm : Type := mkArm {
  ia_test : option Z;                    (* training_failures == c ; None = the else arm *)
  ia_start : istart;
  ia_fit_args : list string;             (* roles of the positional arguments of gp.fit *)
  ia_sets_fitted : bool;                 (* the arm ends with fitted = True (after the fit) *)
  ia_after : list string                 (* the other statements after the fit, canonical text *)
}.
Record init_src : Type := mkInit {
  is_fitted0 : bool;                     (* fitted = False *)
  is_tf0 : Z;                            (* training_failures = 0 *)
  is_cond : string;                      (* the while test, canonical: "not fitted" *)
  is_arms : list init_arm;
  is_caught : list string;
  is_inc : Z                             (* training_failures += 1 in the handler *)
}.

Definition branch_of_start (s : istart) : init_branch :=
  match s with IGiven => BrHyp0 | IZerosLike => BrZeros | IPrior => BrPriorSample end.

Fixpoint pick_arm (arms : list init_arm) (tf : Z) : option init_arm :=
  match arms with
  | [] => None
  | a :: r => match ia_test a with
              | None => Some a
              | Some c => if Z.eqb tf c then Some a else pick_arm r tf
              end
  end.

(* [att] = fit invocations so far in this call; results are reported as Model/FitRetry.v does *)
Fixpoint run_init_loop (fuel : nat) (p : init_src) (fails : nat -> bool) (hyp0_none : bool) (j att : nat) (tf : Z) : init_result :=
  match fuel with
  | O => IOutOfFuel att
  | S f =>
      if negb (String.eqb (is_cond p) "not fitted") then IStuck "while test outside the model" att else
      match pick_arm (is_arms p) tf with
      | None => run_init_loop f p fails hyp0_none j att tf            (* no arm: nothing happens, the loop spins *)
      | Some a =>
          match ia_start a, hyp0_none with
          | IZerosLike, true => IStuck "AttributeError: hyp0 is None" att
          | _, _ =>
              if fails j then
                if caught "LinAlgError" (is_caught p) then run_init_loop f p fails hyp0_none (S j) (S att) (tf + is_inc p)
                else IStuck "LinAlgError: not caught by the handler" (S att)
              else if ia_sets_fitted a then IReturned (S att) (branch_of_start (ia_start a))
              else run_init_loop f p fails hyp0_none (S j) (S att) tf
          end
      end
  end.
Definition run_init (fuel : nat) (p : init_src) (fails : nat -> bool) (hyp0_none : bool) (j : nat) : init_result :=
  if is_fitted0 p then IReturned 0 BrHyp0 else run_init_loop fuel p fails hyp0_none j 0 (is_tf0 p).

(* ---------- the two programs as the hand-written model reads the source (the proofs are about THESE; the generated
   src_robust / src_init must be equal to them).  Names in the texts are canonical: a<k> = k-th parameter
   (a0 gp, a4 hyp_gp, a5 gp_train, a6 optim_state, a7 options), v<k> = k-th local in order of first occurrence
   (v0 noise_nudge, v1 tmp_gp, v5 new_hyp, v6 n_try, v14 old_hyp_gp, v15 nudge, v16 bounds, v17 noise_bound);
   `;;` separates lines, `>` is one level of indentation. ---------- *)
Definition model_mask : mask_src :=
  mkMask VY (VX, VX) ("Lt", 1%nat, 0%nat, VY, 0%nat, 1%nat) ("Lt", true, VY, 95).
  (* zeros(len(Y)); closest pair of cdist(X, X); if Y[p1] < Y[p0] (source: Y[p0] > Y[p1]) mark p0 else p1;
     or-ed with  percentile(Y, 95) < Y  (source: Y > percentile) *)
Definition model_drop_cond : zcond := ZLt (ZSub (ZOpt "remove_points_after_tries") (ZConst 1)) ZItry.   (* i_try > rpat - 1 *)
Definition model_drop_stores : list (avar * sguard * mapp) :=
  [(VX, GAlways, MDrop); (VY, GAlways, MDrop);
   (VGpX, GAlways, MCopy VX); (VGpY, GAlways, MCopy VY);      (* tmp_gp.X = X; tmp_gp.y = Y  AFTER the two stores above *)
   (VTmp, GAnd (GNotNone VTmp) (GSizePos VTmp), MDrop);
   (VS2, GAnd (GNotNone VS2) (GNotScalar VS2), MDrop)].
Definition model_robust : robust_src :=
  {|
  rs_n_try := 10%nat;
  rs_flag_init := true;
  rs_prologue := [
    "v0 = 0"; 
    "v1 = deepcopy(a0)"; 
    "v5 = a4.copy()"; 
    "v6 = 10"];
  rs_fit_recv := "v1.fit";
  rs_fit_args := [VX; VY; VS2];
  rs_fit_kw := ["hyp0=v5"; "options=a5"];
  rs_binds_res := true;
  rs_try_breaks := true;
  rs_caught := ["LinAlgError"];
  rs_handler := [
    HFlag false; 
    HDropIf model_drop_cond model_mask model_drop_stores; 
    HPin "v14 = a4.copy() if len(a4) == 1 else a4[-1].copy()"; 
    HPin "if a7['use_slice_sampler']: ;; >if len(v5) > 1: ;; >>v5 = v5[-1].copy() ;; >v5 = _get_samples_from_slice_sampler_(v1, v5, a6, a7) ;; else: ;; >v5 = _get_random_samples_from_priors_(a0)"; 
    HPin "if v5 is not None: ;; >v5 = 0.5 * (v5 + v14) ;; else: ;; >v5 = v14"; 
    HPin "v15 = a7['noise_nudge']"; 
    HPin "if v15 is None or len(v15) == 0: ;; >v15 = np.array([0, 0]) ;; elif len(v15) == 1: ;; >v15 = np.vstack((v15, 0.5 * v15[0]))"; 
    HPin "v0 = v0 + v15[0]"; 
    HPin "v16 = v1.get_bounds()"; 
    HPin "v17 = v16['noise_log_scale']"; 
    HPin "v17 = (v17[0] + v0, v17[1])"; 
    HPin "v16['noise_log_scale'] = v17"; 
    HPin "v1.set_bounds(v16)"; 
    HPin "v5 = v1.hyperparameters_to_dict(v5)"; 
    HPin "v5[0]['noise_log_scale'] = v5[0]['noise_log_scale'] + v0"; 
    HPin "v5 = v1.hyperparameters_from_dict(v5)"; 
    HPin "v1.set_hyperparameters(v5, compute_posterior=False)"];
  rs_success := [(SAllFalse, (-1)); (SAllTrue, 1)];
  rs_success_else := 0;
  rs_epilogue := [
    "if SAnyTrue: a0.set_hyperparameters(v5, False)"];
  rs_return := ["gp"; "new_hyp"; "res"; "success"] |}.

Definition model_init : init_src :=
  {|
  is_fitted0 := false;
  is_tf0 := 0;
  is_cond := "not fitted";
  is_arms := [
    mkArm (Some 0) IGiven ["v3.fit"; "v4"; "v5"; "v6"; "options=v8"] true []; 
    mkArm (Some 3) IZerosLike ["v3.fit"; "v4"; "v5"; "v6"; "options=v8"] true ["v7 = v9"; "v10['hyp'] = v7"]; 
    mkArm None IPrior ["v3.fit"; "v4"; "v5"; "v6"; "options=v8"] true ["v7 = v9"; "v10['hyp'] = v7"]];
  is_caught := ["LinAlgError"];
  is_inc := 1 |}.

(* ---------- the restart of the hyper-parameters after a failed attempt, INTERPRETED for the noise coordinate ----------
   The statements are pinned as text in rs_handler (position, surrounding calls); in addition the translator extracts the
   five arithmetic expressions and this section says what they compute.  Scalars (one coordinate of the hyper-parameter
   vector, the noise_log_scale one): [s] = the resampled start point (prior sample / slice sampler; None = the slice
   sampler failed), [old] = the last start point handed in (hyp_gp[-1]), [nn] = the local noise_nudge before the failure,
   [n0] = options["noise_nudge"][0] after defaulting, [lb] = the lower bound of noise_log_scale stored on tmp_gp. *)
From Coq Require Import QArith.
Inductive qexpr : Type :=
| QNew | QOld | QNn | QNudge0 | QLb
| QConst (q : Q)
| QAdd (a b : qexpr)
| QMul (a b : qexpr).
Record qenv : Type := mkQE { e_new : Q; e_old : Q; e_nn : Q; e_n0 : Q; e_lb : Q }.
Fixpoint qeval (e : qexpr) (v : qenv) : Q :=
  match e with
  | QNew => e_new v | QOld => e_old v | QNn => e_nn v | QNudge0 => e_n0 v | QLb => e_lb v
  | QConst q => q
  | QAdd a b => (qeval a v + qeval b v)%Q
  | QMul a b => (qeval a v * qeval b v)%Q
  end.
Record restart_src : Type := mkRestart {
  rr_sampler_key : string;     (* options[key] chooses the slice sampler, else a sample from the priors *)
  rr_avg_some : qexpr;         (* if new_hyp is not None: new_hyp = <this> *)
  rr_avg_none : qexpr;         (* else: new_hyp = <this> *)
  rr_nn : qexpr;               (* noise_nudge = <this> *)
  rr_lb : qexpr;               (* noise_bound = (<this>, noise_bound[1]), AFTER noise_nudge was updated *)
  rr_noise : qexpr             (* new_hyp[0]["noise_log_scale"] = <this>, AFTER noise_nudge was updated *)
}.
(* one failed attempt: (start value of the noise coordinate handed to the next fit, noise_nudge, lower bound) *)
Definition run_restart (r : restart_src) (s : option Q) (old nn n0 lb : Q) : Q * Q * Q :=
  let new1 := match s with
              | Some x => qeval (rr_avg_some r) (mkQE x old nn n0 lb)
              | None => qeval (rr_avg_none r) (mkQE 0 old nn n0 lb)
              end in
  let nn' := qeval (rr_nn r) (mkQE new1 old nn n0 lb) in
  let lb' := qeval (rr_lb r) (mkQE new1 old nn' n0 lb) in
  (qeval (rr_noise r) (mkQE new1 old nn' n0 lb'), nn', lb').

(* the hand-written reading *)
Definition model_restart : restart_src :=
  mkRestart "use_slice_sampler" (QMul (QConst (1 # 2)) (QAdd QNew QOld)) QOld (QAdd QNn QNudge0) (QAdd QLb QNn) (QAdd QNew QNn).
Definition restart_spec (s : option Q) (old nn n0 lb : Q) : Q * Q * Q :=
  let new1 := match s with Some x => ((1 # 2) * (x + old))%Q | None => old end in
  let nn' := (nn + n0)%Q in
  ((new1 + nn')%Q, nn', (lb + nn')%Q).
(* f consecutive failures of one refit (the same nudge; [ss i] = the i-th resampled start point) *)
Fixpoint restart_iter (r : restart_src) (ss : nat -> option Q) (old n0 : Q) (f : nat) (nn lb : Q) : Q * Q :=
  match f with
  | O => (nn, lb)
  | S f' => let '(nn1, lb1) := restart_iter r ss old n0 f' nn lb in
            let '(_, nn2, lb2) := run_restart r (ss f') old nn1 n0 lb1 in (nn2, lb2)
  end.

(* ---------- what the slice sampler of the restart sees (options["use_slice_sampler"] = True) ----------
   _get_samples_from_slice_sampler_(tmp_gp, ...) evaluates tmp_gp's objective on tmp_gp.X, tmp_gp.y and tmp_gp.s2.
   The objective adds s2 to the diagonal of the N x N covariance of X and multiplies by y: ValueError unless y has N rows and
   s2 is absent or has N entries. *)
Definition sampler_sees (after_drop : lens) : nat * nat * option nat := (l_gX after_drop, l_gY after_drop, l_tmp after_drop).
Definition sampler_ok (v : nat * nat * option nat) : bool :=
  let '(gx, gy, t) := v in
  Nat.eqb gy gx && match t with Some m => Nat.eqb m gx | None => true end.
(* the drop step as it was before the repair (no store into tmp_gp.X / tmp_gp.y): kept for the regression lemma *)
Definition old_drop_stores : list (avar * sguard * mapp) :=
  [(VX, GAlways, MDrop); (VY, GAlways, MDrop);
   (VTmp, GAnd (GNotNone VTmp) (GSizePos VTmp), MDrop);
   (VS2, GAnd (GNotNone VS2) (GNotScalar VS2), MDrop)].
