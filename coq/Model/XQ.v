(* XQ.v — extended rationals: the values a binary64 can denote, with the arithmetic exact.
   [XFin q] a finite number, [XPInf]/[XNInf] the infinities, [XNaN] not-a-number.
   Comparisons follow IEEE-754 / NumPy: every comparison involving NaN is false.
   [xmin]/[xmax] follow np.minimum / np.maximum: NaN propagates; on ties the FIRST argument is
   returned (NumPy returns "either", the two are the same float).
   No proofs here (Proofs/BoundsCheckProofs.v). *)
From Coq Require Import ZArith QArith Qabs Bool.
Open Scope Q_scope.

Inductive xq : Type :=
| XFin (q : Q)
| XPInf
| XNInf
| XNaN.

Definition xisnan (a : xq) : bool := match a with XNaN => true | _ => false end.
Definition xisfinite (a : xq) : bool := match a with XFin _ => true | _ => false end.
Definition xisinf (a : xq) : bool := match a with XPInf | XNInf => true | _ => false end.

(* a <= b *)
Definition xle (a b : xq) : bool :=
  match a, b with
  | XNaN, _ => false
  | _, XNaN => false
  | XNInf, _ => true
  | _, XPInf => true
  | XFin x, XFin y => Qle_bool x y
  | _, _ => false
  end.

(* a < b *)
Definition xlt (a b : xq) : bool :=
  match a, b with
  | XNaN, _ => false
  | _, XNaN => false
  | XNInf, XNInf => false
  | XNInf, _ => true
  | XPInf, _ => false
  | XFin _, XPInf => true
  | XFin _, XNInf => false
  | XFin x, XFin y => negb (Qle_bool y x)
  end.

(* a == b *)
Definition xeq (a b : xq) : bool :=
  match a, b with
  | XFin x, XFin y => Qeq_bool x y
  | XPInf, XPInf => true
  | XNInf, XNInf => true
  | _, _ => false
  end.

(* np.minimum(a, b), np.maximum(a, b) *)
Definition xmin (a b : xq) : xq :=
  if xisnan a || xisnan b then XNaN else if xlt b a then b else a.
Definition xmax (a b : xq) : xq :=
  if xisnan a || xisnan b then XNaN else if xlt a b then b else a.

Definition xneg (a : xq) : xq :=
  match a with XFin x => XFin (Qred (- x)) | XPInf => XNInf | XNInf => XPInf | XNaN => XNaN end.

(* a + b, a - b (IEEE: inf - inf = NaN) *)
Definition xadd (a b : xq) : xq :=
  match a, b with
  | XNaN, _ => XNaN
  | _, XNaN => XNaN
  | XPInf, XNInf => XNaN
  | XNInf, XPInf => XNaN
  | XPInf, _ => XPInf
  | _, XPInf => XPInf
  | XNInf, _ => XNInf
  | _, XNInf => XNInf
  | XFin x, XFin y => XFin (Qred (x + y))
  end.
Definition xsub (a b : xq) : xq := xadd a (xneg b).

(* k * a for a finite rational k > 0 *)
Definition xscale (k : Q) (a : xq) : xq :=
  match a with XFin x => XFin (Qred (k * x)) | _ => a end.

(* |a| <= m  (np.abs(a) <= m) *)
Definition xabs_le (a : xq) (m : Q) : bool :=
  match a with XFin x => Qle_bool (Qabs x) m | _ => false end.

(* Same value: Leibniz on the tags, Qeq on finite numbers. *)
Definition xeqv (a b : xq) : Prop :=
  match a, b with
  | XFin x, XFin y => x == y
  | XPInf, XPInf => True
  | XNInf, XNInf => True
  | XNaN, XNaN => True
  | _, _ => False
  end.
