"""Run-level recorder and monitor for property C19 (iteration history and OptimizeResult are
consistent records of the run).

run_one(cfg) performs ONE real BADS optimisation described by a JSON-able cfg and returns a plain
data record, observing from outside only:
  * the target is wrapped: every call (x as passed to the target, returned value, returned SD);
  * IterationHistory.record is wrapped: every call on bads.iteration_history (key, content, iteration,
    outcome) — the op sequence the container model is fed with (run-level tie);
  * the guarded in-source probe (bads._verif_probe, PYBADS_VERIF=1) snapshots, at the end of every
    main-loop iteration, the history arrays u/x/yval/fval/fsd/func_count/mesh_size and the incumbent
    (u, u_best, yval, fval, fsd), plus how many target calls had been made;
  * after optimize(): the result (every key by key and by attribute), the final state, the logger's
    points; then the optimiser's own objects are changed in place (and, in the thorough tier,
    optimize() is called again) and the result is read again.
monitor(rec) restates every clause of the property on that record, independently of the Coq model.
"""
from __future__ import annotations

import copy
import hashlib
import math
import os
import traceback
import warnings

import numpy as np

from harness.comp_history import canon, is_mutable
from vlib.core import clist, cstr, cval, cz

SNAP_KEYS = ["u", "x", "yval", "fval", "fsd", "func_count", "mesh_size"]
TIE_EXACT_KEYS = {"u", "x", "yval", "fval", "fsd", "func_count", "mesh_size", "search_mesh_size", "init_N", "iter",
                  "ntrain", "n_eff", "lcbmax", "Ns_gp", "ys"}


# ----------------------------------------------------------------------------- problems

def make_problem(cfg):
    """(target, x0, lb, ub, plb, pub, options) from cfg.  The target's noise comes from the global
    numpy generator, which BADS seeds from options['random_seed'], so a run is a function of cfg."""
    D, mode, sigma = cfg["D"], cfg["mode"], cfg["sigma"]
    shift = np.array(cfg.get("shift", [0.3] * D), dtype=float)
    lb = np.full(D, -5.0)
    ub = np.full(D, 5.0)
    plb = np.full(D, -2.0)
    pub = np.full(D, 2.0)
    x0 = np.array(cfg.get("x0", [1.0] * D), dtype=float)
    if cfg.get("logcoord"):                       # one log-scale coordinate (bounds transform is non-linear)
        lb[0], plb[0], pub[0], ub[0] = 0.01, 0.1, 10.0, 100.0
        shift = shift.copy()
        shift[0] = 1.5
    if cfg.get("unbounded"):
        lb = np.full(D, -np.inf)
        ub = np.full(D, np.inf)
    kind = cfg.get("fun", "quad")

    def base(x):
        z = x - shift
        if kind == "quad":
            return float(np.sum(z ** 2))
        if kind == "abs":
            return float(np.sum(np.abs(z)) + 0.25)
        if kind == "flat":                        # plateaus: many ties
            return float(np.sum(np.floor(np.abs(z) * 2)))
        return float(np.sum(z ** 2) + 0.5 * np.sum(np.cos(3 * z)))

    off = float(cfg.get("offset", 0.0))

    def target(x):
        x = np.asarray(x, dtype=float).ravel()
        y = base(x) + off
        if mode == "det":
            return y
        if mode in ("auto", "declared"):
            return y + np.random.randn() * sigma
        return y + np.random.randn() * sigma, sigma

    opts = dict(display="off", random_seed=cfg["seed"], max_fun_evals=cfg["budget"],
                noise_final_samples=cfg["nfs"])
    if mode == "declared":
        opts["uncertainty_handling"] = True
    if mode == "specified":
        opts["uncertainty_handling"] = True
        opts["specify_target_noise"] = True
    opts.update(cfg.get("options", {}))
    cons = None
    if cfg.get("cons"):                           # a non-box constraint that keeps x0 and the optimum feasible
        def cons(x):
            return np.sum(np.atleast_2d(x) ** 2, axis=1) > 16.0
    return target, x0, lb, ub, plb, pub, opts, cons


def gen_configs(rng, quick):
    """The panel: fixed coverage of modes x D x nfs x transform, seeds/budgets/noise from rng."""
    panel = [
        dict(D=1, mode="det", nfs=10), dict(D=2, mode="det", nfs=10, logcoord=True),
        dict(D=2, mode="auto", nfs=10), dict(D=1, mode="declared", nfs=1),
        dict(D=2, mode="declared", nfs=3), dict(D=2, mode="specified", nfs=10),
        dict(D=1, mode="specified", nfs=0), dict(D=2, mode="auto", nfs=0, logcoord=True),
        dict(D=3, mode="det", nfs=10, fun="flat"), dict(D=1, mode="auto", nfs=3),
        dict(D=2, mode="det", nfs=10, unbounded=True), dict(D=2, mode="declared", nfs=3, cons=True),
        # option values that look like "nothing": random_seed = 0 is a seed, tol_noise = 0 still leaves an exactly repeatable target deterministic
        dict(D=2, mode="det", nfs=10, fixed_seed=0), dict(D=2, mode="declared", nfs=3, fixed_seed=0),
        dict(D=2, mode="det", nfs=10, options=dict(tol_noise=0)),
        # values of large magnitude whose late improvements are tiny RELATIVE to it, at budgets that end the run in a search-only pass: the
        # returned iterate is still the last recorded one
        dict(D=2, mode="det", nfs=10, offset=5000.0, fun="cos", budget_fixed=55), dict(D=2, mode="det", nfs=10, offset=5000.0, fun="cos", budget_fixed=62),
        dict(D=2, mode="det", nfs=10, offset=-3.0e4, fun="quad", budget_fixed=68), dict(D=3, mode="det", nfs=10, offset=5000.0, fun="cos", budget_fixed=74),
    ]
    if not quick:
        for D in (1, 2, 3):
            for mode in ("det", "auto", "declared", "specified"):
                for rep in range(2):
                    panel.append(dict(D=D, mode=mode, nfs=rng.choice([0, 1, 3, 10]), logcoord=rng.random() < 0.4,
                                      fun=rng.choice(["quad", "abs", "cos", "flat"])))
        panel += [dict(D=2, mode="det", nfs=10, cons=True), dict(D=2, mode="declared", nfs=3, unbounded=True),
                  dict(D=2, mode="det", nfs=10, nox0=True), dict(D=3, mode="declared", nfs=10, fun="cos"),
                  dict(D=2, mode="specified", nfs=1, logcoord=True), dict(D=1, mode="declared", nfs=10, again=True)]
    out = []
    for i, p in enumerate(panel):
        c = dict(p)
        c["seed"] = rng.randint(0, 10 ** 6)
        if "fixed_seed" in c:
            c["seed"] = c.pop("fixed_seed")
        noisy = c["mode"] != "det"
        c["sigma"] = rng.choice([1.0, 2.0, 3.0]) if noisy else 0.0
        c["budget"] = rng.choice([60, 80, 100, 120] if c["D"] < 3 else [100, 150]) if noisy else rng.choice([40, 60, 90])
        if "budget_fixed" in c:
            c["budget"] = c.pop("budget_fixed")
        c["again"] = bool(c.get("again")) or (not quick and i % 4 == 0)
        out.append(c)
    return out


# regression witness: before commit 377f545 the noisy incumbent swap lost the point on this configuration
# (row 4 recorded the yval of row 2); it stays in the panel so a return of the defect is re-found at once
WITNESS_SWAP = dict(D=2, mode="auto", nfs=10, sigma=1.0, budget=100, seed=2, again=False)


# ----------------------------------------------------------------------------- one run

def fl(x):
    return [float(v) for v in np.asarray(x, dtype=float).ravel()]


def nums(c):
    """the numbers of a canonical (type-tagged) array/list content, flattened; None stays None."""
    if c is None:
        return None
    if isinstance(c, (int, float)) and not isinstance(c, bool):
        return [float(c)]
    out = []
    if isinstance(c, list):
        for e in c[1:] if (c and isinstance(c[0], str)) else c:
            out += nums(e) or []
    return out


def payload_of(key, value):
    """Content of a recorded value as a small Python structure (cval-able).  Numeric keys exactly;
    GP objects and hyper-parameter arrays as a token (their content is not part of the property)."""
    if key in TIE_EXACT_KEYS:
        return canon(value)
    if isinstance(value, np.ndarray):
        return "<nd %s %s>" % (value.shape, hashlib.sha1(np.ascontiguousarray(value).tobytes()).hexdigest()[:10])
    c = canon(value)
    return c if isinstance(c, (int, float, str, bool)) or c is None else "<%s>" % type(value).__name__


def run_one(cfg):
    os.environ["PYBADS_VERIF"] = "1"
    warnings.filterwarnings("ignore")
    import logging
    logging.disable(logging.CRITICAL)
    from pybads import BADS
    from pybads.bads.optimize_result import OptimizeResult
    from pybads.utils.iteration_history import IterationHistory

    target, x0, lb, ub, plb, pub, opts, cons = make_problem(cfg)
    calls = []

    class Wrapped:
        """the user's target as a callable OBJECT with state of its own (a model holding its data set and a call counter)"""
        def __init__(self):
            self.n_calls = 0

        def __call__(self, x):
            self.n_calls += 1
            r = target(x)
            if isinstance(r, tuple):
                calls.append((fl(x), float(r[0]), float(r[1])))
            else:
                calls.append((fl(x), float(r), None))
            return r

        def __deepcopy__(self, memo):          # copying the model copies its state, not the harness's bookkeeping
            c = Wrapped()
            c.n_calls = self.n_calls
            return c
    wrapped = Wrapped()

    rec = dict(cfg=cfg, calls=calls, probes=[], records=[], crash=None)
    orig_record = IterationHistory.record
    try:
        caller_x0 = None if cfg.get("nox0") else x0.copy()
        bads = BADS(wrapped, caller_x0, lb.copy(), ub.copy(), plb.copy(), pub.copy(),
                    non_box_cons=cons, options=dict(opts))
        if caller_x0 is not None:
            caller_x0[...] = 0.0     # the caller recycles its buffer (a multi-start driver): the run and its records keep the start they were given
        hist = bads.iteration_history
        rec["hist_keys"] = list(dict.keys(hist))

        def rec_wrapper(self, key, value, iteration):
            if self is hist:
                entry = [str(key), payload_of(key, value), bool(is_mutable(value)), int(iteration), None]
                rec["records"].append(entry)
                try:
                    return orig_record(self, key, value, iteration)
                except Exception as ex:
                    entry[4] = type(ex).__name__
                    raise
            return orig_record(self, key, value, iteration)

        IterationHistory.record = rec_wrapper

        def probe(d):
            snap = dict(loop_iter=int(d["loop_iter"]), poll_iteration=int(d["poll_iteration"]),
                        do_poll_step=bool(d["do_poll_step"]), is_finished=bool(d["is_finished"]), n_calls=len(calls))
            for k in SNAP_KEYS:
                a = dict.__getitem__(hist, k)
                snap[k] = None if a is None else [canon(c) for c in copy.deepcopy(a).tolist()]
            snap["inc_u"] = fl(bads.u)
            snap["inc_u_best"] = fl(bads.u_best)
            snap["inc_yval"] = float(bads.yval)
            snap["inc_fval"] = float(bads.fval)
            snap["inc_fsd"] = float(bads.fsd)
            rec["probes"].append(snap)

        bads._verif_probe = probe
        result = bads.optimize()
        IterationHistory.record = orig_record
        bads._verif_probe = None                   # nothing after this point belongs to the observed run

        # ---- final observations
        flog = bads.function_logger
        n = int(flog.Xn) + 1
        rec["logger_X"] = [fl(r) for r in flog.X[:n]]
        rec["logger_X_orig"] = [fl(r) for r in flog.X_orig[:n]]
        rec["hist_final"] = {}
        for k in dict.keys(hist):
            a = dict.__getitem__(hist, k)
            if a is None:
                rec["hist_final"][k] = None
            else:
                rec["hist_final"][k] = [[payload_of(k, c), bool(is_mutable(c))] for c in a.tolist()]
        hu = dict.__getitem__(hist, "u")
        rec["x_of_u"] = [] if hu is None else [fl(bads.var_transf.inverse_transf(np.asarray(u, dtype=float).reshape(1, -1))) for u in hu.tolist()]
        rec["hist_alias"] = []                    # history cells that ARE objects of the optimiser
        for k in ("u", "x"):
            a = dict.__getitem__(hist, k)
            if a is not None:
                for j, c in enumerate(a.tolist()):
                    for nm in ("u", "u_best", "x", "x0"):
                        if c is getattr(bads, nm, None):
                            rec["hist_alias"].append([k, j, nm])
        rec["final"] = dict(
            x=fl(bads.x), u=fl(bads.u), u_best=fl(bads.u_best), x0=fl(bads.x0), fval=float(bads.fval), fsd=float(bads.fsd),
            yval=float(bads.yval), mesh_size=float(bads.mesh_size), logger_func_count=int(flog.func_count),
            level=int(bads.optim_state["uncertainty_handling_level"]), iter=int(bads.optim_state["iter"]),
            random_seed=bads.optim_state["random_seed"], n_calls=len(calls),
            lb_inf=bool(np.all(np.isinf(lb))), ub_inf=bool(np.all(np.isinf(ub))), has_cons=cons is not None,
            user_x0=None if cfg.get("nox0") else fl(x0))
        # ---- the result object
        keys = list(OptimizeResult._keys)
        rec["result_keys_decl"] = keys
        rec["result_present"] = list(dict.keys(result))
        reads = {}
        for k in keys:
            e = {}
            try:
                v1 = result[k]
                e["key"] = "ok"
            except Exception as ex:
                v1, e["key"] = None, type(ex).__name__
            try:
                v2 = getattr(result, k)
                e["attr"] = "ok"
            except Exception as ex:
                v2, e["attr"] = None, type(ex).__name__
            e["same"] = bool(v1 is v2)
            reads[k] = e
        rec["result_reads"] = reads
        unk = {}
        for k in ("zz", "nfev", "Status"):
            r0 = canon(dict(result))
            try:
                result[k] = 1
                unk[k] = "accepted"
            except Exception as ex:
                unk[k] = type(ex).__name__
            if canon(dict(result)) != r0:
                unk[k] += "+changed"
            try:
                result[k]
                unk[k] += "/readable"
            except KeyError:
                pass
            try:
                getattr(result, k)
                unk[k] += "/attr-readable"
            except AttributeError:
                pass
        rec["result_unknown"] = unk
        rec["result"] = {k: canon(dict.__getitem__(result, k)) for k in dict.keys(result)}
        rec["result_alias"] = [k for k in dict.keys(result)
                               if is_mutable(dict.__getitem__(result, k)) and any(
                                   dict.__getitem__(result, k) is o for o in
                                   [bads.x, bads.x0, bads.u, bads.u_best, bads.optim_state.get("yval_vec"),
                                    bads.optim_state.get("ysd_vec")])]
        # ---- later use of the optimiser must not change the result
        before = copy.deepcopy(rec["result"])
        fun_in_result = dict.__getitem__(result, "fun") if "fun" in dict.keys(result) else None
        fun_state_before = getattr(fun_in_result, "n_calls", None)
        for arr in (bads.x, bads.x0, bads.u, bads.u_best, bads.optim_state.get("yval_vec"), bads.optim_state.get("ysd_vec")):
            if isinstance(arr, np.ndarray) and arr.dtype != object:
                arr += 17.0
        bads.fval, bads.fsd, bads.mesh_size = -123.0, 77.0, 1e9
        bads.optim_state["termination_msg"] = "changed"
        flog.func_count += 1000
        try:
            bads.function_logger(np.asarray(rec["final"]["u"], dtype=float) * 0)     # keep using the optimiser
        except Exception:
            pass
        flog.func_count -= 1000
        again = None
        if cfg.get("again"):
            try:
                r2 = bads.optimize()
                again = "ok" if r2 is not result else "same-object"
            except Exception as ex:
                again = "raised " + type(ex).__name__
        rec["again"] = again
        after = {k: canon(dict.__getitem__(result, k)) for k in dict.keys(result)}
        rec["result_changed"] = [k for k in before if after.get(k) != before[k]] + [k for k in after if k not in before]
        if fun_state_before is not None and getattr(fun_in_result, "n_calls", None) != fun_state_before:
            rec["result_changed"].append("fun")        # the result holds the user's LIVE callable: evaluating the model again changed a returned result
        del calls[rec["final"]["n_calls"]:]        # calls made by this harness after the run are not part of the run
    except Exception:
        rec["crash"] = traceback.format_exc()[-1500:]
    finally:
        IterationHistory.record = orig_record
    return rec


def run_many(cfgs, procs=10):
    import multiprocessing as mp
    ctx = mp.get_context("fork")
    with ctx.Pool(min(procs, max(1, len(cfgs)))) as pool:
        return pool.map(run_one, cfgs, chunksize=1)


# ----------------------------------------------------------------------------- monitor

# Clauses that are STRICTER than the text of the property (consistency facts the unchanged code satisfies
# and the models rely on).  They never raise a violation by themselves: the plug-in treats a failure as a
# broken correspondence (no-failing-input-found path) unless a clause of the text fails too.
STRICT_KEYS = {"func-count-consistent", "row-rewritten", "row-x-is-inverse", "row-u-evaluated",
               "result-iterations", "result-x-final"}

def monitor(rec):
    """Every clause of C19 on one run record.  Returns [(key, message)]."""
    out = []
    if rec.get("crash"):
        return out
    cfg, calls, fin = rec["cfg"], rec["calls"], rec["final"]
    mode = cfg["mode"]
    noisy = fin["level"] > 0
    specified = mode == "specified"
    tag = "D=%d %s nfs=%d budget=%d seed=%d" % (cfg["D"], mode, cfg["nfs"], cfg["budget"], cfg["seed"])

    def bad(key, msg):
        out.append((key, f"[{tag}] {msg}"))

    def obs_at(x, upto):
        return [c[1] for c in calls[:upto] if c[0] == x]

    def observed(y, ob):
        """y is a value observed where ob was observed (specified noise: repeated observations are merged
        into their precision-weighted mean, so: within their range)."""
        if not ob:
            return False
        return (min(ob) <= y <= max(ob)) if specified else (y in ob)

    def check_rows(snap, upto, where, x_of_u=None):
        u, x, yv, fc = snap.get("u"), snap.get("x"), snap.get("yval"), snap.get("func_count")
        if u is None:
            return
        n = len(u)
        if not (x is not None and yv is not None and fc is not None and len(x) == n and len(yv) == n and len(fc) == n):
            bad("rows-ragged", f"{where}: history columns have different lengths u={n} x={x and len(x)} yval={yv and len(yv)} func_count={fc and len(fc)}")
            return
        evaluated = rec["logger_X"]
        for i in range(n):
            if u[i] is None or x[i] is None or yv[i] is None:
                bad("row-missing", f"{where}: row {i} has a None cell (u={u[i]}, x={x[i]}, yval={yv[i]})")
                continue
            ui, xi = nums(u[i]), nums(x[i])
            if ui not in evaluated:
                bad("row-u-evaluated", f"{where}: recorded u[{i}]={ui} is not an evaluated internal point")
            if x_of_u is not None and x_of_u[i] != xi:
                bad("row-x-is-inverse", f"{where}: recorded x[{i}]={xi} != inverse_transf(u[{i}])={x_of_u[i]}")
            ob = obs_at(xi, upto)
            if not ob:
                bad("row-point-evaluated", f"{where}: recorded x[{i}]={xi} was never passed to the target")
                continue
            y = yv[i]
            if not observed(y, ob):
                # which iterate does this value belong to?  (another row, at a different point, whose own
                # recorded value it is and where it WAS observed)
                owner = [j for j in range(n) if j != i and x[j] is not None and nums(x[j]) != xi
                         and (yv[j] == y or not specified) and observed(y, obs_at(nums(x[j]), upto))]
                k = "noisy-swap-loses-point" if (noisy and owner) else "row-value-observed"
                bad(k, f"{where}: row {i} records point x={xi} (observed there: {ob[:3]}{'...' if len(ob) > 3 else ''}) "
                       f"with yval={y!r}, a value never observed there"
                       + (f"; it was observed at the point of row {owner[0]} x={nums(x[owner[0]])} (incumbent value and point come from different iterates)" if owner else ""))
        prev = None
        for i in range(n):
            if fc[i] is None:
                continue
            if prev is not None and fc[i] < prev:
                bad("func-count-monotone", f"{where}: recorded func_count decreases at row {i}: {prev} -> {fc[i]}")
            if fc[i] > upto:
                bad("func-count-bound", f"{where}: recorded func_count[{i}]={fc[i]} exceeds the {upto} target calls made so far")
            prev = fc[i]

    # every loop iteration (history as it was then, calls made until then)
    for s in rec["probes"]:
        check_rows(s, s["n_calls"], f"end of loop iteration {s['loop_iter']}")
        # the row written in this loop iteration counts the evaluations made so far (consistent record:
        # a count that is monotone and bounded but stale would not be a record of the run)
        fc = s.get("func_count")
        if (s["do_poll_step"] or s["is_finished"]) and fc and fc[-1] is not None and fc[-1] != s["n_calls"]:
            bad("func-count-consistent", f"end of loop iteration {s['loop_iter']}: row {len(fc) - 1} records func_count={fc[-1]} "
                                         f"but the target had been called {s['n_calls']} times")
    # final history (after the final re-estimation)
    final_snap = {k: (None if rec["hist_final"].get(k) is None else [c[0] for c in rec["hist_final"][k]]) for k in SNAP_KEYS}
    check_rows(final_snap, len(calls), "final history", rec["x_of_u"])

    res = rec["result"]
    fcs = [c for c in (final_snap.get("func_count") or []) if c is not None]
    if fcs and max(fcs) > res.get("func_count", -1):
        bad("func-count-bound", f"recorded func_count {max(fcs)} exceeds result.func_count {res.get('func_count')}")
    # stability of recorded rows across iterations (u, x, yval, func_count, mesh_size never rewritten)
    for a, b in zip(rec["probes"], rec["probes"][1:] + [dict(final_snap, loop_iter="final")]):
        for k in ("u", "x", "yval", "func_count", "mesh_size"):
            if a.get(k) and b.get(k) is not None and b[k][:len(a[k])] != a[k]:
                bad("row-rewritten", f"history column {k} changed for an earlier iteration between loop iterations {a['loop_iter']} and {b['loop_iter']}")
    # returned x is a recorded iterate
    xs = [nums(c) for c in (final_snap.get("x") or []) if c is not None]
    rx = nums(res.get("x"))
    if rx is None or rx not in xs:
        bad("result-x-recorded", f"result.x={rx} is not one of the recorded iterates {xs[-3:]}")
    if not noisy and xs:
        yl, fl_ = final_snap["yval"][-1], final_snap["fval"][-1]
        if rx != xs[-1]:
            bad("result-is-last-row", f"deterministic run: result.x={rx} is not the last recorded iterate {xs[-1]}")
        if not (res.get("fval") == yl == fl_):
            bad("result-is-last-row", f"deterministic run: result.fval={res.get('fval')} but last row has yval={yl}, fval={fl_}")
        if res.get("fsd") != 0:
            bad("result-is-last-row", f"deterministic run: result.fsd={res.get('fsd')}")
    # result fields agree with the problem and the final state
    want_pt = ("non-box constraints" if fin["has_cons"] else
               "unconstrained" if (fin["lb_inf"] and fin["ub_inf"]) else "bound constraints")
    if res.get("problem_type") != want_pt:
        bad("result-agrees", f"result.problem_type={res.get('problem_type')!r}, problem is {want_pt!r}")
    want_tt = {"det": "deterministic", "declared": "stochastic", "specified": "stochastic (specified noise)"}.get(
        mode, "stochastic" if noisy else "deterministic")
    if res.get("target_type") != want_tt:
        bad("result-agrees", f"result.target_type={res.get('target_type')!r}, expected {want_tt!r}")
    if res.get("random_seed") != cfg["seed"]:
        bad("result-agrees", f"result.random_seed={res.get('random_seed')!r}, option random_seed={cfg['seed']}")
    if res.get("func_count") != fin["n_calls"]:
        bad("result-agrees", f"result.func_count={res.get('func_count')} but the target was called {fin['n_calls']} times")
    if res.get("mesh_size") != fin["mesh_size"]:
        bad("result-agrees", f"result.mesh_size={res.get('mesh_size')} != final mesh size {fin['mesh_size']}")
    r0 = nums(res.get("x0"))
    if r0 != fin["x0"] or (fin["user_x0"] is not None and r0 != fin["user_x0"]):
        bad("result-agrees", f"result.x0={r0}, optimiser x0={fin['x0']}, user x0={fin['user_x0']}")
    if rx != fin["x"]:
        bad("result-x-final", f"result.x={rx} != final optimiser x={fin['x']}")
    if res.get("iterations") != fin["iter"]:
        bad("result-iterations", f"result.iterations={res.get('iterations')} != final iteration counter {fin['iter']}")
    # copies
    if rec["result_changed"]:
        bad("result-copies", f"result fields {rec['result_changed']} changed after the optimiser's own objects were changed in place"
            + (f" / optimize() was called again ({rec['again']})" if rec.get("again") else ""))
    if rec["result_alias"]:
        bad("result-copies", f"result fields {rec['result_alias']} ARE objects of the optimiser (no copy)")
    # (rec["hist_alias"] — the optimiser holding a REFERENCE into the history after the final noisy
    #  selection, self.u = history["u"][idx] — is reported as a note by the plug-in, not as a violation:
    #  the property asks for copies in the OptimizeResult, and record() did store a copy.)
    # key set
    if len(rec["result_keys_decl"]) != 21 or len(set(rec["result_keys_decl"])) != 21:
        bad("result-keys", f"OptimizeResult._keys has {len(rec['result_keys_decl'])} names")
    if not set(rec["result_present"]) <= set(rec["result_keys_decl"]):
        bad("result-keys", f"result holds undeclared keys {sorted(set(rec['result_present']) - set(rec['result_keys_decl']))}")
    for k, e in rec["result_reads"].items():
        if e["key"] == "ok" and e["attr"] == "ok" and e["same"]:
            continue
        key = "result-status-never-set" if k == "status" else "result-keys"
        bad(key, f"declared field {k!r}: result[{k!r}] -> {e['key']}, result.{k} -> {e['attr']}"
            + ("" if e["key"] != "ok" or e["same"] else " (different objects)"))
    for k, e in rec["result_unknown"].items():
        if e != "ValueError":
            bad("result-keys", f"assigning unknown key {k!r} -> {e}, expected ValueError and no change")
    return out


def swap_report(rec):
    """Loop iterations at which the noisy end-of-iteration re-estimation swapped the incumbent for an
    earlier iterate: the incumbent value after the iteration is not the value of the row just written.
    [(loop_iter, poll_iteration, row j swapped in, incumbent point == point of row j, finished)]"""
    out = []
    if rec.get("crash") or rec["final"]["level"] == 0:
        return out
    for s in rec.get("probes", []):
        rows = s.get("yval")
        if s["do_poll_step"] and rows and len(rows) > 1 and rows[-1] != s["inc_yval"]:
            owner = [j for j, y in enumerate(rows) if y == s["inc_yval"]]
            j = owner[0] if owner else None
            same_point = j is not None and nums(s["u"][j]) == s["inc_u_best"]
            out.append((s["loop_iter"], s["poll_iteration"], j, same_point, bool(s["is_finished"])))
    return out


# ----------------------------------------------------------------------------- run-level tie (container model fed with the real record calls)

def coq_run_case(rec):
    """history_case literal: the record() calls of the run as model ops; expected = every call
    succeeded, and the final state of the real container (content + every mutable cell a distinct
    container-owned object)."""
    keys = rec["hist_keys"]
    tops, exp, n_ext = [], [], 0
    for key, payload, mut, it, err in rec["records"]:
        if mut:
            idt = f"(Ext {n_ext})"
            n_ext += 1
        else:
            idt = "Imm"
        tops.append(f"(TOp (Record {cstr(key)} (mkV {cval(payload)} {idt}) {cz(it)}))")
        exp.append(f"({'EOk' if err is None else '(EErr ' + cstr(err) + ')'}, None)")
    h, dump = 0, []
    for k in keys:
        a = rec["hist_final"][k]
        if a is None:
            dump.append(f"({cstr(k)}, ESNone)")
            continue
        aid = h
        h += 1
        cells = []
        for payload, mut in a:
            if payload is None and not mut:
                cells.append("ENone")
            elif mut:
                cells.append(f"(EVal {cval(payload)} (HObj {h}))")
                h += 1
            else:
                cells.append(f"(EVal {cval(payload)} HImm)")
        dump.append(f"({cstr(k)}, (ESArr {aid} {clist(cells)}))")
    if not tops:
        return None
    exp[-1] = exp[-1].replace(", None)", f", Some {clist(dump)})")
    return f"(({clist([cstr(k) for k in keys])}, {clist(tops)}), {clist(exp)})"
