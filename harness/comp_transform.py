"""C11 — translator validation, decision tie and monitors for VariableTransformer.

Three independent things are compared on generated boxes:
  REAL   the real pybads VariableTransformer (vt.g, vt.ginv, vt(x), vt.inverse_transf(y), vt.apply_log_t),
  TREE   the intermediate tree translate/transform.py builds from the source (the same tree that is printed
         into gen/Src_transform.v), evaluated (a) in binary64 with the same element-wise NumPy operations,
         (b) in 50-digit Decimal arithmetic, (c) for the rule, in exact Fractions,
  SPEC   the property restated directly (reference formulas written here, independent of the source):
         monitors used to find a concrete failing input.
REAL vs TREE mismatches are translator faults (broken tie); REAL vs SPEC mismatches are property violations.
"""
from __future__ import annotations

import math
from decimal import Decimal, getcontext
from fractions import Fraction

import numpy as np

from translate import transform as T

INF = float("inf")
KNOWN_KEY = "selftest-abs-tol-rejects-large-log-box"


def VT():
    from pybads.variable_transformer import VariableTransformer
    return VariableTransformer


# --------------------------------------------------------------------------- generators


def lu(rng, lo, hi):
    """log-uniform magnitude 10^U(lo, hi)"""
    return 10.0 ** rng.uniform(lo, hi)


def gen_coord(rng, big):
    """one coordinate (kind, lb, plb, pub, ub); `big` widens magnitudes to the full 1e-12 .. 1e12 range"""
    kind = rng.choice(["lin", "lin", "lin_tight", "lin_inf", "lin_half_inf", "log", "log", "log_tight", "log_inf",
                       "pos_lin", "decade", "decade", "zero_neg"])
    e_lo, e_hi = (-12, 12) if big else (-6, 4)
    if kind.startswith("lin"):
        w = lu(rng, e_lo, e_hi)
        c = w * rng.choice([0.0, rng.uniform(-3, 3), rng.uniform(-30, 30)])
        plb, pub = c - w * rng.uniform(0.1, 1), c + w * rng.uniform(0.1, 1)
        lb, ub = plb - w * rng.uniform(0, 2), pub + w * rng.uniform(0, 2)
        if kind == "lin_tight":
            lb, ub = plb, pub
        if kind == "lin_inf":
            lb, ub = -INF, INF
        if kind == "lin_half_inf":
            if rng.random() < 0.5:
                lb = -INF
            else:
                ub = INF
    elif kind.startswith("log"):
        top = 12 if big else 5
        lb = lu(rng, e_lo, top - 2)
        plb = lb * rng.choice([1.0, lu(rng, 0, 1)])
        pub = plb * lu(rng, 1, max(1.05, min(12, top - math.log10(plb))))
        ub = pub * rng.choice([1.0, lu(rng, 0, 1)])
        if kind == "log_tight":
            lb, ub = plb, pub
        if kind == "log_inf":
            ub = INF
    elif kind == "pos_lin":
        lb = lu(rng, e_lo, e_hi - 1)
        plb = lb * rng.uniform(1, 2)
        pub = plb * rng.uniform(1.05, 9.9)
        ub = pub * rng.uniform(1, 3)
    elif kind == "decade":
        plb = rng.choice([1.0, 3.0, 0.1, 0.7, 1e-5 * (1 + rng.random()), lu(rng, -6, 3)])
        ten = 10.0 * plb
        pub = rng.choice([ten, np.nextafter(ten, 0.0), np.nextafter(ten, INF), np.nextafter(np.nextafter(ten, 0.0), 0.0),
                          np.nextafter(np.nextafter(ten, INF), INF)])
        pub = float(pub)
        lb = plb * rng.choice([1.0, 0.5])
        ub = pub * rng.choice([1.0, 2.0, INF])
    else:  # zero_neg: a bound at 0 or negative -> never log
        s = lu(rng, -3, 3)
        lb, plb, pub, ub = rng.choice([
            (0.0, s, 100 * s, 1000 * s), (-s, s, 100 * s, 1000 * s), (0.0, 0.0, 100 * s, 1000 * s),
            (-1000 * s, -100 * s, -s, -0.1 * s), (-1000 * s, -100 * s, -s, 0.0), (-0.0, s, 50 * s, INF)])
    return kind, float(lb), float(plb), float(pub), float(ub)


def gen_box(rng, idx):
    D = rng.choice([1, 1, 2, 2, 3, 4, 5, 6])
    big = (idx % 3 == 0)
    ks, lb, plb, pub, ub = [], [], [], [], []
    for _ in range(D):
        for _try in range(20):
            k, a, b, c, d = gen_coord(rng, big)
            if a <= b < c <= d and math.isfinite(b) and math.isfinite(c):
                break
        ks.append(k); lb.append(a); plb.append(b); pub.append(c); ub.append(d)
    return dict(D=D, kinds=ks, lb=lb, plb=plb, pub=pub, ub=ub)


def gen_invalid_box(rng):
    """violates lb <= plb < pub <= ub (or non-finite plausible bound) in one coordinate"""
    box = gen_box(rng, 1)
    i = rng.randrange(box["D"])
    lb, plb, pub, ub = box["lb"][i], box["plb"][i], box["pub"][i], box["ub"][i]
    how = rng.choice(["plb=pub", "plb>pub", "lb>plb", "pub>ub", "plb=-inf", "pub=inf", "pub=nan"])
    if how == "plb=pub":
        pub = plb
    elif how == "plb>pub":
        plb, pub = pub, plb
    elif how == "lb>plb":
        lb = pub if not math.isfinite(lb) or lb == plb else float(np.nextafter(plb, INF))
    elif how == "pub>ub":
        ub = plb if not math.isfinite(ub) or ub == pub else float(np.nextafter(pub, -INF))
    elif how == "plb=-inf":
        plb, lb = -INF, -INF
    elif how == "pub=inf":
        pub, ub = INF, INF
    else:
        pub = float("nan")
    box["lb"][i], box["plb"][i], box["pub"][i], box["ub"][i] = lb, plb, pub, ub
    box["how"] = how
    return box


def arr(v):
    return np.array([v], dtype=float).reshape(1, -1)


def build(box, flag=None):
    given = {k: arr(box[k]) for k in ("lb", "ub", "plb", "pub")}
    vt = VT()(box["D"], given["lb"], given["ub"], given["plb"], given["pub"], flag)
    # the arrays are the CALLER's: the same objects define the box for whoever uses them next (a second transformer, a sampler)
    changed = [k for k in given if not np.array_equal(given[k], arr(box[k]), equal_nan=True)]
    try:
        vt._verif_caller_changed = changed
    except Exception:
        pass
    return vt


def coord_points(rng, lb, plb, pub, ub, flag):
    """[(x, category)]: 'in' = inside the hard box (bounds included), 'near' = just outside, 'far' = far outside"""
    na = lambda x, d: float(np.nextafter(x, d))
    P = []
    w = (ub - lb) if math.isfinite(ub - lb) else (pub - plb)
    for b in (plb, pub):
        P += [(b, "in"), (na(b, INF), None), (na(b, -INF), None)]
    if math.isfinite(lb):
        P += [(lb, "in"), (na(lb, INF), "in"), (na(lb, -INF), "near"), (lb - 1e-3 * w if not flag else lb * (1 - 1e-3), "near")]
    if math.isfinite(ub):
        P += [(ub, "in"), (na(ub, -INF), "in"), (na(ub, INF), "near"), (ub + 1e-3 * w if not flag else ub * (1 + 1e-3), "near")]
    lo = lb if math.isfinite(lb) else plb - 10 * (pub - plb)
    hi = ub if math.isfinite(ub) else pub + 10 * (pub - plb)
    for _ in range(8):
        if flag and lo > 0:
            P.append((math.exp(rng.uniform(math.log(lo), math.log(hi))), None))
        else:
            P.append((rng.uniform(lo, hi), None))
    P.append((0.5 * lo + 0.5 * hi, None))
    P += [(0.0, None), (1e300, "far"), (-1e300, "far"), (INF, "far"), (-INF, "far"), (-abs(plb) - 1.0, None), (5e-324, None)]
    out = []
    for x, c in P:
        if c is None:
            c = "in" if lb <= x <= ub else ("near" if (abs(x - lb) <= 1e-2 * w or abs(x - ub) <= 1e-2 * w) else "far")
        out.append((float(x), c))
    return out


def y_points(rng, lo, hi):
    na = lambda x, d: float(np.nextafter(x, d))
    P = [-1.0, 1.0, na(-1.0, INF), na(-1.0, -INF), na(1.0, INF), na(1.0, -INF), 0.0, 1e300, -1e300, INF, -INF, 710.0, -750.0]
    for b in (lo, hi):
        if math.isfinite(b):
            P += [b, na(b, INF), na(b, -INF), b - 0.1, b + 0.1]
    P += [rng.uniform(-3, 3) for _ in range(6)]
    return P


# --------------------------------------------------------------------------- helpers


def ordered_int(a):
    i = np.asarray(a, dtype=np.float64).view(np.int64)
    return np.where(i < 0, np.int64(-2 ** 63) - i, i)


def ulp_diff(a, b):
    """element-wise distance in units in the last place; 0 where both NaN; huge where exactly one is NaN"""
    a = np.asarray(a, dtype=np.float64); b = np.asarray(b, dtype=np.float64)
    both = np.isnan(a) & np.isnan(b)
    one = np.isnan(a) ^ np.isnan(b)
    d = np.abs(ordered_int(np.where(np.isnan(a), 0.0, a)).astype(object) - ordered_int(np.where(np.isnan(b), 0.0, b)).astype(object))
    d = np.where(both, 0, d)
    d = np.where(one, 2 ** 62, d)
    # +0.0 and -0.0 are one step apart in this ordering but equal as numbers
    d = np.where((a == 0) & (b == 0), 0, d)
    return d


def fhex(xs):
    return [float(x).hex() if not (isinstance(x, float) and math.isnan(x)) else "nan" for x in xs]


def unhex(xs):
    return [float("nan") if s == "nan" else float.fromhex(s) for s in xs]


def box_replay(box, **kw):
    d = dict(kind="box", D=box["D"], lb=fhex(box["lb"]), plb=fhex(box["plb"]), pub=fhex(box["pub"]), ub=fhex(box["ub"]),
             readable=dict(lb=[repr(v) for v in box["lb"]], plb=[repr(v) for v in box["plb"]],
                           pub=[repr(v) for v in box["pub"]], ub=[repr(v) for v in box["ub"]]),
             how="./check C11 --replay <this file>   (rebuilds VariableTransformer(D, lb, ub, plb, pub) from VERIF_REPO and re-runs the monitors)")
    d.update(kw)
    return d


def box_from_replay(r):
    return dict(D=r["D"], lb=unhex(r["lb"]), plb=unhex(r["plb"]), pub=unhex(r["pub"]), ub=unhex(r["ub"]))


def sub_box(box, i):
    return dict(D=1, lb=[box["lb"][i]], plb=[box["plb"][i]], pub=[box["pub"][i]], ub=[box["ub"][i]])


# --------------------------------------------------------------------------- SPEC (independent restatement)


def spec_flag_exact(lb, ub, plb, pub):
    """all four bounds positive and plausible range spans at least a decade — exact rational arithmetic"""
    if not (lb > 0 and ub > 0 and plb > 0 and pub > 0):
        return False
    return Fraction(pub) >= 10 * Fraction(plb)


def spec_flag_float(lb, ub, plb, pub):
    if not (lb > 0 and ub > 0 and plb > 0 and pub > 0):
        return False
    return (np.float64(pub) / np.float64(plb)) >= 10


def D_(x):
    if math.isinf(x):
        return Decimal("Infinity") if x > 0 else Decimal("-Infinity")
    return Decimal(x)


def spec_g(flag, plb, pub, x):
    """reference g in 50 digits: affine (or affine in ln x) sending plb -> -1, pub -> +1"""
    getcontext().prec = 50
    t = (lambda v: D_(v).ln()) if flag else D_
    a, b = t(plb), t(pub)
    return (t(x) - (a + b) / 2) / ((b - a) / 2)


# --------------------------------------------------------------------------- one box


class BoxResult:
    def __init__(self):
        self.status = None            # 'ok' | 'rejected-selftest' | 'rejected-other:<msg>'
        self.violations = []          # (key, what, replay)
        self.tree_faults = []         # (what, replay)     REAL vs TREE
        self.observations = []
        self.max_ulp = 0
        self.n_cmp = 0
        self.rt_err = 0.0             # measured public round-trip error / box width (finite widths, points inside)
        self.rt_err_inf = 0.0         # same relative to max(|x|, plausible width) for infinite widths (observation only)
        self.fwd_err = 0.0            # |REAL g - 50-digit TREE g| / max(1, |g|)
        self.hp_rt = 0.0              # 50-digit round trip of the TREE, relative
        self.flags = None
        self.arm = None
        self.n_points = 0
        self.n_dec = 0


def tree_flags(model, box, arith):
    out = []
    for i in range(box["D"]):
        env = {}
        for k in T.BOUNDS:
            v = box[k][i]
            env[k] = v if (arith == "float" or math.isinf(v)) else Fraction(v)
            if arith == "float":
                env[k] = np.float64(v)
        out.append(bool(T.ev_rule(model.rule, env, arith)))
    return out


def selftest_points(box, flags):
    """the four rows the constructor tests (as the source builds them)"""
    eps = np.spacing(1.0)
    lbt = [(-1 / math.sqrt(eps)) if not math.isfinite(v) else v for v in box["lb"]]
    ubt = [((1e6 if f else 1 / math.sqrt(eps)) if not math.isfinite(v) else v) for v, f in zip(box["ub"], flags)]
    return [lbt, ubt, list(box["plb"]), list(box["pub"])]


def classify_rejection(model, box, res):
    """Constructor refused a valid box with 'Cannot invert'.  It is the known absolute-tolerance finding iff the
    50-digit evaluation of the translated formulas round-trips exactly at the tested rows, the binary64 round trip
    is off by rounding only (<= 1e-9 relative to max(|t|, plausible width)) and by more than 1e-6 absolutely."""
    flags = tree_flags(model, box, "float")
    l = np.array(flags, dtype=bool)
    E = T.Evaluator(model, "float")
    with np.errstate(all="ignore"):
        E.setup(l, arr(box["lb"]), arr(box["ub"]), arr(box["plb"]), arr(box["pub"]))
        rows = selftest_points(box, flags)
        X = np.array(rows, dtype=float)
        R = E.ginv(E.g(X))
    abs_err = np.abs(R - X)
    scale = np.maximum(np.abs(X), np.abs(arr(box["pub"]) - arr(box["plb"])))
    rel = abs_err / scale
    explained = bool(np.any(abs_err >= 1e-6))
    rounding_only = bool(np.all(rel <= 1e-9))
    arm = 0 if not any(flags) else (1 if all(flags) else 2)
    hp_ok = True
    for i in range(box["D"]):
        e = T.dec_coordinate(model, arm, flags[i], D_(box["lb"][i]), D_(box["ub"][i]), D_(box["plb"][i]), D_(box["pub"][i]))
        for r in rows:
            x = D_(r[i])
            back = e.ginv(e.g(x))
            if not (abs(back - x) <= Decimal("1e-40") * max(abs(x), Decimal(1))):
                hp_ok = False
    worst = np.unravel_index(np.argmax(abs_err), abs_err.shape)
    detail = dict(flags=flags, worst_abs_err=float(abs_err[worst]), at=float(X[worst]), coordinate=int(worst[1]),
                  worst_rel_err=float(np.max(rel)), exact_roundtrip_50_digits=hp_ok)
    return (explained and rounding_only and hp_ok), detail


def run_box(model, box, rng, deep=True, extra_x=None, extra_y=None):
    """model=None: monitors only (the source could not be translated).  extra_x / extra_y: {coordinate: [points]} added
    to the generated points (used by replays)."""
    res = BoxResult()
    D = box["D"]
    try:
        with np.errstate(all="ignore"):
            vt = build(box)
    except ValueError as ex:
        msg = str(ex)
        if msg.startswith("Cannot invert"):
            if model is None:
                res.status = "rejected-selftest-unclassified"
                return res
            known, detail = classify_rejection(model, box, res)
            if known:
                res.status = "rejected-selftest"
                res.detail = detail
            else:
                res.status = "rejected-other:" + msg[:60]
                res.violations.append(("constructor-rejects-valid-box",
                                       f"valid box rejected ({msg[:50]}) and the rejection is not explained by rounding at the "
                                       f"absolute 1e-6 tolerance: {detail}", box_replay(box, clause="constructor")))
        else:
            res.status = "rejected-other:" + msg[:60]
            res.violations.append(("constructor-rejects-valid-box", f"valid box rejected: {msg[:80]}",
                                   box_replay(box, clause="constructor")))
        return res
    res.status = "ok"
    flags = [bool(v) for v in vt.apply_log_t.flatten()]
    res.flags = flags
    arm = 0 if not any(flags) else (1 if all(flags) else 2)
    res.arm = arm

    # ---- (ii) decision: REAL flags vs TREE rule (exact and float) vs SPEC
    s_exact = [spec_flag_exact(box["lb"][i], box["ub"][i], box["plb"][i], box["pub"][i]) for i in range(D)]
    s_float = [bool(spec_flag_float(box["lb"][i], box["ub"][i], box["plb"][i], box["pub"][i])) for i in range(D)]
    t_exact, t_float = (tree_flags(model, box, "frac"), tree_flags(model, box, "float")) if model is not None else (s_exact, s_float)
    if t_float != flags and model is not None:
        res.tree_faults.append((f"log flags: real {flags} vs translated rule in binary64 {t_float}", box_replay(box, clause="log_rule")))
    for i in range(D):
        if t_exact[i] != t_float[i]:
            res.observations.append(f"rule exact-vs-float discrepancy: pub/plb = {box['pub'][i]!r}/{box['plb'][i]!r} exact "
                                    f"{'>=' if t_exact[i] else '<'} 10 but the rounded quotient says {t_float[i]}")
        if s_exact[i] != flags[i] and s_exact[i] == s_float[i]:
            res.violations.append(("log-rule", f"coordinate {i} bounds ({box['lb'][i]!r}, {box['plb'][i]!r}, {box['pub'][i]!r}, "
                                               f"{box['ub'][i]!r}): log-transformed={flags[i]} but the rule says {s_exact[i]}",
                                   box_replay(sub_box(box, i), clause="log_rule")))

    # ---- points
    cols = [coord_points(rng, box["lb"][i], box["plb"][i], box["pub"][i], box["ub"][i], flags[i]) for i in range(D)]
    for i, xs_ in (extra_x or {}).items():
        for x in xs_:
            lo_, hi_ = box["lb"][int(i)], box["ub"][int(i)]
            w_ = (hi_ - lo_) if math.isfinite(hi_ - lo_) else (box["pub"][int(i)] - box["plb"][int(i)])
            c_ = "in" if lo_ <= x <= hi_ else ("near" if (abs(x - lo_) <= 1e-2 * w_ or abs(x - hi_) <= 1e-2 * w_) else "far")
            cols[int(i)].append((float(x), c_))
    for c in cols:
        rng.shuffle(c)
    N = max(len(c) for c in cols)
    X = np.array([[cols[i][k % len(cols[i])][0] for i in range(D)] for k in range(N)], dtype=float)
    cat = np.array([[cols[i][k % len(cols[i])][1] for i in range(D)] for k in range(N)])
    res.n_points = N * D
    l = np.array(flags, dtype=bool)
    with np.errstate(all="ignore"):
        G, C = vt.g(X), vt(X)
        ycols = [y_points(rng, float(vt.lb[0, i]), float(vt.ub[0, i])) + [float(v) for v in (extra_y or {}).get(i, (extra_y or {}).get(str(i), []))]
                 for i in range(D)]
        M = max(len(c) for c in ycols)
        Y = np.vstack([C, np.array([[ycols[i][k % len(ycols[i])] for i in range(D)] for k in range(M)], dtype=float)])
        GI, IT = vt.ginv(Y), vt.inverse_transf(Y)
        RT = vt.inverse_transf(vt(X))
    cmp_list = []
    if model is not None:
        E = T.Evaluator(model, "float")
        with np.errstate(all="ignore"):
            E.setup(l, arr(box["lb"]), arr(box["ub"]), arr(box["plb"]), arr(box["pub"]))
            cmp_list = [("g", G, E.g(X), X), ("__call__", C, E.call(X), X), ("ginv", GI, E.ginv(Y), Y),
                        ("inverse_transf", IT, E.inverse_transf(Y), Y), ("stored lb", vt.lb, E.lb, None), ("stored ub", vt.ub, E.ub, None)]
    # ---- (i) REAL vs TREE in binary64
    for name, a, b, inp in cmp_list:
        a = np.asarray(a, dtype=float).reshape(np.asarray(b).shape)
        d = ulp_diff(a, b)
        res.n_cmp += d.size
        mx = int(np.max(d))
        res.max_ulp = max(res.max_ulp, mx)
        if mx > 1:
            w = np.unravel_index(int(np.argmax(d)), d.shape)
            res.tree_faults.append((f"{name}: real {float(a[w])!r} vs translated tree {float(np.asarray(b)[w])!r} ({mx} ulp) at "
                                    f"coordinate {w[-1]}" + (f" input {float(inp[w])!r}" if inp is not None else ""),
                                    box_replay(box, clause="translator:" + name)))
    # ---- (iii) monitors on REAL
    with np.errstate(all="ignore"):
        mon = monitors(box, flags, vt, X, cat, G, C, Y, IT, RT, res)
    res.violations += mon
    # ---- (i, high precision) TREE in 50 digits vs REAL, and exactness of the TREE's round trip
    if deep and model is not None:
        for i in range(D):
            e = T.dec_coordinate(model, arm, flags[i], D_(box["lb"][i]), D_(box["ub"][i]), D_(box["plb"][i]), D_(box["pub"][i]))
            idx = [k for k in range(N) if cat[k, i] == "in" and math.isfinite(X[k, i])][:10]
            for k in idx:
                x = D_(float(X[k, i]))
                gd = e.g(x)
                res.n_dec += 1
                if not gd.is_finite():
                    continue
                fe = abs(D_(float(G[k, i])) - gd) / max(Decimal(1), abs(gd))
                res.fwd_err = max(res.fwd_err, float(fe))
                if fe > Decimal("1e-9"):
                    res.tree_faults.append((f"g: real {float(G[k, i])!r} vs 50-digit evaluation of the translated tree {gd:.20E} at "
                                            f"x={float(X[k, i])!r} coordinate {i}", box_replay(box, clause="translator:g-decimal")))
                back = e.ginv(gd)
                hr = abs(back - x) / max(abs(x), D_(box["pub"][i]) - D_(box["plb"][i]))
                res.hp_rt = max(res.hp_rt, float(hr))
    return res


def monitors(box, flags, vt, X, cat, G, C, Y, IT, RT, res):
    """the property restated on observables of the real object; returns [(key, what, replay)] (first hit per clause)"""
    out = []
    D = box["D"]

    def hit(key, what, i, **kw):
        if not any(k == key for k, _, _ in out):
            out.append((key, what, box_replay(box, clause=key, coordinate=i, **kw)))
    lbT, ubT = vt.lb[0], vt.ub[0]
    if getattr(vt, "_verif_caller_changed", None):
        hit("caller-arrays-changed", f"constructing the transformer rewrote the caller's {vt._verif_caller_changed} array(s): the same arrays no longer "
            "describe the box (a second transformer built from them is a different map; points drawn from them lie elsewhere)", 0)
    for i in range(D):
        lb, plb, pub, ub, f = box["lb"][i], box["plb"][i], box["pub"][i], box["ub"][i], flags[i]
        # plausible bounds -> -1, +1
        for nm, v, want in (("plb", float(vt.plb[0, i]), -1.0), ("pub", float(vt.pub[0, i]), 1.0)):
            if not abs(v - want) <= 1e-12:
                hit("plausible-to-unit", f"g({nm}={box[nm][i]!r}) = {v!r}, expected {want} (coordinate {i}, log={f})", i)
        # outputs in box, NaN-free, for every input
        c, it = C[:, i], IT[:, i]
        badc = np.isnan(c) | (c < lbT[i]) | (c > ubT[i])
        if np.any(badc):
            k = int(np.argmax(badc))
            hit("call-output-in-box", f"__call__({float(X[k, i])!r}) = {float(c[k])!r} outside [{float(lbT[i])!r}, {float(ubT[i])!r}] (coordinate {i})",
                i, x=fhex([X[k, i]]))
        badi = np.isnan(it) | (it < lb) | (it > ub)
        if np.any(badi):
            k = int(np.argmax(badi))
            hit("inverse-output-in-box", f"inverse_transf({float(Y[k, i])!r}) = {float(it[k])!r} outside [{lb!r}, {ub!r}] (coordinate {i})",
                i, y=fhex([Y[k, i]]))
        # order never reversed (log coordinate: positive inputs)
        xs = X[:, i]
        sel = np.isfinite(xs) | np.isinf(xs)
        if f:
            sel = sel & (xs > 0)
        o = np.argsort(xs[sel], kind="stable")
        cs, xo = c[sel][o], xs[sel][o]
        rev = np.nonzero(cs[1:] < cs[:-1])[0]
        if rev.size:
            k = int(rev[0])
            hit("call-monotone", f"order reversed: x={float(xo[k])!r} < x'={float(xo[k + 1])!r} but __call__ gives {float(cs[k])!r} > {float(cs[k + 1])!r} (coordinate {i}, log={f})",
                i, x=fhex([xo[k], xo[k + 1]]))
        ys = Y[:, i]
        o = np.argsort(ys, kind="stable")
        its, yo = it[o], ys[o]
        rev = np.nonzero(its[1:] < its[:-1])[0]
        if rev.size:
            k = int(rev[0])
            hit("inverse-monotone", f"order reversed: y={float(yo[k])!r} < y'={float(yo[k + 1])!r} but inverse_transf gives {float(its[k])!r} > {float(its[k + 1])!r} (coordinate {i}, log={f})",
                i, y=fhex([yo[k], yo[k + 1]]))
        # strictness on well separated points inside the box
        inside = (cat[:, i] == "in")
        xi = np.unique(xs[inside])
        if xi.size >= 2:
            lo_, hi_ = xi[0], xi[-1]
            k0, k1 = int(np.nonzero(xs == lo_)[0][0]), int(np.nonzero(xs == hi_)[0][0])
            if hi_ > lo_ and not (c[k0] < c[k1]) and (hi_ - lo_) > 1e-6 * max(abs(hi_), abs(lo_), pub - plb):
                hit("call-monotone", f"not increasing: __call__({float(lo_)!r}) = {float(c[k0])!r} !< __call__({float(hi_)!r}) = {float(c[k1])!r} (coordinate {i})",
                    i, x=fhex([lo_, hi_]))
        # round trip through the public methods for points inside the box
        width = ub - lb
        err = np.abs(RT[:, i] - xs)
        if math.isfinite(width):
            rel = np.where(inside, err / width, 0.0)
            rel = np.where(np.isnan(rel), INF, rel)
            res.rt_err = max(res.rt_err, float(np.max(rel)))
            if np.max(rel) > 1e-9:
                k = int(np.argmax(rel))
                hit("roundtrip-error", f"inverse_transf(__call__({float(xs[k])!r})) = {float(RT[k, i])!r}: error {float(err[k])!r} = {float(rel[k])!r} of the "
                                       f"box width {width!r} (coordinate {i}, log={f})", i, x=fhex([xs[k]]))
        else:
            sc = np.maximum(np.abs(xs), pub - plb)
            rel = np.where(inside & np.isfinite(xs), err / sc, 0.0)
            rel = np.where(np.isnan(rel), INF, rel)
            res.rt_err_inf = max(res.rt_err_inf, float(np.max(rel)))
            if np.max(rel) > 1e-9:        # infinite width: the clause is vacuous, but an error this large is a wrong formula
                k = int(np.argmax(rel))
                hit("roundtrip-error", f"inverse_transf(__call__({float(xs[k])!r})) = {float(RT[k, i])!r}: error {float(err[k])!r} (unbounded "
                                       f"coordinate {i}; relative to max(|x|, plausible width): {float(rel[k])!r})", i, x=fhex([xs[k]]))
        # g is finite wherever it should be (in / next to the box, and at 0: the |x| + (x == 0) guard)
        chk = ((cat[:, i] != "far") | (xs == 0)) & np.isfinite(xs)
        badg = chk & ~np.isfinite(G[:, i])
        if np.any(badg):
            k = int(np.argmax(badg))
            hit("g-not-finite", f"g({float(xs[k])!r}) = {float(G[k, i])!r} (coordinate {i}, log={f})", i, x=fhex([xs[k]]))
        # affine / log-affine reference
        ks = [k for k in range(len(xs)) if cat[k, i] != "far" and math.isfinite(xs[k]) and (xs[k] > 0 or not f)][:12]
        for k in ks:
            ref = spec_g(f, plb, pub, float(xs[k]))
            if not abs(D_(float(G[k, i])) - ref) <= Decimal("1e-9") * max(Decimal(1), abs(ref)):
                hit("reference-formula", f"g({float(xs[k])!r}) = {float(G[k, i])!r} but the {'log-' if f else ''}affine map sending plb={plb!r} to -1 and "
                                         f"pub={pub!r} to +1 gives {ref:.17E} (coordinate {i})", i, x=fhex([xs[k]]))
                break
    return out


def run_invalid(box):
    """constructor must refuse; returns violation or None"""
    try:
        with np.errstate(all="ignore"):
            build(box)
    except ValueError:
        return None
    return ("constructor-accepts-invalid-box", f"bounds violating lb <= plb < pub <= ub ({box['how']}) accepted: "
            f"lb={box['lb']} plb={box['plb']} pub={box['pub']} ub={box['ub']}", box_replay(box, clause="constructor-invalid", invalid=box["how"]))


def run_disabled(box):
    """nonlinear scaling disabled (BADS passes zeros): nothing is log-transformed"""
    try:
        with np.errstate(all="ignore"):
            vt = build(box, np.zeros((1, box["D"])))
    except ValueError:
        return None
    if np.any(vt.apply_log_t):
        return ("log-rule", f"apply_log_t given as zeros (nonlinear scaling off) but flags are {vt.apply_log_t.tolist()}",
                box_replay(box, clause="log_rule_disabled"))
    return None


def bads_flag_check():
    """BADS passes NaN (decide) iff options['nonlinear_scaling'] — on a log-eligible problem"""
    from pybads import BADS
    import logging
    logging.disable(logging.CRITICAL)
    try:
        out = []
        a = lambda v: np.array([v], dtype=float)
        for ns in (True, False):
            b = BADS(lambda x: float(np.sum(x ** 2)), a([1.0, 50.0]), a([0.01, 1.0]), a([100.0, 1000.0]), a([0.1, 2.0]), a([10.0, 500.0]),
                     options={"nonlinear_scaling": ns, "display": "off"})
            out.append((ns, [bool(v) for v in b.var_transf.apply_log_t.flatten()]))
        return out
    finally:
        logging.disable(logging.NOTSET)


WITNESS = dict(D=1, lb=[1.0], plb=[2.0], pub=[1e12], ub=[1e13])
