"""Component correspondence for IterationHistory and OptimizeResult (model M11, Model/History.v).

Generates operation sequences on the REAL containers — known and unknown keys; iterations negative,
in range, just past the end and far beyond it; values that are ints, floats, strings, lists, nested
dicts and numpy arrays; source objects that are changed in place after the call; objects read back
out of the container and changed or re-recorded; arrays assigned whole, with shared elements — runs
them, and writes the same sequences as Coq cases for Model/HistoryTie.v (result of every op + full
state after every op: content AND object identity, compared up to one consistent renaming of the
container-owned objects).

Also: the declarative monitor (the laws of property C19 restated directly on the Python objects,
independent of the Coq model) and a greedy shrinker.  Everything is a pure function of the op list,
so a replay file is just (keys, ops).
"""
from __future__ import annotations

import copy

import numpy as np

from vlib.core import cz, clist, cstr, cval

HIST_KEYS = ["u", "x", "yval", "fval", "gp"]
UNKNOWN_KEYS = ["zz", "iter_", "U", "fval "]
RESULT_UNKNOWN = ["zz", "nfev", "X", "Status", "fun_count", "x_0"]


# ----------------------------------------------------------------------------- values

def build(spec):
    """JSON value spec -> fresh Python object."""
    t = spec["t"]
    if t == "none":
        return None
    if t in ("int", "float", "str", "bool"):
        return spec["v"]
    if t == "npfloat":
        return np.float64(spec["v"])
    if t == "list":
        return copy.deepcopy(spec["v"])
    if t == "dict":
        return copy.deepcopy(spec["v"])
    if t == "nd":
        return np.array(spec["v"], dtype=float)
    raise ValueError(t)


def is_mutable(o):
    return isinstance(o, (list, dict, set, bytearray)) or (isinstance(o, np.ndarray))


def canon(o):
    """content of a Python value as a nested structure for core.cval (type-tagged, order-preserving)."""
    if o is None or isinstance(o, (bool, int, float, str)):
        return o
    if isinstance(o, np.generic):
        return canon(o.item())
    if isinstance(o, np.ndarray):
        if o.dtype == object:
            return ["ndo"] + [canon(e) for e in o.tolist()]
        return ["nd", canon(o.tolist())]
    if isinstance(o, list):
        return ["list"] + [canon(e) for e in o]
    if isinstance(o, tuple):
        return ["tuple"] + [canon(e) for e in o]
    if isinstance(o, dict):
        return ["dict"] + [[str(k), canon(v)] for k, v in o.items()]
    if callable(o):
        return "<callable>"
    return "<%s>" % type(o).__name__


def mutable_parts(o, acc=None):
    """ids of all mutable objects reachable from o (for the 'no shared sub-object' law)."""
    acc = {} if acc is None else acc
    if is_mutable(o):
        if id(o) in acc:
            return acc
        acc[id(o)] = o
        if isinstance(o, dict):
            for v in o.values():
                mutable_parts(v, acc)
        elif isinstance(o, list):
            for v in o:
                mutable_parts(v, acc)
        elif isinstance(o, np.ndarray) and o.dtype == object:
            for v in o.tolist():
                mutable_parts(v, acc)
    elif isinstance(o, tuple):
        for v in o:
            mutable_parts(v, acc)
    return acc


def mutate_in_place(o, salt):
    """Change a mutable object in place, DEEPLY (innermost containers are changed in place too, so a
    shallow copy would be affected).  Deterministic in (content, salt).  Always changes the content."""
    if isinstance(o, np.ndarray):
        if o.dtype == object:
            for j in range(len(o)):
                if is_mutable(o[j]):
                    mutate_in_place(o[j], salt)
                elif isinstance(o[j], (int, float)) and not isinstance(o[j], bool):
                    o[j] = o[j] + salt
        else:
            o += salt
        return
    if isinstance(o, list):
        for j in range(len(o)):
            if is_mutable(o[j]):
                mutate_in_place(o[j], salt)
            elif isinstance(o[j], (int, float)) and not isinstance(o[j], bool):
                o[j] = o[j] + salt
        o.append(salt)
        return
    if isinstance(o, dict):
        for k in list(o.keys()):
            if is_mutable(o[k]):
                mutate_in_place(o[k], salt)
            elif isinstance(o[k], (int, float)) and not isinstance(o[k], bool):
                o[k] = o[k] + salt
        o["_m%d" % salt] = salt
        return
    raise TypeError("not mutable: %r" % (o,))


class Reg:
    """Identity registry: harness-made mutable objects are Ext n, every other mutable object seen is
    Obj h (first-sighting order).  Objects are kept alive so id() stays unique."""

    def __init__(self):
        self.keep, self.tag, self.ext, self.n_obj = [], {}, [], 0

    def new_ext(self, o):
        n = len(self.ext)
        self.ext.append(o)
        self.keep.append(o)
        self.tag[id(o)] = ("ext", n)
        return n

    def see(self, o):
        t = self.tag.get(id(o))
        if t is None:
            t = ("obj", self.n_obj)
            self.n_obj += 1
            self.keep.append(o)
            self.tag[id(o)] = t
        return t

    def hid(self, o):
        if not is_mutable(o):
            return "HImm"
        k, n = self.see(o)
        return f"(HExt {n})" if k == "ext" else f"(HObj {n})"


def value_lit(o, reg, fresh_ext=True):
    """Coq [value] literal for a source object (registering it as Ext n when mutable)."""
    if not is_mutable(o):
        return f"(mkV {cval(canon(o))} Imm)"
    t = reg.tag.get(id(o))
    if t is None:
        t = ("ext", reg.new_ext(o))
    assert t[0] == "ext"
    return f"(mkV {cval(canon(o))} (Ext {t[1]}))"


# ----------------------------------------------------------------------------- IterationHistory: generator

def gen_value(rng, small=True):
    r = rng.random()
    if r < 0.18:
        return dict(t="int", v=rng.randint(-9, 99))
    if r < 0.34:
        return dict(t="float", v=rng.choice([0.5, -1.25, 3.0, 1e-3, rng.uniform(-5, 5)]))
    if r < 0.36:
        return dict(t="none")
    if r < 0.38:
        return dict(t="str", v=rng.choice(["a", "poll", ""]))
    if r < 0.42:
        return dict(t="npfloat", v=rng.choice([0.25, 2.0, -7.5]))
    if r < 0.60:
        return dict(t="list", v=[rng.randint(0, 9) for _ in range(rng.randint(0, 3))])
    if r < 0.70:
        return dict(t="list", v=[[rng.randint(0, 9)], rng.randint(0, 9), {"z": [rng.randint(0, 9)]}])
    if r < 0.85:
        return dict(t="dict", v={"a": [rng.randint(0, 9), rng.randint(0, 9)], "b": {"c": rng.randint(0, 9), "d": [1.5]}})
    return dict(t="nd", v=[float(rng.randint(-4, 4)) / 2 for _ in range(rng.randint(1, 3))])


def gen_history_sequence(rng, idx):
    """Return (keys, ops); every choice from rng."""
    keys = rng.sample(HIST_KEYS, rng.choice([1, 2, 2, 3, 4]))
    if rng.random() < 0.1:
        keys = keys + [keys[0]]                  # duplicate key in the constructor list
    n = rng.choice([3, 5, 8, 12]) if idx % 9 else rng.choice([16, 24])
    ops, lens, n_src, recorded = [], {k: 0 for k in keys}, 0, []
    present = set(keys)

    def pick_key():
        r = rng.random()
        if r < 0.12:
            return rng.choice(UNKNOWN_KEYS)
        if r < 0.18 and len(present) < len(set(keys)):
            return rng.choice(sorted(set(keys) - present))      # a deleted key
        return rng.choice(sorted(present)) if present else rng.choice(keys)

    def pick_iter(k):
        L = lens.get(k) or 0
        r = rng.random()
        if r < 0.10:
            return rng.choice([-1, -2, -7])
        if r < 0.45 and L > 0:
            return rng.randrange(L)              # overwrite in range (no growth)
        if r < 0.80:
            return L                             # append
        if r < 0.93:
            return L + rng.randint(1, 4)         # gap
        return L + rng.randint(8, 30)            # far beyond the end

    while len(ops) < n:
        r = rng.random()
        if r < 0.50:
            k = pick_key()
            i = pick_iter(k)
            if rng.random() < 0.15 and n_src > 0:
                v = dict(t="ext", n=rng.randrange(n_src))        # the same source object again
            else:
                v = gen_value(rng)
                if v["t"] in ("list", "dict", "nd"):
                    v = dict(v, n=n_src)
                    n_src += 1
            ops.append(dict(op="record", k=k, v=v, i=i))
            if k in present and i >= 0 and lens.get(k) is not None:
                lens[k] = max(lens[k], i + 1)
                recorded.append((k, i))
            if "n" in v and rng.random() < 0.7:
                ops.append(dict(op="mutate_src", n=v["n"], salt=rng.randint(1, 50)))
        elif r < 0.58:
            i = rng.choice([0, 1, rng.randint(0, 6), -1])
            kvs = []
            pool = sorted(set(keys)) + UNKNOWN_KEYS[:1]
            for k in rng.sample(pool, rng.randint(1, min(3, len(pool)))):
                v = gen_value(rng)
                if v["t"] in ("list", "dict", "nd"):
                    v = dict(v, n=n_src)
                    n_src += 1
                kvs.append([k, v])
            ops.append(dict(op="record_iteration", kvs=kvs, i=i))
            if i >= 0:
                for k, _ in kvs:
                    if k not in present:
                        break
                    if lens.get(k) is not None:
                        lens[k] = max(lens[k], i + 1)
                        recorded.append((k, i))
        elif r < 0.66:
            k = pick_key()
            s = rng.random()
            if s < 0.3:
                src = dict(t="none")
            elif s < 0.4:
                src = dict(t="scalar", v=rng.choice([5, 2.5, -1]))
            else:
                cells = []
                for j in range(rng.randint(0, 4)):
                    c = rng.random()
                    if c < 0.3:
                        cells.append(None)
                    elif c < 0.45 and any(x is not None and x.get("n") is not None for x in cells):
                        prev = [x for x in cells if x is not None and x.get("n") is not None]
                        cells.append(dict(t="ext", n=rng.choice(prev)["n"]))   # the same object twice in one array
                    else:
                        v = gen_value(rng)
                        if v["t"] in ("list", "dict", "nd"):
                            v = dict(v, n=n_src)
                            n_src += 1
                        cells.append(v)
                src = dict(t="arr", cells=cells)
            ops.append(dict(op="set", k=k, src=src))
            if k in present:
                lens[k] = None if src["t"] == "scalar" else (len(src["cells"]) if src["t"] == "arr" else 0)
            if src["t"] == "arr" and rng.random() < 0.6:
                ops.append(dict(op="mutate_srcarr", salt=rng.randint(1, 50)))   # overwrite the source array's cells
                for c in src["cells"]:
                    if c is not None and c.get("n") is not None and rng.random() < 0.7:
                        ops.append(dict(op="mutate_src", n=c["n"], salt=rng.randint(1, 50)))
        elif r < 0.76:
            ops.append(dict(op="get", k=pick_key()))
        elif r < 0.80:
            k = pick_key()
            ops.append(dict(op="del", k=k))
            present.discard(k)
        elif r < 0.88 and n_src > 0:
            ops.append(dict(op="mutate_src", n=rng.randrange(n_src), salt=rng.randint(1, 50)))
        elif r < 0.94 and recorded:
            k, j = rng.choice(recorded)
            ops.append(dict(op="mutate_at", k=k, j=j, salt=rng.randint(1, 50)))
        elif recorded:
            k2, j = rng.choice(recorded)
            k = pick_key()
            i = pick_iter(k)
            ops.append(dict(op="record_from", k=k, k2=k2, j=j, i=i))
            if k in present and i >= 0 and lens.get(k) is not None:
                lens[k] = max(lens[k], i + 1)
                recorded.append((k, i))
    return keys, ops


# ----------------------------------------------------------------------------- IterationHistory: real run + Coq emission + monitor

def stored_lit(st, reg):
    if st is None:
        return "ESNone"
    if isinstance(st, np.ndarray) and st.dtype == object and st.ndim == 1:
        h = reg.see(st)
        assert h[0] == "obj", "the container stores an array object of the environment"
        cells = []
        for c in st.tolist():
            cells.append("ENone" if c is None else f"(EVal {cval(canon(c))} {reg.hid(c)})")
        return f"(ESArr {h[1]} {clist(cells)})"
    if isinstance(st, (int, float)) and not isinstance(st, bool):
        return f"(ESScalar {cval(st)})"
    raise TypeError("unsupported stored object %r" % (st,))


def snapshot(h):
    """(content, identities) of the whole container, for the monitor."""
    content, ids = {}, {}
    for k in dict.keys(h):
        st = dict.__getitem__(h, k)
        content[k] = canon(st)
        ids[k] = (id(st), [id(c) for c in st.tolist()] if isinstance(st, np.ndarray) else None)
    return content, ids


def cells_of(content_k):
    """content of the cells of a stored array (None when the key holds None / a scalar)."""
    if isinstance(content_k, list) and content_k and content_k[0] == "ndo":
        return content_k[1:]
    return None


def exc_name(ex):
    return type(ex).__name__


def run_history(keys, ops, monitor=True):
    """Run ops on a real IterationHistory.  Returns dict(tops=[Coq top], exp=[(eres, dump)], viol=[(key, msg, op index)])."""
    from pybads.utils.iteration_history import IterationHistory
    h = IterationHistory(list(keys))
    reg = Reg()
    srcs = {}          # spec number n -> python object
    last_srcarr = [None]
    tops, exp, viol, notes = [], [], [], []

    def obj_for(v):
        if v is None:
            return None
        if v["t"] == "ext":
            if v["n"] in srcs:
                return srcs[v["n"]]
            o = [v["n"]]                          # (after shrinking the original may be gone)
            srcs[v["n"]] = o
            return o
        o = build(v)
        if v.get("n") is not None and is_mutable(o):
            srcs[v["n"]] = o
        return o

    def check(cond, key, msg, t):
        if monitor and not cond:
            viol.append((key, msg, t))

    for t, o in enumerate(ops):
        kind = o["op"]
        c0, i0 = snapshot(h)
        res = "EOk"
        top = None
        if kind == "record":
            v = obj_for(o["v"])
            vlit = value_lit(v, reg)
            before_v = canon(v)
            top = f"(TOp (Record {cstr(o['k'])} {vlit} {cz(o['i'])}))"
            try:
                h.record(o["k"], v, o["i"])
                err = None
            except Exception as ex:
                err = exc_name(ex)
                res = f"(EErr {cstr(err)})"
            c1, i1 = snapshot(h)
            monitor_record(check, t, o["k"], v, before_v, o["i"], err, c0, i0, c1, i1, h)
        elif kind == "record_from":
            st = dict.__getitem__(h, o["k2"]) if o["k2"] in dict.keys(h) else None
            if not (isinstance(st, np.ndarray) and o["j"] < len(st) and st[o["j"]] is not None):
                continue                          # nothing stored there (possible after shrinking): skip the op
            v = st[o["j"]]
            before_v = canon(v)
            top = f"(TRecordFrom {cstr(o['k'])} {cstr(o['k2'])} {o['j']}%nat {cz(o['i'])})"
            try:
                h.record(o["k"], v, o["i"])
                err = None
            except Exception as ex:
                err = exc_name(ex)
                res = f"(EErr {cstr(err)})"
            c1, i1 = snapshot(h)
            monitor_record(check, t, o["k"], v, before_v, o["i"], err, c0, i0, c1, i1, h)
        elif kind == "record_iteration":
            kv, lits = {}, []
            for k, vs in o["kvs"]:
                v = obj_for(vs)
                kv[k] = v
                lits.append(f"({cstr(k)}, {value_lit(v, reg)})")
            top = f"(TOp (RecordIteration {clist(lits)} {cz(o['i'])}))"
            try:
                h.record_iteration(kv, o["i"])
                err = None
            except Exception as ex:
                err = exc_name(ex)
                res = f"(EErr {cstr(err)})"
            c1, i1 = snapshot(h)
            if o["i"] < 0:
                check(err == "ValueError" and c1 == c0, "errors-preserve-state",
                      f"record_iteration(.., {o['i']}) -> {err}, state changed: {c1 != c0}", t)
            elif err is None:
                for k, v in kv.items():
                    cs = cells_of(c1.get(k))
                    check(cs is not None and len(cs) > o["i"] and cs[o["i"]] == canon(v), "record-get",
                          f"after record_iteration cell ({k},{o['i']}) holds {cs and cs[o['i']:o['i']+1]} not {canon(v)}", t)
        elif kind == "set":
            s = o["src"]
            if s["t"] == "none":
                src, lit = None, "SrcNone"
            elif s["t"] == "scalar":
                src, lit = s["v"], f"(SrcScalar {cval(s['v'])})"
            else:
                objs = [obj_for(c) for c in s["cells"]]
                src = np.empty(len(objs), dtype=object)
                for j, ob in enumerate(objs):
                    src[j] = ob
                lit = "(SrcArr " + clist(["None" if ob is None else f"(Some {value_lit(ob, reg)})" for ob in objs]) + ")"
                last_srcarr[0] = src
            before = canon(src)
            top = f"(TOp (SetItem {cstr(o['k'])} {lit}))"
            try:
                h[o["k"]] = src
                err = None
            except Exception as ex:
                err = exc_name(ex)
                res = f"(EErr {cstr(err)})"
            c1, i1 = snapshot(h)
            if o["k"] not in c0:
                check(err == "ValueError" and c1 == c0 and i1 == i0, "errors-preserve-state",
                      f"h[{o['k']!r}] = ... on an unknown key -> {err}, state changed: {c1 != c0}", t)
            else:
                st = dict.__getitem__(h, o["k"])
                check(err is None and c1[o["k"]] == before, "record-get", f"h[{o['k']!r}] = v then h[k] != v ({err})", t)
                check(not is_mutable(src) or st is not src, "no-alias", f"h[{o['k']!r}] = arr stores arr itself", t)
                check(not (set(mutable_parts(src)) & set(mutable_parts(st))), "no-alias",
                      f"h[{o['k']!r}] = arr shares a mutable object with arr", t)
                check(all(c1[k] == c0[k] and i1[k] == i0[k] for k in c0 if k != o["k"]), "frame",
                      f"h[{o['k']!r}] = ... changed another key", t)
        elif kind == "get":
            top = f"(TOp (Get {cstr(o['k'])}))"
            try:
                got = h[o["k"]]
                res = f"(ERef {stored_lit(got, reg)})"
                check(o["k"] in c0 and got is dict.__getitem__(h, o["k"]), "record-get", "h[k] is not the stored object", t)
                check(h.get(o["k"]) is got, "record-get", "h.get(k) is not h[k]", t)
            except Exception as ex:
                res = f"(EErr {cstr(exc_name(ex))})"
                check(o["k"] not in c0 and exc_name(ex) == "KeyError", "errors-preserve-state",
                      f"h[{o['k']!r}] raised {exc_name(ex)}", t)
            c1, i1 = snapshot(h)
            check(c1 == c0 and i1 == i0, "frame", "reading changed the state", t)
        elif kind == "del":
            top = f"(TOp (Del {cstr(o['k'])}))"
            try:
                del h[o["k"]]
                err = None
            except Exception as ex:
                err = exc_name(ex)
                res = f"(EErr {cstr(err)})"
            c1, i1 = snapshot(h)
            if o["k"] in c0:
                check(err is None and o["k"] not in c1 and all(c1[k] == c0[k] and i1[k] == i0[k] for k in c1), "frame",
                      f"del h[{o['k']!r}] -> {err}", t)
            else:
                check(err == "KeyError" and c1 == c0, "errors-preserve-state", f"del h[{o['k']!r}] (absent) -> {err}", t)
        elif kind == "mutate_src":
            if o["n"] not in srcs:
                continue
            ob = srcs[o["n"]]
            tg = reg.tag.get(id(ob))
            if tg is None:
                continue                          # never handed to the container (its op was shrunk away)
            mutate_in_place(ob, o["salt"])
            top = f"(TOp (Mutate (Ext {tg[1]}) {cval(canon(ob))}))"
            c1, i1 = snapshot(h)
            check(c1 == c0, "no-alias",
                  f"changing a source object in place after it was recorded changed the history: "
                  f"{[k for k in c0 if c1.get(k) != c0[k]]}", t)
        elif kind == "mutate_srcarr":
            a = last_srcarr[0]
            if a is None:
                continue
            for j in range(len(a)):
                a[j] = "overwritten%d" % o["salt"]
            c1, i1 = snapshot(h)
            check(c1 == c0, "no-alias", "overwriting the cells of an assigned array changed the history", t)
            continue                              # no model op: the source array itself is not part of the model state
        elif kind == "mutate_at":
            st = dict.__getitem__(h, o["k"]) if o["k"] in dict.keys(h) else None
            if not (isinstance(st, np.ndarray) and o["j"] < len(st) and is_mutable(st[o["j"]])):
                continue
            ob = st[o["j"]]
            mutate_in_place(ob, o["salt"])
            top = f"(TMutateAt {cstr(o['k'])} {o['j']}%nat {cval(canon(ob))})"
            c1, i1 = snapshot(h)
            # a reference into the history is NOT a copy: the cell changes, and only cells holding this very object
            for k in c0:
                a0, a1 = cells_of(c0[k]), cells_of(c1[k])
                if a0 is None:
                    check(c1[k] == c0[k], "frame", "mutating a stored object changed a non-array key", t)
                    continue
                for j in range(len(a0)):
                    same_obj = i0[k][1][j] == id(ob)
                    check((a1[j] != a0[j]) == same_obj, "frame",
                          f"mutating the object stored at ({o['k']},{o['j']}) in place: cell ({k},{j}) "
                          f"{'did not change' if same_obj else 'changed'}", t)
        else:
            raise ValueError(kind)
        tops.append(top)
        dump = clist([f"({cstr(k)}, {stored_lit(dict.__getitem__(h, k), reg)})" for k in dict.keys(h)])
        exp.append(f"({res}, Some {dump})")
    return dict(tops=tops, exp=exp, viol=viol, final=snapshot(h)[0])


def monitor_record(check, t, k, v, before_v, i, err, c0, i0, c1, i1, h):
    """The laws of record(), restated on the real objects."""
    if i < 0 or k not in c0:
        check(err == "ValueError", "errors-preserve-state", f"record({k!r}, v, {i}) -> {err}, expected ValueError", t)
        check(c1 == c0 and i1 == i0, "errors-preserve-state", f"failed record({k!r}, v, {i}) changed the state", t)
        return
    if err is not None:
        scalar = c0[k] is not None and cells_of(c0[k]) is None
        check(scalar and err == "TypeError", "errors-preserve-state", f"record({k!r}, v, {i}) -> {err} on a recordable key", t)
        check(c1 == c0 and i1 == i0, "errors-preserve-state", f"failed record({k!r}, v, {i}) changed the state", t)
        return
    old = cells_of(c0[k]) or []
    new = cells_of(c1[k])
    check(new is not None and len(new) == max(len(old), i + 1), "grow-padding",
          f"record({k!r}, v, {i}): length {None if new is None else len(new)} != max({len(old)}, {i + 1})", t)
    if new is None or len(new) <= i:
        return
    check(new[i] == before_v, "record-get", f"record({k!r}, v, {i}): cell holds {new[i]!r}, recorded {before_v!r}", t)
    for j in range(len(new)):
        if j == i:
            continue
        if j < len(old):
            check(new[j] == old[j], "frame", f"record({k!r}, v, {i}) changed cell {j}: {old[j]!r} -> {new[j]!r}", t)
        else:
            check(new[j] is None, "grow-padding", f"record({k!r}, v, {i}): new cell {j} holds {new[j]!r}, not None", t)
    check(all(c1[kk] == c0[kk] and i1[kk] == i0[kk] for kk in c0 if kk != k), "frame",
          f"record({k!r}, v, {i}) changed another key", t)
    st = dict.__getitem__(h, k)
    cell = st[i]
    if is_mutable(v):
        check(cell is not v, "no-alias", f"record({k!r}, v, {i}) stored v itself, not a copy", t)
        check(not (set(mutable_parts(v)) & set(mutable_parts(cell))), "no-alias",
              f"record({k!r}, v, {i}): the stored copy shares a mutable sub-object with v (shallow copy)", t)
    if i < len(old) and i0[k][1] is not None:
        check(i1[k][0] == i0[k][0], "frame", f"record({k!r}, v, {i}) in range replaced the array object", t)


HIST_CASE_TY = "history_case"
HIST_OK = "history_ok"
REQUIRES = ["PV.Model.Val", "PV.Model.History", "PV.Model.HistoryTie"]


def coq_history_case(keys, run):
    return f"(({clist([cstr(k) for k in keys])}, {clist(run['tops'])}), {clist(run['exp'])})"


def shrink(ops, failing):
    ops = list(ops)
    i = 0
    while i < len(ops):
        cand = ops[:i] + ops[i + 1:]
        if cand and failing(cand):
            ops = cand
        else:
            i += 1
    return ops


# ----------------------------------------------------------------------------- OptimizeResult

def result_keys_real():
    from pybads.bads.optimize_result import OptimizeResult
    return list(OptimizeResult._keys)


def gen_result_sequence(rng, idx):
    keys = result_keys_real()
    n = rng.choice([3, 6, 10, 16])
    ops, n_src, present = [], 0, []
    while len(ops) < n:
        r = rng.random()
        k = rng.choice(RESULT_UNKNOWN) if rng.random() < 0.15 else rng.choice(keys)
        if r < 0.45:
            if rng.random() < 0.15 and n_src > 0:
                v = dict(t="ext", n=rng.randrange(n_src))
            else:
                v = gen_value(rng)
                if v["t"] in ("list", "dict", "nd"):
                    v = dict(v, n=n_src)
                    n_src += 1
            ops.append(dict(op="rset", k=k, v=v))
            if k in keys:
                present.append(k)
            if "n" in v and rng.random() < 0.7:
                ops.append(dict(op="mutate_src", n=v["n"], salt=rng.randint(1, 50)))
        elif r < 0.62:
            ops.append(dict(op="rget", k=rng.choice(present) if present and rng.random() < 0.6 else k))
        elif r < 0.79:
            ops.append(dict(op="rgetattr", k=rng.choice(present) if present and rng.random() < 0.6 else k))
        elif r < 0.85:
            ops.append(dict(op="rdel", k=rng.choice(present) if present and rng.random() < 0.6 else k))
        elif r < 0.88:
            # attribute ASSIGNMENT / deletion (scipy-style use): must not create, change or remove a field behind the key checks
            ops.append(dict(op="rsetattr", k=(rng.choice(RESULT_UNKNOWN) if rng.random() < 0.6 else k), v=gen_value(rng)))
        elif r < 0.94 and present:
            ops.append(dict(op="mutate_at", k=rng.choice(present), salt=rng.randint(1, 50)))
        elif present:
            ops.append(dict(op="set_from", k=k, k2=rng.choice(present)))
    return ops


def rsnapshot(r):
    return {k: canon(dict.__getitem__(r, k)) for k in dict.keys(r)}, {k: id(dict.__getitem__(r, k)) for k in dict.keys(r)}


def run_result(ops, monitor=True):
    from pybads.bads.optimize_result import OptimizeResult
    keys = result_keys_real()
    r = OptimizeResult()
    reg = Reg()
    srcs = {}
    tops, exp, viol = [], [], []

    def check(cond, key, msg, t):
        if monitor and not cond:
            viol.append((key, msg, t))

    def obj_for(v):
        if v["t"] == "ext":
            if v["n"] in srcs:
                return srcs[v["n"]]
            o = [v["n"]]
            srcs[v["n"]] = o
            return o
        o = build(v)
        if v.get("n") is not None and is_mutable(o):
            srcs[v["n"]] = o
        return o

    def do_set(t, k, v, top):
        before_v = canon(v)
        c0, i0 = rsnapshot(r)
        try:
            r[k] = v
            err = None
        except Exception as ex:
            err = exc_name(ex)
        c1, i1 = rsnapshot(r)
        if k not in keys:
            check(err == "ValueError" and c1 == c0 and i1 == i0, "result-keys",
                  f"r[{k!r}] = v (unknown key) -> {err}, state changed: {c1 != c0}", t)
        else:
            check(err is None and c1.get(k) == before_v, "result-keys", f"r[{k!r}] = v then r[k] != v ({err})", t)
            check(all(c1[kk] == c0[kk] and i1[kk] == i0[kk] for kk in c0 if kk != k), "result-keys",
                  f"r[{k!r}] = v changed another field", t)
            if err is None and is_mutable(v):
                st = dict.__getitem__(r, k)
                check(st is not v, "result-copies", f"r[{k!r}] = v stores v itself, not a copy", t)
                check(not (set(mutable_parts(v)) & set(mutable_parts(st))), "result-copies",
                      f"r[{k!r}] = v: the stored copy shares a mutable sub-object with v", t)
        return "EROk" if err is None else f"(ERErr {cstr(err)})"

    for t, o in enumerate(ops):
        kind = o["op"]
        c0, i0 = rsnapshot(r)
        res, top = "EROk", None
        if kind == "rset":
            v = obj_for(o["v"])
            top = f"(RTOp (RSet {cstr(o['k'])} {value_lit(v, reg)}))"
            res = do_set(t, o["k"], v, top)
        elif kind == "set_from":
            if o["k2"] not in c0:
                continue
            v = dict.__getitem__(r, o["k2"])
            top = f"(RTSetFrom {cstr(o['k'])} {cstr(o['k2'])})"
            res = do_set(t, o["k"], v, top)
        elif kind in ("rget", "rgetattr"):
            byattr = kind == "rgetattr"
            top = f"(RTOp ({'RGetAttr' if byattr else 'RGet'} {cstr(o['k'])}))"
            try:
                got = getattr(r, o["k"]) if byattr else r[o["k"]]
                res = f"(ERRef {cval(canon(got))} {reg.hid(got)})"
                check(o["k"] in c0 and got is dict.__getitem__(r, o["k"]), "result-keys", "read is not the stored object", t)
                check(getattr(r, o["k"]) is r[o["k"]], "result-keys", f"r.{o['k']} is not r[{o['k']!r}]", t)
            except Exception as ex:
                res = f"(ERErr {cstr(exc_name(ex))})"
                want = "AttributeError" if byattr else "KeyError"
                check(o["k"] not in c0 and exc_name(ex) == want, "result-keys",
                      f"reading missing field {o['k']!r} raised {exc_name(ex)}, expected {want}", t)
            c1, i1 = rsnapshot(r)
            check(c1 == c0 and i1 == i0, "result-keys", "reading changed the result", t)
        elif kind == "rdel":
            top = f"(RTOp (RDel {cstr(o['k'])}))"
            try:
                del r[o["k"]]
            except Exception as ex:
                res = f"(ERErr {cstr(exc_name(ex))})"
                check(o["k"] not in c0 and exc_name(ex) == "KeyError", "result-keys", f"del r[{o['k']!r}] raised {exc_name(ex)}", t)
        elif kind == "rsetattr":
            # outside the Coq op alphabet: judged by the monitor only (the mapping must be exactly what it was)
            try:
                setattr(r, o["k"], build(o["v"]))
            except Exception:
                pass
            c1, i1 = rsnapshot(r)
            check(c1 == c0 and i1 == i0, "result-keys",
                  f"r.{o['k']} = v (attribute assignment) changed the mapping: keys {sorted(set(c1) ^ set(c0))} / values {[k for k in c0 if k in c1 and c1[k] != c0[k]]}", t)
            try:
                copy.deepcopy(r)
            except Exception as ex:
                check(False, "result-keys", f"after r.{o['k']} = v the result can no longer be deep-copied ({exc_name(ex)})", t)
            try:
                object.__delattr__(r, o["k"])           # leave no instance attribute behind (it would shadow later reads)
            except Exception:
                pass
            continue
        elif kind == "mutate_src":
            if o["n"] not in srcs or reg.tag.get(id(srcs[o["n"]])) is None:
                continue
            ob = srcs[o["n"]]
            mutate_in_place(ob, o["salt"])
            top = f"(RTOp (RMutate (Ext {reg.tag[id(ob)][1]}) {cval(canon(ob))}))"
            c1, i1 = rsnapshot(r)
            check(c1 == c0, "result-copies",
                  f"changing a source object in place after r[k] = v changed the result: {[k for k in c0 if c1.get(k) != c0[k]]}", t)
        elif kind == "mutate_at":
            if o["k"] not in c0 or not is_mutable(dict.__getitem__(r, o["k"])):
                continue
            ob = dict.__getitem__(r, o["k"])
            mutate_in_place(ob, o["salt"])
            top = f"(RTMutateAt {cstr(o['k'])} {cval(canon(ob))})"
            c1, i1 = rsnapshot(r)
            check(all((c1[k] != c0[k]) == (i0[k] == id(ob)) for k in c0), "result-keys",
                  "mutating one stored field in place changed another (fields share an object)", t)
        else:
            raise ValueError(kind)
        tops.append(top)
        dump = clist([f"({cstr(k)}, ({cval(canon(dict.__getitem__(r, k)))}, {reg.hid(dict.__getitem__(r, k))}))" for k in dict.keys(r)])
        exp.append(f"({res}, Some {dump})")
    return dict(tops=tops, exp=exp, viol=viol)


RES_CASE_TY = "result_case"
RES_OK = "result_ok"


def coq_result_case(run):
    return f"({clist(run['tops'])}, {clist(run['exp'])})"


def set_attributes_keys_from_source():
    """The keys OptimizeResult.set_attributes assigns, read from the CURRENT source (ast), in order."""
    import ast
    import inspect
    import textwrap
    from pybads.bads.optimize_result import OptimizeResult
    tree = ast.parse(textwrap.dedent(inspect.getsource(OptimizeResult.set_attributes)))
    out = []
    for node in ast.walk(tree):
        if isinstance(node, ast.Assign):
            for tg in node.targets:
                if (isinstance(tg, ast.Subscript) and isinstance(tg.value, ast.Name) and tg.value.id == "self"
                        and isinstance(tg.slice, ast.Constant) and isinstance(tg.slice.value, str)):
                    out.append((node.lineno, tg.slice.value))
    seen, res = set(), []
    for _, k in sorted(out):
        if k not in seen:
            seen.add(k)
            res.append(k)
    return res


# ----------------------------------------------------------------------------- source tie (translate/history.py) and aimed search

SRC_REQUIRES = REQUIRES + ["PV.Model.HistorySrc", "PV.gen.Src_history"]
HIST_OK_SRC = "history_ok_gen src_history"
RES_OK_SRC = "result_ok_gen src_result"


def gen_aimed_history(rng, idx, tags):
    """(keys, ops) aimed at the constructs named by tags (translate.history.regions_to_search): boundary iterations around the current
    length (the growth test and amount), fresh keys (the None -> one-cell array step), mutable values changed after the call (the copies),
    whole-array assignment followed by records (__setitem__), undeclared / deleted keys at every position of record_iteration."""
    tags = [t for t in tags if not t.startswith("r")] or ["any"]
    if "any" in tags:
        tags = ["record", "expand", "setitem", "record_iteration", "init"]
    keys = rng.sample(HIST_KEYS, rng.choice([1, 2, 3]))
    if "init" in tags and rng.random() < 0.5:
        keys = keys + [rng.choice(keys)]
    ops, lens, recorded = [], {k: 0 for k in keys}, []
    n_src = [0]

    def val(mut):
        v = gen_value(rng)
        for _ in range(20):
            if not mut or v["t"] in ("list", "dict", "nd"):
                break
            v = gen_value(rng)
        if v["t"] in ("list", "dict", "nd"):
            v = dict(v, n=n_src[0])
            n_src[0] += 1
        return v

    def pick_key():
        return rng.choice(keys) if rng.random() < 0.85 else rng.choice(UNKNOWN_KEYS)

    def note(k, i):
        if k in lens and i >= 0 and lens[k] is not None:
            lens[k] = max(lens[k], i + 1)
            recorded.append((k, i))

    n = rng.choice([3, 5, 8])
    while len(ops) < n:
        tag = rng.choice(tags)
        k = pick_key()
        L = lens.get(k) or 0
        if tag in ("record", "expand", "init"):
            i = rng.choice([max(L - 1, 0), L, L, L + 1, L + 2, 0, -1, L + rng.randint(3, 9)])
            v = val(rng.random() < 0.6)
            ops.append(dict(op="record", k=k, v=v, i=i))
            note(k, i)
            if "n" in v:
                ops.append(dict(op="mutate_src", n=v["n"], salt=rng.randint(1, 50)))
            if recorded and rng.random() < 0.4:
                k2, j = rng.choice(recorded)
                ops.append(dict(op="mutate_at", k=k2, j=j, salt=rng.randint(1, 50)))
            if recorded and rng.random() < 0.25:
                k2, j = rng.choice(recorded)
                ops.append(dict(op="record_from", k=k, k2=k2, j=j, i=L))
                note(k, L)
            if rng.random() < 0.3:
                ops.append(dict(op="get", k=k))
        elif tag == "setitem":
            s = rng.random()
            if s < 0.2:
                src = dict(t="none")
            elif s < 0.3:
                src = dict(t="scalar", v=rng.choice([5, 2.5]))
            else:
                cells = [None if rng.random() < 0.3 else val(rng.random() < 0.7) for _ in range(rng.randint(0, 4))]
                src = dict(t="arr", cells=cells)
            ops.append(dict(op="set", k=k, src=src))
            if k in lens:
                lens[k] = None if src["t"] == "scalar" else (len(src["cells"]) if src["t"] == "arr" else 0)
            if src["t"] == "arr":
                ops.append(dict(op="mutate_srcarr", salt=rng.randint(1, 50)))
                for c in src["cells"]:
                    if c is not None and c.get("n") is not None:
                        ops.append(dict(op="mutate_src", n=c["n"], salt=rng.randint(1, 50)))
            ops.append(dict(op="get", k=k))
            if rng.random() < 0.5:
                i = rng.choice([0, (lens.get(k) or 0), (lens.get(k) or 0) + 1])
                ops.append(dict(op="record", k=k, v=val(True), i=i))
                note(k, i)
        else:       # record_iteration
            i = rng.choice([0, L, L + 1, -1, -3])
            pool = sorted(set(keys)) + [rng.choice(UNKNOWN_KEYS)]
            kvs = [[kk, val(rng.random() < 0.5)] for kk in rng.sample(pool, rng.randint(1, min(3, len(pool))))]
            ops.append(dict(op="record_iteration", kvs=kvs, i=i))
            for kk, v in kvs:
                if kk not in lens:
                    break
                note(kk, i)
            for kk, v in kvs:
                if "n" in v:
                    ops.append(dict(op="mutate_src", n=v["n"], salt=rng.randint(1, 50)))
            if rng.random() < 0.3:
                kd = rng.choice(keys)
                ops.append(dict(op="del", k=kd))
                lens.pop(kd, None)
    return keys, ops
