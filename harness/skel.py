"""Run-level tie for the skeleton model (Model/Skeleton.v): turn a RunTrace into
(a) the oracle inputs of the model and (b) the observed states after init and after every loop
iteration; emit them as one Coq case.  Also: the trace panel (specs), the trace cache, and helpers
shared by the run-level property plug-ins (C01-C06, C09, C10, C13)."""
from __future__ import annotations

import hashlib
import json
import math
import os
import pickle
import sys
from concurrent.futures import ProcessPoolExecutor
from fractions import Fraction

from vlib import core
from vlib.core import cq, cz, cbool, clist, cqlist, cval


class TraceShape(Exception):
    """the trace does not have the shape the parser expects (reported as a broken tie)"""


def log2_exact(x):
    m, e = math.frexp(x)
    if m != 0.5:
        raise TraceShape("not a power of two: %r" % x)
    return e - 1


def opt_int(v, name):
    if v is None or float(v) != int(v):
        raise TraceShape(f"option {name} is not an integer: {v!r}")
    return int(v)


def parse(tr):
    """-> dict(opts, k0, ks0, init_calls, fsd0, iters (model inputs), expect (observed), exc)"""
    if "construct_exc" in tr:
        raise TraceShape("construction failed: %r" % (tr["construct_exc"],))
    ev = tr["events"]
    calls = tr["calls"]
    o0 = tr["options0"]
    idx_init = next((i for i, e in enumerate(ev) if e[0] == "init_done"), None)
    exc = tr.get("exc")
    P = dict(exc=exc, spec=tr["spec"])
    D = tr["problem"]["D"]

    def mk_eval(c, impr):
        """c: calls entry; impr: impr event or None"""
        fault = c["out"] is None or c["out"][0] == "fault" or "exc" in c
        if fault:
            return dict(u=c["u"], fault=True, y=0.0, fmu=0.0, fs=0.0, impr=0.0, newrow=False)
        y = c["ret"][0]
        if impr is None:
            return dict(u=c["u"], fault=False, y=y, fmu=y, fs=0.0, impr=0.0, newrow=c["newrow"])
        return dict(u=c["u"], fault=False, y=y, fmu=impr[3], fs=impr[5] if impr[5] is not None else 0.0, impr=impr[7],
                    newrow=c["newrow"], fbase=impr[2], sbase=impr[4])

    orphan = [c["i"] for c in calls if "u" not in c]
    if orphan:
        # every target call is made by exactly one logger call in the model; a call without the logger's bookkeeping means the target
        # was invoked twice within one logger call (or from somewhere else)
        raise TraceShape(f"target call(s) {orphan[:3]} were not made by a logger call of their own (target invoked twice in one evaluation?)")
    init_calls = [c for c in calls if c["phase"] == "init"]
    P["init_calls"] = [dict(ev=mk_eval(c, None), record=c.get("record", True)) for c in init_calls]
    if idx_init is None:
        # the run died during initialisation
        P.update(opts=None, iters=[], expect=[], init_snap=None)
        return P
    snap0, oo = ev[idx_init][1], ev[idx_init][2]
    level = snap0["level"]
    P["level"] = level
    opts = dict(D=D, maxfe=opt_int(oo["max_fun_evals"], "max_fun_evals"), maxiter=opt_int(oo["max_iter"], "max_iter"),
                ntry=opt_int(oo["search_n_try"], "search_n_try"), tolmesh=log2_exact(oo["tol_mesh_state"]),
                accel=bool(o0["accelerate_mesh"]), accel_steps=opt_int(o0["accelerate_mesh_steps"], "accelerate_mesh_steps"),
                stall=opt_int(oo["tol_stall_iters"], "tol_stall_iters"), skip=bool(o0["skip_poll_after_search"]),
                sme=opt_int(o0["search_mesh_expand"], "search_mesh_expand"), smi=opt_int(o0["search_mesh_increment"], "search_mesh_increment"),
                maxgrid=opt_int(o0["max_poll_grid_number"], "max_poll_grid_number"), sgm=opt_int(o0["search_grid_multiplier"], "sgm"),
                sgn=opt_int(o0["search_grid_number"], "sgn"), locked=bool(o0["search_size_locked"]), tolfun=oo["tol_fun"],
                sloppy=bool(o0["sloppy_improvement"]), det=(level == 0))
    if float(o0["poll_mesh_multiplier"]) != 2.0:
        raise TraceShape("poll_mesh_multiplier != 2 is outside the model")
    P["opts"] = opts
    P["k0"] = opt_int(o0["init_mesh_size_integer"], "init_mesh_size_integer")
    P["ks0"] = min(0, P["k0"] * opts["sgm"] - opts["sgn"])
    P["fsd0"] = snap0["fsd"]
    P["init_snap"] = snap0
    # ---- split the loop into iterations at probes
    iters, cur = [], []
    for e in ev[idx_init + 1:]:
        cur.append(e)
        if e[0] == "probe":
            iters.append(cur)
            cur = []
    tail = cur  # events after the last probe (a dying iteration, or the final phase)
    callmap = {c["i"]: c for c in calls}
    out_iters, expect = [], []
    last_piter = 0

    def parse_iter(evs, probe):
        nonlocal last_piter
        it = dict(SI=None, search=dict(ev=None, impr0=0.0), poll=dict(ncand=0, evals=[], hist=None), stall=None, noisy=None,
                  did_search=False, did_poll=False, hist_rec=[])
        i = 0
        n = len(evs)
        while i < n:
            e = evs[i]
            if e[0] == "search_begin":
                it["did_search"] = True
                it["SI"] = e[1]["SI"]
                j = i + 1
                cs, imprs = [], []
                while j < n and evs[j][0] != "search_end":
                    if evs[j][0] in ("call", "call_exc") and evs[j][1] == "search":
                        cs.append(evs[j])
                    if evs[j][0] == "impr" and evs[j][1] == "search":
                        imprs.append(evs[j])
                    j += 1
                it["search_calls_ev"] = cs
                it["search_imprs"] = imprs
                i = j
            elif e[0] == "poll_begin":
                it["did_poll"] = True
                it["SI"] = e[1]["SI"]
                j = i + 1
                cs, imprs, ncand = [], [], None
                while j < n and evs[j][0] != "poll_end":
                    if evs[j][0] in ("call", "call_exc") and evs[j][1] == "poll":
                        cs.append(evs[j])
                    if evs[j][0] == "impr" and evs[j][1] == "poll":
                        imprs.append(evs[j])
                    if evs[j][0] == "filter" and evs[j][1] == "bads" and evs[j][2] == "poll" and ncand is None:
                        ncand = len(evs[j][8])
                    j += 1
                it["poll_calls_ev"], it["poll_imprs"], it["poll_ncand"] = cs, imprs, (ncand or 0)
                i = j
            elif e[0] == "impr" and e[1] == "loop":
                it["stall"] = e[7]
            elif e[0] == "hist":
                it["hist_rec"].append(e[2:])
            i += 1
        return it

    # call events carry the running call index: map them back to calls entries
    def calls_of(cevs):
        res = []
        for ce in cevs:
            if ce[0] == "call":
                res.append(callmap[ce[2]])
        return res

    target_fault = any(c["out"] is not None and c["out"][0] == "fault" for c in calls)
    P["target_fault"] = target_fault
    P["crashed"] = exc is not None and not target_fault      # internal error: compare the prefix of complete iterations only
    finished = bool(iters) and iters[-1][-1][1]["is_finished"]
    all_iter_evs = iters + ([tail] if (exc is not None and target_fault and tail and not finished) else [])
    for n_it, evs in enumerate(all_iter_evs):
        probe = evs[-1] if evs and evs[-1][0] == "probe" else None
        it = parse_iter(evs, probe)
        # search
        m = dict(SI=None, search=dict(ev=None, impr0=0.0), poll=dict(ncand=0, evals=[], hist=None), stall=it["stall"], noisy=None)
        faulted_call = None
        # a call that raised inside the logger has no 'call' event but a 'call_exc' one; its calls entry is the one with exc
        if it["did_search"]:
            cs = calls_of(it["search_calls_ev"])
            exc_cs = [c for c in it["search_calls_ev"] if c[0] == "call_exc"]
            imprs = it["search_imprs"]
            if cs:
                if len(cs) > 1:
                    raise TraceShape("more than one target call in a search step")
                m["search"]["ev"] = mk_eval(cs[0], imprs[0] if imprs else None)
            elif exc_cs:
                fc_ = [c for c in calls if c["phase"] == "search" and ("exc" in c or c["out"] is None or c["out"][0] == "fault")]
                m["search"]["ev"] = mk_eval(fc_[-1], None)
            else:
                m["search"]["impr0"] = imprs[0][7] if imprs else 0.0
        if it["did_poll"]:
            cs = calls_of(it["poll_calls_ev"])
            imprs = it["poll_imprs"]
            evals = [mk_eval(c, imprs[i] if i < len(imprs) else None) for i, c in enumerate(cs)]
            if any(c[0] == "call_exc" for c in it["poll_calls_ev"]):
                fc_ = [c for c in calls if c["phase"] == "poll" and ("exc" in c or c["out"] is None or c["out"][0] == "fault")]
                evals.append(mk_eval(fc_[-1], None))
            m["poll"] = dict(ncand=it["poll_ncand"], evals=evals, hist=(imprs[len(cs)][7] if len(imprs) > len(cs) else None))
        if probe is not None:
            snap = probe[2]
            m["SI"] = snap["SI"]
            if level > 0:
                m["noisy"] = dict(u=snap["u_best"], y=snap["yval"], f=snap["fval"], s=snap["fsd"])
            pd = probe[1]
            from harness.trace import MSGS
            expect.append(dict(k=snap["k"], ks=snap["ks"], scount=snap["scount"], ssucc=snap["ssucc"], spree=snap["spree"],
                               piter=pd["poll_iteration"], fc=snap["fc"], nrows=snap["Xn"] + 1, fin=pd["is_finished"],
                               msg=MSGS.get(pd["msg"], -1), exn=False, u=snap["u_best"], y=snap["yval"], f=snap["fval"], s=snap["fsd"],
                               did_search=pd["do_search_step"], did_poll=pd["do_poll_step"]))
            last_piter = pd["poll_iteration"]
        else:
            snap = tr["final"]["snap"]
            m["SI"] = snap["SI"] if snap["SI"] is not None else 0.0
            expect.append(dict(k=None, ks=None, scount=None, ssucc=None, spree=None, piter=None, fc=snap["fc"], nrows=snap["Xn"] + 1,
                               fin=None, msg=None, exn=True, u=None, y=None, f=None, s=None, did_search=it["did_search"], did_poll=it["did_poll"]))
        if m["SI"] is None:
            m["SI"] = 0.0
        out_iters.append(m)
    P["iters"], P["expect"] = out_iters, expect
    # ---- final phase
    fin = tr["final"]
    nfs = opt_int(fin["nfs"], "noise_final_samples")
    P["nfs"] = nfs
    fcalls = [c for c in calls if c["phase"] == "final"]
    fev = dict(idx=0, f=0.0, s=0.0, obs=[], mean=0.0, sem=0.0)
    if finished and level > 0 and last_piter > 0:
        re = [e for e in tail if e[0] == "reeval"]
        if not re:
            raise TraceShape("no history re-evaluation recorded in the final phase")
        import numpy as np
        from scipy.special import erfcinv
        fv, fs = np.array(re[0][2], dtype=float), np.array(re[0][3], dtype=float)
        sm = np.sqrt(2) * erfcinv(2 * fin["final_quantile"])
        idx = int(np.argmin((fv + sm * fs)[1:])) + 1
        fev.update(idx=idx, f=float(fv[idx]), s=float(fs[idx]))
        for c in fcalls:
            flt = c["out"] is None or c["out"][0] == "fault" or "exc" in c
            fev["obs"].append((flt, 0.0 if flt else c["out"][1], None if flt else c["out"][2]))
        if "result" in tr:
            fev["mean"], fev["sem"] = tr["result"]["fval"], tr["result"]["fsd"]
    elif fcalls:
        raise TraceShape("target calls after the loop without a final phase")
    P["final_ev"] = fev
    snapf = fin["snap"]
    sampled = bool(finished and level > 0 and last_piter > 0 and nfs > 0)
    died_in_final = exc is not None and target_fault and finished
    P["final_expect"] = dict(fc=snapf["fc"], nrows=snapf["Xn"] + 1, exn=died_in_final,
                             u=None if died_in_final else snapf["u"], y=None if died_in_final else snapf["yval"],
                             f=None if died_in_final else snapf["fval"], s=None if died_in_final else snapf["fsd"],
                             yvec=(tr["result"]["yval_vec"] if ("result" in tr and sampled) else None),
                             sdvec=(tr["result"]["ysd_vec"] if ("result" in tr and sampled and tr["spec"].get("noise") == "specified") else None),
                             sampled=None if died_in_final else sampled, ncalls=len(calls), complete=(finished and (exc is None or died_in_final)))
    P["hist_final"] = tr["final"]["hist"]
    # record-time history rows (first record of each (key, iteration) during the loop)
    rows = {}
    for e in ev[idx_init + 1:]:
        if e[0] == "hist" and e[1] in ("loop", "poll", "search"):
            rows.setdefault(e[4], {}).setdefault(e[2], e[3])
    hx = []
    for it in sorted(rows):
        r = rows[it]
        if all(k in r for k in ("u", "yval", "fval", "fsd", "func_count", "mesh_size")):
            hx.append(dict(u=r["u"], y=r["yval"], f=r["fval"], s=r["fsd"], fc=int(r["func_count"]), k=log2_exact(r["mesh_size"])))
    P["hist_expect"] = hx if [*sorted(rows)] == list(range(len(hx))) else None
    P["calls_expect"] = [[c.get("u"), (None if (c["out"] is None or c["out"][0] == "fault" or "exc" in c) else c["ret"][0])] for c in calls]
    P["ncalls"] = tr["final"]["ncalls"]
    return P


# --------------------------------------------------------------------------- Coq emission

def c_eval(e):
    return (f"(mkE {cqlist(e['u'])} {cbool(e['fault'])} {cq(e['y'])} {cq(e['fmu'])} {cq(e['fs'])} {cq(e['impr'])} {cbool(e['newrow'])})")


def c_optq(v):
    return "None" if v is None else f"(Some {cq(v)})"


def c_opts(o):
    return (f"(mkO {cz(o['D'])} {cz(o['maxfe'])} {cz(o['maxiter'])} {cz(o['ntry'])} {cz(o['tolmesh'])} {cbool(o['accel'])} {cz(o['accel_steps'])} "
            f"{cz(o['stall'])} {cbool(o['skip'])} {cz(o['sme'])} {cz(o['smi'])} {cz(o['maxgrid'])} {cz(o['sgm'])} {cz(o['sgn'])} {cbool(o['locked'])} "
            f"{cq(o['tolfun'])} {cbool(o['sloppy'])} {cbool(o['det'])})")


def c_iter(m):
    se = m["search"]
    sev = "None" if se["ev"] is None else f"(Some {c_eval(se['ev'])})"
    pe = m["poll"]
    noisy = "None" if m["noisy"] is None else f"(Some (mkI {cqlist(m['noisy']['u'])} {cq(m['noisy']['y'])} {cq(m['noisy']['f'])} {cq(m['noisy']['s'])}))"
    return (f"(mkIE {cq(m['SI'])} (mkSE {sev} {cq(se['impr0'])}) (mkPE {cz(pe['ncand'])} {clist([c_eval(e) for e in pe['evals']])} {c_optq(pe['hist'])}) "
            f"{c_optq(m['stall'])} {noisy})")


def c_inputs_parts(P):
    ic = clist([f"(mkIC {c_eval(c['ev'])} {cbool(c['record'])})" for c in P["init_calls"]])
    return [cz(P['k0']), cz(P['ks0']), c_opts(P['opts']), ic, cq(P['fsd0'] if P['fsd0'] is not None and not math.isnan(P['fsd0']) else 0.0),
            clist([c_iter(m) for m in P['iters']])]


def c_inputs(P):
    return " ".join(c_inputs_parts(P))


def c_final(P):
    f = P["final_ev"]
    obs = clist([f"(({cbool(o[0])}, {cq(o[1])}), {c_optq(o[2])})" for o in f["obs"]])
    return f"{cz(P['nfs'])} (mkFE {int(f['idx'])}%nat {cq(f['f'])} {cq(f['s'])} {obs} {cq(f['mean'])} {cq(f['sem'])})"


def x_final(P):
    e = P["final_expect"]
    if not e["complete"]:
        return "XW"
    def xv(v):
        return "XW" if v is None else f"(XV {cval(v)})"
    ctrl = "(XL " + clist(["XW"] * 6 + [xv(e["fc"]), xv(e["nrows"]), "XW", "XW", xv(e["exn"])]) + ")"
    inc = "XW" if e["u"] is None else "(XL " + clist([xv(e["u"]), xv(e["y"]), xv(e["f"]), xv(e["s"] if e["s"] is not None and not math.isnan(e["s"]) else 0.0)]) + ")"
    yv = "XW" if e["yvec"] is None else xv(e["yvec"])
    sd = "XW" if e["sdvec"] is None else xv(e["sdvec"][:len(P["final_ev"]["obs"])])
    cl = "XW"
    if all(c[0] is not None for c in P["calls_expect"]):
        cl = "(XL " + clist(["(XL " + clist([xv(c[0]), xv(c[1])]) + ")" for c in P["calls_expect"]]) + ")"
    return "(XL " + clist([ctrl, inc, yv, sd, xv(e["sampled"]), cl]) + ")"


def x_state(e, wild="XW"):
    """expected xval for dump_st; None fields are wildcards (dying iteration)"""
    def xv(v):
        return wild if v is None else f"(XV {cval(v)})"
    ctrl = "(XL " + clist([xv(e["k"]), xv(e["ks"]), xv(e["scount"]), xv(e["ssucc"]), xv(e["spree"]), xv(e["piter"]), xv(e["fc"]),
                           xv(e["nrows"]), xv(e["fin"]), xv(e["msg"]), xv(e["exn"])]) + ")"
    if e["u"] is None:
        inc = wild
    else:
        inc = "(XL " + clist([xv(e["u"]), xv(e["y"]), xv(e["f"]), xv(e["s"])]) + ")"
    return "(XL " + clist([ctrl, inc, wild]) + ")"


def x_expected(P):
    s0 = P["init_snap"]
    e0 = dict(k=P["k0"], ks=P["ks0"], scount=P["opts"]["ntry"], ssucc=0, spree=0, piter=0, fc=s0["fc"], nrows=s0["Xn"] + 1,
              fin=False, msg=0, exn=False, u=s0["u_best"], y=s0["yval"], f=s0["fval"], s=(s0["fsd"] if s0["fsd"] is not None and not math.isnan(s0["fsd"]) else 0.0))
    hx = "XW"
    if P.get("hist_expect") is not None and not P["crashed"] and not P["target_fault"]:
        def xv(v):
            return f"(XV {cval(v)})"
        hx = "(XL " + clist(["(XL " + clist(["(XL " + clist([xv(h["u"]), xv(h["y"]), xv(h["f"]), xv(h["s"] if not math.isnan(h["s"]) else 0.0)]) + ")", xv(h["fc"]), xv(h["k"])]) + ")"
                             for h in P["hist_expect"]]) + ")"
    return "(XL " + clist([x_state(e0), "(XL " + clist([x_state(e) for e in P["expect"]]) + ")", hx, x_final(P)]) + ")"


def coq_case(P):
    return f"(run_dump {c_inputs(P)}, {x_expected(P)})"


REQUIRES = ["PV.Model.Val", "PV.Model.Skeleton"]
CASE_TY = "val * xval"
OK_FUN = "fun c => xval_ok (fst c) (snd c)"


# --------------------------------------------------------------------------- panel + cache

def panel(tier, seed):
    """The list of run specs.  Deterministic given (tier, seed)."""
    import random
    rng = random.Random(1000 + seed)
    specs = []
    base = [
        dict(D=1, target="abs", box="sym", noise="det", options=dict(max_fun_evals=40)),
        dict(D=2, target="sphere", box="sym", noise="det", options=dict(max_fun_evals=70)),
        dict(D=2, target="outside", box="sym", noise="det", options=dict(max_fun_evals=80)),
        dict(D=2, target="plateau", box="tight", noise="det", options=dict(max_fun_evals=60, accelerate_mesh=False)),
        dict(D=3, target="ellipsoid", box="log", noise="det", cons="ball", options=dict(max_fun_evals=90)),
        dict(D=2, target="rosen", box="unb", noise="det", options=dict(max_fun_evals=90, complete_poll=True)),
        dict(D=2, target="sphere", box="mixed", noise="det", x0="absent", options=dict(max_fun_evals=60, max_iter=3)),
        dict(D=2, target="sphere", box="sym", noise="det", cons="half", options=dict(max_fun_evals=70, tol_mesh=0.01)),
        dict(D=2, target="sphere", box="sym", noise="specified", sigma=0.3, options=dict(max_fun_evals=70, noise_final_samples=3)),
        dict(D=1, target="abs", box="sym", noise="auto", sigma=0.2, options=dict(max_fun_evals=60)),
        dict(D=2, target="sphere", box="sym", noise="declared", sigma=0.5, options=dict(max_fun_evals=80, noise_final_samples=1)),
        dict(D=2, target="outside", box="log", noise="specified", sigma=0.2, cons="band", options=dict(max_fun_evals=70, noise_final_samples=0)),
    ]
    # runs chosen for the BRANCHES of the skeleton they exercise (measured with branch_cover): pure polling (search_n_try=0)
    # gives successful polls below the cap, incremental polls (0 < improvement <= sufficient) and early-stopped polls;
    # search_size_locked=False lets the search mesh follow the poll mesh below 2^-10
    base += [
        dict(D=2, target="abs", box="sym", noise="det", options=dict(max_fun_evals=120, search_n_try=0)),
        dict(D=3, target="outside", box="sym", noise="det", options=dict(max_fun_evals=150, search_n_try=0)),
        dict(D=2, target="rosen", box="sym", noise="det", options=dict(max_fun_evals=120, search_n_try=0, complete_poll=True)),
        dict(D=1, target="abs", box="sym", noise="det", options=dict(max_fun_evals=120, search_size_locked=False, tol_mesh=1e-9, tol_stall_iters=60)),
        dict(D=2, target="sphere", box="sym", noise="declared", sigma=0.3, options=dict(max_fun_evals=100, search_n_try=0, noise_final_samples=2)),
    ]
    for i, s in enumerate(base):
        s = dict(s)
        s["seed"] = seed * 100 + i
        specs.append(s)
    if tier == "thorough":
        targets = ["sphere", "ellipsoid", "abs", "plateau", "rosen", "outside"]
        boxes = ["sym", "tight", "log", "unb", "mixed"]
        noises = ["det", "det", "det", "auto", "declared", "specified"]
        for i in range(84):
            D = rng.choice([1, 2, 2, 3, 3, 4])
            noise = rng.choice(noises)
            opts = dict(max_fun_evals=rng.choice([30, 50, 80, 120, 50 * D]))
            if rng.random() < 0.2:
                opts["max_iter"] = rng.choice([1, 2, 3, 5])
            if rng.random() < 0.2:
                opts["tol_mesh"] = rng.choice([0.1, 0.01, 1e-3])
            if rng.random() < 0.2:
                opts["complete_poll"] = True
            if rng.random() < 0.2:
                opts["accelerate_mesh"] = False
            if noise != "det":
                opts["noise_final_samples"] = rng.choice([0, 1, 3, 10])
            specs.append(dict(D=D, target=rng.choice(targets), box=rng.choice(boxes), noise=noise, sigma=rng.choice([0.05, 0.3, 1.0]),
                              cons=rng.choice([None, None, "ball", "half", "band"]), x0=rng.choice(["given", "given", "absent", "onbound"]),
                              options=opts, seed=seed * 1000 + 100 + i))
    return specs


def panel_nondefault(seed):
    """valid NON-default improvement policies / controller options (not for C04/C06, whose theorems assume the default policy)"""
    return [
        dict(D=2, target="sphere", box="sym", noise="det", options=dict(max_fun_evals=80, sloppy_improvement=False), seed=seed * 100 + 61),
        dict(D=2, target="abs", box="sym", noise="det", options=dict(max_fun_evals=100, sloppy_improvement=False, search_n_try=0), seed=seed * 100 + 62),
        dict(D=2, target="ellipsoid", box="sym", noise="det", options=dict(max_fun_evals=100, skip_poll_after_search=False), seed=seed * 100 + 63),
        dict(D=2, target="sphere", box="sym", noise="det", options=dict(max_fun_evals=100, search_n_try=1, accelerate_mesh_steps=1), seed=seed * 100 + 64),
    ]


def _run_one(args):
    spec, fault = args
    os.environ["PYBADS_VERIF"] = "1"
    import warnings
    warnings.filterwarnings("ignore")
    from harness import trace as T
    try:
        return T.run_spec(spec, fault)
    except Exception as ex:  # harness failure is reported, never swallowed
        import traceback
        return dict(spec=spec, fault=fault, harness_exc=traceback.format_exc())


def traces(specs_faults, tag):
    """Run (spec, fault) pairs in parallel with an on-disk cache keyed by the content hash of /repo's tree."""
    key = core.repo_tree_hash() + "-" + hashlib.sha1((core.VERIF / "harness" / "trace.py").read_bytes()).hexdigest()[:8]
    d = core.CACHE / key
    d.mkdir(parents=True, exist_ok=True)
    out, todo = [None] * len(specs_faults), []
    for i, sf in enumerate(specs_faults):
        h = hashlib.sha1(json.dumps(sf, sort_keys=True, default=str).encode()).hexdigest()[:16]
        f = d / f"{h}.pkl"
        if f.exists():
            try:
                out[i] = pickle.loads(f.read_bytes())
                continue
            except Exception:
                pass
        todo.append((i, sf, f))
    if todo:
        with ProcessPoolExecutor(max_workers=core.safe_workers(14)) as ex:
            for (i, sf, f), tr in zip(todo, ex.map(_run_one, [t[1] for t in todo], chunksize=1)):
                out[i] = tr
                if "harness_exc" not in tr:
                    f.write_bytes(pickle.dumps(tr))
    return out


# --------------------------------------------------------------------------- branch coverage of the model by a panel

def branch_cover(P):
    """Which branches of Model/Skeleton.v a parsed run exercises (for the evidence: generator quality bounds the tie).
    Returns a dict class -> count.  Purely descriptive; never gates."""
    from collections import Counter
    c = Counter()
    if not P or P.get("opts") is None:
        return c
    o = P["opts"]
    for m, e in zip(P["iters"], P["expect"]):
        SI = m["SI"] or 0.0
        if e["did_search"]:
            ev = m["search"]["ev"]
            if ev is None:
                c["search:empty"] += 1
            elif ev["fault"]:
                c["search:fault"] += 1
            elif ev["impr"] > SI:
                c["search:success"] += 1
            elif ev["impr"] > 0:
                c["search:incremental"] += 1
            else:
                c["search:fail"] += 1
            if ev is not None and not ev["fault"] and not ev["newrow"]:
                c["search:merged-row"] += 1
        else:
            c["search:none"] += 1
        if e["did_poll"]:
            evs = m["poll"]["evals"]
            best = max([0.0] + [x["impr"] for x in evs if not x["fault"]])
            if any(x["fault"] for x in evs):
                c["poll:fault"] += 1
            elif best > SI:
                c["poll:good"] += 1
                if e["k"] is not None and e["k"] == o["maxgrid"]:
                    c["poll:good-at-cap"] += 1
            elif best > 0:
                c["poll:incremental"] += 1
            else:
                c["poll:fail"] += 1
            if m["poll"]["hist"] is not None and best <= SI:
                c["poll:accel-tested"] += 1
                if m["poll"]["hist"] < o["tolfun"]:
                    c["poll:quartered"] += 1
            n = len(evs)
            if n < min(m["poll"]["ncand"], 2 * o["D"]):
                c["poll:stopped-early"] += 1
            if m["poll"]["ncand"] < 2 * o["D"]:
                c["poll:reduced-set"] += 1
            if any((not x["fault"]) and (not x["newrow"]) for x in evs):
                c["poll:merged-row"] += 1
        elif e["did_search"] and e["scount"] == 0 and e["spree"] and e["spree"] > 0:
            c["poll:skipped-after-search"] += 1
        else:
            c["poll:none"] += 1
        if e["fin"]:
            c["stop:msg%s" % e["msg"]] += 1
        if m.get("noisy") is not None and e["did_poll"]:
            c["noisy:iteration"] += 1
    return c
