"""The evaluation budget end to end (C03, reserve clause of C05): tie of Model/Budget.v and of translate/budget.py to the real code.

  component level   real BADS objects, real _init_optimization_ (= _init_random_seed_, _init_mesh_ with the real init_sobol /
                    force_to_grid / contraints_check, the reserve) with ONLY the GP trainer stubbed from outside
                    (pybads.bads.bads.init_and_train_gp, irrelevant for the budget, seconds per call) on generated user options;
                    observed: number of target calls, record flags, design rows before/after the filter, the options left behind
  run level         every recorded run of a panel (harness/trace.py): the same observables from the init_done event
  translator        the IR of translate/budget.py composed in Python exactly like Model/Budget.v composes its definitions, and the
                    log2 source expression evaluated by NumPy itself
  monitors          the clauses restated on the observables in plain Python (independent of model and translator)
"""
from __future__ import annotations

import logging
import math
import warnings

import numpy as np

from vlib import core
from vlib.core import cz, cbool, clist, cval

REQUIRES = ["PV.Model.Val", "PV.Model.Skeleton", "PV.Model.Budget"]
CASE_TY = "val * xval"
OK_FUN = "fun c => xval_ok (fst c) (snd c)"


# ------------------------------------------------------------------------------- real code, component level

class _FakeGP:
    def get_hyperparameters(self, as_array=True):
        return np.zeros(3)


def _stub_trainer(hyp_dict, optim_state, function_logger, iteration_history, options, plb, pub):
    return _FakeGP(), 0, 0.0, {}


def real_init(spec):
    """spec: a harness/trace.py problem spec (D, target, box, noise, cons, options, seed).  Runs the real constructor and the real
    _init_optimization_ (GP trainer stubbed).  Returns the observation dict."""
    import pybads.bads.bads as bb
    from pybads import BADS
    from harness.trace import make_problem
    warnings.filterwarnings("ignore")
    logging.disable(logging.CRITICAL)
    np.random.seed(4242)
    fun, args, cons, options = make_problem(spec)
    calls = []

    def wfun(x):
        r = fun(x)
        calls.append(float(r[0]) if isinstance(r, tuple) else float(r))
        return r
    obs = dict(spec=spec)
    try:
        b = BADS(wfun, non_box_cons=cons, options=dict(options), **args)
    except Exception as ex:
        obs["construct_exc"] = [type(ex).__name__, str(ex)[:160]]
        logging.disable(logging.NOTSET)
        return obs
    user = {k: b.options[k] for k in ("max_fun_evals", "fun_eval_start", "noise_final_samples", "tol_stall_iters", "tol_noise")}
    obs.update(D=int(b.D), user={k: (float(v) if k == "tol_noise" else _int(v)) for k, v in user.items()},
               level0=int(b.optim_state["uncertainty_handling_level"]))
    filt, flags = [], []
    saved_cc, saved_tr = bb.contraints_check, bb.init_and_train_gp
    fl = b.function_logger
    orig_call = type(fl).__call__

    def cc(U, *a, **k):
        out = saved_cc(U, *a, **k)
        filt.append((int(np.atleast_2d(U).shape[0]) if np.size(U) else 0, int(np.atleast_2d(out).shape[0]) if np.size(out) else 0))
        return out

    def fl_call(self_, x, record_duplicate_data=True):
        if self_ is fl:
            flags.append(bool(record_duplicate_data))
        return orig_call(self_, x, record_duplicate_data)
    bb.contraints_check, bb.init_and_train_gp = cc, _stub_trainer
    type(fl).__call__ = fl_call
    try:
        with np.errstate(all="ignore"):
            b._init_optimization_()
        obs["exc"] = None
    except Exception as ex:
        import traceback
        tb = traceback.extract_tb(ex.__traceback__)
        inner = [f for f in tb if "/pybads/" in f.filename]
        obs["exc"] = [type(ex).__name__, str(ex)[:120], (inner[-1].name if inner else "?")]
    finally:
        bb.contraints_check, bb.init_and_train_gp = saved_cc, saved_tr
        type(fl).__call__ = orig_call
        logging.disable(logging.NOTSET)
    obs.update(calls=len(calls), fc=int(fl.func_count), flags=flags, filt=filt, level=int(b.optim_state["uncertainty_handling_level"]),
               after={k: _int(b.options[k]) for k in ("max_fun_evals", "fun_eval_start", "noise_final_samples", "tol_stall_iters")},
               y01=calls[:2])
    return obs


def _int(v):
    v = core.to_py(v)
    if isinstance(v, float):
        if v != int(v):
            raise ValueError("option is not integer valued: %r" % v)
        return int(v)
    return int(v)


def inputs_of(obs):
    """the model's inputs (user options + the two oracles) read off an observation"""
    u = obs["user"]
    differ = False
    if obs["level0"] < 1 and len(obs["y01"]) >= 2:
        differ = abs(obs["y01"][0] - obs["y01"][1]) > u["tol_noise"]
    survive = obs["filt"][0][1] if obs["filt"] else 0
    return dict(D=obs["D"], mfe=u["max_fun_evals"], fes=u["fun_eval_start"], nfs=u["noise_final_samples"], stall=u["tol_stall_iters"],
                level0=obs["level0"], differ=bool(differ), survive=survive)


def c_binp(i):
    return (f"(mkBI {cz(i['D'])} {cz(i['mfe'])} {cz(i['fes'])} {cz(i['nfs'])} {cz(i['stall'])} {cz(i['level0'])} "
            f"{cbool(i['differ'])} {cz(i['survive'])})")


def x_expected(obs):
    """expected xval of budget_dump"""
    def xv(v):
        return f"(XV {cval(v)})"
    if obs.get("exc"):
        crash = obs["exc"][0] in ("ValueError", "OverflowError") and obs["exc"][2] == "init_sobol"
        if not crash:
            return None
        return "(XL " + clist([xv(True)] + ["XW"] * 9) + ")"
    a = obs["after"]
    rows = obs["filt"][0][0] if obs["filt"] else 0
    return "(XL " + clist([xv(False), xv(obs["user"]["max_fun_evals"] == 1), xv(obs["level"]), xv(a["fun_eval_start"]), xv(rows), xv(obs["calls"]),
                           xv(a["noise_final_samples"]), xv(a["max_fun_evals"]), xv(a["tol_stall_iters"]), xv([bool(f) for f in obs["flags"]])]) + ")"


def coq_case(obs):
    x = x_expected(obs)
    if x is None:
        return None
    return f"(budget_dump {c_binp(inputs_of(obs))}, {x})"


# ------------------------------------------------------------------------------- monitors (plain restatement, no model)

def _pow2_ceil(f):
    p = 1
    while p < f:
        p *= 2
    return p


def mon_init(obs):
    """clauses about the initial design and the reserve, on the observables of one _init_optimization_"""
    if obs.get("construct_exc") or obs.get("exc"):
        return None
    u, a = obs["user"], obs["after"]
    mfe, nfs, fes = u["max_fun_evals"], u["noise_final_samples"], u["fun_eval_start"]
    noisy = obs["level"] > 0
    n = obs["calls"]
    if obs["fc"] != n:
        return ("init-count", f"func_count {obs['fc']} != {n} target calls after the initial design")
    i = inputs_of(obs)
    want_level = 1 if (obs["level0"] < 1 and i["differ"]) else obs["level0"]
    if obs["level"] != want_level:
        return ("noise-level", f"level {obs['level']} after the noise test, expected {want_level} (declared {obs['level0']}, evaluations at x0 {'differ' if i['differ'] else 'agree'})")
    # the reserve
    if noisy:
        reserve = min(nfs, mfe - n)
        if a["noise_final_samples"] != reserve or a["max_fun_evals"] != mfe - reserve:
            return ("reserve", f"stochastic target, max_fun_evals={mfe}, noise_final_samples={nfs}, {n} initial calls: reserve {a['noise_final_samples']} / loop budget {a['max_fun_evals']}, "
                               f"expected min({nfs}, {mfe}-{n}) = {reserve} / {mfe - reserve}")
        if a["tol_stall_iters"] != 2 * u["tol_stall_iters"]:
            return ("stall", f"tol_stall_iters {a['tol_stall_iters']} is not doubled for a stochastic target")
        if n <= mfe and nfs >= 0 and not (0 <= reserve <= nfs and n <= a["max_fun_evals"] <= mfe):
            return ("reserve-sign", f"reserve {reserve} / loop budget {a['max_fun_evals']} outside [0, noise_final_samples] / [initial calls, max_fun_evals]")
    else:
        if a["noise_final_samples"] != nfs or a["max_fun_evals"] != mfe or a["tol_stall_iters"] != u["tol_stall_iters"]:
            return ("reserve", f"deterministic target: options changed to max_fun_evals={a['max_fun_evals']}, noise_final_samples={a['noise_final_samples']}, tol_stall_iters={a['tol_stall_iters']}")
    # the design
    n0 = 1 + (1 if obs["level0"] < 1 else 0)
    if obs["flags"][:n0] != [True, False][:n0] or any(f is not True for f in obs["flags"][n0:]):
        return ("init-record-flags", f"record flags of the initial calls {obs['flags'][:4]}...: expected x0 recorded, the noise test not recorded, design rows recorded")
    if obs["filt"]:
        rows, surv = obs["filt"][0]
        fes_eff = min(max(20, fes), mfe) if noisy else fes
        if a["fun_eval_start"] != fes_eff:
            return ("fun-eval-start", f"options['fun_eval_start'] = {a['fun_eval_start']} after the initial design, expected {fes_eff}")
        f = min(fes_eff, mfe - 1)
        p = _pow2_ceil(f)
        want = 2 * p if p == obs["D"] else p
        if rows != want:
            return ("design-size", f"Sobol design has {rows} rows for fun_eval_start={fes_eff}, max_fun_evals={mfe}, D={obs['D']}: expected the least power of two >= min(fun_eval_start, max_fun_evals-1) = {f}"
                                   f" (doubled when it equals D), i.e. {want}")
        if n != n0 + surv:
            return ("init-calls", f"{n} initial calls, expected {n0} + {surv} surviving design rows")
    elif n != n0:
        return ("init-calls", f"{n} initial calls without a design, expected {n0}")
    return None


# ------------------------------------------------------------------------------- translator validation

def translated_budget(defs, i):
    """compose the translated definitions (IR of translate/budget.py) exactly like Model/Budget.v [budget]; Python integers"""
    from translate import budget as T
    d = dict(defs)

    def ev(name, **env):
        return T.evaluate(d[name], env)
    lvl = i["level0"]
    test = ev("noise_test_cond", level=i["level0"])
    if test and i["differ"]:
        lvl = ev("level_set")
    flags = [ev("site_x0_record")] + ([ev("site_test_record")] if test else [])
    skipped = ev("single_eval", opt_max_fun_evals=i["mfe"])
    fes1 = i["fes"]
    if not skipped and ev("noisy_cond", level=lvl):
        fes1 = ev("fes_noisy", opt_fun_eval_start=i["fes"], opt_max_fun_evals=i["mfe"])
    design = (not skipped) and ev("design_cond", opt_fun_eval_start=fes1)
    rows = dn = 0
    if design:
        f = ev("fes_capped", opt_fun_eval_start=fes1, opt_max_fun_evals=i["mfe"])
        if f < 1:
            return dict(crash=True)
        n = ev("sobol_n0", fun_eval_start=f)
        if ev("sobol_bump_test", n_samples=n, u0_size=i["D"]):
            n = ev("sobol_bump", n_samples=n)
        rows = ev("sobol_rows", n_samples=n)
        dn = i["survive"]
        flags += [ev("site_design_record")] * dn
    ncalls = len(flags)
    nfs, mfe, stall = i["nfs"], i["mfe"], i["stall"]
    if ev("reserve_cond", level=lvl):
        env = dict(opt_max_fun_evals=i["mfe"], opt_noise_final_samples=i["nfs"], func_count=ncalls)
        nfs, mfe = ev("nfs", **env), ev("maxfe", **env)
        stall = ev("stall", opt_tol_stall_iters=i["stall"])
    return dict(crash=False, skipped=bool(skipped), level=lvl, fes=fes1, rows=rows, calls=ncalls, nfs=nfs, maxfe=mfe, stall=stall, flags=[bool(x) for x in flags])


def observed_tuple(obs):
    if obs.get("exc"):
        return dict(crash=True) if (obs["exc"][0] in ("ValueError", "OverflowError") and obs["exc"][2] == "init_sobol") else None
    a = obs["after"]
    return dict(crash=False, skipped=obs["user"]["max_fun_evals"] == 1, level=obs["level"], fes=a["fun_eval_start"],
                rows=(obs["filt"][0][0] if obs["filt"] else 0), calls=obs["calls"], nfs=a["noise_final_samples"], maxfe=a["max_fun_evals"],
                stall=a["tol_stall_iters"], flags=[bool(f) for f in obs["flags"]])


def validate_log2(text, xs):
    """the source text of n_samples (int(np.ceil(np.log2(fun_eval_start)))) evaluated by NumPy vs Z.log2_up"""
    from translate import budget as T
    bad = []
    code = compile(text, "<init_sobol>", "eval")
    for x in xs:
        try:
            with np.errstate(all="ignore"):
                v = eval(code, {"np": np, "int": int}, {"fun_eval_start": x})
        except (OverflowError, ValueError):
            v = "raises"
        want = "raises" if x < 1 else T.clog2(int(x))
        if v != want:
            bad.append((x, v, want))
    return bad


# ------------------------------------------------------------------------------- generator

def gen_specs(rng, n):
    """structured user options: budgets around the design sizes, the powers of two, the noisy threshold 20/21/33/34; every noise mode;
    constraints / tight boxes that make the filter drop design rows; + a malformed stream (budget 0, negative, fun_eval_start 0)"""
    specs = []
    edge = [1, 2, 3, 4, 5, 6, 7, 8, 9, 10, 12, 15, 16, 17, 18, 19, 20, 21, 22, 24, 31, 32, 33, 34, 35, 36, 40, 44, 45, 48, 63, 64, 65, 66, 70, 100, 129, 200]
    for k in range(n):
        D = rng.choice([1, 1, 2, 2, 2, 3, 3, 4, 4, 5, 8])
        noise = rng.choice(["det", "det", "auto", "declared", "specified"])
        r = rng.random()
        mfe = rng.choice(edge) if r < 0.75 else (rng.choice([0, -3, 1, 2]) if r < 0.8 else rng.randint(2, 300))
        o = dict(max_fun_evals=mfe)
        r = rng.random()
        if r < 0.55:
            o["fun_eval_start"] = rng.choice([0, 1, 2, 3, 4, 5, 7, 8, 9, 15, 16, 17, 20, 21, 31, 32, 33, 64, 65, max(mfe - 1, 0), max(mfe, 0), mfe + 1, 2 * D, D + 1])
        r = rng.random()
        if r < 0.6:
            o["noise_final_samples"] = rng.choice([0, 1, 2, 3, 10, 25, 60, -4])
        if rng.random() < 0.2:
            o["tol_stall_iters"] = rng.choice([1, 3, 7])
        spec = dict(D=D, target=rng.choice(["sphere", "abs"]), box=rng.choice(["sym", "sym", "tight", "unb"]), noise=noise,
                    sigma=rng.choice([0.3, 1e-9]) if noise == "auto" else 0.3,
                    cons=rng.choice([None, None, None, "ball", "half", "lattice"]), options=o, seed=rng.randint(0, 10 ** 6))
        specs.append(spec)
    return specs


# ------------------------------------------------------------------------------- component tie

def component_tie(ctx, broken, n):
    from translate import budget as T
    specs = gen_specs(ctx.rng, n)
    obs = [real_init(s) for s in specs]
    ctx.coverage["budget_component_inputs"] = "user options x noise modes x constraints: %d generated, %d constructed" % (len(obs), sum(1 for o in obs if "construct_exc" not in o))
    cases, idx, other_exc = [], [], []
    cover = dict(noisy=0, det=0, design_over_budget=0, reserve_clamped=0, reserve_negative=0, crash=0, skipped=0, filtered=0, bumped=0, no_design=0)
    for j, o in enumerate(obs):
        if "construct_exc" in o:
            continue
        c = coq_case(o)
        if c is None:
            other_exc.append((o["spec"], o["exc"]))
            continue
        cases.append(c)
        idx.append(j)
        if o.get("exc"):
            cover["crash"] += 1
            continue
        u, a = o["user"], o["after"]
        cover["noisy" if o["level"] > 0 else "det"] += 1
        cover["design_over_budget"] += o["calls"] > u["max_fun_evals"]
        cover["reserve_clamped"] += o["level"] > 0 and 0 <= a["noise_final_samples"] < u["noise_final_samples"]
        cover["reserve_negative"] += a["noise_final_samples"] < 0
        cover["skipped"] += u["max_fun_evals"] == 1
        cover["no_design"] += not o["filt"]
        cover["filtered"] += bool(o["filt"]) and o["filt"][0][1] < o["filt"][0][0]
        cover["bumped"] += bool(o["filt"]) and o["filt"][0][0] == 2 * o["D"]
    ctx.coverage["budget_component_classes"] = cover
    ok_exc = ctx.oblige("budget:init_exceptions_modelled", "correspondence", not other_exc, str(other_exc[:2]))
    if not ok_exc:
        broken.append(("budget:init_exceptions_modelled", f"_init_optimization_ raised something the model does not predict: {other_exc[:2]}"))
    okc, bad, log = core.run_cases(f"budget_{ctx.pid}_comp", REQUIRES, CASE_TY, OK_FUN, cases, shard=120)
    good = ctx.oblige("correspondence:budget:component", "correspondence", okc and not bad,
                      f"{len(bad)} of {len(cases)} real _init_optimization_ calls differ from Model/Budget.v; " + log[-300:])
    if not good:
        ex = [dict(spec=obs[idx[b]]["spec"], observed=observed_tuple(obs[idx[b]]), inputs=inputs_of(obs[idx[b]])) for b in bad[:2]]
        broken.append(("correspondence:budget:component", f"model and _init_optimization_ differ on {len(bad)} inputs, e.g. {ex} {log[-200:]}"))
    # translator validation: the IR composed in Python vs the real code
    tbad = []
    try:
        defs, info = T.parse()
        for o in obs:
            if "construct_exc" in o:
                continue
            want = observed_tuple(o)
            if want is None:
                continue
            got = translated_budget(defs, inputs_of(o))
            if got != want:
                tbad.append((o["spec"], got, want))
        xs = list(range(-3, 3000)) + [2 ** k + d for k in range(3, 49) for d in (-1, 0, 1)]     # binary64 log2 rounds 2^49+1 down to 49: the identity holds up to 2^48+1
        lbad = validate_log2(info["log2_text"], xs)
    except T.Untranslatable as ex:
        tbad, lbad = [("untranslatable", str(ex), None)], []
    okt = ctx.oblige("translator_validation:budget", "translator", not tbad and not lbad,
                     f"{len(tbad)} compositions differ from the real code {tbad[:1]}; log2 expression differs from Z.log2_up on {lbad[:3]}")
    if not okt:
        broken.append(("translator_validation:budget", f"the translated expressions do not reproduce the real code: {tbad[:1]} {lbad[:3]}"))
    # monitors
    hits = 0
    for o in obs:
        if "construct_exc" in o:
            continue
        m = mon_init(o)
        if m and not hits:
            hits += 1
            ctx.violate(m[0], m[1], dict(kind="init", spec=o["spec"], how="cd /verif && ./check %s --replay <this file>" % ctx.pid))
    ctx.count(len(cases), sum(1 for o in obs if "construct_exc" not in o and not o.get("exc") and o["filt"] and o["level"] > 0))
    if obs:
        o = next((o for o in obs if "after" in o and o["level"] > 0), None)
        if o:
            ctx.sample(dict(spec=o["spec"], user=o["user"], initial_calls=o["calls"], after=o["after"]))
    return obs


def search_init(ctx, n=1500):
    """more generated inputs through the declarative monitor only (used when something is broken)"""
    import random
    rng = random.Random(ctx.seed * 7919 + 5)
    for s in gen_specs(rng, n):
        o = real_init(s)
        if "construct_exc" in o:
            continue
        m = mon_init(o)
        if m:
            ctx.violate(m[0], m[1], dict(kind="init", spec=s, how="cd /verif && ./check %s --replay <this file>" % ctx.pid))
            return True
    return False


def replay_init(spec):
    o = real_init(spec)
    m = mon_init(o) if "construct_exc" not in o else None
    print("replay mon_init:", m or "holds on this input")
    print({k: o.get(k) for k in ("user", "level0", "level", "calls", "filt", "after", "exc")})
    return 1 if m else 0


# ------------------------------------------------------------------------------- run level

def obs_of_trace(tr):
    """the same observation dict from a recorded full run (None when the run has no complete initialisation)"""
    ev = tr.get("events", [])
    initd = [e for e in ev if e[0] == "init_done"]
    if not initd or "problem" not in tr:
        return None
    o0 = tr["options0"]
    snap, oo = initd[0][1], initd[0][2]
    ic = [c for c in tr["calls"] if c["phase"] == "init"]
    if any(c["out"] is None or c["out"][0] != "ok" or "exc" in c for c in ic):
        return None
    fe = [e for e in ev if e[0] == "filter" and e[1] == "bads" and e[2] == "init"]
    return dict(spec=tr["spec"], D=int(tr["problem"]["D"]),
                user=dict(max_fun_evals=_int(o0["max_fun_evals"]), fun_eval_start=_int(o0["fun_eval_start"]), noise_final_samples=_int(o0["noise_final_samples"]),
                          tol_stall_iters=_int(o0["tol_stall_iters"]), tol_noise=float(o0["tol_noise"])),
                level0=int(tr["problem"]["level0"]), exc=None, calls=len(ic), fc=int(snap["fc"]), flags=[bool(c.get("record", True)) for c in ic],
                filt=[(len(e[3]), len(e[8])) for e in fe], level=int(snap["level"]),
                after=dict(max_fun_evals=_int(oo["max_fun_evals"]), fun_eval_start=_int(oo["fun_eval_start"]), noise_final_samples=_int(oo["nfs"]),
                           tol_stall_iters=_int(oo["tol_stall_iters"])),
                y01=[c["out"][1] for c in ic[:2]])


def run_level_tie(ctx, broken, out, name):
    """out: [(trace, parsed)] of a skeleton panel.  Compares Model/Budget.v with what every run's initialisation left behind, and checks
    that these are the values the skeleton tie used as o_maxfe / o_det / o_stall / nfs (so the composition [whole_run] is the tied object)."""
    cases, idx, incons = [], [], []
    obs_list = []
    for j, (tr, P) in enumerate(out):
        if "harness_exc" in tr or "construct_exc" in tr:
            continue
        try:
            o = obs_of_trace(tr)
        except (KeyError, ValueError) as ex:
            incons.append((tr["spec"], "observation not extractable: %r" % (ex,)))
            continue
        if o is None:
            continue
        obs_list.append(o)
        cases.append(coq_case(o))
        idx.append(j)
        if P is not None and P.get("opts"):
            a = o["after"]
            if (P["opts"]["maxfe"], P["opts"]["stall"], P["opts"]["det"], P["opts"]["D"]) != (a["max_fun_evals"], a["tol_stall_iters"], o["level"] == 0, o["D"]) \
                    or (P.get("nfs") is not None and P["nfs"] != a["noise_final_samples"] and "exc" not in tr):
                incons.append((tr["spec"], "skeleton inputs differ from the recorded initialisation"))
    okc, bad, log = core.run_cases(f"budget_{ctx.pid}_{name}", REQUIRES, CASE_TY, OK_FUN, cases, shard=60)
    good = ctx.oblige(f"correspondence:budget:runs:{name}", "correspondence", okc and not bad and not incons,
                      f"{len(bad)} of {len(cases)} recorded initialisations differ from Model/Budget.v; inconsistent {incons[:2]}; " + log[-300:])
    ctx.coverage["budget_runs_compared"] = ctx.coverage.get("budget_runs_compared", 0) + len(cases)
    if not good:
        ex = [dict(spec=out[idx[b]][0]["spec"], observed=observed_tuple(obs_list[b]), inputs=inputs_of(obs_list[b])) for b in bad[:2]] if bad else incons[:2]
        broken.append((f"correspondence:budget:runs:{name}", f"model and the recorded initialisation differ on {len(bad)} runs, e.g. {ex} {log[-200:]}"))
        ctx.bad_traces = getattr(ctx, "bad_traces", []) + [out[idx[b]][0] for b in bad]
    for o in obs_list:
        m = mon_init(o)
        if m:
            ctx.violate(m[0], m[1], dict(kind="run", spec=o["spec"], fault=None, how="cd /verif && ./check %s --replay <this file>" % ctx.pid))
            break
    return obs_list
